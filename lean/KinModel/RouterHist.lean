/-
C09, the history dimension: a router is built once and `FindRoute` is called on it many times while callers still hold the
`*routers.Route` values of earlier calls.  The routers keep `*routers.Route` values (gorillamux: `Router.routes`, one per
(path, server); legacy: the values of the trie nodes, one per (method, path)).  `FindRoute` of gorillamux copies the stored
route (`route := *r.routes[i]`), writes Method/Operation into the copy and returns the copy; `FindRoute` of the legacy router
returns a copy with `Server` written when a server was matched (`r := *route; r.Server = server`) and the stored pointer
itself, unwritten, on server-less documents.  Both facts are rows of the table `RouterFacts`.

Model: the store of route values, a handle (= what the caller holds: a private copy or a pointer into the store), a step
(one `FindRoute`), runs over request lists.  Core-only.
-/
import KinModel.Router
namespace KinModel.Router

/-- the fields of a `routers.Route` that name the route: Path, Method (Operation goes with it), Server -/
structure RFields where
  template : Str
  method   : Str
  server   : SrvRef
  deriving DecidableEq, Repr

/-- the `*routers.Route` values a router keeps -/
abbrev Store := List RFields

/-- what `FindRoute` hands to the caller: a fresh copy no one else points to, or the pointer to the i-th stored value -/
inductive RHandle
  | copy (v : RFields)
  | stored (i : Nat)
  deriving DecidableEq, Repr

/-- what the caller reads through the handle, given the present store -/
def observe (st : Store) : RHandle → Option RFields
  | .copy v => some v
  | .stored i => st[i]?

/-- the decision of one `FindRoute`: which stored route answers, and the method / server to be named by the result
    (`none` server: nothing is written to Server) -/
structure Pick where
  idx    : Nat
  method : Option Str
  server : Option SrvRef
  deriving DecidableEq, Repr

def Pick.apply (p : Pick) (v : RFields) : RFields :=
  { v with method := p.method.getD v.method, server := p.server.getD v.server }

/-- a step of the history: new store, handle given to the caller (`none`: an error answer) -/
abbrev Step := Store → Req → Store × Option RHandle

/-- the code as it is: copy the stored value, write into the copy, leave the store alone; when nothing is to be written the
    stored pointer itself is handed out (legacy router without servers) -/
def stepCopy (find : Req → Option Pick) : Step := fun st req =>
  match find req with
  | none => (st, none)
  | some p =>
    match st[p.idx]? with
    | none => (st, none)
    | some v =>
      if p.method.isNone && p.server.isNone then (st, some (.stored p.idx))
      else (st, some (.copy (p.apply v)))

/-- the other way of writing it (seeded change C09-r3m2 and its legacy twin): write into the stored value and hand out the
    pointer -/
def stepInPlace (find : Req → Option Pick) : Step := fun st req =>
  match find req with
  | none => (st, none)
  | some p =>
    match st[p.idx]? with
    | none => (st, none)
    | some v => (st.set p.idx (p.apply v), some (.stored p.idx))

/-- a history: the store after it and the handles returned, in order -/
def runHist (step : Step) : Store → List Req → Store × List (Option RHandle)
  | st, [] => (st, [])
  | st, r :: rs =>
    let a := step st r
    let b := runHist step a.1 rs
    (b.1, a.2 :: b.2)

/-- the answer of the freshly built router -/
def freshAnswer (step : Step) (st : Store) (r : Req) : Option RFields := (step st r).2.bind (observe (step st r).1)

theorem stepCopy_store (find : Req → Option Pick) (st : Store) (r : Req) : (stepCopy find st r).1 = st := by
  unfold stepCopy
  split
  · rfl
  · split
    · rfl
    · split <;> rfl

theorem runHist_store_of_pure (step : Step) (hp : ∀ st r, (step st r).1 = st) (st : Store) (rs : List Req) :
    (runHist step st rs).1 = st := by
  induction rs generalizing st with
  | nil => rfl
  | cons r rs ih => simp only [runHist]; rw [hp st r]; exact ih st

theorem runHist_handles_of_pure (step : Step) (hp : ∀ st r, (step st r).1 = st) (st : Store) (rs : List Req) :
    (runHist step st rs).2 = rs.map (fun r => (step st r).2) := by
  induction rs generalizing st with
  | nil => rfl
  | cons r rs ih => simp only [runHist, List.map_cons]; rw [hp st r, ih st]

/-! ### gorillamux: the store and the pick behind `gFirst` -/

def gStore (rs : List GRoute) : Store := rs.map (fun r => ⟨r.template, [], r.srv.ref⟩)

/-- index of the mux route that decides (first route whose non-method matchers accept), when it declares the method -/
def gFirstIdx : List GRoute → Req → Option Nat
  | [], _ => none
  | r :: rs, req =>
    match gRouteMatch r req with
    | some _ => if req.method ∈ r.methods then some 0 else none
    | none => (gFirstIdx rs req).map (· + 1)

def gPick (rs : List GRoute) (req : Req) : Option Pick :=
  (gFirstIdx rs req).map (fun i => ⟨i, some req.method, none⟩)

theorem gFirstIdx_route (rs : List GRoute) (req : Req) (t m : Str) (ps : List (Str × Str)) (sv : SrvRef)
    (h : gFirst rs req = .route t m ps sv) :
    ∃ i r, gFirstIdx rs req = some i ∧ rs[i]? = some r ∧ r.template = t ∧ r.srv.ref = sv ∧ m = req.method := by
  induction rs with
  | nil => simp [gFirst] at h
  | cons r rs ih =>
    unfold gFirst at h
    unfold gFirstIdx
    cases hm : gRouteMatch r req with
    | some b =>
      rw [hm] at h
      simp only at h ⊢
      by_cases hmem : req.method ∈ r.methods
      · rw [if_pos hmem] at h
        rw [if_pos hmem]
        injection h with h1 h2 h3 h4
        exact ⟨0, r, rfl, rfl, h1, h4, h2.symm⟩
      · rw [if_neg hmem] at h
        cases h
    | none =>
      rw [hm] at h
      simp only at h ⊢
      obtain ⟨i, r', hi, hr, h1, h2, h3⟩ := ih h
      exact ⟨i + 1, r', by rw [hi]; rfl, by simpa using hr, h1, h2, h3⟩

theorem gFirstIdx_none (rs : List GRoute) (req : Req) (h : gFirstIdx rs req = none) :
    gFirst rs req = .notFound ∨ gFirst rs req = .methodNotAllowed := by
  induction rs with
  | nil => left; rfl
  | cons r rs ih =>
    unfold gFirstIdx at h
    unfold gFirst
    cases hm : gRouteMatch r req with
    | some b =>
      rw [hm] at h
      simp only at h ⊢
      by_cases hmem : req.method ∈ r.methods
      · rw [if_pos hmem] at h; cases h
      · rw [if_neg hmem]; right; rfl
    | none =>
      rw [hm] at h
      simp only at h ⊢
      cases hi : gFirstIdx rs req with
      | none => exact ih hi
      | some i => rw [hi] at h; cases h

/-! ### legacy router: the stored routes (one per key, Method set by NewRouter, no Server) and the pick behind `legacyFindOrd` -/

def lStore (ks : List Key) : Store := ks.map (fun k => ⟨k.template, k.method, .none⟩)

def keyIdx (k : Key) : List Key → Nat
  | [] => 0
  | x :: xs => if x = k then 0 else keyIdx k xs + 1

theorem lStore_keyIdx (ks : List Key) (k : Key) (h : k ∈ ks) :
    (lStore ks)[keyIdx k ks]? = some ⟨k.template, k.method, .none⟩ := by
  induction ks with
  | nil => cases h
  | cons x xs ih =>
    unfold keyIdx
    by_cases hx : x = k
    · subst hx; simp [lStore]
    · rw [if_neg hx]
      have : k ∈ xs := by
        cases h with
        | head => exact absurd rfl hx
        | tail _ h' => exact h'
      simpa [lStore] using ih this

/-- nothing is written to Method (NewRouter stored it); Server is written into a copy iff a server was matched -/
def lPick (d : Doc) (ks : List Key) (r : Req) : Option Pick :=
  if !legacyBuildOK d then none else
  match legacyServer d r with
  | none => none
  | some (si, _, rem) =>
    match legacyMatchOf ks r.method rem with
    | some (k, _) => some ⟨keyIdx k ks, none, si.map SrvRef.doc⟩
    | none => none

theorem legacy_step_route (d : Doc) (ks : List Key) (r : Req) (t m : Str) (ps : List (Str × Str)) (sv : SrvRef)
    (hk : ∀ rem k vals, legacyMatchOf ks r.method rem = some (k, vals) → k ∈ ks)
    (h : legacyFindOrd d ks r = .route t m ps sv) :
    ∃ hd, (stepCopy (lPick d ks) (lStore ks) r).2 = some hd ∧ observe (lStore ks) hd = some ⟨t, m, sv⟩ := by
  unfold legacyFindOrd at h
  cases hb : legacyBuildOK d with
  | false => simp [hb] at h
  | true =>
    simp only [hb, Bool.not_true, Bool.false_eq_true, if_false] at h
    cases hs : legacyServer d r with
    | none => simp [hs] at h
    | some x =>
      obtain ⟨si, sp, rem⟩ := x
      rw [hs] at h
      simp only at h
      cases hm : legacyMatchOf ks r.method rem with
      | none =>
        rw [hm] at h
        simp only at h
        split at h
        · cases h
        · split at h <;> cases h
      | some kv =>
        obtain ⟨k, vals⟩ := kv
        rw [hm] at h
        simp only at h
        injection h with h1 h2 h3 h4
        have hst := lStore_keyIdx ks k (hk rem k vals hm)
        cases si with
        | none =>
          refine ⟨.stored (keyIdx k ks), ?_, ?_⟩
          · simp [stepCopy, lPick, hb, hs, hm, hst]
          · simp only [observe, hst]
            simp only at h4
            rw [h1, h2, h4]
        | some i =>
          refine ⟨.copy ⟨t, m, sv⟩, ?_, rfl⟩
          simp only at h4
          simp [stepCopy, lPick, hb, hs, hm, hst, Pick.apply, h1, h2, h4]

end KinModel.Router
