/-
C15 — a loaded document can be shared by concurrent validations.

Model (core-only). Shared state of a loaded document, its routers and the library's package-level caches is
a store of cells. An operation (FindRoute, ValidateRequest, ValidateResponse, VisitJSON, schema generation)
is a list of atomic actions on shared cells — its *footprint* — and its verdict is a function of the values
it observed. Four kinds of action, which are exactly the kinds of access the library makes to shared state
(table `Gen.sharedWrites`, regenerated from the source on every run):

  read c          plain read of document / router / registry state
  write c v       PLAIN write, no synchronisation                                (must not occur)
  syncStore c v / syncRead c   synchronised unconditional store / read-back of a cache cell (never a data race,
                  but NOT clean: the value read back depends on who stored last — the shape `getTypeInfo` had before commit 9118e72, F-C15-2)
  cacheFill c v   fill of a cache cell through sync.Map / under a mutex / sync.Once
                  (`compiledPatterns.CompareAndSwap`, `typeInfos[t] = …` under `typeInfosMutex`)
  lazyInit c v    `if X == nil { X = v }; use X` — a plain read of X, and a PLAIN write when X is nil
                  (`sliceUniqueItemsChecker` in visitJSONArray; `router.pathNode` in the legacy router)

Executions are traces `List (thread × action)` — an arbitrary interleaving, any number of threads. A data
race is a pair of accesses of one cell by different threads, neither synchronised, at least one a plain
write. No happens-before edge between threads is assumed at all (goroutines are started without any
ordering), which makes race freedom as strong as it can be stated.
-/
namespace KinModel.Conc

/-! ## rows of the generated footprint table -/

inductive Root | global | param | call | alias | viaGlobal
  deriving DecidableEq, Repr

inductive Sync | none | mutex | syncMap | syncMapCasNil | syncMapLoad | once | nilGuardInit | nilGuardNoInit | nilGuardCtor | nilGuardField
  | mutexIfAbsent   -- under a mutex, `M[k] = v` only in the absent-branch of a lookup of M[k]: load-or-publish, FIRST writer wins
  | syncMapLoadOrStore   -- sync.Map.LoadOrStore: publishes only when absent, the first writer wins (plain `syncMap`:
                         -- Store / Swap / Delete …, unconditional, the LAST writer wins)
  | payloadEscape   -- `C[k] = e`: an `any`-typed value taken out of the shared document (default / example / enum / extension),
                    -- not copied, is stored into a caller-owned value: what the call later writes into that value is
                    -- written into the document (F-C15-1 before its repair: `value[propName] = dflt`)
  | appendSpare     -- `append(s, …)` on a slice reachable from shared state: a PLAIN WRITE into the shared backing array whenever cap s > len s
  | appendClipped   -- `append(s[:n:n], …)` / `append(slices.Clip(s), …)`: cap = len, append reallocates, nothing shared is written
  deriving DecidableEq, Repr

/-- one write to (possibly) shared state found by the translator; `via` = entry point whose parameter leads
    to the written object (root = param), `global` = package-level variable (root = global / viaGlobal) -/
inductive SharedWrite
  | write (file : String) (line : Nat) (fn target : String) (root : Root) (sync : Sync) (global via : String)
  | unrecognised (what : String)
  deriving DecidableEq, Repr

/-! ## machine -/

abbrev Cell := Nat
abbrev Val := Nat

inductive Act
  | read (c : Cell)
  | write (c : Cell) (v : Val)
  | cacheFill (c : Cell) (v : Val)
  | lazyInit (c : Cell) (v : Val)
  | syncStore (c : Cell) (v : Val)   -- synchronised UNCONDITIONAL store (`typeInfos[t] = ti` under the mutex)
  | syncRead (c : Cell)              -- synchronised read whose value the thread goes on to USE
  | cacheUse (c : Cell) (v : Val)    -- `m, ok := cache.Load(k); if !ok { m = compute(k, per-call options) }; use m`:
                                     -- observes the value it ends up USING: the cached one if any, else its own `v`
  | fillUse (c : Cell) (v : Val)     -- synchronised load-or-publish whose result the thread goes on to USE: `lock; if p, ok :=
                                     -- cache[k]; ok { x = p } else { cache[k] = x }; unlock; use x` (getTypeInfo): first writer wins
  deriving DecidableEq, Repr

abbrev State := Cell → Val

/-- a fill keeps what is there and installs `v` only into an empty (0 / nil) cell -/
def fillVal (old v : Val) : Val := if old = 0 then v else old

def stepState (σ : State) : Act → State
  | .read _ => σ
  | .write c v => fun x => if x = c then v else σ x
  | .cacheFill c v => fun x => if x = c then fillVal (σ c) v else σ x
  | .lazyInit c v => fun x => if x = c then fillVal (σ c) v else σ x
  | .syncStore c v => fun x => if x = c then v else σ x
  | .syncRead _ => σ
  | .cacheUse _ _ => σ
  | .fillUse c v => fun x => if x = c then fillVal (σ c) v else σ x

/-- what the acting thread observes (its verdict is a function of the list of these) -/
def stepObs (σ : State) : Act → Option Val
  | .read c => some (σ c)
  | .lazyInit c v => some (if σ c = 0 then v else σ c)
  | .syncRead c => some (σ c)
  | .cacheUse c v => some (fillVal (σ c) v)
  | .fillUse c v => some (fillVal (σ c) v)
  | _ => none

inductive Access | plainRead | plainWrite | sync
  deriving DecidableEq, Repr

structure Event where
  tid : Nat
  cell : Cell
  acc : Access
  deriving DecidableEq, Repr

def stepAcc (σ : State) : Act → Cell × Access
  | .read c => (c, .plainRead)
  | .write c _ => (c, .plainWrite)
  | .cacheFill c _ => (c, .sync)
  | .lazyInit c _ => (c, if σ c = 0 then .plainWrite else .plainRead)
  | .syncStore c _ => (c, .sync)
  | .syncRead c => (c, .sync)
  | .cacheUse c _ => (c, .sync)
  | .fillUse c _ => (c, .sync)

abbrev Trace := List (Nat × Act)

def finalState (σ : State) : Trace → State
  | [] => σ
  | (_, a) :: tr => finalState (stepState σ a) tr

def events (σ : State) : Trace → List Event
  | [] => []
  | (i, a) :: tr => ⟨i, (stepAcc σ a).1, (stepAcc σ a).2⟩ :: events (stepState σ a) tr

def consObs (o : Option Val) (l : List Val) : List Val :=
  match o with | some v => v :: l | none => l

/-- the observations of thread `i` in an execution of the trace -/
def readsOf (i : Nat) (σ : State) : Trace → List Val
  | [] => []
  | (j, a) :: tr => if j = i then consObs (stepObs σ a) (readsOf i (stepState σ a) tr)
                    else readsOf i (stepState σ a) tr

/-- the observations of a thread that runs alone -/
def solo (σ : State) : List Act → List Val
  | [] => []
  | a :: as => consObs (stepObs σ a) (solo (stepState σ a) as)

/-- the actions of thread `i` in a trace, in order -/
def proj (i : Nat) : Trace → List Act
  | [] => []
  | (j, a) :: tr => if j = i then a :: proj i tr else proj i tr

/-- `tr` is a complete interleaving of the threads `ts` -/
def IsSchedule (ts : Nat → List Act) (tr : Trace) : Prop := ∀ i, proj i tr = ts i

/-! ## data races -/

def conflict (e1 e2 : Event) : Bool :=
  e1.tid != e2.tid && e1.cell == e2.cell && e1.acc != .sync && e2.acc != .sync &&
  (e1.acc == .plainWrite || e2.acc == .plainWrite)

def RaceIn (evs : List Event) : Prop := ∃ e1 ∈ evs, ∃ e2 ∈ evs, conflict e1 e2 = true

def raceInB (evs : List Event) : Bool := evs.any (fun e1 => evs.any (fun e2 => conflict e1 e2))

theorem raceInB_iff (evs : List Event) : raceInB evs = true ↔ RaceIn evs := by
  simp [raceInB, RaceIn, List.any_eq_true]

/-! ## clean footprints -/

/-- which cells are caches (filled only through a synchronisation primitive) and which are lazily
    re-initialised cells -/
structure Cfg where
  cache : List Cell
  lazy : List Cell
  /-- caches whose content is USED by the threads: the one value the key of the cell determines (a type
      descriptor is a function of the type). Cells not listed are caches nobody reads back. -/
  det : List (Cell × Val) := []
  deriving Repr

/-- a fill agrees with what the cell's key determines (no constraint on cells nobody reads back) -/
def detOK (k : Cfg) (c : Cell) (v : Val) : Bool :=
  match k.det.lookup c with
  | none => true
  | some d => d == v

def cleanAct (k : Cfg) : Act → Bool
  | .read c => !k.cache.contains c
  | .write _ _ => false
  | .cacheFill c v => k.cache.contains c && detOK k c v
  -- using what a FILLED cache holds is clean when every fill of that cell stores the same value, the one its key
  -- determines: whoever publishes first, the thread uses that value
  | .fillUse c v => k.cache.contains c && k.det.lookup c == some v && v != 0
  | .lazyInit c v => k.lazy.contains c && !k.cache.contains c && detOK k c v
  | .syncStore _ _ => false   -- race-free, but last-writer-wins: a cache written this way is not transparent
  | .syncRead _ => false      -- … to a thread that uses what it reads back
  | .cacheUse c _ => !k.cache.contains c   -- using a cache is clean exactly when nothing fills it (then the thread
                                           -- uses its own value, computed with its own per-call options)

/-- "a cache whose content is used is not filled" -/
def useOK (k : Cfg) : Act → Bool
  | .cacheUse c _ => !k.cache.contains c
  | .fillUse c v => k.det.lookup c == some v
  | _ => true

def isUse : Act → Bool
  | .cacheUse _ _ => true
  | _ => false

def CleanTrace (k : Cfg) (tr : Trace) : Prop := ∀ x ∈ tr, cleanAct k x.2 = true

def cleanTraceB (k : Cfg) (tr : Trace) : Bool := tr.all (fun x => cleanAct k x.2)

theorem cleanTraceB_iff (k : Cfg) (tr : Trace) : cleanTraceB k tr = true ↔ CleanTrace k tr := by
  simp [cleanTraceB, CleanTrace, List.all_eq_true]

/-- every lazily initialised cell holds a value (the declaration's initialiser / the constructor set it) -/
def LazyInit (k : Cfg) (σ : State) : Prop := ∀ c ∈ k.lazy, σ c ≠ 0

/-- a used cache holds nothing or the value its key determines -/
def Coherent (k : Cfg) (σ : State) : Prop := ∀ c d, k.det.lookup c = some d → σ c = 0 ∨ σ c = d

/-- states that agree outside the cache cells -/
def AgreeOff (k : Cfg) (σ τ : State) : Prop := ∀ c, c ∉ k.cache → σ c = τ c

/-! ## helper lemmas -/

theorem fillVal_ne (old v : Val) (h : old ≠ 0) : fillVal old v = old := by simp [fillVal, h]

theorem lazyInit_clean (k : Cfg) (c : Cell) (v : Val) (hc : cleanAct k (.lazyInit c v) = true) :
    c ∈ k.lazy ∧ c ∉ k.cache ∧ detOK k c v = true := by
  simp only [cleanAct, Bool.and_eq_true, Bool.not_eq_true', List.contains_iff_mem] at hc
  refine ⟨by simpa using hc.1.1, ?_, hc.2⟩
  intro h
  have : k.cache.contains c = true := by simpa using h
  rw [this] at hc; exact absurd hc.1.2 (by simp)

theorem fill_other (σ : State) (c x : Cell) (v : Val) (h : σ x ≠ 0) :
    (if x = c then fillVal (σ c) v else σ x) ≠ 0 := by
  by_cases hx : x = c
  · subst hx; simpa [fillVal_ne _ v h] using h
  · simpa [hx] using h

theorem lazy_step (k : Cfg) (σ : State) (a : Act) (hc : cleanAct k a = true) (hl : LazyInit k σ) :
    LazyInit k (stepState σ a) := by
  intro c hcl
  have h0 := hl c hcl
  cases a with
  | read c' => simpa [stepState] using h0
  | write c' v => simp [cleanAct] at hc
  | syncStore c' v => simp [cleanAct] at hc
  | syncRead c' => simp [cleanAct] at hc
  | cacheUse c' v => simpa [stepState] using h0
  | cacheFill c' v => exact fill_other σ c' c v h0
  | fillUse c' v => exact fill_other σ c' c v h0
  | lazyInit c' v => exact fill_other σ c' c v h0

theorem acc_not_write (k : Cfg) (σ : State) (a : Act) (hc : cleanAct k a = true) (hl : LazyInit k σ) :
    (stepAcc σ a).2 ≠ .plainWrite := by
  cases a with
  | read c => simp [stepAcc]
  | write c v => simp [cleanAct] at hc
  | syncStore c v => simp [cleanAct] at hc
  | syncRead c => simp [cleanAct] at hc
  | cacheUse c v => simp [stepAcc]
  | cacheFill c v => simp [stepAcc]
  | fillUse c v => simp [stepAcc]
  | lazyInit c v =>
    have := hl c (lazyInit_clean k c v hc).1
    simp [stepAcc, this]

theorem events_no_write (k : Cfg) : ∀ (tr : Trace) (σ : State), CleanTrace k tr → LazyInit k σ →
    ∀ e ∈ events σ tr, e.acc ≠ .plainWrite
  | [], _, _, _ => by simp [events]
  | (i, a) :: tr, σ, hc, hl => by
    intro e he
    have hca : cleanAct k a = true := hc (i, a) (by simp)
    simp only [events, List.mem_cons] at he
    rcases he with rfl | he
    · exact acc_not_write k σ a hca hl
    · exact events_no_write k tr (stepState σ a) (fun x hx => hc x (by simp [hx])) (lazy_step k σ a hca hl) e he

/-- a fill with the value the key determines keeps a used cache coherent -/
theorem coherent_fill (k : Cfg) (σ : State) (c : Cell) (v : Val) (hv : detOK k c v = true) (hco : Coherent k σ) :
    Coherent k (fun x => if x = c then fillVal (σ c) v else σ x) := by
  intro x d hd
  have h0 := hco x d hd
  by_cases hx : x = c
  · subst hx
    simp only [if_true]
    simp only [detOK, hd, beq_iff_eq] at hv
    subst hv
    by_cases hz : σ x = 0
    · right; simp [fillVal, hz]
    · right; rw [fillVal_ne _ _ hz]
      rcases h0 with h | h
      · exact absurd h hz
      · exact h
  · simpa [hx] using h0

/-- a clean action keeps used caches coherent -/
theorem coherent_step (k : Cfg) (σ : State) (a : Act) (hc : cleanAct k a = true) (hco : Coherent k σ) :
    Coherent k (stepState σ a) := by
  cases a with
  | read c => simpa [stepState] using hco
  | write c v => simp [cleanAct] at hc
  | syncStore c v => simp [cleanAct] at hc
  | syncRead c => simp [cleanAct] at hc
  | cacheUse c v => simpa [stepState] using hco
  | cacheFill c v =>
    simp only [cleanAct, Bool.and_eq_true] at hc
    exact coherent_fill k σ c v hc.2 hco
  | fillUse c v =>
    simp only [cleanAct, Bool.and_eq_true, beq_iff_eq] at hc
    exact coherent_fill k σ c v (by simp [detOK, hc.1.2]) hco
  | lazyInit c v => exact coherent_fill k σ c v (lazyInit_clean k c v hc).2.2 hco

/-- what a clean `fillUse` observes in a coherent state: the value the key determines -/
theorem fillUse_obs (k : Cfg) (σ : State) (c : Cell) (v : Val) (hc : cleanAct k (.fillUse c v) = true)
    (hco : Coherent k σ) : fillVal (σ c) v = v := by
  simp only [cleanAct, Bool.and_eq_true, beq_iff_eq] at hc
  rcases hco c v hc.1.2 with h | h
  · simp [fillVal, h]
  · by_cases hz : σ c = 0
    · simp [fillVal, hz]
    · rw [fillVal_ne _ _ hz]; exact h

theorem agree_step (k : Cfg) (σ τ : State) (a : Act) (hag : AgreeOff k σ τ) (hc : cleanAct k a = true)
    (hcs : Coherent k σ) (hct : Coherent k τ) :
    AgreeOff k (stepState σ a) (stepState τ a) ∧ stepObs σ a = stepObs τ a := by
  have fillAg : ∀ c v, c ∈ k.cache → AgreeOff k (fun x => if x = c then fillVal (σ c) v else σ x)
      (fun x => if x = c then fillVal (τ c) v else τ x) := by
    intro c v hcm x hx
    have : x ≠ c := fun e => hx (e ▸ hcm)
    simp [this, hag x hx]
  cases a with
  | read c =>
    have hcn : c ∉ k.cache := by simpa [cleanAct] using hc
    exact ⟨by simpa [stepState] using hag, by simp [stepObs, hag c hcn]⟩
  | write c v => simp [cleanAct] at hc
  | syncStore c v => simp [cleanAct] at hc
  | syncRead c => simp [cleanAct] at hc
  | cacheUse c v =>
    have hcn : c ∉ k.cache := by simpa [cleanAct] using hc
    exact ⟨by simpa [stepState] using hag, by simp [stepObs, hag c hcn]⟩
  | cacheFill c v =>
    have hcm : c ∈ k.cache := by
      simp only [cleanAct, Bool.and_eq_true, List.contains_iff_mem] at hc; simpa using hc.1
    exact ⟨fillAg c v hcm, by simp [stepObs]⟩
  | fillUse c v =>
    have hcm : c ∈ k.cache := by
      simp only [cleanAct, Bool.and_eq_true, List.contains_iff_mem] at hc; simpa using hc.1.1
    refine ⟨fillAg c v hcm, ?_⟩
    simp only [stepObs]
    rw [fillUse_obs k σ c v hc hcs, fillUse_obs k τ c v hc hct]
  | lazyInit c v =>
    have hcn := (lazyInit_clean k c v hc).2.1
    have hcc := hag c hcn
    refine ⟨?_, by simp [stepObs, hcc]⟩
    intro x hx
    simp [stepState, hcc, hag x hx]

theorem agree_other (k : Cfg) (σ τ : State) (a : Act) (hag : AgreeOff k σ τ) (hc : cleanAct k a = true)
    (hl : LazyInit k σ) : AgreeOff k (stepState σ a) τ := by
  have fillAg : ∀ c v, c ∈ k.cache → AgreeOff k (fun x => if x = c then fillVal (σ c) v else σ x) τ := by
    intro c v hcm x hx
    have : x ≠ c := fun e => hx (e ▸ hcm)
    simp [this, hag x hx]
  cases a with
  | read c => simpa [stepState] using hag
  | write c v => simp [cleanAct] at hc
  | syncStore c v => simp [cleanAct] at hc
  | syncRead c => simp [cleanAct] at hc
  | cacheUse c v => simpa [stepState] using hag
  | cacheFill c v =>
    have hcm : c ∈ k.cache := by
      simp only [cleanAct, Bool.and_eq_true, List.contains_iff_mem] at hc; simpa using hc.1
    exact fillAg c v hcm
  | fillUse c v =>
    have hcm : c ∈ k.cache := by
      simp only [cleanAct, Bool.and_eq_true, List.contains_iff_mem] at hc; simpa using hc.1.1
    exact fillAg c v hcm
  | lazyInit c v =>
    have h0 := hl c (lazyInit_clean k c v hc).1
    intro x hx
    simp only [stepState]
    by_cases hxc : x = c
    · subst hxc; simp only [if_true]; rw [fillVal_ne _ v h0]; exact hag x hx
    · simp [hxc, hag x hx]

theorem agree_refl (k : Cfg) (σ : State) : AgreeOff k σ σ := fun _ _ => rfl

theorem final_agree (k : Cfg) : ∀ (tr : Trace) (σ τ : State), CleanTrace k tr → LazyInit k σ → AgreeOff k σ τ →
    AgreeOff k (finalState σ tr) τ
  | [], _, _, _, _, hag => by simpa [finalState] using hag
  | (i, a) :: tr, σ, τ, hc, hl, hag => by
    have hca : cleanAct k a = true := hc (i, a) (by simp)
    simp only [finalState]
    exact final_agree k tr (stepState σ a) τ (fun x hx => hc x (by simp [hx])) (lazy_step k σ a hca hl)
      (agree_other k σ τ a hag hca hl)

/-! ## lazy initialisation as load-or-publish (values only) -/

/-- a nil-guarded lazy initialisation seen as what it does to values: load-or-publish of `v` -/
def syncOf : Act → Act
  | .lazyInit c v => .fillUse c v
  | a => a

theorem syncOf_state (σ : State) (a : Act) : stepState σ (syncOf a) = stepState σ a := by
  cases a <;> rfl

theorem syncOf_obs (σ : State) (a : Act) : stepObs σ (syncOf a) = stepObs σ a := by
  cases a with
  | lazyInit c v => simp [syncOf, stepObs, fillVal]
  | _ => rfl

def mapTrace (tr : Trace) : Trace := tr.map (fun x => (x.1, syncOf x.2))

theorem readsOf_map (i : Nat) : ∀ (tr : Trace) (σ : State), readsOf i σ (mapTrace tr) = readsOf i σ tr
  | [], _ => rfl
  | (j, a) :: tr, σ => by
    simp only [mapTrace, List.map_cons, readsOf, syncOf_state, syncOf_obs]
    have ih := readsOf_map i tr (stepState σ a)
    simp only [mapTrace] at ih
    rw [ih]

theorem solo_map : ∀ (as : List Act) (σ : State), solo σ (as.map syncOf) = solo σ as
  | [], _ => rfl
  | a :: as, σ => by simp only [List.map_cons, solo, syncOf_state, syncOf_obs, solo_map as]

theorem proj_map (i : Nat) : ∀ tr : Trace, proj i (mapTrace tr) = (proj i tr).map syncOf
  | [] => rfl
  | (j, a) :: tr => by
    have ih := proj_map i tr
    simp only [mapTrace] at ih
    by_cases h : j = i <;> simp [mapTrace, proj, h, ih]

/-! ## frames: what a thread never looks at does not matter -/

/-- the cell an action touches -/
def actCell : Act → Cell
  | .read c | .write c _ | .cacheFill c _ | .lazyInit c _ | .syncStore c _ | .syncRead c | .cacheUse c _ | .fillUse c _ => c

/-- states that agree on the cells of a frame -/
def AgreeOn (F : List Cell) (σ τ : State) : Prop := ∀ c ∈ F, σ c = τ c

theorem step_agreeOn (F : List Cell) (σ τ : State) (a : Act) (h : AgreeOn F σ τ) :
    AgreeOn F (stepState σ a) (stepState τ a) := by
  intro c hc
  have hcc := h c hc
  cases a <;> simp only [stepState] <;> first
    | exact hcc
    | (rename_i c' v; by_cases hx : c = c'
       · subst hx; simp [hcc]
       · simp [hx, hcc])

theorem obs_agreeOn (F : List Cell) (σ τ : State) (a : Act) (h : AgreeOn F σ τ) (ha : actCell a ∈ F) :
    stepObs σ a = stepObs τ a := by
  cases a <;> simp only [stepObs, actCell] at * <;> simp [h _ ha]

theorem step_outside (F : List Cell) (σ τ : State) (a : Act) (h : AgreeOn F σ τ) (ha : actCell a ∉ F) :
    AgreeOn F (stepState σ a) τ := by
  intro c hc
  have hne : c ≠ actCell a := fun e => ha (e ▸ hc)
  have hcc := h c hc
  cases a <;> simp only [stepState, actCell] at * <;> simp [hne, hcc]

/-- what thread `i` may rely on: its own actions stay inside the frame `F`; every OTHER thread's action is either
    kept (`keep`) or touches no cell of the frame — whatever it is, a plain racy write included -/
def junk (F : List Cell) (i : Nat) (x : Nat × Act) : Bool := x.1 != i && !F.contains (actCell x.2)

theorem readsOf_drop_junk (F : List Cell) (i : Nat) : ∀ (tr : Trace) (σ τ : State), AgreeOn F σ τ →
    (∀ x ∈ tr, x.1 = i → actCell x.2 ∈ F) →
    readsOf i σ tr = readsOf i τ (tr.filter (fun x => !junk F i x))
  | [], _, _, _, _ => rfl
  | (j, a) :: tr, σ, τ, hag, hmine => by
    have hrest : ∀ x ∈ tr, x.1 = i → actCell x.2 ∈ F := fun x hx => hmine x (by simp [hx])
    by_cases hj : junk F i (j, a) = true
    · -- dropped: another thread's action outside the frame
      have hne : ¬ j = i := by
        simp only [junk, Bool.and_eq_true, bne_iff_ne, ne_eq] at hj; exact hj.1
      have hout : actCell a ∉ F := by
        simp only [junk, Bool.and_eq_true] at hj
        have h2 := hj.2
        simpa using h2
      have hj' : junk F i (j, a) = true := by simp [junk, hne, hout]
      simp only [List.filter_cons, hj', Bool.not_true, readsOf, hne, if_false]
      exact readsOf_drop_junk F i tr (stepState σ a) τ (step_outside F σ τ a hag hout) hrest
    · have hj' : junk F i (j, a) = false := by simpa using hj
      simp only [List.filter_cons, hj', Bool.not_false, if_true, readsOf]
      have hag' := step_agreeOn F σ τ a hag
      by_cases hji : j = i
      · have hin : actCell a ∈ F := hmine (j, a) (by simp) hji
        simp only [hji, if_true]
        rw [obs_agreeOn F σ τ a hag hin, readsOf_drop_junk F i tr _ _ hag' hrest]
      · simp only [hji, if_false]
        exact readsOf_drop_junk F i tr _ _ hag' hrest

theorem proj_drop_junk (F : List Cell) (i : Nat) : ∀ tr : Trace, proj i (tr.filter (fun x => !junk F i x)) = proj i tr
  | [] => rfl
  | (j, a) :: tr => by
    have ih := proj_drop_junk F i tr
    by_cases hj : junk F i (j, a) = true
    · have hne : ¬ j = i := by
        simp only [junk, Bool.and_eq_true, bne_iff_ne, ne_eq] at hj; exact hj.1
      simp [hj, proj, hne, ih]
    · have hj' : junk F i (j, a) = false := by simpa using hj
      by_cases hji : j = i
      · subst hji; simp [hj', proj, ih]
      · simp [hj', proj, hji, ih]

/-! ## reading the generated table -/

inductive RowClass | cache | cacheLoad | inertCas | lazyDecl | lazyCtor | outParam | plain | unread | appendSpare | appendClipped
  | cacheFirstWins | lastWriterWins | payloadEscape
  deriving DecidableEq, Repr

/-- entry points whose reference parameters are caller-owned, per-call output (`schemas` of
    `NewSchemaRefForValue`: the map the caller hands in to receive component schemas) -/
def outParamEntries : List String := ["openapi3gen.NewSchemaRefForValue"]

def rowClass : SharedWrite → RowClass
  | .unrecognised _ => .unread
  | .write _ _ _ _ root sync _ via =>
    match sync with
    | .once => .cache
    | .syncMapLoadOrStore => .cacheFirstWins
    | .syncMap => .lastWriterWins         -- `Store` into a process-wide sync.Map: what a later `Load` returns depends on who
                                          -- stored last (the seeded `compiledPatterns.Store(pattern, cp)`)
    | .mutexIfAbsent => .cacheFirstWins   -- load-or-publish: every caller goes on with the first published value
    | .mutex => .lastWriterWins           -- unconditional store under a lock: no data race, but what a reader gets back
                                          -- depends on who stored last (F-C15-2 before its repair)
    | .syncMapLoad => .cacheLoad     -- the caller USES what a process-wide cache holds
    | .syncMapCasNil => .inertCas    -- `CompareAndSwap(k, nil, v)`: stores nothing for an absent key
    | .nilGuardInit => .lazyDecl
    | .nilGuardCtor => .lazyCtor
    | .payloadEscape => .payloadEscape
    | .appendSpare => .appendSpare   -- aliasing through spare capacity: see `appendActs`
    | .appendClipped => .appendClipped
    | _ => if root = .param && outParamEntries.contains via then .outParam else .plain

/-- the obligation on one row: synchronised, or a nil-guarded re-initialisation of something that is
    initialised (by its declaration / by the constructor), or per-call output; an `append` to a shared slice
    only when the slice is clipped to its length -/
def rowOK (w : SharedWrite) : Bool :=
  rowClass w != .plain && rowClass w != .unread && rowClass w != .appendSpare && rowClass w != .lastWriterWins &&
  rowClass w != .payloadEscape

def rowGlobal : SharedWrite → Option String
  | .write _ _ _ _ root _ g _ => if root = .global || root = .viaGlobal then some g else none
  | .unrecognised _ => none

def firstIdxFrom (g : String) : Nat → List SharedWrite → Option Nat
  | _, [] => none
  | k, w :: ws => if rowGlobal w = some g then some k else firstIdxFrom g (k + 1) ws

/-- the cell a row is about: all rows on one package-level variable share a cell (the number of the first of
    them); any other row has its own -/
def rowCell (t : List SharedWrite) (k : Nat) (w : SharedWrite) : Cell :=
  match rowGlobal w with
  | some g => (firstIdxFrom g 0 t).getD k
  | none => k

/-- the footprint the table denotes -/
def tableActsFrom (t : List SharedWrite) : Nat → List SharedWrite → List Act
  | _, [] => []
  | k, w :: ws =>
    (match rowClass w with
     | .cache => [Act.cacheFill (rowCell t k w) 1]
     | .cacheFirstWins => [Act.fillUse (rowCell t k w) 1]
     | .lastWriterWins => [Act.syncStore (rowCell t k w) 1, Act.syncRead (rowCell t k w)]
     | .cacheLoad => [Act.cacheUse (rowCell t k w) 1]
     | .inertCas => []
     | .lazyDecl | .lazyCtor => [Act.lazyInit (rowCell t k w) 1]
     | .outParam => []
     | .appendClipped => []
     -- the appended element is stored in the shared backing array and then read back through the new slice
     | .appendSpare => [Act.write (rowCell t k w) 1, Act.read (rowCell t k w)]
     | _ => [Act.write (rowCell t k w) 1]) ++ tableActsFrom t (k + 1) ws

def tableCacheFrom (t : List SharedWrite) : Nat → List SharedWrite → List Cell
  | _, [] => []
  | k, w :: ws => (if rowClass w = .cache ∨ rowClass w = .cacheFirstWins then [rowCell t k w] else []) ++ tableCacheFrom t (k + 1) ws

/-- read-back caches: the value the key determines (abstractly 1) -/
def tableDetFrom (t : List SharedWrite) : Nat → List SharedWrite → List (Cell × Val)
  | _, [] => []
  | k, w :: ws => (if rowClass w = .cacheFirstWins then [(rowCell t k w, 1)] else []) ++ tableDetFrom t (k + 1) ws

def tableLazyFrom (t : List SharedWrite) : Nat → List SharedWrite → List Cell
  | _, [] => []
  | k, w :: ws =>
    (if rowClass w = .lazyDecl ∨ rowClass w = .lazyCtor then [rowCell t k w] else []) ++ tableLazyFrom t (k + 1) ws

def tableActs (t : List SharedWrite) : List Act := tableActsFrom t 0 t
def tableCfg (t : List SharedWrite) : Cfg :=
  { cache := tableCacheFrom t 0 t, lazy := tableLazyFrom t 0 t, det := tableDetFrom t 0 t }

/-- (global variable, class) of a row — what the concrete footprints of `ConcCase` must account for -/
def rowKey (w : SharedWrite) : String × RowClass :=
  match w with
  | .unrecognised _ => ("?", .unread)
  | .write _ _ fn _ root _ g _ => (if root = .global || root = .viaGlobal then g else fn, rowClass w)

/-- the rows the concrete operation footprints (`ConcCase.opActs`) account for -/
def modelledRows : List (String × RowClass) :=
  [ ("compiledPatterns", .cacheLoad),        -- patCell: cacheUse (the matcher found in the cache is USED) …
    ("compiledPatterns", .inertCas),         -- … and nothing ever fills it (`CompareAndSwap(pattern, nil, cp)`)
    ("typeInfos", .cacheFirstWins),                   -- typeCell: fillUse (first publisher wins; the value is a function of the key alone: `Cfg.det`)
    ("sliceUniqueItemsChecker", .lazyDecl),  -- uniqCell: lazyInit on an initialised cell
    ("routers/legacy.(*Router).node", .lazyCtor),  -- part of routerCell: NewRouter creates the node
    ("openapi3gen.(*Generator).NewSchemaRefForValue", .outParam) ]  -- caller-owned output map

/-- a struct type whose writes the translator sets aside as per-call state (`schemaValidationSettings`: multi-error
    flag, `trial` depth of oneOf/anyOf candidates, the defaults-set once; `SchemaError`, …) -/
structure PerCallRow where
  name : String
  declared : Bool          -- the type exists in package openapi3
  inDocument : Bool        -- reachable through the fields of a document struct: then it would be SHARED
  inGlobal : Bool          -- reachable from the type of a package-level variable (a process-wide cache of such objects)
  writes : Nat             -- writes to its fields in functions reachable from the concurrent entry points
  allocReachable : Bool    -- allocated (composite literal / new) in a reachable function: created inside the call
  allocSites : List String
  deriving DecidableEq, Repr

/-- Types that DO end up in a package-level variable and are nevertheless written by reachable code: the writes
    happen before the object is published. `theTypeInfo`: getTypeInfo fills `Fields` of the descriptor it has just
    allocated, then publishes it under `typeInfosMutex` (first wins); nothing writes a descriptor found in the cache
    (the translator is flow-insensitive and cannot tell the two apart — hence this explicit, checked exemption). -/
def publishedAfterInit : List String := ["openapi3gen.theTypeInfo"]

def perCallOK (r : PerCallRow) : Bool :=
  r.declared && !r.inDocument && (!r.inGlobal || r.writes == 0 || publishedAfterInit.contains r.name) &&
  (r.writes == 0 || r.allocReachable)

def rowFn : SharedWrite → String
  | .write _ _ fn _ _ _ _ _ => fn
  | .unrecognised _ => ""

/-! ## package-level variables the concurrent code reads (table `Gen.sharedGlobals`) -/

inductive GKind | read | write | addr
  deriving DecidableEq, Repr

/-- one access of a package-level variable: in which function, of which kind, under which mutex ("" none,
    "syncMap" a method of the sync.Map itself, "once" inside Once.Do), and whether the function is reachable from
    the concurrent entry points -/
structure GAccess where
  fn : String
  kind : GKind
  guard : String
  reachable : Bool
  deriving DecidableEq, Repr

structure GlobalRow where
  pkg : String
  name : String
  kind : String
  selfSync : Bool           -- the variable IS a synchronisation object (sync.Map, mutex, once, atomic)
  accesses : List GAccess   -- every access outside `init` functions, in all functions of the library
  deriving DecidableEq, Repr

structure SyncObject where
  name : String
  kind : String
  protects : List String    -- the package-level variables accessed while it is held
  deriving DecidableEq, Repr

/-- The functions that change the library's process-wide registries. The property's quantifier is over
    FindRoute / ValidateRequest / ValidateResponse / VisitJSON / schema generation: these are NOT among the
    concurrent calls (openapi3filter documents the body-decoder registry as not thread-safe for registration).
    A writer of a plainly read registry that is not listed here breaks `globals_consistent`. -/
def registrationAPIs : List String :=
  [ "openapi3.DefineStringFormatValidator", "openapi3.DefineNumberFormatValidator",
    "openapi3.DefineIntegerFormatValidator", "openapi3.RegisterArrayUniqueItemsChecker",
    "openapi3filter.RegisterBodyDecoder", "openapi3filter.UnregisterBodyDecoder" ]

/-- all accesses under one and the same mutex -/
def oneGuard (r : GlobalRow) : Bool :=
  match r.accesses with
  | [] => false
  | a :: as => a.guard != "" && a.guard != "once" && as.all (fun b => b.guard == a.guard)

/-- never written anywhere (the address may be handed out: `&minInt8` stored in a generated schema) -/
def neverWritten (r : GlobalRow) : Bool := r.accesses.all (fun a => a.kind != .write)

/-- plain reads next to a registration API: the reachable code only reads (or re-initialises under a nil guard, a
    row of `Gen.sharedWrites` named in `lazy`), and every other writer is a registration function -/
def registryOK (lazy : List String) (r : GlobalRow) : Bool :=
  r.accesses.all (fun a =>
    if a.reachable then a.kind == .read || (a.kind == .write && lazy.contains r.name)
    else a.kind == .read || registrationAPIs.contains a.fn)

inductive GClass | selfSync | mutexGuarded | immutable | registry | bad
  deriving DecidableEq, Repr

def globalClass (lazy : List String) (r : GlobalRow) : GClass :=
  if r.selfSync then .selfSync else if oneGuard r then .mutexGuarded else if neverWritten r then .immutable
  else if registryOK lazy r then .registry else .bad

/-- package-level variables whose reachable write is a nil-guarded re-initialisation of an initialised variable -/
def lazyGlobals (t : List SharedWrite) : List String :=
  t.filterMap (fun w => match w with
    | .write _ _ _ _ root sync g _ =>
      if (root = .global) && sync = .nilGuardInit then some g else none
    | _ => none)

end KinModel.Conc
