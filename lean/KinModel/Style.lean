/-
Model of the styled-parameter decoders of openapi3filter (req_resp_decoder.go) and of
openapi3filter.ValidateParameter (validate_request.go), plus the specification side of property C05
(the OpenAPI style table as an *encoder*, strict primitive texts, a declarative `Sat`).

Modelled branch by branch (Go names in the comments of each definition):
  parsePrimitive / parsePrimitiveCase (strconv.ParseInt base 10 incl. sign and the range
  check; strconv.ParseBool's literal set; the decimal grammar of strconv.ParseFloat), parseArray,
  cutPrefix, strings.Split, propsFromString, makeObject/buildResObj for flat objects (properties and
  additionalProperties schema), the four location decoders (pathParamDecoder, urlValuesDecoder,
  headerParamDecoder, cookieParamDecoder) × {primitive, array, object}, deepObject one level deep
  (primitive and array-valued properties), decodeValue's allOf / anyOf / oneOf loops (typed-nil maps are an
  explicit value `nilObj`), ValidateParameter's presence / emptiness / schema decision.
Abstracted (trusted, tied by the differential run): float64 rounding of number texts (the model keeps the
  exact decimal mantissa/exponent), `_` digit separators in number texts, "inf"/"nan"/hex floats (never generated),
  net/url, net/http cookie and header plumbing, Go map iteration order (results are compared as maps).
Everything is `List Char`; all recursion is structural, so `decide`/`rfl` evaluate concrete witnesses.
-/
namespace KinModel.Style

abbrev Str := List Char

/-! ## strings.Split, strings.Join -/

def consHead (c : Char) : List Str → List Str
  | [] => [[c]]
  | h :: t => (c :: h) :: t

/-- `strings.Split(s, d)` for a non-empty separator `d` (leftmost, non-overlapping matches); the `Nat` is the
number of characters of an already matched separator that are still to be skipped. -/
def splitS (d : Str) : Str → Nat → List Str
  | [], _ => [[]]
  | _ :: cs, skip + 1 => splitS d cs skip
  | c :: cs, 0 =>
    if d.isPrefixOf (c :: cs) then [] :: splitS d cs (d.length - 1)
    else consHead c (splitS d cs 0)

def splitOn (d s : Str) : List Str := splitS d s 0

def joinL (d : Str) : List Str → Str
  | [] => []
  | [x] => x
  | x :: y :: r => x ++ d ++ joinL d (y :: r)

/-! ## decimal and based integers -/

def digitChar (d : Nat) : Char := Char.ofNat (48 + d)

def showNatAux : Nat → Nat → Str → Str
  | 0, _, acc => acc
  | fuel + 1, n, acc =>
    if n < 10 then digitChar n :: acc
    else showNatAux fuel (n / 10) (digitChar (n % 10) :: acc)

/-- strconv.FormatInt for n ≥ 0 -/
def showNat (n : Nat) : Str := showNatAux (n + 1) n []

/-- strconv.FormatInt -/
def showInt : Int → Str
  | .ofNat n => showNat n
  | .negSucc n => '-' :: showNat (n + 1)

def digitVal (c : Char) : Option Nat :=
  if 48 ≤ c.toNat ∧ c.toNat ≤ 57 then some (c.toNat - 48) else none

def isDigit (c : Char) : Bool := (digitVal c).isSome

def readNatAux : Str → Nat → Option Nat
  | [], acc => some acc
  | c :: cs, acc => match digitVal c with
    | none => none
    | some d => readNatAux cs (acc * 10 + d)

/-- a non-empty string of decimal digits -/
def readNat : Str → Option Nat
  | [] => none
  | cs => readNatAux cs 0

/-- digit value as in strconv.ParseUint: 0-9, a-z / A-Z = 10..35 -/
def digitValB (c : Char) : Option Nat :=
  let n := c.toNat
  if 48 ≤ n ∧ n ≤ 57 then some (n - 48)
  else if 97 ≤ n ∧ n ≤ 122 then some (n - 97 + 10)
  else if 65 ≤ n ∧ n ≤ 90 then some (n - 65 + 10)
  else none

def readBase (base : Nat) : Str → Nat → Option Nat
  | [], acc => some acc
  | c :: cs, acc => match digitValB c with
    | none => none
    | some d => if d < base then readBase base cs (acc * base + d) else none

def lowerEq (c : Char) (l : Char) : Bool := c = l || c.toNat + 32 = l.toNat

/-- strconv.ParseUint(s, 10, _) without the range check (the caller checks the range): every byte must have a
digit value below ten — letters have the values 10..35, `_` is only a separator for base 0, so both are syntax errors -/
def parseUint10 : Str → Option Nat
  | [] => none
  | s => readBase 10 s 0

/-- strconv.ParseInt(s, 10, bits): optional sign, ParseUint, range check -/
def parseInt10 (bits : Nat) (s : Str) : Option Int :=
  match s with
  | [] => none
  | '+' :: r => match parseUint10 r with
    | none => none
    | some n => if n < 2 ^ (bits - 1) then some (Int.ofNat n) else none
  | '-' :: r => match parseUint10 r with
    | none => none
    | some n => if n ≤ 2 ^ (bits - 1) then some (- Int.ofNat n) else none
  | r => match parseUint10 r with
    | none => none
    | some n => if n < 2 ^ (bits - 1) then some (Int.ofNat n) else none

/-- the specification's integer text: optional sign and decimal digits, read in base ten -/
def readDecInt (bits : Nat) (s : Str) : Option Int :=
  match s with
  | '+' :: r => match readNat r with
    | none => none
    | some n => if n < 2 ^ (bits - 1) then some (Int.ofNat n) else none
  | '-' :: r => match readNat r with
    | none => none
    | some n => if n ≤ 2 ^ (bits - 1) then some (- Int.ofNat n) else none
  | r => match readNat r with
    | none => none
    | some n => if n < 2 ^ (bits - 1) then some (Int.ofNat n) else none

def spanDigits : Str → Str × Str
  | [] => ([], [])
  | c :: cs => if isDigit c then let (a, b) := spanDigits cs; (c :: a, b) else ([], c :: cs)

def natOfDigits (s : Str) : Nat := (readNatAux s 0).getD 0

/-- exponent part of a decimal float: "" → 0; "e[+-]digits" -/
def parseExp : Str → Option Int
  | [] => some 0
  | c :: r =>
    if lowerEq c 'e' then
      match r with
      | '+' :: ds => (readNat ds).map Int.ofNat
      | '-' :: ds => (readNat ds).map (fun n => - Int.ofNat n)
      | ds => (readNat ds).map Int.ofNat
    else none

/-- unsigned decimal float text: digits [. digits] [exponent] with at least one digit; result (mantissa, exp10) -/
def parseUDec (s : Str) : Option (Nat × Int) :=
  let (ip, r1) := spanDigits s
  match r1 with
  | '.' :: r2 =>
    let (fp, r3) := spanDigits r2
    if ip.isEmpty && fp.isEmpty then none
    else (parseExp r3).map (fun e => (natOfDigits (ip ++ fp), e - Int.ofNat fp.length))
  | _ =>
    if ip.isEmpty then none
    else (parseExp r1).map (fun e => (natOfDigits ip, e))

def parseDecRaw (s : Str) : Option (Int × Int) :=
  match s with
  | '+' :: r => (parseUDec r).map (fun (m, e) => (Int.ofNat m, e))
  | '-' :: r => (parseUDec r).map (fun (m, e) => (- Int.ofNat m, e))
  | r => (parseUDec r).map (fun (m, e) => (Int.ofNat m, e))

/-- |m|·10^e ≥ 2^1024 − 2^970: the text rounds to ±Inf, strconv.ParseFloat reports ErrRange -/
def decOverflows (m e : Int) : Bool :=
  let thr : Nat := 2 ^ 1024 - 2 ^ 970
  if m = 0 then false
  else if e < 200 && m.natAbs < 10 ^ 100 then false      -- far below the threshold (keeps small cases cheap to evaluate)
  else if e > 400 then true
  else if e < -400 then false
  else match e with
    | .ofNat k => decide (thr ≤ m.natAbs * 10 ^ k)
    | .negSucc k => decide (thr * 10 ^ (k + 1) ≤ m.natAbs)

/-- strconv.ParseFloat(s, 64) on the decimal grammar: value = mantissa · 10^exp (exact); out-of-range → error -/
def parseDec (s : Str) : Option (Int × Int) :=
  match parseDecRaw s with
  | none => none
  | some (m, e) => if decOverflows m e then none else some (m, e)

/-- strconv.ParseBool -/
def parseBoolText (s : Str) : Option Bool :=
  if s = "1".toList ∨ s = "t".toList ∨ s = "T".toList ∨ s = "TRUE".toList ∨ s = "true".toList ∨ s = "True".toList then some true
  else if s = "0".toList ∨ s = "f".toList ∨ s = "F".toList ∨ s = "FALSE".toList ∨ s = "false".toList ∨ s = "False".toList then some false
  else none

/-! ## primitive types and values -/

/-- primitive schema type; `int32` = `type: integer, format: int32` -/
inductive PT | integer | int32 | number | boolean | string
  deriving DecidableEq, Repr

/-- decoded primitive (the Go dynamic type is part of the value: int64 / int32 / float64 / bool / string) -/
inductive PV
  | int (i : Int) | int32 (i : Int) | num (m e : Int) | bool (b : Bool) | str (s : Str)
  deriving DecidableEq, Repr

/-- result of parsePrimitive: `nil` = (nil, nil) for the empty string -/
inductive PR | nil | val (v : PV) | err
  deriving DecidableEq, Repr

def optPR : Option PV → PR
  | none => .err
  | some v => .val v

/-- parsePrimitive / parsePrimitiveCase (one declared type) -/
def parsePrim (t : PT) (s : Str) : PR :=
  if s = [] then .nil else
  match t with
  | .integer => optPR ((parseInt10 64 s).map PV.int)
  | .int32 => optPR ((parseInt10 32 s).map PV.int32)
  | .number => optPR ((parseDec s).map (fun (m, e) => PV.num m e))
  | .boolean => optPR ((parseBoolText s).map PV.bool)
  | .string => .val (.str s)

/-- the specification's reading of a primitive text: decimal integers; the rest as the library documents it -/
def specPrim (t : PT) (s : Str) : PR :=
  if s = [] then .nil else
  match t with
  | .integer => optPR ((readDecInt 64 s).map PV.int)
  | .int32 => optPR ((readDecInt 32 s).map PV.int32)
  | .number => optPR ((parseDec s).map (fun (m, e) => PV.num m e))
  | .boolean => optPR ((parseBoolText s).map PV.bool)
  | .string => .val (.str s)

/-- canonical text of a primitive (numbers: "<mantissa>e<exp>", or the plain integer when exp = 0) -/
def showPV : PV → Str
  | .int i => showInt i
  | .int32 i => showInt i
  | .num m e => if e = 0 then showInt m else showInt m ++ 'e' :: showInt e
  | .bool true => "true".toList
  | .bool false => "false".toList
  | .str s => s

/-! ## schemas and values -/

/-- an `enum` entry (JSON scalar; JSON numbers are float64 in Go) -/
inductive EV | num (m e : Int) | bool (b : Bool) | str (s : Str)
  deriving DecidableEq, Repr

structure PS where
  t : PT
  min : Option Int := none
  max : Option Int := none
  enum : List EV := []
  deriving DecidableEq, Repr

/-- schema of one deepObject property -/
inductive DS | prim (p : PS) | arr (items : PS) | obj (props : List (Str × PS)) (required : List Str)
  deriving DecidableEq, Repr

inductive Leaf
  | prim (p : PS)
  | arr (items : PS) (minItems maxItems : Option Nat) (enum : List (List EV))
  | obj (props : List (Str × PS)) (required : List Str) (addl : Option PS)
  | deep (props : List (Str × DS)) (required : List Str)
  /-- a schema without `type` and without composition (`{}`, `{enum: […]}`, `{description: …}`) -/
  | untyped (enum : List EV)
  deriving DecidableEq, Repr

inductive Sch
  | leaf (l : Leaf) | allOf (ls : List Leaf) | anyOf (ls : List Leaf) | oneOf (ls : List Leaf)
  deriving DecidableEq, Repr

/-- value of one deepObject property -/
inductive DV | p (v : PV) | a (xs : List (Option PV)) | o (kvs : List (Str × PV))
  deriving DecidableEq, Repr

/-- decoded value. `nilObj` is Go's typed-nil `map[string]any` inside an interface: not `== nil` for
decodeValue's composition loops, but nil for `isNilValue`. -/
inductive Val
  | nil | nilObj | prim (v : PV) | arr (xs : List PV) | obj (kvs : List (Str × PV)) | dobj (kvs : List (Str × DV))
  deriving DecidableEq, Repr

def Val.isNil : Val → Bool | .nil => true | _ => false
/-- `isNilValue` of ValidateParameter -/
def Val.isNilValue : Val → Bool | .nil => true | .nilObj => true | _ => false

inductive DErr | parse | badMethod | other
  deriving DecidableEq, Repr

structure Out where
  val : Val
  found : Bool
  err : Option DErr
  deriving DecidableEq, Repr

inductive Loc | path | query | header | cookie
  deriving DecidableEq, Repr
inductive Sty | simple | label | matrix | form | spaceDelimited | pipeDelimited | deepObject
  deriving DecidableEq, Repr

structure Cell where
  loc : Loc
  style : Sty
  explode : Bool
  deriving DecidableEq, Repr

/-- what the request carries for the parameter `name` (query: the whole multimap, distinct keys) -/
structure Req where
  path : Option Str := none
  query : List (Str × List Str) := []
  header : Option (List Str) := none
  cookie : Option Str := none
  /-- PathParams holds other parameters (decodeStyledParameter's `len(input.PathParams) == 0` exit is not taken) -/
  pathOthers : Bool := false
  deriving DecidableEq, Repr

/-! ## shared decoder pieces -/

/-- cutPrefix -/
def cutPrefix (raw pre : Str) : Option Str :=
  if pre.isPrefixOf raw then some (raw.drop pre.length) else none

inductive AR | nil | vals (vs : List PV) | err
  deriving DecidableEq, Repr

def arCons (v : PV) : AR → AR
  | .vals vs => .vals (v :: vs)
  | r => r

/-- parseArray: first failing item → error; first empty item → the whole array is nil -/
def parseArr (prim : PT → Str → PR) (t : PT) : List Str → AR
  | [] => .vals []
  | s :: rest => match prim t s with
    | .err => .err
    | .nil => .nil
    | .val v => arCons v (parseArr prim t rest)

/-- decodeValue's array wrapper: `len(res) == 0` → untyped nil -/
def arrOut (found : Bool) : AR → Out
  | .err => ⟨.nil, found, some .parse⟩
  | .nil => ⟨.nil, found, none⟩
  | .vals [] => ⟨.nil, found, none⟩
  | .vals vs => ⟨.arr vs, found, none⟩

def primOut (found : Bool) : PR → Out
  | .err => ⟨.nil, found, some .parse⟩
  | .nil => ⟨.nil, found, none⟩
  | .val v => ⟨.prim v, found, none⟩

def pairUp : List Str → Option (List (Str × Str))
  | [] => some []
  | [_] => none
  | k :: v :: rest => (pairUp rest).map ((k, v) :: ·)

def kvOf (vd : Str) (p : Str) : Option (Str × Str) :=
  match splitOn vd p with
  | [k, v] => some (k, v)
  | _ => none

def mapKV (vd : Str) : List Str → Option (List (Str × Str))
  | [] => some []
  | p :: rest => match kvOf vd p with
    | none => none
    | some kv => (mapKV vd rest).map (kv :: ·)

/-- propsFromString (`none` = ParseError); the list is in assignment order, a later pair overrides an earlier one -/
def propsFromString (src pd vd : Str) : Option (List (Str × Str)) :=
  if pd = vd then pairUp (splitOn pd src) else mapKV vd (splitOn pd src)

/-- Go map read after the assignments of `propsFromString` -/
def lookupLast (k : Str) : List (Str × Str) → Option Str
  | [] => none
  | (k', v) :: rest => match lookupLast k rest with
    | some x => some x
    | none => if k' = k then some v else none

def hasKey {β : Type} (k : Str) (l : List (Str × β)) : Bool := l.any (fun kv => kv.1 = k)

def dedup : List Str → List Str
  | [] => []
  | k :: ks => if ks.contains k then dedup ks else k :: dedup ks

/-- buildResObj over `schema.Properties` for primitive property schemas -/
def buildProps (prim : PT → Str → PR) (props : List (Str × Str)) : List (Str × PS) → Option (List (Str × PV))
  | [] => some []
  | (k, ps) :: rest =>
    match lookupLast k props with
    | none => buildProps prim props rest
    | some s => match prim ps.t s with
      | .err => none
      | .nil => buildProps prim props rest
      | .val v => (buildProps prim props rest).map ((k, v) :: ·)

/-- buildResObj's additionalProperties loop (over the keys present in the request) -/
def buildAddl (prim : PT → Str → PR) (props : List (Str × Str)) (a : PS) : List Str → Option (List (Str × PV))
  | [] => some []
  | k :: rest =>
    match lookupLast k props with
    | none => buildAddl prim props a rest
    | some s =>
      if k = [] then none else     -- key "" addresses the parameter map itself: "path is not convertible to primitive"
      match prim a.t s with
      | .err => none
      | .nil => buildAddl prim props a rest
      | .val v => (buildAddl prim props a rest).map ((k, v) :: ·)

/-- makeObject for a flat object schema: declared properties first, then buildResObj's additionalProperties loop
over the request keys that are NOT declared (`if _, declared := schema.Value.Properties[k]; declared { continue }`,
commit 997bea5). The two key sets are disjoint, so the Go map `resultMap` is the concatenation. -/
def makeObject (prim : PT → Str → PR) (props : List (Str × Str)) (sprops : List (Str × PS)) (addl : Option PS) :
    Option (List (Str × PV)) :=
  match buildProps prim props sprops with
  | none => none
  | some base =>
    match addl with
    | none => some base
    | some a =>
      match buildAddl prim props a ((dedup (props.map Prod.fst)).filter (fun k => !hasKey k sprops)) with
      | none => none
      | some extra => some (base ++ extra)

/-- object result of the path/header/cookie decoders (`val, ok, err` with a typed-nil map on error) -/
def objOut (prim : PT → Str → PR) (found : Bool) (src pd vd : Str) (sprops : List (Str × PS)) (addl : Option PS) : Out :=
  match propsFromString src pd vd with
  | none => ⟨.nilObj, found, some .parse⟩
  | some props =>
    match makeObject prim props sprops addl with
    | none => ⟨.nilObj, found, some .parse⟩
    | some kvs => ⟨.obj kvs, found, none⟩

/-! ## pathParamDecoder -/

def semi (name : Str) : Str := ';' :: name ++ ['=']

def pathPrimPrefix (name : Str) : Sty → Option Str
  | .simple => some []
  | .label => some ['.']
  | .matrix => some (semi name)
  | _ => none

/-- (prefix, delimiter) of pathParamDecoder.DecodeArray -/
def pathArrFmt (name : Str) (st : Sty) (ex : Bool) : Option (Str × Str) :=
  match st, ex with
  | .simple, _ => some ([], [','])
  | .label, false => some (['.'], [','])
  | .label, true => some (['.'], ['.'])
  | .matrix, false => some (semi name, [','])
  | .matrix, true => some (semi name, semi name)
  | _, _ => none

/-- (prefix, propsDelim, valueDelim) of pathParamDecoder.DecodeObject -/
def pathObjFmt (name : Str) (st : Sty) (ex : Bool) : Option (Str × Str × Str) :=
  match st, ex with
  | .simple, false => some ([], [','], [','])
  | .simple, true => some ([], [','], ['='])
  | .label, false => some (['.'], [','], [','])
  | .label, true => some (['.'], ['.'], ['='])
  | .matrix, false => some (semi name, [','], [','])
  | .matrix, true => some ([';'], [';'], ['='])
  | _, _ => none

def badMethod : Out := ⟨.nil, false, some .badMethod⟩
def badMethodObj : Out := ⟨.nilObj, false, some .badMethod⟩
def absent : Out := ⟨.nil, false, none⟩
def absentObj : Out := ⟨.nilObj, false, none⟩

/-- the raw path value; the empty string counts as absent -/
def pathRaw (r : Req) : Option Str :=
  match r.path with
  | none => none
  | some [] => none
  | some s => some s

def pathPrim (prim : PT → Str → PR) (name : Str) (st : Sty) (r : Req) (t : PT) : Out :=
  match pathPrimPrefix name st with
  | none => badMethod
  | some pre =>
    match pathRaw r with
    | none => absent
    | some raw =>
      match cutPrefix raw pre with
      | none => ⟨.nil, true, some .parse⟩
      | some src => primOut true (prim t src)

def pathArr (prim : PT → Str → PR) (name : Str) (st : Sty) (ex : Bool) (r : Req) (t : PT) : Out :=
  match pathArrFmt name st ex with
  | none => badMethod
  | some (pre, delim) =>
    match pathRaw r with
    | none => absent
    | some raw =>
      match cutPrefix raw pre with
      | none => ⟨.nil, true, some .parse⟩
      | some src => arrOut true (parseArr prim t (splitOn delim src))

def pathObj (prim : PT → Str → PR) (name : Str) (st : Sty) (ex : Bool) (r : Req)
    (sprops : List (Str × PS)) (addl : Option PS) : Out :=
  match pathObjFmt name st ex with
  | none => badMethodObj
  | some (pre, pd, vd) =>
    match pathRaw r with
    | none => absentObj
    | some raw =>
      match cutPrefix raw pre with
      | none => ⟨.nilObj, true, some .parse⟩
      | some src => objOut prim true src pd vd sprops addl

/-! ## urlValuesDecoder -/

def qLookup (name : Str) : List (Str × List Str) → Option (List Str)
  | [] => none
  | (k, vs) :: rest => if k = name then some vs else qLookup name rest

def queryPrim (prim : PT → Str → PR) (name : Str) (st : Sty) (r : Req) (t : PT) : Out :=
  if st ≠ .form then badMethod else
  match qLookup name r.query with
  | none => absent
  | some [] => ⟨.nil, true, none⟩
  | some (v :: _) => primOut true (prim t v)

def queryDelim : Sty → Str
  | .form => [',']
  | .spaceDelimited => [' ']
  | .pipeDelimited => ['|']
  | _ => []

def queryArr (prim : PT → Str → PR) (name : Str) (st : Sty) (ex : Bool) (r : Req) (t : PT) : Out :=
  if st = .deepObject then badMethod else
  match qLookup name r.query with
  | none => absent
  | some [] => ⟨.nil, true, none⟩
  | some (v :: vs) =>
    if ex then arrOut true (parseArr prim t (v :: vs))
    else arrOut true (parseArr prim t (splitOn (queryDelim st) v))

/-- first value of every query key (form, explode: every query parameter is a candidate property) -/
def firstVals : List (Str × List Str) → List (Str × Str)
  | [] => []
  | (k, v :: _) :: rest => (k, v) :: firstVals rest
  | (_, []) :: rest => firstVals rest

/-- `found` of urlValuesDecoder.DecodeObject: an object that declares no properties (a free-form map) is present once a
property was decoded for it (`found := len(Properties) == 0 && len(val) > 0`, commit aa57be9); otherwise some request key
names a declared property or resolves in the result (the loop over the declared properties) -/
def queryObjFound {β γ : Type} (sprops : List (Str × β)) (props : List (Str × Str)) (val : List (Str × γ)) : Bool :=
  (sprops.isEmpty && !val.isEmpty) ||
  (!sprops.isEmpty && props.any (fun kv => hasKey kv.1 sprops || hasKey kv.1 val))

def queryObj (prim : PT → Str → PR) (name : Str) (st : Sty) (ex : Bool) (r : Req)
    (sprops : List (Str × PS)) (addl : Option PS) : Out :=
  if st ≠ .form then badMethodObj else
  let propsO : Option (Option (List (Str × Str))) :=   -- none = error, some none = no props
    if ex then some (some (firstVals r.query))
    else match qLookup name r.query with
      | none => some none
      | some [] => some none
      | some (v :: _) => match propsFromString v [','] [','] with
        | none => none
        | some ps => some (some ps)
  match propsO with
  | none => ⟨.nilObj, false, some .parse⟩
  | some none => absentObj
  | some (some props) =>
    match makeObject prim props sprops addl with
    | none => ⟨.nilObj, false, some .parse⟩
    | some kvs =>
      -- commit 404949f: exploded form, no additionalProperties schema, nothing found: the other query parameters are
      -- not properties of this object, the parameter is absent (typed-nil map)
      if !queryObjFound sprops props kvs && ex && addl.isNone then absentObj
      else ⟨.obj kvs, queryObjFound sprops props kvs, none⟩

/-! ### deepObject, one level: `name[prop]=v` and `name[prop][i]=v` -/

/-- the bracketed segments of a key `name[a][b]…` (regexp `\[(.*?)\]` after the check `^name\[`) -/
def takeTo (stop : Char) : Str → Option (Str × Str)
  | [] => none
  | c :: cs => if c = stop then some ([], cs) else (takeTo stop cs).map (fun (a, b) => (c :: a, b))

/-- all non-overlapping `[...]` groups, scanning left to right (fuel = length) -/
def bracketSegs : Nat → Str → List Str
  | 0, _ => []
  | _ + 1, [] => []
  | f + 1, c :: cs =>
    if c = '[' then
      match takeTo ']' cs with
      | none => []
      | some (seg, rest) => seg :: bracketSegs f rest
    else bracketSegs f cs

def deepKey (name : Str) (k : Str) : Option (List Str) :=
  if (name ++ ['[']).isPrefixOf k then
    match bracketSegs k.length k with
    | [] => none
    | segs => some segs
  else none

/-- the text of the bracket groups `[s1][s2]…` -/
def brackets : List Str → Str
  | [] => []
  | s :: rest => '[' :: s ++ ']' :: brackets rest

/-- a query key that the deepObject branch takes for `name` (prefix `name[`, at least one group) is *well formed* when it
is exactly `name[s1]…[sn]`: the code rebuilds `param + groups` and skips a key that differs (`rebuilt != key → continue`,
commit f73e4f9; before, `p[a]zz`, `p[a][`, `p[a]x[b]` were read as `p[a]`, `p[a]`, `p[a][b]` and collided with the real
key in a Go map whose iteration order decided, former finding F-C05-7). Keys that do not belong to the parameter at all
count as well formed (nothing to object to). -/
def wellFormedKey (name k : Str) : Bool :=
  match deepKey name k with
  | some segs => k == name ++ brackets segs
  | none => true

/-- props of the deepObject branch: (segments, values) per matching key -/
def deepProps (name : Str) : List (Str × List Str) → List (List Str × List Str)
  | [] => []
  | (k, vs) :: rest => match deepKey name k with
    | none => deepProps name rest
    | some segs => (segs, vs) :: deepProps name rest

def natIndex (s : Str) : Option Nat := if s = showNat ((readNat s).getD 0) then readNat s else none

/-- entries `[prop]` → values -/
def deepScalar (prop : Str) : List (List Str × List Str) → Option (List Str)
  | [] => none
  | (segs, vs) :: rest => if segs = [prop] then some vs else deepScalar prop rest

/-- entries `[prop][seg]…` → (remaining segments, values) -/
def deepUnder (prop : Str) : List (List Str × List Str) → List (List Str × List Str)
  | [] => []
  | (segs, vs) :: rest =>
    match segs with
    | p :: i :: more => if p = prop then (i :: more, vs) :: deepUnder prop rest else deepUnder prop rest
    | _ => deepUnder prop rest

def maxIdx : List Nat → Nat
  | [] => 0
  | n :: ns => Nat.max n (maxIdx ns)

def idxLookup (i : Nat) : List (Nat × Str) → Option Str
  | [] => none
  | (j, v) :: rest => if i = j then some v else idxLookup i rest

/-- items 0..max of an array property: none = ParseError; holes (`nil`) where no index / an empty text is given -/
def deepItems (prim : PT → Str → PR) (t : PT) (ents : List (Nat × Str)) : Nat → Nat → Option (List (Option PV))
  | 0, _ => some []
  | n + 1, i =>
    match idxLookup i ents with
    | none => (deepItems prim t ents n (i + 1)).map (none :: ·)
    | some s => match prim t s with
      | .err => none
      | .nil => (deepItems prim t ents n (i + 1)).map (none :: ·)
      | .val v => (deepItems prim t ents n (i + 1)).map (some v :: ·)

/-- `[i]` entries with canonical decimal indexes and one value each; anything deeper or multi-valued → none -/
def allIdx : List (List Str × List Str) → Option (List (Nat × Str))
  | [] => some []
  | (segs, vs) :: rest =>
    match segs, vs with
    | [i], [v] => match natIndex i with
      | some n => (allIdx rest).map ((n, v) :: ·)
      | none => none
    | _, _ => none

/-- buildResObj over the declared properties of a nested object `name[k][…]` (`ents`: the entries under `k`):
a declared primitive property addressed any deeper is "not convertible to primitive"; undeclared keys are ignored -/
def buildSub (prim : PT → Str → PR) (ents : List (List Str × List Str)) : List (Str × PS) → Option (List (Str × PV))
  | [] => some []
  | (k, ps) :: rest =>
    if !(deepUnder k ents).isEmpty then none
    else match deepScalar k ents with
      | some [s] => match prim ps.t s with
        | .err => none
        | .nil => buildSub prim ents rest
        | .val v => (buildSub prim ents rest).map ((k, v) :: ·)
      | some _ => none
      | none => buildSub prim ents rest

/-- bound on the null elements sliceMapToSlice adds for indexes that are not given -/
def maxArrayIndexGap : Nat := 1024

/-- buildResObj for one declared property of a deepObject: none = ParseError, some none = not set -/
def deepProp (prim : PT → Str → PR) (props : List (List Str × List Str)) (k : Str) : DS → Option (Option DV)
  | .prim ps =>
    if !(deepUnder k props).isEmpty then none        -- "path is not convertible to primitive"
    else match deepScalar k props with
      | some [s] => match prim ps.t s with
        | .err => none
        | .nil => some none
        | .val v => some (some (.p v))
      | some _ => none
      | none => some none
  | .arr items =>
    if (deepScalar k props).isSome then none         -- "array items must be set with indexes"
    else match deepUnder k props with
      | [] => some none
      | ents => match allIdx ents with
        | none => none
        | some ie =>
          -- sliceMapToSlice: "array index %d is too far beyond the %d elements given" (commit ab8c63f)
          if maxIdx (ie.map Prod.fst) ≥ ie.length + maxArrayIndexGap then none
          else (deepItems prim items.t ie (maxIdx (ie.map Prod.fst) + 1) 0).map (fun xs => some (.a xs))
  | .obj sub _ =>
    match deepScalar k props with
    | some [s] => some (some (.p (.str s)))          -- not a map: "return it either way and leave validation up to ValidateParameter"
    | some _ => none
    | none => match deepUnder k props with
      | [] => some none
      | ents => (buildSub prim ents sub).map (fun kvs => some (.o kvs))

def buildDeep (prim : PT → Str → PR) (props : List (List Str × List Str)) : List (Str × DS) → Option (List (Str × DV))
  | [] => some []
  | (k, ds) :: rest =>
    match deepProp prim props k ds with
    | none => none
    | some none => buildDeep prim props rest
    | some (some v) => (buildDeep prim props rest).map ((k, v) :: ·)

/-- strict prefix on segment lists -/
def segPrefix : List Str → List Str → Bool
  | [], _ :: _ => true
  | a :: as, b :: bs => a = b && segPrefix as bs
  | _, _ => false

/-- makeObject's own errors: a key with several values; a path used both as a value and as an object (deepSet) -/
def deepClash (props : List (List Str × List Str)) : Bool :=
  props.any (fun kv => kv.2.length ≠ 1) ||
  props.any (fun a => props.any (fun b => segPrefix a.1 b.1))

def distinctSegs : List (List Str × List Str) → Bool
  | [] => true
  | kv :: rest => !rest.any (fun x => x.1 = kv.1) && distinctSegs rest

/-- The model covers deepObject requests with at most three bracket segments per key, canonical decimal
array indexes and pairwise different segment lists (`deepSupported`); other shapes are not generated. -/
def deepSupportedKey (sprops : List (Str × DS)) : List Str × List Str → Bool
  | ([_], _) => true
  | (p :: i :: rest, _) => rest.length ≤ 1 && (match sprops.lookup p with
    | some (.arr _) => (natIndex i).isSome
    | _ => true)
  | _ => false

def deepSupported (name : Str) (r : Req) (sprops : List (Str × DS)) : Bool :=
  (deepProps name r.query).all (deepSupportedKey sprops) && distinctSegs (deepProps name r.query)

/-- deepGet(val, segs…) succeeds -/
def dvGet (val : List (Str × DV)) : List Str → Bool
  | [] => false
  | p :: rest => match val.lookup p with
    | none => false
    | some (.o kvs) => (match rest with
      | [] => true
      | k :: _ => hasKey k kvs)
    | some _ => true

/-- `found`: some declared property, and some key that names a declared property or resolves in the result -/
def deepFound (sprops : List (Str × DS)) (props : List (List Str × List Str)) (val : List (Str × DV)) : Bool :=
  (sprops.isEmpty && !val.isEmpty) ||
  (!sprops.isEmpty && props.any (fun kv => (match kv.1 with
    | [p] => hasKey p sprops
    | _ => false) || dvGet val kv.1))

def queryDeep (prim : PT → Str → PR) (name : Str) (r : Req) (sprops : List (Str × DS)) : Out :=
  match deepProps name r.query with
  | [] => absentObj
  | props =>
    if deepClash props then ⟨.nilObj, false, some .parse⟩ else
    match buildDeep prim props sprops with
    | none => ⟨.nilObj, false, some .parse⟩
    | some kvs => ⟨.dobj kvs, deepFound sprops props kvs, none⟩

def dvPrims : List (Str × DV) → List (Str × PV)
  | [] => []
  | (k, .p v) :: rest => (k, v) :: dvPrims rest
  | (_, .a _) :: rest => dvPrims rest
  | (_, .o _) :: rest => dvPrims rest

/-- a flat object schema under style deepObject, no additionalProperties schema -/
def queryDeepFlat (prim : PT → Str → PR) (name : Str) (r : Req) (sprops : List (Str × PS)) : Out :=
  let o := queryDeep prim name r (sprops.map (fun kv => (kv.1, DS.prim kv.2)))
  match o.val with
  | .dobj kvs => ⟨.obj (dvPrims kvs), o.found, o.err⟩
  | _ => o

/-- first bracket segment of every key: the keys of makeObject's top-level map `mobj` -/
def topKeys : List (List Str × List Str) → List Str
  | [] => []
  | ([], _) :: rest => topKeys rest
  | (k :: _, _) :: rest => k :: topKeys rest

/-- buildResObj's additionalProperties loop under deepObject (primitive additionalProperties schema): an undeclared
top-level key must carry a single text; a key that goes deeper (`name[k][x]`) is "not convertible to primitive",
the key "" addresses the parameter map itself -/
def deepAddl (prim : PT → Str → PR) (props : List (List Str × List Str)) (a : PS) : List Str → Option (List (Str × PV))
  | [] => some []
  | k :: rest =>
    if k = [] then none
    else if !(deepUnder k props).isEmpty then none
    else match deepScalar k props with
      | some [s] => match prim a.t s with
        | .err => none
        | .nil => deepAddl prim props a rest
        | .val v => (deepAddl prim props a rest).map ((k, v) :: ·)
      | some _ => none
      | none => deepAddl prim props a rest

def liftP (res : List (Str × PV)) : List (Str × DV) := res.map (fun kv => (kv.1, DV.p kv.2))

/-- a flat object schema with an additionalProperties schema under style deepObject -/
def queryDeepFlatA (prim : PT → Str → PR) (name : Str) (r : Req) (sprops : List (Str × PS)) (a : PS) : Out :=
  match deepProps name r.query with
  | [] => absentObj
  | props =>
    if deepClash props then ⟨.nilObj, false, some .parse⟩ else
    match buildDeep prim props (sprops.map (fun kv => (kv.1, DS.prim kv.2))) with
    | none => ⟨.nilObj, false, some .parse⟩
    | some kvs =>
      match deepAddl prim props a ((dedup (topKeys props)).filter (fun k => !hasKey k sprops)) with
      | none => ⟨.nilObj, false, some .parse⟩
      | some extra =>
        ⟨.obj (dvPrims kvs ++ extra),
         deepFound (sprops.map (fun kv => (kv.1, DS.prim kv.2))) props (kvs ++ liftP extra), none⟩

/-! ## headerParamDecoder, cookieParamDecoder -/

def headerRaw (r : Req) : Option Str :=
  match r.header with
  | some (v :: _) => some v
  | _ => none

def headerFound (r : Req) : Bool := r.header.isSome

def headerPrim (prim : PT → Str → PR) (st : Sty) (r : Req) (t : PT) : Out :=
  if st ≠ .simple then badMethod else
  match headerRaw r with
  | none => ⟨.nil, headerFound r, none⟩
  | some raw => primOut true (prim t raw)

def headerArr (prim : PT → Str → PR) (st : Sty) (r : Req) (t : PT) : Out :=
  if st ≠ .simple then badMethod else
  match headerRaw r with
  | none => ⟨.nil, headerFound r, none⟩
  | some raw => arrOut true (parseArr prim t (splitOn [','] raw))

def headerObj (prim : PT → Str → PR) (st : Sty) (ex : Bool) (r : Req) (sprops : List (Str × PS)) (addl : Option PS) : Out :=
  if st ≠ .simple then badMethodObj else
  match headerRaw r with
  | none => ⟨.nilObj, headerFound r, none⟩
  | some raw => objOut prim true raw [','] (if ex then ['='] else [',']) sprops addl

def cookiePrim (prim : PT → Str → PR) (st : Sty) (r : Req) (t : PT) : Out :=
  if st ≠ .form then badMethod else
  match r.cookie with
  | none => absent
  | some raw => primOut true (prim t raw)

/-- `explodeBad` = the code's `|| sm.Explode` guard (finding #31); the specification side passes `false` -/
def cookieArr (prim : PT → Str → PR) (explodeBad : Bool) (st : Sty) (ex : Bool) (r : Req) (t : PT) : Out :=
  if st ≠ .form || (explodeBad && ex) then badMethod else
  match r.cookie with
  | none => absent
  | some raw => arrOut true (parseArr prim t (splitOn [','] raw))

def cookieObj (prim : PT → Str → PR) (explodeBad : Bool) (st : Sty) (ex : Bool) (r : Req)
    (sprops : List (Str × PS)) (addl : Option PS) : Out :=
  if st ≠ .form || (explodeBad && ex) then badMethodObj else
  match r.cookie with
  | none => absentObj
  | some raw => objOut prim true raw [','] [','] sprops addl

/-- the deepObject branch's view of the request: keys with text outside the bracket groups are skipped (they are other
parameters' names) -/
def strictReq (name : Str) (r : Req) : Req := { r with query := r.query.filter (fun kv => wellFormedKey name kv.1) }

/-! ## decodeStyledParameter / decodeValue -/

/-- parameters of the decoder that differ between the code (`impl`) and the specification (`spec`) -/
structure Flavour where
  prim : PT → Str → PR
  cookieExplodeBad : Bool
  untypedAsString : Bool

def impl : Flavour := ⟨parsePrim, true, false⟩
def spec : Flavour := ⟨specPrim, false, true⟩

/-- is the parameter present at all (decodeValue's last switch: `_, found = pathParams[param]`, `values[param]`,
`header[CanonicalHeaderKey(param)]`, `req.Cookie(param)`) -/
def present (c : Cell) (name : Str) (r : Req) : Bool :=
  match c.loc with
  | .path => r.path.isSome
  | .query => (qLookup name r.query).isSome
  | .header => headerFound r
  | .cookie => r.cookie.isSome

def decodeLeaf (fl : Flavour) (c : Cell) (name : Str) (r : Req) : Leaf → Out
  -- a schema without type: decodeValue falls through to its last switch and returns (nil, found, nil) — the text is never
  -- read, ValidateParameter then takes the present parameter for an empty one (finding F-C05-8). The specification reads
  -- the text as a string (`untypedAsString`).
  | .untyped _ =>
    if fl.untypedAsString then
      (match c.loc with
       | .path => pathPrim fl.prim name c.style r .string
       | .query => queryPrim fl.prim name c.style r .string
       | .header => headerPrim fl.prim c.style r .string
       | .cookie => cookiePrim fl.prim c.style r .string)
    else ⟨.nil, present c name r, none⟩
  | .prim ps => match c.loc with
    | .path => pathPrim fl.prim name c.style r ps.t
    | .query => queryPrim fl.prim name c.style r ps.t
    | .header => headerPrim fl.prim c.style r ps.t
    | .cookie => cookiePrim fl.prim c.style r ps.t
  | .arr items _ _ _ => match c.loc with
    | .path => pathArr fl.prim name c.style c.explode r items.t
    | .query => queryArr fl.prim name c.style c.explode r items.t
    | .header => headerArr fl.prim c.style r items.t
    | .cookie => cookieArr fl.prim fl.cookieExplodeBad c.style c.explode r items.t
  | .obj sprops _ addl => match c.loc with
    | .path => pathObj fl.prim name c.style c.explode r sprops addl
    | .query => if c.style = .deepObject then
                  (match addl with
                   | none => queryDeepFlat fl.prim name (strictReq name r) sprops
                   | some a => queryDeepFlatA fl.prim name (strictReq name r) sprops a)
                else queryObj fl.prim name c.style c.explode r sprops addl
    | .header => headerObj fl.prim c.style c.explode r sprops addl
    | .cookie => cookieObj fl.prim fl.cookieExplodeBad c.style c.explode r sprops addl
  | .deep sprops _ => match c.loc, c.style with
    | .query, .deepObject => queryDeep fl.prim name (strictReq name r) sprops
    | .query, .form => queryObj fl.prim name c.style c.explode r [] none   -- never generated
    | .query, _ => badMethodObj
    | .path, _ => pathObj fl.prim name c.style c.explode r [] none
    | .header, _ => headerObj fl.prim c.style c.explode r [] none
    | .cookie, _ => cookieObj fl.prim fl.cookieExplodeBad c.style c.explode r [] none

/-- decodeStyledParameter's early exits: empty PathParams / empty query -/
def earlyAbsent (c : Cell) (r : Req) : Bool :=
  match c.loc with
  | .path => r.path.isNone && !r.pathOthers
  | .query => r.query.isEmpty
  | _ => false

/-- allOf loop: stop at the first nil value or error; the last result is returned, `found` accumulates -/
def decAllOf (f : Leaf → Out) : List Leaf → Bool → Out → Out
  | [], _, last => last
  | l :: rest, fnd, _ =>
    let o := f l
    let fnd' := fnd || o.found
    if o.val.isNil || o.err.isSome then ⟨o.val, fnd', o.err⟩
    else decAllOf f rest fnd' ⟨o.val, fnd', o.err⟩

/-- anyOf loop: first non-nil value wins, errors are dropped -/
def decAnyOf (f : Leaf → Out) (required : Bool) : List Leaf → Bool → Out
  | [], fnd => ⟨.nil, fnd, if required then some .other else none⟩
  | l :: rest, fnd =>
    let o := f l
    if !o.val.isNil then ⟨o.val, fnd || o.found, none⟩
    else decAnyOf f required rest (fnd || o.found)

/-- oneOf loop: the last non-nil value wins, errors are dropped -/
def decOneOf (f : Leaf → Out) (required : Bool) : List Leaf → Bool → Option Val → Out
  | [], fnd, some v => ⟨v, fnd, none⟩
  | [], fnd, none => ⟨.nil, fnd, if required then some .other else none⟩
  | l :: rest, fnd, cur =>
    let o := f l
    decOneOf f required rest (fnd || o.found) (if !o.val.isNil then some o.val else cur)

def decodeValue (fl : Flavour) (c : Cell) (name : Str) (required : Bool) (r : Req) : Sch → Out
  | .leaf l => decodeLeaf fl c name r l
  | .allOf ls => decAllOf (decodeLeaf fl c name r) ls false ⟨.nil, false, none⟩
  | .anyOf ls => decAnyOf (decodeLeaf fl c name r) required ls false
  | .oneOf ls => decOneOf (decodeLeaf fl c name r) required ls false none

def decodeStyled (fl : Flavour) (c : Cell) (name : Str) (required : Bool) (r : Req) (s : Sch) : Out :=
  if earlyAbsent c r then absent else decodeValue fl c name required r s

/-! ## schema validation of the decoded value (the fragment parameters use) -/

def pow10 (n : Nat) : Int := Int.ofNat (10 ^ n)

/-- m·10^e ≤ b, exactly -/
def decLe (m e : Int) (b : Int) : Bool :=
  match e with
  | .ofNat k => m * pow10 k ≤ b
  | .negSucc k => m ≤ b * pow10 (k + 1)

def decGe (m e : Int) (b : Int) : Bool :=
  match e with
  | .ofNat k => b ≤ m * pow10 k
  | .negSucc k => b * pow10 (k + 1) ≤ m

/-- m₁·10^e₁ = m₂·10^e₂ -/
def decEq (m1 e1 m2 e2 : Int) : Bool :=
  if e1 ≤ e2 then m1 = m2 * pow10 (e2 - e1).toNat else m1 * pow10 (e1 - e2).toNat = m2

def decIsInt (m e : Int) : Bool :=
  match e with
  | .ofNat _ => true
  | .negSucc k => m % pow10 (k + 1) = 0

def pvNum : PV → Option (Int × Int)
  | .int i => some (i, 0)
  | .int32 i => some (i, 0)
  | .num m e => some (m, e)
  | _ => none

/-- visitEnumOperation on one entry as the code does it: `int64` is compared as float64, every other Go
type by `reflect.DeepEqual` — an `int32` never equals the enum's float64 -/
def enumHitImpl (e : EV) (v : PV) : Bool :=
  match e, v with
  | .num m x, .int i => decEq m x i 0
  | .num m x, .num m' x' => decEq m x m' x'
  | .bool b, .bool b' => b = b'
  | .str s, .str s' => s = s'
  | _, _ => false

/-- JSON equality of an enum entry and a value -/
def enumHitSpec (e : EV) (v : PV) : Bool :=
  match e, v with
  | .num m x, .int i => decEq m x i 0
  | .num m x, .int32 i => decEq m x i 0
  | .num m x, .num m' x' => decEq m x m' x'
  | .bool b, .bool b' => b = b'
  | .str s, .str s' => s = s'
  | _, _ => false

/-- `reflect.DeepEqual` of an enum entry with an array element (an `int64` is not a float64 either) -/
def deepEqImpl (e : EV) (v : PV) : Bool :=
  match e, v with
  | .num m x, .num m' x' => decEq m x m' x'
  | .bool b, .bool b' => b = b'
  | .str s, .str s' => s = s'
  | _, _ => false

def listEq (f : EV → PV → Bool) : List EV → List PV → Bool
  | [], [] => true
  | e :: es, v :: vs => f e v && listEq f es vs
  | _, _ => false

def typeOK (t : PT) (v : PV) : Bool :=
  match t, v with
  | .integer, .int _ => true
  | .integer, .int32 _ => true
  | .integer, .num m e => decIsInt m e
  | .int32, .int i => decide (-(2:Int)^31 ≤ i ∧ i < (2:Int)^31)
  | .int32, .int32 _ => true
  | .int32, .num m e => decIsInt m e && decGe m e (-(2:Int)^31) && decLe m e ((2:Int)^31 - 1)
  | .number, .int _ => true
  | .number, .int32 _ => true
  | .number, .num _ _ => true
  | .boolean, .bool _ => true
  | .string, .str _ => true
  | _, _ => false

def boundsOK (ps : PS) (v : PV) : Bool :=
  match pvNum v with
  | none => true
  | some (m, e) =>
    (match ps.min with | none => true | some b => decGe m e b) &&
    (match ps.max with | none => true | some b => decLe m e b)

def visitPS (hit : EV → PV → Bool) (ps : PS) (v : PV) : Bool :=
  (ps.enum.isEmpty || ps.enum.any (fun e => hit e v)) && typeOK ps.t v && boundsOK ps v

def visitDS (hit : EV → PV → Bool) : DS → DV → Bool
  | .prim ps, .p v => visitPS hit ps v
  | .arr items, .a xs => xs.all (fun x => match x with
      | none => false       -- a hole is `nil`: rejected by every typed, non-nullable item schema
      | some v => visitPS hit items v)
  | .obj sub req, .o kvs =>
    req.all (fun k => hasKey k kvs) &&
    kvs.all (fun kv => match sub.lookup kv.1 with
      | some ps => visitPS hit ps kv.2
      | none => true)
  | _, _ => false

/-- validation verdict of a leaf schema on a decoded value (`hit`, `arrEq`: how enums compare) -/
def visitLeaf (hit arrEq : EV → PV → Bool) : Leaf → Val → Bool
  | .prim ps, .prim v => visitPS hit ps v
  | .arr items mn mx enum, .arr xs =>
    (enum.isEmpty || enum.any (fun es => listEq arrEq es xs)) &&
    (match mn with | none => true | some n => n ≤ xs.length) &&
    (match mx with | none => true | some n => xs.length ≤ n) &&
    xs.all (visitPS hit items)
  | .obj sprops req addl, .obj kvs =>
    req.all (fun k => hasKey k kvs) &&
    kvs.all (fun kv => match sprops.lookup kv.1 with
      | some ps => visitPS hit ps kv.2
      | none => match addl with
        | some a => visitPS hit a kv.2
        | none => true)
  | .deep sprops req, .dobj kvs =>
    req.all (fun k => hasKey k kvs) &&
    kvs.all (fun kv => match sprops.lookup kv.1 with
      | some ds => visitDS hit ds kv.2
      | none => true)
  -- a typed-nil map (`map[string]any(nil)` inside the interface) is validated as the empty object: visitJSON's type
  -- switch sends it to visitJSONObject (ValidateParameter never gets here: isNilValue; validateResponseHeader does)
  | .obj _ req _, .nilObj => req.isEmpty
  | .deep _ req, .nilObj => req.isEmpty
  | .obj _ req _, .dobj kvs => req.isEmpty && kvs.isEmpty   -- only the empty map crosses (never generated otherwise)
  | .deep _ req, .obj kvs => req.isEmpty && kvs.isEmpty
  -- no type: only the enum speaks (nil is rejected: not nullable)
  | .untyped _, .nil => false
  | .untyped enum, .prim v => enum.isEmpty || enum.any (fun e => hit e v)
  | .untyped enum, _ => enum.isEmpty
  | _, _ => false

def countTrue : List Bool → Nat
  | [] => 0
  | b :: bs => (if b then 1 else 0) + countTrue bs

def visitSch (hit arrEq : EV → PV → Bool) : Sch → Val → Bool
  | .leaf l, v => visitLeaf hit arrEq l v
  | .allOf ls, v => ls.all (fun l => visitLeaf hit arrEq l v)
  | .anyOf ls, v => ls.any (fun l => visitLeaf hit arrEq l v)
  | .oneOf ls, v => countTrue (ls.map (fun l => visitLeaf hit arrEq l v)) = 1

/-! ## ValidateParameter -/

inductive Verdict | accept | missing | empty | parse | badMethod | other | schema
  deriving DecidableEq, Repr

structure Param where
  cell : Cell
  name : Str
  required : Bool
  allowEmpty : Bool
  schema : Sch
  deriving DecidableEq, Repr

def errVerdict : DErr → Verdict
  | .parse => .parse
  | .badMethod => .badMethod
  | .other => .other

/-- the decision after decoding (no defaults: the generated schemas have none) -/
def decide' (visit : Sch → Val → Bool) (p : Param) (o : Out) : Verdict :=
  match o.err with
  | some e => errVerdict e
  | none =>
    if p.required && !o.found then .missing
    else if o.val.isNilValue then (if !p.allowEmpty && o.found then .empty else .accept)
    else if visit p.schema o.val then .accept else .schema

/-- model of ValidateParameter for a styled parameter -/
def validateParameter (p : Param) (r : Req) : Verdict :=
  decide' (visitSch enumHitImpl deepEqImpl) p (decodeStyled impl p.cell p.name p.required r p.schema)

/-- the same decision over the specification's decoder and JSON equality for enums -/
def validateSpec (p : Param) (r : Req) : Verdict :=
  decide' (visitSch enumHitSpec enumHitSpec) p (decodeStyled spec p.cell p.name p.required r p.schema)

/-! ## validateResponseHeader: the same decoder behind another decision -/

/-- validate_response.go validateResponseHeader for a header described by `schema` (Header.SerializationMethod: style
simple unless given, explode false unless given): decodeValue over headerParamDecoder — no early exits —, then
`found` → VisitJSON of the decoded value *whatever it is* (an empty header value decodes to nil and is validated as
null; an empty value list gives a typed-nil map, validated as {}), not found → missing iff required. -/
def validateRespHeader (fl : Flavour) (visit : Sch → Val → Bool) (name : Str) (st : Sty) (ex required : Bool) (r : Req) (s : Sch) : Verdict :=
  let o := decodeValue fl ⟨.header, st, ex⟩ name required r s
  match o.err with
  | some e => errVerdict e
  | none =>
    if o.found then (if visit s o.val then .accept else .schema)
    else if required then .missing else .accept

def respHeaderImpl (name : Str) (st : Sty) (ex required : Bool) (r : Req) (s : Sch) : Verdict :=
  validateRespHeader impl (visitSch enumHitImpl deepEqImpl) name st ex required r s

def respHeaderSpec (name : Str) (st : Sty) (ex required : Bool) (r : Req) (s : Sch) : Verdict :=
  validateRespHeader spec (visitSch enumHitSpec enumHitSpec) name st ex required r s

/-! ## the specification's encoder (OpenAPI 3.0.3 §4.7.12.2 style table) -/

/-- the texts that are serialised: a primitive, array items, or property name/value pairs -/
inductive Texts | prim (s : Str) | arr (xs : List Str) | obj (kvs : List (Str × Str))
  deriving DecidableEq, Repr

def flatKV : List (Str × Str) → List Str
  | [] => []
  | (k, v) :: rest => k :: v :: flatKV rest

def eqKV (kvs : List (Str × Str)) : List Str := kvs.map (fun kv => kv.1 ++ '=' :: kv.2)

/-- path-style strings -/
def encPath (name : Str) (st : Sty) (ex : Bool) : Texts → Option Str
  | .prim s => (pathPrimPrefix name st).map (· ++ s)
  | .arr xs => match st, ex with
    | .simple, _ => some (joinL [','] xs)
    | .label, false => some ('.' :: joinL [','] xs)
    | .label, true => some ('.' :: joinL ['.'] xs)
    | .matrix, false => some (semi name ++ joinL [','] xs)
    | .matrix, true => some (semi name ++ joinL (semi name) xs)
    | _, _ => none
  | .obj kvs => match st, ex with
    | .simple, false => some (joinL [','] (flatKV kvs))
    | .simple, true => some (joinL [','] (eqKV kvs))
    | .label, false => some ('.' :: joinL [','] (flatKV kvs))
    | .label, true => some ('.' :: joinL ['.'] (eqKV kvs))
    | .matrix, false => some (semi name ++ joinL [','] (flatKV kvs))
    | .matrix, true => some (';' :: joinL [';'] (eqKV kvs))
    | _, _ => none

/-- header (style simple) and cookie (style form, one cookie value) strings -/
def encHeader (ex : Bool) : Texts → Str
  | .prim s => s
  | .arr xs => joinL [','] xs
  | .obj kvs => if ex then joinL [','] (eqKV kvs) else joinL [','] (flatKV kvs)

def encCookie : Texts → Str
  | .prim s => s
  | .arr xs => joinL [','] xs
  | .obj kvs => joinL [','] (flatKV kvs)

/-- an exploded array: one query key carrying all items (no key at all for an empty array) -/
def explodedQ (name : Str) (xs : List Str) : List (Str × List Str) := if xs.isEmpty then [] else [(name, xs)]

/-- query: the key/values entries the parameter contributes -/
def encQuery (name : Str) (st : Sty) (ex : Bool) : Texts → Option (List (Str × List Str))
  | .prim s => if st = .form then some [(name, [s])] else none
  | .arr xs => match st, ex with
    | .form, true => some (explodedQ name xs)
    | .spaceDelimited, true => some (explodedQ name xs)
    | .pipeDelimited, true => some (explodedQ name xs)
    | .form, false => some [(name, [joinL [','] xs])]
    | .spaceDelimited, false => some [(name, [joinL [' '] xs])]
    | .pipeDelimited, false => some [(name, [joinL ['|'] xs])]
    | _, _ => none
  | .obj kvs => match st, ex with
    | .form, true => some (kvs.map (fun kv => (kv.1, [kv.2])))
    | .form, false => some [(name, [joinL [','] (flatKV kvs)])]
    | .deepObject, _ => some (kvs.map (fun kv => (name ++ '[' :: kv.1 ++ [']'], [kv.2])))
    | _, _ => none

def encode (c : Cell) (name : Str) (t : Texts) : Option Req :=
  match c.loc with
  | .path => (encPath name c.style c.explode t).map (fun s => { path := some s })
  | .query => (encQuery name c.style c.explode t).map (fun q => { query := q })
  | .header => if c.style = .simple then some { header := some [encHeader c.explode t] } else none
  | .cookie => if c.style = .form then some { cookie := some (encCookie t) } else none

/-- the cells document validation accepts (Parameter.Validate's `smSupported` switch) -/
def legalCells : List Cell :=
  [⟨.path, .simple, false⟩, ⟨.path, .simple, true⟩, ⟨.path, .label, false⟩, ⟨.path, .label, true⟩,
   ⟨.path, .matrix, false⟩, ⟨.path, .matrix, true⟩,
   ⟨.query, .form, true⟩, ⟨.query, .form, false⟩, ⟨.query, .spaceDelimited, true⟩, ⟨.query, .spaceDelimited, false⟩,
   ⟨.query, .pipeDelimited, true⟩, ⟨.query, .pipeDelimited, false⟩, ⟨.query, .deepObject, true⟩,
   ⟨.header, .simple, false⟩, ⟨.header, .simple, true⟩,
   ⟨.cookie, .form, false⟩, ⟨.cookie, .form, true⟩]

/-- Parameter.SerializationMethod's defaults (style, explode) when the document gives neither -/
def defaultMethod : Loc → Sty × Bool
  | .path => (.simple, false)
  | .header => (.simple, false)
  | .query => (.form, true)
  | .cookie => (.form, true)

/-- Parameter.SerializationMethod: style and explode are defaulted independently of each other — a parameter that spells
out `style: form` and leaves `explode` out still explodes -/
def smOf (loc : Loc) (style : Option Sty) (explode : Option Bool) : Cell :=
  ⟨loc, style.getD (defaultMethod loc).1, explode.getD (defaultMethod loc).2⟩

/-! ## exclusion predicates (known-finding classes) -/

/-- #31: cookie, form, explode=true with an array or object schema -/
def leafIsPrim : Leaf → Bool | .prim _ => true | .untyped _ => true | _ => false
def schLeaves : Sch → List Leaf
  | .leaf l => [l] | .allOf ls => ls | .anyOf ls => ls | .oneOf ls => ls

def CookieExplode (p : Param) : Bool :=
  p.cell.loc = .cookie && p.cell.explode && (schLeaves p.schema).any (fun l => !leafIsPrim l)

/-- #42: an enum that the code compares Go-type sensitively -/
def psEnumInt32 (ps : PS) : Bool := !ps.enum.isEmpty && ps.t = .int32
def psIsInt (ps : PS) : Bool := ps.t = .integer || ps.t = .int32

def leafEnumGoType : Leaf → Bool
  | .untyped _ => false
  | .prim ps => psEnumInt32 ps
  | .arr items _ _ enum => psEnumInt32 items || (!enum.isEmpty && psIsInt items)
  | .obj sprops _ addl => sprops.any (fun kv => psEnumInt32 kv.2) || (match addl with | some a => psEnumInt32 a | none => false)
  | .deep sprops _ => sprops.any (fun kv => match kv.2 with
    | .prim ps => psEnumInt32 ps | .arr it => psEnumInt32 it | .obj sub _ => sub.any (fun x => psEnumInt32 x.2))

/-- in a composition a value read by one alternative is validated against every alternative: an int32 (or an array of
integers) produced by one leaf meets the enum of another -/
def psHasEnum (ps : PS) : Bool := !ps.enum.isEmpty
def leafHasInt32 : Leaf → Bool
  | .untyped _ => false
  | .prim ps => ps.t = .int32
  | .arr items _ _ _ => items.t = .int32
  | .obj sprops _ addl => sprops.any (fun kv => kv.2.t = .int32) || (match addl with | some a => a.t = .int32 | none => false)
  | .deep sprops _ => sprops.any (fun kv => match kv.2 with
    | .prim ps => ps.t = .int32 | .arr it => it.t = .int32 | .obj sub _ => sub.any (fun x => x.2.t = .int32))
def leafHasEnum : Leaf → Bool
  | .untyped enum => !enum.isEmpty
  | .prim ps => psHasEnum ps
  | .arr items _ _ _ => psHasEnum items
  | .obj sprops _ addl => sprops.any (fun kv => psHasEnum kv.2) || (match addl with | some a => psHasEnum a | none => false)
  | .deep sprops _ => sprops.any (fun kv => match kv.2 with
    | .prim ps => psHasEnum ps | .arr it => psHasEnum it | .obj sub _ => sub.any (fun x => psHasEnum x.2))
def leafArrInt : Leaf → Bool
  | .arr items _ _ _ => psIsInt items
  | _ => false
def leafArrEnum : Leaf → Bool
  | .arr _ _ _ enum => !enum.isEmpty
  | _ => false

def isComposition : Sch → Bool
  | .leaf _ => false
  | _ => true

def EnumGoType (p : Param) : Bool :=
  (schLeaves p.schema).any leafEnumGoType ||
  (isComposition p.schema &&
    (((schLeaves p.schema).any leafHasInt32 && (schLeaves p.schema).any leafHasEnum) ||
     ((schLeaves p.schema).any leafArrInt && (schLeaves p.schema).any leafArrEnum)))

/-- F-C05-8: a schema without `type` (and without composition): the text of the parameter is never read -/
def leafUntyped : Leaf → Bool
  | .untyped _ => true
  | _ => false

def UntypedSchema (p : Param) : Bool := (schLeaves p.schema).any leafUntyped

/-! ## Encodable: the injectivity domain of the specification's encoding -/

def freeOf (c : Char) (s : Str) : Bool := !s.contains c

/-- delimiter between array items in the carrier string (`none`: items travel as separate query values) -/
def arrDelim (c : Cell) (name : Str) : Option Str :=
  match c.loc with
  | .path => (pathArrFmt name c.style c.explode).map (·.2)
  | .query => if c.explode then none else some (queryDelim c.style)
  | .header => some [',']
  | .cookie => some [',']

/-- array items: at least one, none empty, none containing the first character of the delimiter -/
def encodableArr (c : Cell) (name : Str) (xs : List Str) : Bool :=
  !xs.isEmpty && xs.all (fun x => !x.isEmpty) &&
  (match arrDelim c name with
   | some (d0 :: _) => xs.all (freeOf d0)
   | _ => true)

def distinctKeys : List (Str × Str) → Bool
  | [] => true
  | (k, _) :: rest => !hasKey k rest && distinctKeys rest

/-- (property delimiter, name/value delimiter) of the cell for objects; `none` when pairs are separate query entries -/
def objDelims (c : Cell) (name : Str) : Option (Str × Str) :=
  match c.loc with
  | .path => (pathObjFmt name c.style c.explode).map (fun (_, pd, vd) => (pd, vd))
  | .query => if c.style = .form && !c.explode then some ([','], [',']) else none
  | .header => some ([','], if c.explode then ['='] else [','])
  | .cookie => some ([','], [','])

def encodableObj (c : Cell) (name : Str) (kvs : List (Str × Str)) : Bool :=
  !kvs.isEmpty && distinctKeys kvs && kvs.all (fun kv => !kv.1.isEmpty && !kv.2.isEmpty) &&
  (match objDelims c name with
   | some (pd0 :: _, vd0 :: _) => kvs.all (fun kv => freeOf pd0 kv.1 && freeOf pd0 kv.2 && freeOf vd0 kv.1 && freeOf vd0 kv.2)
   | _ => kvs.all (fun kv => freeOf '[' kv.1 && freeOf ']' kv.1)) &&
  -- deepObject: a '[' inside the parameter name would be read as the start of the first segment
  (c.style != .deepObject || freeOf '[' name)

def encodable (c : Cell) (name : Str) : Texts → Bool
  | .prim s => !s.isEmpty
  | .arr xs => encodableArr c name xs
  | .obj kvs => encodableObj c name kvs

/-- the value a list of item texts stands for (specification's reading) -/
def expectArr (t : PT) : List Str → Option (List PV)
  | [] => some []
  | s :: rest => match specPrim t s with
    | .val v => (expectArr t rest).map (v :: ·)
    | _ => none

def expectObj (sprops : List (Str × PS)) (addl : Option PS) : List (Str × Str) → Option (List (Str × PV))
  | [] => some []
  | (k, s) :: rest =>
    match (match sprops.lookup k with | some ps => some ps | none => addl) with
    | none => none
    | some ps => match specPrim ps.t s with
      | .val v => (expectObj sprops addl rest).map ((k, v) :: ·)
      | _ => none

/-- the value that was serialised, for a leaf schema of matching shape (`none`: the texts are not texts of
values of this schema) -/
def expectVal : Leaf → Texts → Option Val
  | .prim ps, .prim s => match specPrim ps.t s with
    | .val v => some (.prim v)
    | _ => none
  | .arr items _ _ _, .arr xs => (expectArr items.t xs).map Val.arr
  | .obj sprops _ addl, .obj kvs => (expectObj sprops addl kvs).map Val.obj
  | _, _ => none

end KinModel.Style
