/-
Model of openapi3filter.ValidateResponse (openapi3filter/validate_response.go) with what it calls:
openapi3.Responses.Status / Default (openapi3/response.go), openapi3.Content.Get (openapi3/content.go),
validateResponseHeader, and the fragment of Schema.visitJSON (openapi3/schema.go) that decides the
response-side reading of object schemas (visitJSONObject: the `asrep` branches).

Modelled branch by branch, in the order of the code:
  * HEAD requests and the status codes 304, 308, 307, 301 return nil before anything else;
  * an empty responses map returns nil unless IncludeResponseStatus is set (since the fix of F-C08-3, commit c48114b);
  * Responses.Status: exact code, then the class key "1XX".."5XX" (for 100..599 only); then Default;
  * no entry: nil unless IncludeResponseStatus; an entry whose `Value` is nil (unresolved reference): error;
  * declared headers except the one named exactly "Content-Type", in sorted name order, first error returned
    (also under MultiError: the option only reaches the schema visitor and never changes the verdict):
      - header described by `content` (no schema): only presence is checked (finding #22, fixed);
      - decodeValue with the header decoder (simple style, not exploded), modelled below for every schema of the
        fragment except `type: object` (`decodeHeader`): no `type` → no value; primitive → parsePrimitive (empty text →
        no value, strconv.ParseInt base 10 / 64 bit, the twelve ParseBool words, the text itself); array →
        strings.Split(",") and parseArray (first item that is empty or untyped → no value, first item that does not
        parse → error, `items` absent → nil dereference, an explicit `panic` outcome); object → DecodeObject:
        propsFromString (name,value,… — or name=value,… when exploded; a later duplicate replaces an earlier one),
        makeObject / buildResObj over the declared properties and, when additionalProperties is a schema, over the
        other names (primitive → parsePrimitive, absent / empty / untyped → no entry, object-typed → the text itself,
        array-typed → error; names outside the schema are dropped; the empty name under a non-object
        additionalProperties schema → error, because its lookup path is empty and yields the whole parameter map; the
        two remaining uses of the empty name — a declared property `""`, or `""` under an object-typed
        additionalProperties schema — re-enter buildResObj on the whole map and are an input, `Hdr.emptyNameDec`);
      - decode error → error; found → Schema.VisitJSON(decoded value, VisitAsResponse [, DisableWriteOnlyValidation])
        (headers are response data since the fix of finding F-C08-2, commit 35101a0), where a present header
        whose decoding yields no value is visited as `null`;
      - not found and required → error;
  * ExcludeResponseBody → nil; empty content map → nil; Content.Get(Content-Type) = nil → error;
    media type without schema → nil;
  * body read (a failing reader leaves input.Body nil), SetBodyBytes, decodeBody (the decoder registered for the
    text of the Content-Type header before its first ';' — registry `reg`, regenerated table BodyDecoders; none →
    error; PlainBodyDecoder / FileBodyDecoder → the bytes as a string; any other decoder → input `bodyDec`) error →
    error, Schema.VisitJSON(value, VisitAsResponse [, DisableWriteOnlyValidation]).
Schema fragment (every construct the response-side rules touch): `type` (absent or one of boolean, integer,
string, array, object), `nullable`, `readOnly`, `writeOnly`, `maxLength`, `maximum`, `properties`, `required`,
`additionalProperties` (absent/true/false/schema), `items`.  For this fragment the verdict of visitJSON is
mode-independent (fail-fast / first error / multi-error give the same accept/reject), so one Bool function models it.

Inputs of the model that stand for other properties' subject matter:
  * `Hdr.emptyNameDec` — outcome of DecodeObject in the corner where a schema is applied to the empty property name
    (see above; C05); no generated case reaches it;
  * `Input.bodyDec` — outcome of the JSON (or other non-text) decoder registered for the Content-Type (C06);
  * `canon` — http.CanonicalHeaderKey; `reg` — the body-decoder registry (media type ↦ decoder name).
-/
namespace KinModel.Response

/-! ### JSON values and the schema fragment (explicit mutual inductives: plain structural recursion) -/

mutual
inductive J where
  | null | bool (b : Bool) | num (n : Int) | str (s : String) | arr (xs : JL) | obj (kvs : KVs)
inductive JL where
  | nil | cons (x : J) (r : JL)
inductive KVs where
  | nil | cons (k : String) (v : J) (r : KVs)
end

def J.isNull : J → Bool | .null => true | _ => false

/-- `value[k]` of a Go map (`none` = key absent) -/
def KVs.get : KVs → String → Option J
  | .nil, _ => none
  | .cons k v r, q => if q = k then some v else r.get q

inductive Ty | any | boolean | integer | string | array | object
  deriving DecidableEq, Repr

/-- the non-recursive keywords of a schema; `ty = any` is an absent `type` -/
structure Core where
  ty : Ty := .any
  nullable : Bool := false
  readOnly : Bool := false
  writeOnly : Bool := false
  maxLen : Option Nat := none
  maxI : Option Int := none
  required : List String := []
  /-- `additionalProperties.Has` is nil or true -/
  addlAllowed : Bool := true

mutual
inductive Sch where
  | mk (c : Core) (props : Props) (addl : OSch) (items : OSch)
inductive Props where
  | nil | cons (k : String) (s : Sch) (r : Props)
inductive OSch where
  | none | some (s : Sch)
end

def Sch.core : Sch → Core | .mk c _ _ _ => c
def Sch.props : Sch → Props | .mk _ p _ _ => p
def Sch.addl : Sch → OSch | .mk _ _ a _ => a
def Sch.items : Sch → OSch | .mk _ _ _ i => i

/-- `schema.Properties[k]` -/
def Props.lookup : Props → String → Option Sch
  | .nil, _ => none
  | .cons k s r, q => if q = k then some s else r.lookup q

/-- `(k, p)` is a declared property -/
def Props.Mem : Props → String → Sch → Prop
  | .nil, _, _ => False
  | .cons k s r, q, p => (q = k ∧ p = s) ∨ r.Mem q p

/-- `schema.Type.Permits(want)` -/
def permits (t want : Ty) : Bool := t == .any || t == want

/-- how a schema is visited: `asrep` = VisitAsResponse, `woOff` = DisableWriteOnlyValidation -/
structure VCtx where
  asrep : Bool
  woOff : Bool

/-- visitJSONObject, first loop: some declared write-only property is present in the value
(`if _, present := value[propName]; present` — key presence since the fix of finding F-C08-4; `null` counts) -/
def woViol : Props → KVs → Bool
  | .nil, _ => false
  | .cons k p r, kvs => (p.core.writeOnly && (kvs.get k).isSome) || woViol r kvs

def isWO : Option Sch → Bool | some p => p.core.writeOnly | none => false

/-- visitJSONObject, "required" loop -/
def reqOK (cx : VCtx) (ps : Props) (kvs : KVs) : List String → Bool
  | [] => true
  | k :: ks => ((kvs.get k).isSome || (cx.asrep && isWO (ps.lookup k))) && reqOK cx ps kvs ks

def maxIOK (c : Core) (n : Int) : Bool := match c.maxI with | some m => decide (n ≤ m) | none => true
def maxLenOK (c : Core) (t : String) : Bool := match c.maxLen with | some m => decide (t.length ≤ m) | none => true

mutual
/-- verdict of Schema.visitJSON on the fragment -/
def visit (cx : VCtx) : J → Sch → Bool
  | .null, s => s.core.nullable
  | .bool _, s => permits s.core.ty .boolean
  | .num n, s => permits s.core.ty .integer && maxIOK s.core n
  | .str t, s => permits s.core.ty .string && maxLenOK s.core t
  | .arr xs, s => permits s.core.ty .array &&
      (match s.items with | .none => true | .some it => visitItems cx xs it)
  | .obj kvs, s => permits s.core.ty .object && !(cx.asrep && !cx.woOff && woViol s.props kvs)
      && visitKVs cx kvs s && reqOK cx s.props kvs s.core.required
def visitItems (cx : VCtx) : JL → Sch → Bool
  | .nil, _ => true
  | .cons x r, it => visit cx x it && visitItems cx r it
/-- the loop over the (sorted) keys of the value: declared property, else additionalProperties -/
def visitKVs (cx : VCtx) : KVs → Sch → Bool
  | .nil, _ => true
  | .cons k v r, s =>
    (match s.props.lookup k with
     | some p => visit cx v p
     | none => s.core.addlAllowed && (match s.addl with | .some a => visit cx v a | .none => true))
    && visitKVs cx r s
end

/-! ### Status selection, media-type selection -/

def lookup (k : String) : List (String × α) → Option α
  | [] => none
  | (k', v) :: r => if k = k' then some v else lookup k r

/-- strconv.FormatInt(status, 10) -/
def codeKey (status : Int) : String := toString status

/-- "1XX".."5XX" for 100..599 -/
def classKey (status : Int) : Option String :=
  if 99 < status ∧ status < 600 then some (toString (status / 100) ++ "XX") else none

/-- Responses.Status followed by Responses.Default, as ValidateResponse calls them -/
def statusLookup (m : List (String × α)) (status : Int) : Option α :=
  match lookup (codeKey status) m with
  | some v => some v
  | none =>
    match (match classKey status with | some k => lookup k m | none => none) with
    | some v => some v
    | none => lookup "default" m

/-- text before the first ';' -/
def base (mime : String) : String := String.ofList (mime.toList.takeWhile (· ≠ ';'))

def majorChars : List Char → Option (List Char)
  | [] => none
  | c :: cs => if c = '/' then some [] else (majorChars cs).map (c :: ·)

/-- text before the first '/', if there is one -/
def majorType (mime : String) : Option String := (majorChars mime.toList).map String.ofList

/-- openapi3.Content.Get, branch by branch -/
def contentGet (c : List (String × α)) (mime : String) : Option α :=
  if mime = "" then lookup "*/*" c else
  match lookup mime c with
  | some v => some v
  | none =>
    match lookup (base mime) c with
    | some v => some v
    | none =>
      match majorType (base mime) with
      | none => none
      | some t =>
        match lookup (t ++ "/*") c with
        | some v => some v
        | none => lookup "*/*" c

/-! ### ValidateResponse -/

/-- outcome of decoding a header value / a body: error, no value (Go nil), a value; `panic`: the decoder
dereferences nil (header arrays without `items` only) -/
inductive Dec where
  | err | nil | val (v : J) | panic

/-! #### simple-style decoding of a header value (decodeValue → headerParamDecoder → parsePrimitive / parseArray) -/

def digitVal (c : Char) : Option Nat :=
  if '0' ≤ c ∧ c ≤ '9' then some (c.toNat - '0'.toNat) else none

def digitsVal : List Char → Nat → Option Nat
  | [], acc => some acc
  | c :: cs, acc => match digitVal c with | some d => digitsVal cs (acc * 10 + d) | none => none

/-- an optional sign -/
def splitSign : List Char → Bool × List Char
  | '-' :: r => (true, r)
  | '+' :: r => (false, r)
  | r => (false, r)

/-- strconv.ParseInt(raw, 10, 64): optional sign, at least one ASCII digit, nothing else, within int64 -/
def parseInt64 (cs : List Char) : Option Int :=
  let sd := splitSign cs
  if sd.2.isEmpty then none else
  match digitsVal sd.2 0 with
  | none => none
  | some n =>
    if sd.1 then (if n ≤ 9223372036854775808 then some (-(n : Int)) else none)
    else (if n ≤ 9223372036854775807 then some (n : Int) else none)

/-- strconv.ParseBool -/
def parseBoolWord (s : String) : Option Bool :=
  if s ∈ ["1", "t", "T", "TRUE", "true", "True"] then some true
  else if s ∈ ["0", "f", "F", "FALSE", "false", "False"] then some false
  else none

/-- parsePrimitive(raw, schema) for a schema with the `type` t -/
def parsePrim (t : Ty) (raw : String) : Dec :=
  if raw = "" then .nil else
  match t with
  | .any => .nil      -- `schema.Value.Type.Slice()` is empty: the loop body never runs
  | .integer => (match parseInt64 raw.toList with | some n => .val (.num n) | none => .err)
  | .boolean => (match parseBoolWord raw with | some b => .val (.bool b) | none => .err)
  | .string => .val (.str raw)
  | .array => .err    -- "schema has non primitive type"
  | .object => .err

/-- strings.Split(raw, d) for a one-character separator, on characters -/
def splitChars (d : Char) : List Char → List (List Char)
  | [] => [[]]
  | c :: cs =>
    match splitChars d cs with
    | [] => [[]]
    | h :: t => if c = d then [] :: h :: t else (c :: h) :: t

def splitOn (d : Char) (raw : String) : List String := (splitChars d raw.toList).map String.ofList

def splitComma (raw : String) : List String := splitOn ',' raw

def consItem (x : J) : Dec → Dec
  | .val (.arr xs) => .val (.arr (.cons x xs))
  | d => d

/-- parseArray: items left to right; the first one that yields no value, an error or a nil dereference decides -/
def parseArr (it : OSch) : List String → Dec
  | [] => .val (.arr .nil)
  | v :: r =>
    match it with
    | .none => if v = "" then .nil else .panic   -- parsePrimitive(v, nil): `schema.Value` after the empty-text check
    | .some s =>
      match parsePrim s.core.ty v with
      | .val x => consItem x (parseArr it r)
      | d => d

/-- propsFromString, propDelim = valueDelim = ",": names and values alternate; an odd number of pieces is malformed -/
def pairUp : List String → Option (List (String × String))
  | [] => some []
  | [_] => none
  | k :: v :: r => (pairUp r).map ((k, v) :: ·)

/-- propsFromString, exploded: every piece is `name=value` (exactly one '=') -/
def mapKV : List String → Option (List (String × String))
  | [] => some []
  | p :: r =>
    match splitOn '=' p with
    | [k, v] => (mapKV r).map ((k, v) :: ·)
    | _ => none

def propsFromString (explode : Bool) (raw : String) : Option (List (String × String)) :=
  if explode then mapKV (splitComma raw) else pairUp (splitComma raw)

/-- `props[name]` of the Go map the pairs were stored into: the last occurrence wins -/
def lastVal (k : String) : List (String × String) → Option String
  | [] => none
  | (k', v) :: r => match lastVal k r with | some x => some x | none => if k = k' then some v else none

/-- buildResObj for one name of a flat object: `nil` = no entry in the result -/
def buildProp (p : Sch) : Option String → Dec
  | none => .nil
  | some t =>
    match p.core.ty with
    | .array => .err              -- "array items must be set with indexes"
    | .object => .val (.str t)    -- "not the expected type, but return it either way"
    | ty => parsePrim ty t

def KVs.append : KVs → KVs → KVs
  | .nil, b => b
  | .cons k v r, b => .cons k v (KVs.append r b)

/-- the loop over schema.Properties (a Go map: one entry per name — `seen` skips a repeated name of the list) -/
def buildDeclared (pairs : List (String × String)) : Props → List String → Option KVs
  | .nil, _ => some .nil
  | .cons k p r, seen =>
    if k ∈ seen then buildDeclared pairs r seen else
    match buildProp p (lastVal k pairs) with
    | .val x => (buildDeclared pairs r (k :: seen)).map (KVs.cons k x)
    | .nil => buildDeclared pairs r (k :: seen)
    | _ => none

/-- the loop over the other names of the value, when additionalProperties is a schema -/
def buildAddl (pairs : List (String × String)) (ps : Props) (a : Sch) : List String → List String → Option KVs
  | [], _ => some .nil
  | k :: ks, seen =>
    if k ∈ seen || (ps.lookup k).isSome then buildAddl pairs ps a ks seen else
    if k = "" then none   -- the path of the empty name is empty: deepGet yields the map, not a string
    else match buildProp a (lastVal k pairs) with
    | .val x => (buildAddl pairs ps a ks (k :: seen)).map (KVs.cons k x)
    | .nil => buildAddl pairs ps a ks (k :: seen)
    | _ => none

/-- a schema is applied to the empty property name in a way that re-enters buildResObj on the whole map -/
def emptyNameCorner (s : Sch) (pairs : List (String × String)) : Bool :=
  (s.props.lookup "").isSome ||
  (match s.addl with
   | .some a => a.core.ty == .object && pairs.any (fun kv => kv.1 = "")
   | .none => false)

/-- DecodeObject of the header decoder (simple style) for a flat object schema; `corner` = its outcome in the
empty-name corner -/
def decodeObject (s : Sch) (explode : Bool) (raw : String) (corner : Dec) : Dec :=
  match propsFromString explode raw with
  | none => .err
  | some pairs =>
    if emptyNameCorner s pairs then corner else
    match buildDeclared pairs s.props [] with
    | none => .err
    | some d =>
      match s.addl with
      | .none => .val (.obj d)
      | .some a =>
        match buildAddl pairs s.props a (pairs.map (·.1)) [] with
        | none => .err
        | some e => .val (.obj (d.append e))

/-- decodeValue with the header decoder on the header's first value `raw` -/
def decodeHeader (s : Sch) (explode : Bool) (raw : String) (corner : Dec) : Dec :=
  match s.core.ty with
  | .any => .nil
  | .array => (match parseArr s.items (splitComma raw) with | .val (.arr .nil) => .nil | d => d)
  | .object => decodeObject s explode raw corner
  | t => parsePrim t raw

/-- decodeValue on a header key that is present: with its first value, or with no value at all (`len(raw) == 0`:
the decoders return nil and found — for an object schema a nil map, which the validator sees as an empty object) -/
def decodeHdrVal (s : Sch) (explode : Bool) (rv : Option String) (corner : Dec) : Dec :=
  match rv with
  | some raw => decodeHeader s explode raw corner
  | none => (match s.core.ty with | .object => .val (.obj .nil) | _ => .nil)

structure Hdr where
  name : String
  required : Bool
  /-- `none`: the header is described by `content` -/
  schema : Option Sch
  /-- `explode: true` of the header object (matters for object-valued headers only) -/
  explode : Bool := false
  /-- outcome of DecodeObject where a schema is applied to the empty property name (`emptyNameCorner`) -/
  emptyNameDec : Dec := .err

structure MediaType where
  schema : Option Sch

structure Resp where
  headers : List Hdr
  content : List (String × MediaType)
  /-- `responseRef.Value != nil`; an entry whose reference was never resolved has no definition to check against -/
  resolved : Bool := true

structure Opts where
  strict : Bool := false       -- IncludeResponseStatus
  excludeBody : Bool := false  -- ExcludeResponseBody
  woOff : Bool := false        -- ExcludeWriteOnlyValidations
  multi : Bool := false        -- MultiError

structure Input where
  method : String
  status : Int
  responses : List (String × Resp)
  /-- response headers: canonical name ↦ first value (`none`: the key is present with no value at all) -/
  hdrs : List (String × Option String)
  /-- bytes still to be read from input.Body -/
  body : String
  /-- the body reader returns an error -/
  readFails : Bool
  /-- what the registered decoder makes of those bytes when it is not one of the two text decoders
  (`nil`, `panic` do not occur) -/
  bodyDec : Dec

inductive Err where
  | statusNotSupported | respUnresolved | hdrMissing (n : String) | hdrDecode (n : String) | hdrSchema (n : String)
  | hdrPanic (n : String) | ctUndeclared | bodyRead | bodyDecode | bodySchema
  deriving DecidableEq, Repr

structure Out where
  err : Option Err
  /-- what can be read from input.Body afterwards; `none` = input.Body is nil -/
  bodyAfter : Option String
  deriving DecidableEq, Repr

def present (canon : String → String) (hdrs : List (String × Option String)) (h : Hdr) : Bool :=
  (lookup (canon h.name) hdrs).isSome

/-- validateResponseHeader (called with `append(opts, VisitAsResponse())` since commit 35101a0) -/
def checkHeader (canon : String → String) (woOff : Bool) (hdrs : List (String × Option String)) (h : Hdr) : Option Err :=
  match h.schema with
  | none => if !present canon hdrs h && h.required then some (.hdrMissing h.name) else none
  | some s =>
    match lookup (canon h.name) hdrs with
    | some raw =>
      match decodeHdrVal s h.explode raw h.emptyNameDec with
      | .err => some (.hdrDecode h.name)
      | .panic => some (.hdrPanic h.name)
      | .nil => if visit ⟨true, woOff⟩ .null s then none else some (.hdrSchema h.name)
      | .val v => if visit ⟨true, woOff⟩ v s then none else some (.hdrSchema h.name)
    | none => if h.required then some (.hdrMissing h.name) else none

def insertHdr (h : Hdr) : List Hdr → List Hdr
  | [] => [h]
  | x :: xs => if h.name ≤ x.name then h :: x :: xs else x :: insertHdr h xs

/-- `sort.Strings(headers)` -/
def sortHdrs (l : List Hdr) : List Hdr := l.foldr insertHdr []

def firstErr (f : Hdr → Option Err) : List Hdr → Option Err
  | [] => none
  | h :: r => match f h with | some e => some e | none => firstErr f r

def checkedHeaders (r : Resp) : List Hdr := sortHdrs (r.headers.filter (fun h => h.name ≠ "Content-Type"))

/-- `input.Header.Get("Content-Type")` -/
def ctOf (i : Input) : String := ((lookup "Content-Type" i.hdrs).getD none).getD ""

def skipStatus (status : Int) : Bool := status = 304 || status = 308 || status = 307 || status = 301

/-- parseMediaType: text before the first ';' (no trimming) — the same cut as `base` -/
def parseMediaType (ct : String) : String := base ct

/-- the decoders that return the bytes as a string -/
def textDecoder (d : String) : Bool := d = "PlainBodyDecoder" || d = "FileBodyDecoder"

/-- decodeBody: the decoder registered for the media type of the Content-Type header -/
def decodeBody (reg : List (String × String)) (i : Input) : Dec :=
  match lookup (parseMediaType (ctOf i)) reg with
  | none => .err
  | some d => if textDecoder d then .val (.str i.body) else i.bodyDec

/-- the part of ValidateResponse after the headers -/
def checkBody (reg : List (String × String)) (o : Opts) (i : Input) (r : Resp) : Out :=
  let keep : Out := ⟨none, some i.body⟩
  if o.excludeBody then keep
  else if r.content.isEmpty then keep
  else match contentGet r.content (ctOf i) with
    | none => ⟨some .ctUndeclared, some i.body⟩
    | some mt =>
      match mt.schema with
      | none => keep
      | some s =>
        if i.readFails then ⟨some .bodyRead, none⟩
        else match decodeBody reg i with
          | .val v => if visit ⟨true, o.woOff⟩ v s then keep else ⟨some .bodySchema, some i.body⟩
          | _ => ⟨some .bodyDecode, some i.body⟩

def validateResponse (canon : String → String) (reg : List (String × String)) (o : Opts) (i : Input) : Out :=
  let keep : Out := ⟨none, some i.body⟩
  if i.method = "HEAD" then keep
  else if skipStatus i.status then keep
  else if i.responses.isEmpty && !o.strict then keep
  else match statusLookup i.responses i.status with
    | none => if o.strict then ⟨some .statusNotSupported, some i.body⟩ else keep
    | some r =>
      if !r.resolved then ⟨some .respUnresolved, some i.body⟩   -- "response has not been resolved"
      else match firstErr (checkHeader canon o.woOff i.hdrs) (checkedHeaders r) with
      | some e => ⟨some e, some i.body⟩
      | none => checkBody reg o i r

/-! ### Specification (from the property text) -/

/- the response-side reading of a schema: write-only properties forbidden (unless the option switches that
check off) and not required, read-only ones allowed (no clause mentions them) -/
mutual
def SatRep (woOff : Bool) : J → Sch → Prop
  | .null, s => s.core.nullable = true
  | .bool _, s => permits s.core.ty .boolean = true
  | .num n, s => permits s.core.ty .integer = true ∧ ∀ m, s.core.maxI = some m → n ≤ m
  | .str t, s => permits s.core.ty .string = true ∧ ∀ m, s.core.maxLen = some m → t.length ≤ m
  | .arr xs, s => permits s.core.ty .array = true ∧ ∀ it, s.items = .some it → SatItems woOff xs it
  | .obj kvs, s => permits s.core.ty .object = true
      ∧ (woOff = false → ∀ k p, s.props.Mem k p → p.core.writeOnly = true → kvs.get k = none)
      ∧ SatKVs woOff kvs s
      ∧ (∀ k, k ∈ s.core.required → kvs.get k = none →
           ∃ p, s.props.lookup k = some p ∧ p.core.writeOnly = true)
def SatItems (woOff : Bool) : JL → Sch → Prop
  | .nil, _ => True
  | .cons x r, it => SatRep woOff x it ∧ SatItems woOff r it
def SatKVs (woOff : Bool) : KVs → Sch → Prop
  | .nil, _ => True
  | .cons k v r, s =>
    (match s.props.lookup k with
     | some p => SatRep woOff v p
     | none => s.core.addlAllowed = true ∧ ∀ a, s.addl = .some a → SatRep woOff v a)
    ∧ SatKVs woOff r s
end

/-- some declared write-only property is present (as a key) -/
def woPresent : Props → KVs → Bool
  | .nil, _ => false
  | .cons k p r, kvs => (p.core.writeOnly && (kvs.get k).isSome) || woPresent r kvs

def reqSpecB (ps : Props) (kvs : KVs) : List String → Bool
  | [] => true
  | k :: ks => ((kvs.get k).isSome || isWO (ps.lookup k)) && reqSpecB ps kvs ks

mutual
/-- executable twin of `SatRep` -/
def satRepB (woOff : Bool) : J → Sch → Bool
  | .null, s => s.core.nullable
  | .bool _, s => permits s.core.ty .boolean
  | .num n, s => permits s.core.ty .integer && maxIOK s.core n
  | .str t, s => permits s.core.ty .string && maxLenOK s.core t
  | .arr xs, s => permits s.core.ty .array &&
      (match s.items with | .none => true | .some it => satItemsB woOff xs it)
  | .obj kvs, s => permits s.core.ty .object && (woOff || !woPresent s.props kvs)
      && satKVsB woOff kvs s && reqSpecB s.props kvs s.core.required
def satItemsB (woOff : Bool) : JL → Sch → Bool
  | .nil, _ => true
  | .cons x r, it => satRepB woOff x it && satItemsB woOff r it
def satKVsB (woOff : Bool) : KVs → Sch → Bool
  | .nil, _ => true
  | .cons k v r, s =>
    (match s.props.lookup k with
     | some p => satRepB woOff v p
     | none => s.core.addlAllowed && (match s.addl with | .some a => satRepB woOff v a | .none => true))
    && satKVsB woOff r s
end

def firstSome (m : List (String × α)) : List String → Option α
  | [] => none
  | k :: ks => match lookup k m with | some v => some v | none => firstSome m ks

/-- keys tried for a status, in the order of the property: exact code, class pattern, default -/
def statusKeys (status : Int) : List String :=
  [codeKey status] ++ (match classKey status with | some k => [k] | none => []) ++ ["default"]

def selected (m : List (String × α)) (status : Int) : Option α := firstSome m (statusKeys status)

/-- documented precedence of media types -/
def mimeCandidates (mime : String) : List String :=
  if mime = "" then ["*/*"] else
  match majorType (base mime) with
  | none => [mime, base mime]
  | some t => [mime, base mime, t ++ "/*", "*/*"]

def Skipped (i : Input) : Prop := i.method = "HEAD" ∨ i.status = 301 ∨ i.status = 304 ∨ i.status = 307 ∨ i.status = 308

/-- the value of a present header as the property reads it: the decoded value; a header for which the
decoder produced no typed value is its text -/
def specValue : Dec → Option String → Option J
  | .err, _ => none
  | .panic, _ => none
  | .nil, raw => some (.str (raw.getD ""))
  | .val v, _ => some v

def HeaderOK (canon : String → String) (woOff : Bool) (hdrs : List (String × Option String)) (h : Hdr) : Prop :=
  match lookup (canon h.name) hdrs with
  | none => h.required = false
  | some raw => ∀ s, h.schema = some s →
      ∃ v, specValue (decodeHdrVal s h.explode raw h.emptyNameDec) raw = some v ∧ SatRep woOff v s

def BodyOK (reg : List (String × String)) (o : Opts) (i : Input) (r : Resp) : Prop :=
  r.content = [] ∨
  ∃ mt, firstSome r.content (mimeCandidates (ctOf i)) = some mt ∧
    ∀ s, mt.schema = some s → i.readFails = false ∧ ∃ v, decodeBody reg i = .val v ∧ SatRep o.woOff v s

def Accept (canon : String → String) (reg : List (String × String)) (o : Opts) (i : Input) : Prop :=
  Skipped i ∨
  match selected i.responses i.status with
  | none => o.strict = false
  | some r =>
    r.resolved = true ∧   -- an entry without definition cannot vouch for the response
    (∀ h, h ∈ r.headers → h.name ≠ "Content-Type" → HeaderOK canon o.woOff i.hdrs h) ∧
    (o.excludeBody = false → BodyOK reg o i r)

/-! executable twin of `Accept` (the oracle of the differential run) -/

def headerOKB (canon : String → String) (woOff : Bool) (hdrs : List (String × Option String)) (h : Hdr) : Bool :=
  match lookup (canon h.name) hdrs with
  | none => !h.required
  | some raw =>
    match h.schema with
    | none => true
    | some s => match specValue (decodeHdrVal s h.explode raw h.emptyNameDec) raw with | some v => satRepB woOff v s | none => false

def bodyOKB (reg : List (String × String)) (o : Opts) (i : Input) (r : Resp) : Bool :=
  r.content.isEmpty ||
  match firstSome r.content (mimeCandidates (ctOf i)) with
  | none => false
  | some mt =>
    match mt.schema with
    | none => true
    | some s => !i.readFails && (match decodeBody reg i with | .val v => satRepB o.woOff v s | _ => false)

def skippedB (i : Input) : Bool :=
  i.method = "HEAD" || i.status = 301 || i.status = 304 || i.status = 307 || i.status = 308

def acceptB (canon : String → String) (reg : List (String × String)) (o : Opts) (i : Input) : Bool :=
  skippedB i ||
  match selected i.responses i.status with
  | none => !o.strict
  | some r =>
    r.resolved &&
    (r.headers.all (fun h => h.name = "Content-Type" || headerOKB canon o.woOff i.hdrs h)) &&
    (o.excludeBody || bodyOKB reg o i r)

/-! ### Where VisitAsResponse matters (helper of `visit_plain_eq_asrep_untouched`; no exclusion class) -/

def declaresWO : Props → Bool
  | .nil => false
  | .cons _ p r => p.core.writeOnly || declaresWO r

/- the value reaches an object schema that declares a write-only property -/
mutual
def woTouched : J → Sch → Bool
  | .arr xs, s => (match s.items with | .none => false | .some it => woTouchedItems xs it)
  | .obj kvs, s => declaresWO s.props || woTouchedKVs kvs s
  | _, _ => false
def woTouchedItems : JL → Sch → Bool
  | .nil, _ => false
  | .cons x r, it => woTouched x it || woTouchedItems r it
def woTouchedKVs : KVs → Sch → Bool
  | .nil, _ => false
  | .cons k v r, s =>
    (match s.props.lookup k with
     | some p => woTouched v p
     | none => (match s.addl with | .some a => woTouched v a | .none => false))
    || woTouchedKVs r s
end

/-! ### Exclusion predicates (classes in which the code deviates from the property) -/

/-- the decoding outcome of a declared header on this response (`none`: absent, or described by `content`) -/
def hdrDec (canon : String → String) (hdrs : List (String × Option String)) (h : Hdr) : Option Dec :=
  match h.schema, lookup (canon h.name) hdrs with
  | some s, some raw => some (decodeHdrVal s h.explode raw h.emptyNameDec)
  | _, _ => none

/-- F-C08-1: a present header with a schema whose decoding gives no value is visited as `null` -/
def hdrDecodedNil (canon : String → String) (hdrs : List (String × Option String)) (h : Hdr) : Bool :=
  match hdrDec canon hdrs h with | some .nil => true | _ => false

/-- F-C08-5: a present header whose schema is an array without `items`, first item not empty: nil dereference -/
def hdrArrayNoItems (canon : String → String) (hdrs : List (String × Option String)) (h : Hdr) : Bool :=
  match hdrDec canon hdrs h with | some .panic => true | _ => false

def anyHdr (i : Input) (f : Hdr → Bool) : Bool :=
  match selected i.responses i.status with
  | none => false
  | some r => r.headers.any (fun h => h.name ≠ "Content-Type" && f h)

def HdrDecodedNil (canon : String → String) (i : Input) : Bool := anyHdr i (hdrDecodedNil canon i.hdrs)
def HdrArrayNoItems (canon : String → String) (i : Input) : Bool := anyHdr i (hdrArrayNoItems canon i.hdrs)

def Excluded (canon : String → String) (o : Opts) (i : Input) : Bool :=
  HdrDecodedNil canon i || HdrArrayNoItems canon i

end KinModel.Response
