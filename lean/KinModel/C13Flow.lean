/-
C13, part 5 — the body-stream state machine of EVERY path through the five functions of
openapi3filter/validate_request.go (ValidateRequest, ValidateParameter, ValidateRequestBody,
ValidateSecurityRequirements, validateSecurityRequirement).

The translator table `Gen.c13BodyFlow` (go/cmd/extract/c13bodyflow.go) is the control-flow skeleton of these
functions, regenerated from the source on every run: reads of the body, the "Put the data back into the input" blocks,
the default rewrite, the deferred restore, calls of the user's authentication callback, calls among the five
functions, every `return` / `continue` / `break`, with the if / switch / loop structure kept.

This file gives the skeleton a semantics (`Exec`: all paths — both arms of every `if` whose condition the skeleton does
not keep, any number of loop iterations, a callback that reads the body or does not), an abstract interpreter
(`postL`: the set of stream states that can reach each point) and the soundness theorem `post_sound`: if the
interpreter accepts a function, then on EVERY path every `return` (early or final) leaves the body restored or under a
registered deferred restore, every callback and every call of another function of the table starts with the whole
body in place, and nothing the translator could not read is executed.  Props/C13.lean runs the interpreter on the
regenerated table by `decide`.

Stream state of one function activation:
  present  — the request has a body (`Body != nil && Body != http.NoBody`); fixed during the activation;
  dirty    — the body may have been consumed (read by validation or by a callback) and has not been put back since;
  deferred — a deferred restore has been registered;
  hasData  — `data != nil`: the body has been read into `data`.
Trusted: `io.ReadAll` on the body succeeds (the on-error arm of a read is only required to end in `return`); a
function of the table that is entered with the body in place returns with the body in place (this is what the
interpreter establishes for each of them; the call graph of the five functions has no cycle).
-/
import KinModel.Gen.C13BodyFlow
namespace KinModel.C13.Flow
open KinModel.Gen

structure FSt where
  present : Bool
  dirty : Bool
  deferred : Bool
  hasData : Bool
  deriving DecidableEq, Repr

/-- how a statement list is left -/
inductive Out
  | fall (s : FSt)                 -- off its end
  | ret (line : Nat) (s : FSt)     -- `return` at that source line
  | cont (s : FSt)
  | brk (s : FSt)
  | bad                            -- something the property forbids happened (see `Exec`)
  deriving Repr

def Out.isFall : Out → Bool | .fall _ => true | _ => false

/-- the body is not in place: it exists and may have been consumed -/
def FSt.exposed (s : FSt) : Bool := s.present && s.dirty

/-- the arms an `if` can take in a state -/
def branches : FlowStmt → FSt → List (List FlowStmt)
  | .ifElse _ t e, _ => [t, e]
  | .ifBody _ t e, s => if s.present then [t] else [e]
  | .ifData _ t e, s => if s.hasData then [t] else [e]
  | _, _ => []

/-- all paths of the skeleton -/
inductive Exec : List FlowStmt → FSt → Out → Prop
  | nil (s) : Exec [] s (.fall s)
  | read (l oe r s o) : Exec r { s with dirty := true, hasData := true } o → Exec (.read l oe :: r) s o
  | restore (l r s o) : Exec r { s with dirty := false } o → Exec (.restore l :: r) s o
  | install (l r s o) : Exec r { s with dirty := false } o → Exec (.install l :: r) s o
  | callbackExposed (l r s) : s.exposed = true → Exec (.callback l :: r) s .bad
  | callbackReads (l r s o) : s.present = true → Exec r { s with dirty := true } o → Exec (.callback l :: r) s o
  | callbackIgnores (l r s o) : Exec r s o → Exec (.callback l :: r) s o
  | deferRestore (l r s o) : Exec r { s with deferred := true } o → Exec (.deferRestore l :: r) s o
  | deferClose (l r s o) : Exec r s o → Exec (.deferClose l :: r) s o
  | callExposed (f l r s) : s.exposed = true → Exec (.call f l :: r) s .bad
  | call (f l r s o) : Exec r s o → Exec (.call f l :: r) s o
  | ret (l r s) : Exec (.ret l :: r) s (.ret l s)
  | cont (l r s) : Exec (.cont l :: r) s (.cont s)
  | brk (l r s) : Exec (.brk l :: r) s (.brk s)
  | unrecognised (site r s) : Exec (.unrecognised site :: r) s .bad
  | branchFall (x r s blk s' o) : blk ∈ branches x s → Exec blk s (.fall s') → Exec r s' o → Exec (x :: r) s o
  | branchStop (x r s blk o) : blk ∈ branches x s → Exec blk s o → o.isFall = false → Exec (x :: r) s o
  | loopExit (l b r s o) : Exec r s o → Exec (.loop l b :: r) s o
  | loopNextFall (l b r s s' o) : Exec b s (.fall s') → Exec (.loop l b :: r) s' o → Exec (.loop l b :: r) s o
  | loopNextCont (l b r s s' o) : Exec b s (.cont s') → Exec (.loop l b :: r) s' o → Exec (.loop l b :: r) s o
  | loopBrk (l b r s s' o) : Exec b s (.brk s') → Exec r s' o → Exec (.loop l b :: r) s o
  | loopRet (l b r s ln s') : Exec b s (.ret ln s') → Exec (.loop l b :: r) s (.ret ln s')
  | loopBad (l b r s) : Exec b s .bad → Exec (.loop l b :: r) s .bad

/-- Spec (from the property text: "after request validation returns, successfully or not, the request body can still
    be read in full"): a path is fine if it ends in a `return` (or at the end of the function) with the body in place
    or about to be put back by a registered deferred restore — and never does what `bad` stands for. -/
def Protected : Out → Prop
  | .ret _ s => s.exposed = true → s.deferred = true
  | .fall s => s.exposed = true → s.deferred = true
  | .cont _ => False
  | .brk _ => False
  | .bad => False

/-! ### the abstract interpreter -/

abbrev SS := List FSt

/-- a state as a number (the kernel compares numbers fast) -/
def FSt.code (s : FSt) : Nat :=
  (if s.present then 8 else 0) + (if s.dirty then 4 else 0) + (if s.deferred then 2 else 0) + (if s.hasData then 1 else 0)

def mem (s : FSt) (A : SS) : Bool := A.any (fun t => t.code == s.code)

def insert (s : FSt) (A : SS) : SS := if mem s A then A else A ++ [s]

/-- union without duplicates (given that `A` has none) -/
def union (A B : SS) : SS := B.foldl (fun acc s => insert s acc) A

def subset (A B : SS) : Bool := A.all (fun s => mem s B)

structure Res where
  fall : SS
  cont : SS
  brk : SS
  deriving Repr

def Res.join (a b : Res) : Res := ⟨union a.fall b.fall, union a.cont b.cont, union a.brk b.brk⟩

def joinOpt : Option Res → Option Res → Option Res
  | some a, some b => some (a.join b)
  | _, _ => none

/-- sequencing: what the head leaves by `continue`/`break` stays, what falls through goes on -/
def seqOpt (a : Option Res) (k : SS → Option Res) : Option Res :=
  match a with
  | none => none
  | some a => match k a.fall with
    | none => none
    | some b => some ⟨b.fall, union a.cont b.cont, union a.brk b.brk⟩

/-- `k s`, with `s` evaluated first (so that evaluators without sharing — the elaborator's `whnf`, used when a
    `decide` has to explain a failure — do not evaluate it once per use) -/
def forceSt (s : FSt) (k : FSt → α) : α :=
  match s with
  | ⟨true, true, true, true⟩ => k ⟨true, true, true, true⟩
  | ⟨true, true, true, false⟩ => k ⟨true, true, true, false⟩
  | ⟨true, true, false, true⟩ => k ⟨true, true, false, true⟩
  | ⟨true, true, false, false⟩ => k ⟨true, true, false, false⟩
  | ⟨true, false, true, true⟩ => k ⟨true, false, true, true⟩
  | ⟨true, false, true, false⟩ => k ⟨true, false, true, false⟩
  | ⟨true, false, false, true⟩ => k ⟨true, false, false, true⟩
  | ⟨true, false, false, false⟩ => k ⟨true, false, false, false⟩
  | ⟨false, true, true, true⟩ => k ⟨false, true, true, true⟩
  | ⟨false, true, true, false⟩ => k ⟨false, true, true, false⟩
  | ⟨false, true, false, true⟩ => k ⟨false, true, false, true⟩
  | ⟨false, true, false, false⟩ => k ⟨false, true, false, false⟩
  | ⟨false, false, true, true⟩ => k ⟨false, false, true, true⟩
  | ⟨false, false, true, false⟩ => k ⟨false, false, true, false⟩
  | ⟨false, false, false, true⟩ => k ⟨false, false, false, true⟩
  | ⟨false, false, false, false⟩ => k ⟨false, false, false, false⟩

/-- `k S`, with the list and its elements evaluated first -/
def forceSS : SS → (SS → α) → α
  | [], k => k []
  | s :: r, k => forceSt s (fun s' => forceSS r (fun r' => k (s' :: r')))

/-- image of a state set, without duplicates -/
def image (f : FSt → FSt) (S : SS) : SS := union [] (S.map f)

def retOK (S : SS) : Bool := S.all (fun s => !s.exposed || s.deferred)

def noneExposed (S : SS) : Bool := S.all (fun s => !s.exposed)

def endsInRet : List FlowStmt → Bool
  | [] => false
  | [.ret _] => true
  | [_] => false
  | _ :: r => endsInRet r

def loopStep (f : SS → Option Res) (I : SS) : Option SS :=
  forceSS I (fun I => (f I).map (fun rb => union I (rb.fall ++ rb.cont)))

def iter (f : SS → Option Res) : Nat → SS → Option SS
  | 0, I => some I
  | n + 1, I => (loopStep f I).bind (iter f n)

/-- a loop: grow the entry set by what the body hands to the next iteration (four rounds), demand that the result is
    closed under the body (otherwise the interpreter gives up), leave with it or by `break` -/
def loopRes (f : SS → Option Res) (S : SS) : Option Res :=
  (iter f 4 S).bind (fun I => forceSS I (fun I => (f I).bind (fun rb =>
    if subset (rb.fall ++ rb.cont) I then some ⟨union I rb.brk, [], []⟩ else none)))

mutual
def postS : FlowStmt → SS → Option Res
  | .read _ oe, S => if endsInRet oe then some ⟨image (fun s => { s with dirty := true, hasData := true }) S, [], []⟩ else none
  | .restore _, S => some ⟨image (fun s => { s with dirty := false }) S, [], []⟩
  | .install _, S => some ⟨image (fun s => { s with dirty := false }) S, [], []⟩
  | .callback _, S =>
    if noneExposed S then some ⟨union S ((S.filter (·.present)).map (fun s => { s with dirty := true })), [], []⟩ else none
  | .deferRestore _, S => some ⟨image (fun s => { s with deferred := true }) S, [], []⟩
  | .deferClose _, S => some ⟨S, [], []⟩
  | .call _ _, S => if noneExposed S then some ⟨S, [], []⟩ else none
  | .ret _, S => if retOK S then some ⟨[], [], []⟩ else none
  | .cont _, S => some ⟨[], S, []⟩
  | .brk _, S => some ⟨[], [], S⟩
  | .ifElse _ t e, S => joinOpt (postL t S) (postL e S)
  | .ifBody _ t e, S => joinOpt (postL t (S.filter (·.present))) (postL e (S.filter (fun s => !s.present)))
  | .ifData _ t e, S => joinOpt (postL t (S.filter (·.hasData))) (postL e (S.filter (fun s => !s.hasData)))
  | .loop _ b, S => loopRes (fun I => postL b I) S
  | .unrecognised _, _ => none
def postL : List FlowStmt → SS → Option Res
  | [], S => some ⟨S, [], []⟩
  | x :: r, S => forceSS S (fun S => seqOpt (postS x S) (fun S' => postL r S'))
end

/-- the two ways a function of the table is entered: with and without a request body, nothing read yet -/
def entryStates : SS := [⟨true, false, false, false⟩, ⟨false, false, false, false⟩]

/-- the interpreter accepts a function: every return is protected, and so is its end; no stray continue/break -/
def accepts (body : List FlowStmt) : Bool :=
  match postL body entryStates with
  | some r => retOK r.fall && r.cont.isEmpty && r.brk.isEmpty
  | none => false

/-! ### shape of the table (what the hand-written stream model KinModel/C13Stream.lean relies on) -/

mutual
def countS (p : FlowStmt → Bool) : FlowStmt → Nat
  | .read l oe => (if p (.read l []) then 1 else 0) + countL p oe
  | .ifElse _ t e => countL p t + countL p e
  | .ifBody _ t e => countL p t + countL p e
  | .ifData _ t e => countL p t + countL p e
  | .loop _ b => countL p b
  | x => if p x then 1 else 0
def countL (p : FlowStmt → Bool) : List FlowStmt → Nat
  | [] => 0
  | x :: r => countS p x + countL p r
end

def isRead : FlowStmt → Bool | .read _ _ => true | _ => false
def isRestore : FlowStmt → Bool | .restore _ => true | _ => false
def isInstall : FlowStmt → Bool | .install _ => true | _ => false
def isDeferRestore : FlowStmt → Bool | .deferRestore _ => true | _ => false
def isCallback : FlowStmt → Bool | .callback _ => true | _ => false
def isRet : FlowStmt → Bool | .ret _ => true | _ => false
def isUnrecognised : FlowStmt → Bool | .unrecognised _ => true | _ => false

/-- (reads, restores, installs, deferred restores, callbacks, returns, unrecognised) of a function -/
def census (body : List FlowStmt) : List Nat :=
  [countL isRead body, countL isRestore body, countL isInstall body, countL isDeferRestore body,
   countL isCallback body, countL isRet body, countL isUnrecognised body]

end KinModel.C13.Flow
