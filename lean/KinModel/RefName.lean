/-
Model of openapi3.DefaultRefNameResolver (openapi3/internalize_refs.go l.30-112), cutDirectories (l.116-138)
and ReferencesComponentInRootDocument with its helpers (openapi3/helpers.go), on character lists.

Followed branch by branch:
  * panic when the $ref text is empty or RefPath() is nil;
  * ReferencesComponentInRootDocument: case 1 (remote element reference that names `#/components/<coll>` and whose
    RefPath, fragment dropped, is the root document), early exit when the root has no components, case 2 (a root
    component of the same collection that is a whole-document reference to the same location);
  * strings.Cut of the fragment at `components/<coll>` and path.Join of the two halves;
  * "same as the root document" → empty file path; the path.Ext stripping loop; the common-directory loop
    (break at ".", break when cutDirectories reports found, break at the fixed point of path.Dir — the repair of #18);
  * strings.TrimLeft "./" of both parts, "_" between them, InvalidIdentifierCharRegExp → "_".
Go library functions modelled here (trusted correspondence, exercised by the differential run):
path.Dir/path.Ext/path.Clean/path.Join, strings.Cut/TrimLeft/TrimRight/TrimPrefix/TrimSuffix/Split, url.URL.String
equality (both URLs have only Path and Fragment set: equal iff those are equal).
The loops carry fuel; `Props/C16.lean` proves the fuel supplied by `defaultName` always suffices.
-/
namespace KinModel.RefName

abbrev Str := List Char

-- ---------------------------------------------------------------- strings

def isPrefix : Str → Str → Bool
  | [], _ => true
  | _ :: _, [] => false
  | a :: as, b :: bs => a == b && isPrefix as bs

def trimPrefix (s pre : Str) : Str := if isPrefix pre s then s.drop pre.length else s

def trimSuffix (s suf : Str) : Str :=
  if isPrefix suf.reverse s.reverse then s.take (s.length - suf.length) else s

def trimLeft (s : Str) (cut : Char → Bool) : Str := s.dropWhile cut
def trimRight (s : Str) (cut : Char → Bool) : Str := (s.reverse.dropWhile cut).reverse

def dotSlash (c : Char) : Bool := c == '.' || c == '/'
def isSlash (c : Char) : Bool := c == '/'

/-- strings.Index-style search: `findSub sep s = some (before, after)` at the first occurrence -/
def findSub (sep : Str) : Str → Option (Str × Str)
  | [] => if sep.isEmpty then some ([], []) else none
  | c :: cs =>
    if isPrefix sep (c :: cs) then some ([], (c :: cs).drop sep.length)
    else match findSub sep cs with
      | some (b, a) => some (c :: b, a)
      | none => none

def contains (s sub : Str) : Bool := (findSub sub s).isSome

/-- strings.Split(s, "/") -/
def splitSlash : Str → List Str
  | [] => [[]]
  | c :: cs =>
    match splitSlash cs with
    | [] => [[c]]   -- unreachable: splitSlash never returns []
    | seg :: rest => if c == '/' then [] :: seg :: rest else (c :: seg) :: rest

def joinSlash : List Str → Str
  | [] => []
  | [s] => s
  | s :: rest => s ++ '/' :: joinSlash rest

-- ---------------------------------------------------------------- package path

/-- path.Clean -/
def cleanSegs (rooted : Bool) : List Str → List Str → List Str
  | acc, [] => acc.reverse
  | acc, seg :: rest =>
    if seg.isEmpty || seg == ['.'] then cleanSegs rooted acc rest
    else if seg == ['.', '.'] then
      match acc with
      | [] => if rooted then cleanSegs rooted [] rest else cleanSegs rooted [seg] rest
      | top :: acc' => if top == ['.', '.'] then cleanSegs rooted (seg :: acc) rest else cleanSegs rooted acc' rest
    else cleanSegs rooted (seg :: acc) rest

def pathClean (p : Str) : Str :=
  if p.isEmpty then ['.'] else
  let rooted := p.head? == some '/'
  let body := joinSlash (cleanSegs rooted [] (splitSlash p))
  let r := if rooted then '/' :: body else body
  if r.isEmpty then ['.'] else r

/-- path.Join of two elements (empty elements are ignored; all empty → "") -/
def pathJoin2 (a b : Str) : Str :=
  if a.isEmpty && b.isEmpty then []
  else if a.isEmpty then pathClean b
  else if b.isEmpty then pathClean a
  else pathClean (a ++ '/' :: b)

/-- the part of `p` up to and including the last slash ("" when there is none) -/
def uptoLastSlash (p : Str) : Str := (p.reverse.dropWhile (fun c => c != '/')).reverse

/-- path.Dir -/
def pathDir (p : Str) : Str := pathClean (uptoLastSlash p)

/-- path.Dir on a CLEAN path (no empty, "." or ".." segments — what path.Join produces and what the loader stores):
    no slash → "."; only the leading slash → "/"; otherwise everything before the last slash. On clean paths this is
    `pathDir`; the common-directory loop only ever sees the directory of the root document's location and its
    ancestors. -/
def dirC (p : Str) : Str :=
  let pre := uptoLastSlash p
  if pre.isEmpty then ['.'] else if pre == ['/'] then ['/'] else pre.dropLast

/-- path.Ext: from the last '.' of the last segment -/
def extRev : Str → Str → Str      -- scanning the reversed path; acc = what was scanned (in forward order)
  | _, [] => []
  | acc, c :: cs => if c == '/' then [] else if c == '.' then '.' :: acc else extRev (c :: acc) cs

def pathExt (p : Str) : Str := extRev [] p.reverse

-- ---------------------------------------------------------------- helpers.go

def identChar (c : Char) : Bool := c.isAlphanum || c == '.' || c == '_' || c == '-'

/-- InvalidIdentifierCharRegExp.ReplaceAllString(name, "_") -/
def sanitize (s : Str) : Str := s.map (fun c => if identChar c then c else '_')

def isWholeDocumentReference (ref : Str) : Bool := !ref.isEmpty && !ref.contains '#'
def isElementReference (ref : Str) : Bool := !ref.isEmpty && !isWholeDocumentReference ref
def isURLReference (ref : Str) : Bool :=
  isPrefix "http://".toList ref || isPrefix "https://".toList ref || isPrefix "//".toList ref
def isRemoteReference (ref : Str) : Bool := !ref.isEmpty && !isPrefix ['#'] ref && !isURLReference ref
def compPrefix (coll : Str) : Str := "#/components/".toList ++ coll     -- path.Join("#/components/", coll)
def isRootComponentReference (ref coll : Str) : Bool := isElementReference ref && contains ref (compPrefix coll)

/-- what the resolver reads of a reference: `$ref` text, RefPath() (none = nil) as (Path, Fragment), collection -/
structure RefInfo where
  ref : Str
  refPath : Option (Str × Str)
  coll : Str
  deriving DecidableEq, Repr

/-- what it reads of the root document: its location (none = loaded from memory), whether it has a components
section and, for the collection at hand, the components in iteration order as (name, $ref text, RefPath) -/
structure RootInfo where
  url : Option Str
  hasComponents : Bool
  comps : List (Str × Str × Option (Str × Str))
  deriving Repr

def referencesRootDocument (root : RootInfo) (r : RefInfo) : Bool :=
  match root.url, r.refPath with
  | some u, some (p, _) => u == p
  | _, _ => false

def sameDocument (a b : Option (Str × Str)) : Bool :=
  match a, b with
  | some x, some y => x == y
  | _, _ => false

/-- ReferencesComponentInRootDocument; the Bool tells that case 2 had more than one candidate (Go iterates a map:
    which one is returned is not determined) -/
def referencesComponentInRoot (root : RootInfo) (r : RefInfo) : Option Str × Bool :=
  if r.ref.isEmpty then (none, false)
  else if isRemoteReference r.ref && isRootComponentReference r.ref r.coll && referencesRootDocument root r then
    let name := match findSub (compPrefix r.coll) r.ref with | some (_, a) => a | none => []
    (some (pathClean (compPrefix r.coll ++ '/' :: name)), false)
  else if !root.hasComponents then (none, false)
  else
    let cands := root.comps.filter (fun c => isWholeDocumentReference c.2.1 && sameDocument c.2.2 r.refPath)
    match cands with
    | [] => (none, false)
    | c :: rest => (some (pathClean (compPrefix r.coll ++ '/' :: c.1)), !rest.isEmpty)

-- ---------------------------------------------------------------- internalize_refs.go

/-- the accumulate-and-compare loop of cutDirectories over strings.Split(p, "/") -/
def cutLoop (p dirs : Str) : Str → List Str → Str × Bool
  | _, [] => (p, false)
  | sb, seg :: rest =>
    let sb' := sb ++ seg
    if sb' == p then (trimPrefix p dirs, true) else cutLoop p dirs (sb' ++ ['/']) rest

def cutDirectories (p dirs : Str) : Str × Bool :=
  if dirs.isEmpty || p.isEmpty then (p, false)
  else
    let p' := trimRight p isSlash
    let dirs' := trimRight dirs isSlash
    cutLoop p' dirs' [] (splitSlash p')

/-- `for ext := path.Ext(f); len(ext) > 0; ext = path.Ext(f) { f = strings.TrimSuffix(f, ext) }` -/
def extLoop : Nat → Str → Option Str
  | 0, _ => none
  | n + 1, f =>
    let e := pathExt f
    -- path.Ext returns a suffix of f, so strings.TrimSuffix(f, ext) removes exactly len(ext) bytes
    if e.isEmpty then some f else extLoop n (f.take (f.length - e.length))

/-- the common-directory loop -/
def trimLoop : Nat → Str → Str → Option Str
  | 0, _, _ => none
  | n + 1, f, commonDir =>
    if commonDir == ['.'] then some f
    else match cutDirectories f commonDir with
      | (p, true) => some p
      | (_, false) =>
        let parent := dirC commonDir
        if parent == commonDir then some f else trimLoop n f parent

inductive NameRes
  | name (s : Str) (ambiguous : Bool)
  | panic          -- "unable to resolve reference to name", or nil doc.url dereferenced after a root match
  | fuel           -- a loop did not end within the supplied fuel (proved impossible)
  deriving DecidableEq, Repr

def cutComponents (coll componentPath : Str) : Str :=
  match findSub ("components/".toList ++ coll) componentPath with
  | some (b, a) => pathJoin2 b a
  | none => componentPath

def assemble (filePath componentPath : Str) : Str :=
  let n1 := if filePath.isEmpty then [] else trimLeft filePath dotSlash
  let n2 := if componentPath.isEmpty then n1
            else (if n1.isEmpty then [] else n1 ++ ['_']) ++ trimLeft componentPath dotSlash
  sanitize n2

/-- "If the path is the same as the root doc, just remove." -/
def sameAsRoot (root : RootInfo) (filePath : Str) : Str :=
  match root.url with
  | some u => if filePath == u then [] else filePath
  | none => filePath

/-- "Trim the common prefix with the root doc path." (only when the root has a location) -/
def trimCommon (root : RootInfo) (f : Str) : Option Str :=
  match root.url with
  | none => some f
  | some u => trimLoop ((dirC u).length + 2) f (dirC u)

def fileNamePart (root : RootInfo) (filePath : Str) : Option Str :=
  if filePath.isEmpty then some [] else
  match extLoop ((sameAsRoot root filePath).length + 1) (sameAsRoot root filePath) with
  | none => none
  | some f2 => trimCommon root f2

/-- the location the name is derived from: the root component's location when the reference matches one -/
def nameTarget (root : RootInfo) (rp : Str × Str) (inRoot : Option Str) : Option (Str × Str) :=
  match inRoot with
  | some nameInRoot => (match root.url with | some u => some (u, trimPrefix nameInRoot ['#']) | none => none)
  | none => some rp

def nameOf (root : RootInfo) (coll : Str) (amb : Bool) (nm : Option (Str × Str)) : NameRes :=
  match nm with
  | none => .panic
  | some (filePath, componentPath) =>
    match fileNamePart root filePath with
    | none => .fuel
    | some fp => .name (assemble fp (cutComponents coll componentPath)) amb

def defaultName (root : RootInfo) (r : RefInfo) : NameRes :=
  if r.ref.isEmpty then .panic else
  match r.refPath with
  | none => .panic
  | some rp =>
    let q := referencesComponentInRoot root r
    nameOf root r.coll q.2 (nameTarget root rp q.1)

end KinModel.RefName
