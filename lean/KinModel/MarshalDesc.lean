/-
C03 — descriptor vocabulary of the generic marshal/unmarshal model.
The table `KinModel.Gen.descriptors` (regenerated from the repository on every run by
`go/cmd/extract/descriptors.go`) is a `List Desc`; the model itself is `KinModel/Marshal.lean`.
-/
namespace KinModel.Marshal

/-- Go type class of a struct field: decides the zero value and what JSON `null` does.
    `ptypes` = `*Types`: nil and the empty list both say "no type" (`Types.MarshalYAML` writes both as nil);
    other pointers to slices (`*SecurityRequirements`, `*Servers`) are `ptr`: their empty list is a value. -/
inductive TC | str | bool | uint | ptr | ptypes | slice | map | nmap | iface | value | addProps | unknown
  deriving DecidableEq, Repr, Inhabited

/-- class of the condition guarding `m["k"] = x` in a map-building marshaller.
    `neNilLenNe0` = `x != nil && len(*x) != 0`;
    `orEmpty` = `if x != nil { m[k] = x } else { m[k] = T{} }` (written always; a nil map is written as `{}`). -/
inductive Guard
  | always | neEmptyStr | isTrue | neZero | neNil | lenNe0 | neNilLenNe0 | orEmpty | addProps | unknown (txt : String)
  deriving DecidableEq, Repr, Inhabited

/-- what a field's value is, as far as the round trip is concerned -/
inductive Shape
  | leaf                     -- plain JSON (strings, numbers, `any`, []string, map[string]string, …)
  | strLeaf                  -- a string inside a named map type (null entry ↦ "")
  | kind (n : String)        -- a struct kind of the table (or an alias of one)
  | ref (n : String)         -- a `XRef` wrapper (row `n` of the table names the value's shape)
  | maplike (n : String)     -- Paths / Responses / Callback
  | list (s : Shape)
  | map (s : Shape)          -- Go map decoded by encoding/json
  | pmap (s : Shape)         -- named map type decoded by unmarshalStringMapP (null entry ↦ zero value)
  | types                    -- openapi3.Types: one string or a list of strings
  | addProps                 -- AdditionalProperties: bool or schema
  | unknown (txt : String)
  deriving DecidableEq, Repr, Inhabited

/-- `namedMap`: a named map type whose `UnmarshalJSON` is `unmarshalStringMap(P)`; `special`: a hand-modelled
    piece (`Types`, `AdditionalProperties`, the string-map helpers) whose source text is compared with the text the
    model was written from -/
inductive Template | struct | ref | maplike | alias | namedMap | special
  deriving DecidableEq, Repr, Inhabited

structure Field where
  key : String
  goName : String
  tc : TC
  shape : Shape
  deriving DecidableEq, Repr, Inhabited

structure MField where
  key : String
  goName : String
  guard : Guard
  deriving DecidableEq, Repr, Inhabited

structure Desc where
  name : String
  template : Template
  /-- tagged struct fields, sorted by json key -/
  fields : List Field
  /-- `m["key"] = recv.goName` statements of the marshaller, sorted by key -/
  marsh : List MField
  /-- `delete(x.Extensions, "k")` statements of the unmarshaller, sorted -/
  dels : List String
  /-- ref wrapper: shape of `Value`; map-like: shape of the entry map; alias: the embedded kind -/
  valueShape : Shape
  extCopy : Bool
  refEarly : Bool
  unmExt : Bool
  assignBack : Bool
  delegates : Bool
  hasMarsh : Bool
  hasUnm : Bool
  /-- ref wrapper / map-like / alias: the methods are instances of the one template -/
  uniform : Bool
  /-- ref wrapper: `Value.MarshalYAML` tolerates a nil `Value` (pointer receiver with a nil check) -/
  valueNilSafe : Bool
  post : List String
  unrecognised : List String
  deriving Repr, Inhabited

end KinModel.Marshal
