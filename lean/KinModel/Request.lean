/-
Model of openapi3filter.ValidateRequest's orchestration (openapi3filter/validate_request.go,
`ValidateRequest`, `ValidateSecurityRequirements`, `validateSecurityRequirement`).

What is modelled, branch by branch:
  * security list = operation's list if the operation has one (even an empty one), else the document's;
    empty list passes; otherwise requirements are tried in order, the first satisfied one wins;
    inside one requirement the scheme names are visited in sorted order; an undeclared scheme fails the
    requirement without calling the authentication function; the first failing call ends the requirement;
  * path-level parameters in document order, skipping query parameters when ExcludeRequestQueryParams is set
    and skipping those overridden (same `in` and `name`) by an operation parameter;
  * operation parameters in document order, skipping query parameters when ExcludeRequestQueryParams is set;
  * request body unless absent or ExcludeRequestBody;
  * fail-first returns at the first failing part, MultiError collects all failing parts in that order.
What is abstracted: the verdict of ValidateParameter / ValidateRequestBody for this request (`ok`, `bodyOK`
are inputs) and the authentication callback's verdict per scheme (`auth`).
-/
namespace KinModel.Request

inductive In | path | query | header | cookie
  deriving DecidableEq, Repr

structure Param where
  name : String
  loc  : In
  ok   : Bool
  deriving DecidableEq, Repr

abbrev Requirement := List String

structure Opts where
  excludeBody  : Bool := false
  excludeQuery : Bool := false
  multiError   : Bool := false
  deriving Repr

structure Op where
  opParams    : List Param
  pathParams  : List Param
  opSecurity  : Option (List Requirement)
  docSecurity : List Requirement
  hasBody     : Bool
  bodyOK      : Bool

inductive Part | security | param (p : Param) | body
  deriving DecidableEq, Repr

/-- insertion into a sorted list (structural, so that `decide` can evaluate concrete instances) -/
def insertName (s : String) : List String → List String
  | [] => [s]
  | x :: xs => if s ≤ x then s :: x :: xs else x :: insertName s xs

/-- `sort.Strings(names)` of validateSecurityRequirement -/
def sortNames (r : Requirement) : List String := r.foldr insertName []

/-- one requirement: (verdict, authentication calls made) -/
def runReq (declared auth : String → Bool) : List String → Bool × List String
  | [] => (true, [])
  | s :: rest =>
    if !declared s then (false, [])
    else if !auth s then (false, [s])
    else let (b, l) := runReq declared auth rest; (b, s :: l)

/-- the requirement list: (verdict, authentication calls made) -/
def runReqs (declared auth : String → Bool) : List Requirement → Bool × List String
  | [] => (false, [])
  | r :: rest =>
    let (b, l) := runReq declared auth (sortNames r)
    if b then (true, l) else let (b', l') := runReqs declared auth rest; (b', l ++ l')

def securityList (op : Op) : List Requirement :=
  match op.opSecurity with | some rs => rs | none => op.docSecurity

def runSecurity (declared auth : String → Bool) (op : Op) : Bool × List String :=
  match securityList op with
  | [] => (true, [])
  | rs => runReqs declared auth rs

def overridden (opParams : List Param) (p : Param) : Bool :=
  opParams.any (fun q => q.name = p.name && q.loc = p.loc)

def skipQuery (o : Opts) (p : Param) : Bool := o.excludeQuery && p.loc = In.query

/-- the parameters handed to ValidateParameter, in the order of the calls -/
def visitedParams (o : Opts) (op : Op) : List Param :=
  (op.pathParams.filter (fun p => !skipQuery o p && !overridden op.opParams p)) ++
  (op.opParams.filter (fun p => !skipQuery o p))

def bodyChecked (o : Opts) (op : Op) : Bool := op.hasBody && !o.excludeBody

/-- the failing parts in the order the code meets them -/
def failing (o : Opts) (op : Op) (declared auth : String → Bool) : List Part :=
  (if (runSecurity declared auth op).1 then [] else [Part.security]) ++
  ((visitedParams o op).filter (fun p => !p.ok)).map Part.param ++
  (if bodyChecked o op && !op.bodyOK then [Part.body] else [])

inductive Res | ok | err (parts : List Part)
  deriving DecidableEq, Repr

def validateRequest (o : Opts) (op : Op) (declared auth : String → Bool) : Res :=
  match failing o op declared auth with
  | [] => .ok
  | p :: ps => if o.multiError then .err (p :: ps) else .err [p]

def Res.isOk : Res → Bool | .ok => true | _ => false

/-- authentication calls observed during the whole validation -/
def authLog (declared auth : String → Bool) (op : Op) : List String := (runSecurity declared auth op).2

/-! ### Specification (written from the property text, independent of the control flow above) -/

def effective (o : Opts) (op : Op) : List Param :=
  (op.opParams ++ op.pathParams.filter (fun p => !overridden op.opParams p)).filter
    (fun p => !(o.excludeQuery && p.loc = In.query))

def SecSpec (declared auth : String → Bool) (op : Op) : Prop :=
  securityList op = [] ∨ ∃ r ∈ securityList op, ∀ s ∈ r, declared s = true ∧ auth s = true

/-- executable twin of `SecSpec` (used by the driver as the oracle) -/
def secSpecB (declared auth : String → Bool) (op : Op) : Bool :=
  (securityList op).isEmpty || (securityList op).any (fun r => r.all (fun s => declared s && auth s))

def Accept (o : Opts) (op : Op) (declared auth : String → Bool) : Prop :=
  SecSpec declared auth op ∧ (∀ p ∈ effective o op, p.ok = true) ∧
  (op.hasBody = true → o.excludeBody = false → op.bodyOK = true)

def acceptB (o : Opts) (op : Op) (declared auth : String → Bool) : Bool :=
  secSpecB declared auth op && (effective o op).all (·.ok) && (!(op.hasBody && !o.excludeBody) || op.bodyOK)

/-- the failing parts as the property describes them (a set; order irrelevant) -/
def failingSpec (o : Opts) (op : Op) (declared auth : String → Bool) : List Part :=
  (if secSpecB declared auth op then [] else [Part.security]) ++
  ((effective o op).filter (fun p => !p.ok)).map Part.param ++
  (if op.hasBody && !o.excludeBody && !op.bodyOK then [Part.body] else [])

end KinModel.Request
