import KinModel.Drv.C07
open Lean
namespace KinModel.Drv

def dispatch (j : Json) : Json :=
  match getStr j "p" with
  | "C07" => C07.handle j
  | p => Json.mkObj [("error", Json.str s!"unknown property {p}")]

end KinModel.Drv
