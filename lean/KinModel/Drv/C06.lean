import KinModel.Drv.Util
import KinModel.Body
import KinModel.BodyReq
open Lean
namespace KinModel.Drv.C06
open KinModel.Drv KinModel.Body

def parseTy (s : String) : Option Ty :=
  match s with
  | "string" => some .string | "integer" => some .integer | "number" => some .number
  | "boolean" => some .boolean | "object" => some .object | "array" => some .array | _ => none

def optBool (j : Json) (k : String) : Option Bool :=
  match j.getObjVal? k with | .ok (.bool b) => some b | _ => none

def optInt (j : Json) (k : String) : Option Int :=
  match j.getObjValAs? Int k with | .ok n => some n | _ => none

/-- value: null | bool | {"i":n} | {"h":n} | {"s":".."} | {"a":[..]} | {"o":[[k,v]..]} -/
partial def parseV (j : Json) : V :=
  match j with
  | .null => .null
  | .bool b => .bool b
  | _ =>
    match j.getObjVal? "i" with
    | .ok n => .int ((n.getInt?).toOption.getD 0)
    | _ =>
    match j.getObjVal? "h" with
    | .ok n => .half ((n.getInt?).toOption.getD 0)
    | _ =>
    match j.getObjVal? "s" with
    | .ok (.str s) => .str s.toList
    | _ =>
    match j.getObjVal? "a" with
    | .ok (.arr xs) => .arr (xs.toList.map parseV)
    | _ =>
    match j.getObjVal? "o" with
    | .ok (.arr kvs) => .obj (kvs.toList.filterMap fun kv =>
        match kv with | .arr #[.str k, v] => some (k.toList, parseV v) | _ => none)
    | _ => .null

/-- schema: {"ty","nullable","ro","wo","minLen","max","props":[[k,S]],"required":[..],"addl","items","not","oneOf",
"anyOf","allOf","dflt": value (null / absent = no default)} -/
partial def parseRS (j : Json) : RS :=
  let props := (getArr j "props").filterMap fun kv =>
    match kv with
    | .arr #[.str k, s] => some (k.toList, parseRS s)
    | _ => none
  let items := if isNull j "items" then none else some (parseRS (getD j "items" Json.null))
  let nt := if isNull j "not" then none else some (parseRS (getD j "not" Json.null))
  RS.mk (parseTy (getStr j "ty")) (getBool j "nullable") (getBool j "ro") (getBool j "wo") (getNat j "minLen")
    (optInt j "max") props ((strs (getArr j "required")).map String.toList) (optBool j "addl") items
    nt ((getArr j "oneOf").map parseRS) ((getArr j "anyOf").map parseRS) ((getArr j "allOf").map parseRS)
    { dflt := if isNull j "dflt" then none else some (parseV (getD j "dflt" Json.null)),
      minProps := getNat j "minProps",
      maxProps := if isNull j "maxProps" then none else some (getNat j "maxProps") }

def parseJsonView (j : Json) (k : String) : Option V :=
  if isNull j k then none else some (parseV (getD (getD j k Json.null) "v" Json.null))

def parseEnc (j : Json) : Str × Enc :=
  ((getStr j "name").toList, { style := (getStr j "style").toList, explode := optBool j "explode" })

def parseMT (j : Json) : Str × MediaType :=
  ((getStr j "key").toList,
   { schema := if isNull j "schema" then none else some (parseRS (getD j "schema" Json.null)),
     encs := (getArr j "encs").map parseEnc })

def parseCsvView (j : Json) (k : String) : Option (List (List Str)) :=
  if isNull j k then none else
    some ((getArr j k).map fun rec => match rec with
      | .arr fs => (strs fs.toList).map String.toList
      | _ => [])

def parsePart (j : Json) : Part :=
  { name := (getStr j "name").toList, ct := (getStr j "ct").toList, text := (getStr j "text").toList,
    json := parseJsonView j "json", yaml := parseJsonView j "yaml", csv := parseCsvView j "csv" }

def parseBody (j : Json) : BodyIn :=
  { text := (getStr j "text").toList,
    json := parseJsonView j "json",
    form := if isNull j "form" then none else
      some ((getArr j "form").filterMap fun kv =>
        match kv with
        | .arr #[.str k, .arr vs] => some (k.toList, (strs vs.toList).map String.toList)
        | _ => none),
    parts := if isNull j "parts" then none else some ((getArr j "parts").map parsePart),
    yaml := parseJsonView j "yaml",
    csv := parseCsvView j "csv" }

mutual
partial def vJson : V → Json
  | .null => Json.null
  | .bool b => Json.bool b
  | .int n => jobj [("i", Json.num (JsonNumber.fromInt n))]
  | .half n => jobj [("h", Json.num (JsonNumber.fromInt n))]
  | .str s => jobj [("s", Json.str (String.ofList s))]
  | .arr xs => jobj [("a", Json.arr (xs.map vJson).toArray)]
  | .obj kvs => jobj [("o", Json.arr (kvs.map fun (k, v) => Json.arr #[Json.str (String.ofList k), vJson v]).toArray)]
end

def outcomeStr : Outcome → String
  | .ok => "ok" | .missing => "missing" | .badCT => "badCT" | .decodeErr => "decodeErr"
  | .schemaErr => "schemaErr" | .panic => "panic" | .unmodelled => "unmodelled"

/-- which precedence level of `Content.Get` answered (for the branch statistics) -/
def ctLevel (c : List (Str × MediaType)) (mime : Str) : String :=
  if mime = [] then (if (lookup star c).isSome then "ct.empty.star" else "ct.empty.none") else
  if (lookup mime c).isSome then (if base mime = mime then "ct.exact" else "ct.exact.params") else
  if (lookup (base mime) c).isSome then "ct.base" else
  match majorType (base mime) with
  | none => "ct.noslash"
  | some t =>
    if (lookup (t ++ slashStar) c).isSome then "ct.typeStar"
    else if (lookup star c).isSome then "ct.star" else "ct.none"

partial def hasRO (s : RS) : Bool :=
  s.props.any (fun (_, p) => p.ro || hasRO p) || (match s.items with | some it => hasRO it | none => false) ||
  (match s.nt with | some n => hasRO n | none => false) || (s.oneOf ++ s.anyOf ++ s.allOf).any hasRO

/-- readOnly property declared inside a composition member (any depth) -/
partial def roInComp (inside : Bool) (s : RS) : Bool :=
  s.props.any (fun (_, p) => (inside && p.ro) || roInComp inside p) ||
  (match s.items with | some it => roInComp inside it | none => false) ||
  (match s.nt with | some n => roInComp true n | none => false) || (s.oneOf ++ s.anyOf ++ s.allOf).any (roInComp true)

partial def compKinds (s : RS) : List String :=
  (if s.nt.isSome then ["comp.not"] else []) ++ (if !s.oneOf.isEmpty then ["comp.oneOf"] else []) ++
  (if !s.anyOf.isEmpty then ["comp.anyOf"] else []) ++ (if !s.allOf.isEmpty then ["comp.allOf"] else []) ++
  (s.props.map (fun kp => compKinds kp.2)).flatten ++ (match s.items with | some it => compKinds it | none => []) ++
  ((s.oneOf ++ s.anyOf ++ s.allOf).map compKinds).flatten ++ (match s.nt with | some n => compKinds n | none => [])

/-- the `reqRO` guard of the injection loop is reached: a read-only property with a default whose key is absent
(looking through composition members, properties and items) -/
partial def roGuard (s : RS) (v : V) : Bool :=
  (match v with
   | .obj kvs =>
     s.props.any (fun (k, p) => (p.ro && p.dflt.isSome && (lookup k kvs).isNone) ||
       (match lookup k kvs with | some x => roGuard p x | none => false))
   | .arr xs => (match s.items with | some it => xs.any (roGuard it) | none => false)
   | _ => false) ||
  (s.oneOf ++ s.anyOf ++ s.allOf).any (fun m => roGuard m v)

partial def dfltKinds (s : RS) : List String :=
  (s.props.map (fun (_, p) =>
    (if p.dflt.isSome then [if p.ro then "dflt.on.readOnly" else if p.wo then "dflt.on.writeOnly" else "dflt.on.plain"] else []) ++
    dfltKinds p)).flatten ++
  (match s.items with | some it => dfltKinds it | none => []) ++
  (if hasDfltL s.oneOf || hasDfltL s.anyOf || hasDfltL s.allOf then ["dflt.in.composition"] else []) ++
  ((s.oneOf ++ s.anyOf ++ s.allOf).map dfltKinds).flatten

partial def hasCount (s : RS) : Bool :=
  s.minProps != 0 || s.maxProps.isSome || s.props.any (fun kp => hasCount kp.2) ||
  (match s.items with | some it => hasCount it | none => false) ||
  (match s.nt with | some n => hasCount n | none => false) || (s.oneOf ++ s.anyOf ++ s.allOf).any hasCount

def decLabel (reg : List (Str × DecK)) (ct : Str) : String :=
  match lookup (base ct) reg with
  | none => "dec.unsupported"
  | some .json => "dec.json" | some .plain => "dec.plain" | some .file => "dec.file"
  | some .urlencoded => "dec.form" | some .multipart => "dec.multipart"
  | some .yaml => "dec.yaml" | some .csv => "dec.csv"

def handle (j : Json) : Json :=
  let rb : ReqBody := { required := getBool j "required", content := (getArr j "content").map parseMT }
  let ct := (getStr j "ct").toList
  -- the state of the decoder registry: the history of Register/Unregister operations applied to the initial one
  let ops : List RegOp := (getArr j "regOps").filterMap fun o =>
    match o with
    | .arr #[.str "unregister", .str k] => some (.unregister k.toList)
    | .arr #[.str "register", .str k, .str d] =>
      (match d with
       | "json" => some DecK.json | "plain" => some DecK.plain | "file" => some DecK.file
       | "urlencoded" => some DecK.urlencoded | _ => none).map fun dk => RegOp.register k.toList dk
    | _ => none
  let reg := regApplyAll registry ops
  let b0 := parseBody (getD j "body" Json.null)
  -- the request object: kind of `Body`, `ContentLength`, whether it came with `GetBody` (absent: a stream)
  let sj := getD j "shape" Json.null
  let shape : ReqShape :=
    { body := (match getStr sj "body" with | "nil" => .nilBody | "nobody" => .noBody | _ => .stream),
      contentLength := getInt sj "clen" }
  -- model: the bytes the guard of the source lets the function read; spec: the body the request carries
  let b := dataRead guardSrc shape b0
  let bs := carried shape b0
  let exro := getBool j "exro"
  let ds := !(getBool j "skipDefaults")
  let out := validateRequestR guardSrc reg rb ct shape b0 exro ds
  let rep := getNat j "repeat"
  let repeated := validateRepeated guardSrc reg rb ct (getBool sj "getBody") b0 exro rep shape
  let neutral := caseNeutral reg rb ct b exro ds
  let twoPhase := ds && !neutral && caseCompFree reg rb ct b
  -- the request-side reading where defaults are neutral; the two-phase reading (completed value) for
  -- composition-free schemas whose defaults decide; elsewhere no specification applies
  let spec := if twoPhase then acceptDB reg rb ct bs exro ds else acceptB reg rb ct bs exro
  let excl :=
    (if exclFormUnparsable reg rb ct b then ["FormFieldUnparsable"] else [])
  let applies := neutral || twoPhase
  let reached := !(b.text = []) && !rb.content.isEmpty
  let sel := contentGet rb.content ct
  let decoding := reached && (match sel with | some mt => mt.schema.isSome | none => false)
  let dv := decodedValue reg rb ct b
  let specDv : Option V :=
    if decoding then
      (match firstSome rb.content (candidates ct) with
       | some mt => (match mt.schema with | some s => specDecode reg ct s mt.encs bs | none => none)
       | none => none)
    else none
  let branches :=
    (if b.text = [] then [if rb.required then "body.empty.required" else "body.empty.optional"] else []) ++
    (if !(b.text = []) && rb.content.isEmpty then ["content.undeclared"] else []) ++
    (if reached then [ctLevel rb.content ct] else []) ++
    (if reached && (match sel with | some mt => mt.schema.isNone | none => false) then ["schema.none"] else []) ++
    (if decoding then [decLabel reg ct] else []) ++
    (if out = .decodeErr then ["out.decodeErr"] else []) ++
    (if out = .schemaErr then ["out.schemaErr"] else []) ++
    (if !ds then ["opt.skipDefaults"] else []) ++
    (if decoding && out = .ok then ["out.validated"] else []) ++
    (match dv with
     | some (s, v) =>
       (if hasRO s then ["schema.readOnly"] else []) ++
       (if roInComp false s then ["schema.readOnly.inComposition"] else []) ++
       (compKinds s).eraseDups ++
       (if !(compKinds s).isEmpty && lookup (base ct) reg == some .urlencoded then ["form.composition"] else []) ++
       (if !s.allOf.isEmpty && lookup (base ct) reg == some .multipart then ["multipart.allOf"] else []) ++
       (if lookup (base ct) reg == some .urlencoded && !(sel.map (·.encs.isEmpty)).getD true then ["form.encoding"] else []) ++
       (if hasRO s && exro then ["opt.exro"] else []) ++
       (if visit exro s v != visit (!exro) s v then ["opt.exro.decides"] else []) ++
       (if hasCount s then ["schema.propertyCount"] else []) ++
       (if hasCount s && ds && firesD exro s v then ["dflt.fires.counted"] else []) ++
       (if hasDflt s then (if ds then ["dflt.declared"] else ["dflt.declared.skipped"]) else []) ++
       (if hasDflt s then (dfltKinds s).eraseDups else []) ++
       (if hasDflt s && ds && roGuard s v && !exro then ["dflt.readOnly.guarded"] else []) ++
       (if ds && firesD exro s v then
          ["dflt.fires", if defaultsNeutral exro s v then "dflt.fires.neutral"
                         else if compFree s then "dflt.fires.twoPhaseSpec" else "dflt.fires.specNA"] ++
          (if !(compFree s) then ["dflt.fires.composition"] else []) ++
          (if compFree s && !dfltsHarmless exro s then ["dflt.fires.requiredOrNonconforming"] else []) ++
          (if (visD true exro s v).isSome != visit exro s v then ["dflt.changesVerdict"] else [])
        else []) ++
       (match v with | .obj _ => ["val.obj"] | .arr _ => ["val.arr"] | .str _ => ["val.str"] | .null => ["val.null"] | _ => ["val.prim"])
     | none => []) ++
    (if !(b.text = []) && b.text.all (fun c => c == ' ' || c == '\n' || c == '\t' || c == '\r') then ["body.blank"] else []) ++
    (if !excl.isEmpty then ["excl"] else []) ++
    (if ops.isEmpty then [] else
      ["registry.changed"] ++
      (if lookup (base ct) reg != lookup (base ct) registry then ["registry.changed.routing"] else []) ++
      (if ops.length > 1 then ["registry.history"] else [])) ++
    (if getStr j "entry" == "request" then ["entry.ValidateRequest"] else []) ++
    (if isNull j "shape" then [] else
      [match shape.body with | .stream => "req.stream" | .nilBody => "req.nilBody" | .noBody => "req.noBody"] ++
      (if shape.body = .stream && shape.contentLength = 0 && !(b0.text = []) then ["req.lengthUnknown.zero"] else []) ++
      (if shape.contentLength < 0 then ["req.lengthUnknown.negative"] else []) ++
      (if shape.body = .stream && shape.contentLength > 0 && shape.contentLength != b0.text.length then ["req.lengthWrong"] else []) ++
      (if shape.body != .stream && !(b0.text = []) then ["req.bytesNotCarried"] else []) ++
      (if rep > 0 then ["req.repeated"] else [])) ++
    (if !formEncsWF reg rb ct b then ["form.encs.notWF"] else [])
  if out = .unmodelled then
    jobj [("error", Json.str "case outside the model (nested form decoder, default below `not`): generator must not produce it")]
  else if !caseWF reg rb ct b then
    jobj [("error", Json.str "duplicate keys in a properties map or in an object value: generator must not produce it")]
  else
  jobj [
    ("model", jobj [("outcome", Json.str (outcomeStr out)), ("ok", Json.bool out.isOk),
                    ("decoding", Json.bool decoding),
                    ("repeated", jstrs (repeated.map outcomeStr)),
                    ("decoded", match dv with | some (_, v) => jobj [("v", vJson v)] | none => Json.null)]),
    ("spec", jobj [("accept", Json.bool spec), ("applies", Json.bool applies),
                   ("decoded", match specDv with | some v => jobj [("v", vJson v)] | none => Json.null)]),
    ("excl", jstrs excl),
    ("branches", jstrs branches)]

end KinModel.Drv.C06
