import KinModel.Drv.Util
import KinModel.Reads
import KinModel.ReadsMedium
import Std.Data.HashMap
open Lean
namespace KinModel.Drv.C11
open KinModel.Drv KinModel.Reads

/-- path text → (rooted, segments) -/
def parsePath (p : String) : Bool × List String :=
  if p.isEmpty then (false, [])
  else if p.startsWith "/" then (true, (p.drop 1).toString.splitOn "/")
  else (false, p.splitOn "/")

def parseUrl (j : Json) : Url :=
  let (rooted, segs) := parsePath (getStr j "p")
  ⟨getStr j "s", getStr j "h", rooted, segs⟩

def parseUrlOpt (j : Json) (k : String) : Option Url :=
  if isNull j k then none else some (parseUrl (getD j k Json.null))

def renderUrl (u : Url) : String :=
  u.scheme ++ "|" ++ u.host ++ "|" ++ (if u.rooted then "/" else "") ++ "/".intercalate u.segs

def parseKind (s : String) : Kind :=
  match s with
  | "header" => .header | "parameter" => .parameter | "requestBody" => .requestBody
  | "response" => .response | "schema" => .schema | "securityScheme" => .securityScheme
  | "example" => .example | "callback" => .callback | "link" => .link | _ => .pathItem

def allKinds : List Kind :=
  [.header, .parameter, .requestBody, .response, .schema, .securityScheme, .example, .callback, .link, .pathItem]

def parseRef (j : Json) : Ref :=
  let text := getStr j "t"
  let frag := getStr j "f"
  let form : Form :=
    if text.startsWith "#" then .internal
    else if text.contains '#' then .fragment else .whole
  ⟨text, form, parseUrl (getD j "u" Json.null), frag, !frag.isEmpty && !frag.startsWith "/"⟩

instance : Inhabited Node := ⟨.mk 0 .schema none []⟩

partial def parseNode (j : Json) : Node :=
  .mk (getNat j "i") (parseKind (getStr j "k"))
    (if isNull j "r" then none else some (parseRef (getD j "r" Json.null)))
    ((getArr j "c").map parseNode)

partial def flatten (n : Node) : List (Nat × Node) := (n.id, n) :: n.kids.flatMap flatten

/-- fragment tables name their target by node id (the node is looked up among the file's nodes) -/
def parseTable (nodes : Std.HashMap Nat Node) (js : List Json) : List (String × Node) :=
  js.filterMap (fun e => match asArr e with
    | [f, n] => match n.getNat? with
      | .ok i => (nodes.get? i).map (fun nd => (asStr f, nd))
      | .error _ => none
    | _ => none)

def parseFile (j : Json) : File :=
  let tops := (getArr j "tops").map parseNode
  let elem := (getArr j "elem").map parseNode
  let extra := (getArr j "extra").map parseNode
  let nodes := Std.HashMap.ofList ((tops ++ elem ++ extra).flatMap flatten)
  -- "elems": [[kind, [nodes]], …] — the file as the resolver of each kind sees it; absent in old replay files,
  -- where the one view "elem" stands for every kind
  let elems : List (Kind × List Node) :=
    if isNull j "elems" then allKinds.map (fun k => (k, elem))
    else (getArr j "elems").filterMap (fun e => match asArr e with
      | [k, ns] => some (parseKind (asStr k), (asArr ns).map parseNode)
      | _ => none)
  ⟨getBool j "parses", tops, elems, parseTable nodes (getArr j "typed"), parseTable nodes (getArr j "raw"), getBool j "conflict", getBool j "emptyPI",
    if isNull j "selfRef" then none else some (parseRef (getD j "selfRef" Json.null))⟩

def parseInput (j : Json) : Input :=
  { allowed := getBool j "allowed"
    entry := match getStr j "entry" with | "file" => .file | "data" => .data | _ => .dataWithPath
    rootLoc := parseUrlOpt j "rootLoc"
    rootFile := parseFile (getD j "rootFile" Json.null)
    rootInStore := getBool j "rootInStore"
    store := (getArr j "store").map (fun e => (parseUrl (getD e "loc" Json.null), parseFile (getD e "file" Json.null))) }

def branchName (n : Nat) : String :=
  match n with
  | 1 => "value.set" | 2 => "ref.inprogress" | 3 => "guard.deny" | 4 => "read.whole" | 5 => "read.fragment"
  | 6 => "doc.cached" | 7 => "drill.typed" | 8 => "reread.ok" | 9 => "drill.kindmismatch" | 10 => "pathitem.fragment"
  | 11 => "backtrack.fired" | 12 => "read.miss" | 13 => "parse.fail" | 14 => "fragment.bad" | 16 => "value.nil"
  | 17 => "drill.fail.nopath" | 18 => "reread.fail" | 19 => "pathitem.chain.nil" | 20 => "pathitem.chain"
  | 24 => "pathitem.file.isref" | 25 => "pathitem.file.isref.nil" | 22 => "parameter.schema+content" | 23 => "pathitem.emptyfile" | _ => s!"b{n}"

def fuel : Nat := 4000

def optUrl (d : Option Url) : Json := match d with | none => Json.null | some u => Json.str (renderUrl u)

/-- a history case: "steps" (each: allowed, entry, rootLoc, rootFile, rootInStore) on one loader, one shared "store" -/
def handleHistory (j : Json) : Json :=
  let store := (getArr j "store").map (fun e => (parseUrl (getD e "loc" Json.null), parseFile (getD e "file" Json.null)))
  let steps : List Input := (getArr j "steps").map (fun sj => { parseInput sj with store := store })
  let outs := history steps fuel
  let stepBranches (e : StepOut) : List String :=
    e.st.tr.eraseDups.map branchName ++ (if e.st.foreign then ["foreign.base"] else []) ++
    (if e.inp.allowed then ["switch.on"] else [])
  let anyForeign := outs.any (fun e => e.st.foreign)
  let kinds := outs.map (fun e => match e.inp.entry with | .file => "F" | .data => "D" | .dataWithPath => "P")
  let branches := (outs.flatMap stepBranches).eraseDups ++ ["history", "history." ++ "".intercalate kinds] ++
    (if outs.length > 2 then ["history.three"] else [])
  jobj [
    ("model", jobj [("steps", Json.arr (outs.map (fun e =>
        jobj [("log", jstrs (e.st.log.map renderUrl)), ("ok", Json.bool e.ok)])).toArray),
      ("oof", Json.bool (outs.any (fun e => e.st.oof)))]),
    ("spec", jobj [("steps", Json.arr (outs.map (fun e =>
        let cands : List (Option Url) := e.inp.root :: (e.inp.store.map (fun x => some x.1))
        jobj [("allowed", Json.bool e.inp.allowed), ("root", optUrl e.inp.root),
              ("known", jstrs []),
              ("edges", Json.arr ((specEdges e.inp cands).map (fun x => Json.arr #[optUrl x.1, Json.str (renderUrl x.2)])).toArray),
              ("modelOK", Json.bool (specB e.inp e.st.log))])).toArray)]),
    ("excl", jstrs (if anyForeign then ["ForeignBase"] else [])),
    ("branches", jstrs branches)]

def renderMedium (m : Medium) : String :=
  match m with
  | .unsupported => "unsupported"
  | .file p => "file:" ++ p
  | .http u => "http:" ++ u.scheme ++ "|" ++ u.host ++ "|" ++ u.path

/-- a reader case: "rd" = {s, h, p}: the library's own readers on one location -/
def handleReader (rd : Json) : Json :=
  let l : RLoc := ⟨getStr rd "s", getStr rd "h", getStr rd "p"⟩
  let m := defaultRead l
  let mf := readFromURIs [readFromFile, readFromHTTP] l
  let mo := readFromURIs [readFromFile] l
  let br (m : Medium) : String := match m with | .unsupported => "reader.unsupported" | .file _ => "reader.file" | .http _ => "reader.http"
  jobj [
    ("model", jobj [("medium", Json.str (renderMedium m)), ("fileFirst", Json.str (renderMedium mf)), ("fileOnly", Json.str (renderMedium mo))]),
    ("spec", jobj [("fileOK", Json.bool (faithfulB (.file l.path) l)), ("httpOK", Json.bool (faithfulB (.http l) l)),
                   ("modelOK", Json.bool (faithfulB m l && faithfulB mf l && faithfulB mo l))]),
    ("excl", jstrs []),
    ("branches", jstrs ([br m, "reader"] ++ (if l.host != "" then ["reader.host"] else []) ++ (if l.scheme != "" then ["reader.scheme"] else [])))]

def handle (j : Json) : Json :=
  if !isNull j "rd" then handleReader (getD j "rd" Json.null) else
  if !(getArr j "steps").isEmpty then handleHistory j else
  let inp := parseInput j
  let (st, ok) := load inp fuel
  let tr := st.tr.eraseDups
  let branches := tr.map branchName ++
    (if st.foreign then ["foreign.base"] else []) ++
    (if st.log.length > 2 then ["reads.many"] else []) ++
    (if (cacheFilter inp [] st.log).length < st.log.length then ["cache.hit"] else []) ++
    (if inp.allowed then ["switch.on"] else []) ++
    (if decide (Uniform inp) then ["universe.uniform"] else [])
  -- candidate documents of the spec: the root and every stored location
  let cands : List (Option Url) := inp.root :: inp.store.map (fun e => some e.1)
  let edges := specEdges inp cands
  jobj [
    ("model", jobj [("log", jstrs (st.log.map renderUrl)), ("ok", Json.bool ok), ("oof", Json.bool st.oof),
                    ("cacheLog", jstrs ((cacheFilter inp [] st.log).map renderUrl))]),
    ("spec", jobj [("allowed", Json.bool inp.allowed), ("root", optUrl inp.root),
                   ("edges", Json.arr (edges.map (fun e => Json.arr #[optUrl e.1, Json.str (renderUrl e.2)])).toArray),
                   ("modelOK", Json.bool (specB inp st.log)), ("uniform", Json.bool (decide (Uniform inp)))]),
    ("excl", jstrs (if st.foreign then ["ForeignBase"] else [])),
    ("branches", jstrs branches)]

end KinModel.Drv.C11
