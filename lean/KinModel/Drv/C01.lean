import KinModel.Drv.SchemaJson
import KinModel.Schema.Spec
open Lean
namespace KinModel.Drv.C01
open KinModel.Drv KinModel.Schema

partial def kwBranches (j : Json) (depth : Nat) : List String :=
  match j with
  | .obj o =>
    let here := o.toList.filterMap (fun (k, _) =>
      if ["type", "nullable", "enum", "format", "minimum", "maximum", "exclusiveMinimum", "exclusiveMaximum", "multipleOf",
          "minLength", "maxLength", "pattern", "minItems", "maxItems", "uniqueItems", "items", "properties", "required",
          "additionalProperties", "minProperties", "maxProperties", "allOf", "anyOf", "oneOf", "not", "discriminator", "$ref", "readOnly", "writeOnly"].contains k
      then some (if depth == 0 then s!"kw.{k}" else s!"kw.nested.{k}") else none)
    let deeper := o.toList.flatMap (fun (k, v) =>
      match v with
      | .arr a => if ["allOf", "anyOf", "oneOf"].contains k then a.toList.flatMap (kwBranches · (depth + 1)) else []
      | .obj o' => if ["not", "items", "additionalProperties"].contains k then kwBranches v (depth + 1)
                   else if k == "properties" then o'.toList.flatMap (fun (_, w) => kwBranches w (depth + 1)) else []
      | _ => [])
    here ++ deeper
  | _ => []

def valKind : J → String
  | .null => "v.null" | .bool _ => "v.bool" | .num _ => "v.num" | .str _ => "v.str" | .arr _ => "v.arr" | .obj _ => "v.obj"

/-- request: {schema, value, regex:[[p,s,b]], formats:[[f,s,b]]} -/
def handle (j : Json) : Json :=
  let sj := getD j "schema" (Json.mkObj [])
  let s := caseSchema j
  let v := toJ (getD j "value" Json.null)
  let env := envOf j
  let m := visit env s v
  let sp := satB env s v
  let br := (kwBranches sj 0).eraseDups ++ [valKind v] ++ (if m then ["accept"] else ["reject"]) ++
    (if s.shortcut then ["shortcut"] else []) ++
    (if env.asreq then ["ctx.asreq"] else []) ++ (if env.asrep then ["ctx.asrep"] else []) ++
    (if env.roOff || env.woOff then ["ctx.switchoff"] else [])
  jobj [("model", jobj [("ok", Json.bool m)]), ("spec", jobj [("sat", Json.bool sp)]),
        ("excl", Json.arr #[]), ("branches", jstrs br)]

end KinModel.Drv.C01
