import KinModel.Drv.SchemaJson
import KinModel.Schema.Spec
import KinModel.Schema.Events
import KinModel.Schema.Defaults
open Lean
namespace KinModel.Drv.C01
open KinModel.Drv KinModel.Schema

partial def kwBranches (j : Json) (depth : Nat) : List String :=
  match j with
  | .obj o =>
    let here := o.toList.filterMap (fun (k, _) =>
      if ["type", "nullable", "enum", "format", "minimum", "maximum", "exclusiveMinimum", "exclusiveMaximum", "multipleOf",
          "minLength", "maxLength", "pattern", "minItems", "maxItems", "uniqueItems", "items", "properties", "required",
          "additionalProperties", "minProperties", "maxProperties", "allOf", "anyOf", "oneOf", "not", "discriminator", "$ref", "readOnly", "writeOnly", "default"].contains k
      then some (if depth == 0 then s!"kw.{k}" else s!"kw.nested.{k}") else none)
    let deeper := o.toList.flatMap (fun (k, v) =>
      match v with
      | .arr a => if ["allOf", "anyOf", "oneOf"].contains k then a.toList.flatMap (kwBranches · (depth + 1)) else []
      | .obj o' => if ["not", "items", "additionalProperties"].contains k then kwBranches v (depth + 1)
                   else if k == "properties" then o'.toList.flatMap (fun (_, w) => kwBranches w (depth + 1)) else []
      | _ => [])
    here ++ deeper
  | _ => []

def valKind : J → String
  | .null => "v.null" | .bool _ => "v.bool" | .num _ => "v.num" | .str _ => "v.str" | .arr _ => "v.arr" | .obj _ => "v.obj"

def isAscii (s : String) : Bool := s.toList.all (fun (c : Char) => decide (c.toNat < 128))
partial def strLeaves : J → List String
  | .str s => [s]
  | .arr xs => xs.flatMap strLeaves
  | .obj kvs => kvs.flatMap (fun kx => kx.1 :: strLeaves kx.2)
  | _ => []

/-- request: {schema, value, regex:[[p,s,b]], formats:[[f,s,b]], pre:[{compiler, regex}]}. `pre` is the HISTORY of the
process before the observed call: earlier validations of the same schema and value under other regex compilers; each
is evaluated by the model with its own compiler's table (the verdict of a call is a function of the call's own env). -/
def handle (j : Json) : Json :=
  let sj := getD j "schema" (Json.mkObj [])
  let s := caseSchema j
  let v := toJ (getD j "value" Json.null)
  let env := envOf j
  -- with default injection (DefaultsSet under a request / response reading) the validator writes into the value while it
  -- validates: the model of that setting is `visitD` (Schema/Defaults.lean), the verdict that of its event tree
  let inj := env.injects
  let verdictIn (e : Env) (mo : Mode) : Bool := if e.injects then (validateD mo e s v).1.isOk else visit e s v
  let m := verdictIn env .dflt
  -- the fail-fast entry points (VisitJSON(FailFast()), IsMatching*): `(validate .failfast env s v).isOk`, which IS `visit env s v`
  -- by the kernel-checked `verdict_same_in_all_modes` (Props/C12.lean); the driver does not compute the event tree twice
  let ff := if inj then verdictIn env .failfast else m
  let envS := envSpecOf j
  -- the property under injection: a default below a `not` must not influence anything outside that `not`, so a schema whose
  -- defaults all live below `not`s (`!hasOwnDflt`) whose own verdict a written default cannot change (`notsNeutral`) is judged
  -- as in plain validation: Sat of the value handed in. Other schemas have no verdict-level spec of their own here
  -- (spec := model; C12 states what the value is afterwards).
  let ownD := inj && (s.hasOwnDflt || !s.notsNeutral)
  let sp := if ownD then m else satB envS s v
  let differs := hasGorx j && !env.patOff && s.pats.any patternTranslationDiffers
  let pre := (getArr j "pre").map (fun st => let e := { env with regex := regexOf st }
                                              let mv := verdictIn e .dflt
                                              (mv, if ownD then mv else satB e s v))
  let br := (kwBranches sj 0).eraseDups ++ [valKind v] ++ (if m then ["accept"] else ["reject"]) ++
    (if s.shortcut then ["shortcut"] else []) ++
    (if env.asreq then ["ctx.asreq"] else []) ++ (if env.asrep then ["ctx.asrep"] else []) ++
    (if env.roOff || env.woOff then ["ctx.switchoff"] else []) ++
    (if env.patOff then ["opt.patOff"] else []) ++
    (if env.dfl then ["opt.defaultsSet"] else []) ++
    (if inj && s.dfltUnderNot then ["dflt.under.not"] else []) ++
    (if inj && s.dfltUnderNot && !ownD then ["dflt.only.under.not.neutral"] else []) ++
    (if ownD then ["dflt.own.spec-is-model"] else []) ++
    (if pre.isEmpty then [] else ["history.compiler"]) ++
    (if s.pats.any (fun p => intoGo p != p) then ["pattern.translated"] else []) ++
    (if differs then ["pattern.translation.differs"] else []) ++
    (if (strLeaves v).any (fun x => !isAscii x) then ["v.nonascii"] else []) ++
    (if (getStr sj "pattern") != "" && !isAscii (getStr sj "pattern") then ["kw.pattern.nonascii"] else [])
  jobj [("model", jobj [("ok", Json.bool m), ("ff", Json.bool ff), ("pre", Json.arr (pre.map (fun r => Json.bool r.1)).toArray)]),
        ("spec", jobj [("sat", Json.bool sp), ("pre", Json.arr (pre.map (fun r => Json.bool r.2)).toArray)]),
        ("excl", jstrs (if differs then ["PatternTranslationDiffers"] else [])), ("branches", jstrs br)]

end KinModel.Drv.C01
