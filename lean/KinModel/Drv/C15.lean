/-
C15 driver: a correspondence case (the same JSON from which the Go runner builds the document, the routers
and the concurrent calls) is reduced to the footprint model of KinModel/ConcCase.lean and executed.

case: { doc: { ops: [ {path, method, params:[{name,in,schema}], body: {mt, schema} | null, resp: {schema} | null} ],
               schemas: { name: schema } },
        calls: [ {k: frg|frl|vreq|vresp|visit|gen, op: idx, skipDefaults: bool, schema: name, opts: [..], type: idx} ],
        g, per, rounds, cold, sched }
-/
import KinModel.Drv.Util
import KinModel.ConcCase
open Lean
namespace KinModel.Drv.C15
open KinModel.Drv KinModel.Conc

structure Feat where
  patterns : List String := []
  arrays : Bool := false
  shared : Bool := false

def Feat.merge (a b : Feat) : Feat := ⟨a.patterns ++ b.patterns, a.arrays || b.arrays, a.shared || b.shared⟩

def objKVs (j : Json) : List (String × Json) :=
  match j with | .obj kvs => kvs.toList | _ => []   -- TreeMap: sorted by key

def field? (j : Json) (k : String) : Option Json := (j.getObjVal? k).toOption

def isObj (j : Json) : Bool := match j with | .obj _ => true | _ => false

def hasDefault (s : Json) : Bool :=
  match field? s "default" with | some .null => false | some _ => true | none => false

/-- follow `$ref: "#/components/schemas/<name>"` (one step; the recursion below is fuelled) -/
def deref (schemas : Json) (s : Json) : Json :=
  match field? s "$ref" with
  | some (.str r) => getD schemas (r.drop "#/components/schemas/".length).toString Json.null
  | _ => s

def isRef (s : Json) : Bool := match field? s "$ref" with | some (.str _) => true | _ => false

/-- validating the (document-owned) object `d` against schema `s` with default injection would write into `d`
    (the input class of the repaired finding F-C15-1) -/
def injects (sc : Json) : Nat → Json → Json → Bool
  | 0, _, _ => false
  | fuel + 1, s0, d =>
    let s := deref sc s0
    isObj d &&
    ((objKVs (getD s "properties" Json.null)).any (fun (n, q) =>
        match field? d n with
        | none | some .null => hasDefault (deref sc q)
        | some dv => injects sc fuel q dv)
     || (getArr s "allOf").any (fun q => injects sc fuel q d))

def sharedDefault (sc : Json) : Nat → Json → Bool
  | 0, _ => false
  | fuel + 1, s0 =>
    let s := deref sc s0
    (objKVs (getD s "properties" Json.null)).any (fun (_, q0) =>
        let q := deref sc q0
        (match field? q "default" with | some d => injects sc fuel q d | none => false) || sharedDefault sc fuel q)
    || (match field? s "items" with | some q => sharedDefault sc fuel q | none => false)
    || (match field? s "additionalProperties" with | some q => isObj q && sharedDefault sc fuel q | none => false)
    || (getArr s "allOf" ++ getArr s "anyOf" ++ getArr s "oneOf").any (sharedDefault sc fuel)

def children (s : Json) : List Json :=
  (objKVs (getD s "properties" Json.null)).map (·.2) ++
  (match field? s "items" with | some q => [q] | none => []) ++
  (match field? s "additionalProperties" with | some q => if isObj q then [q] else [] | none => []) ++
  (match field? s "not" with | some q => [q] | none => []) ++
  getArr s "allOf" ++ getArr s "anyOf" ++ getArr s "oneOf"

def feat (sc : Json) : Nat → Json → Feat
  | 0, _ => {}
  | fuel + 1, s0 =>
    let s := deref sc s0
    let own : Feat := { patterns := (match field? s "pattern" with | some (.str p) => [p] | _ => []),
                        arrays := getStr s "type" == "array" }
    (children s).foldl (fun acc c => acc.merge (feat sc fuel c)) own

def usesRef : Nat → Json → Bool
  | 0, _ => false
  | fuel + 1, s => isRef s || (children s).any (usesRef fuel)

def schemaFeat (sc : Json) (s : Json) : Feat :=
  let f := feat sc 12 s
  { f with shared := sharedDefault sc 12 s }

def indexOf (l : List String) (x : String) : Nat :=
  match l with
  | [] => 0
  | y :: ys => if x == y then 0 else 1 + indexOf ys x

def dedup (l : List String) : List String := l.foldl (fun acc x => if acc.contains x then acc else acc ++ [x]) []

def opSchemas (op : Json) (k : String) : List Json :=
  match k with
  | "vreq" => (getArr op "params").map (fun p => getD p "schema" Json.null) ++
              (if isNull op "body" then [] else [getD (getD op "body" Json.null) "schema" Json.null])
  | "vresp" => if isNull op "resp" then [] else [getD (getD op "resp" Json.null) "schema" Json.null]
  | _ => []

def callFeat (doc : Json) (call : Json) : Feat :=
  let k := getStr call "k"
  let ops := getArr doc "ops"
  let schemas : List Json :=
    match k with
    | "visit" => [getD (getD doc "schemas" Json.null) (getStr call "schema") Json.null]
    | _ => opSchemas (ops.getD (getNat call "op") Json.null) k
  schemas.foldl (fun acc s => acc.merge (schemaFeat (getD doc "schemas" Json.null) s)) {}

def parseKind : String → OpKind
  | "frg" => .frg | "frl" => .frl | "vreq" => .vreq | "vresp" => .vresp | "visit" => .visit | _ => .gen

def kindStr : OpKind → String
  | .frg => "frg" | .frl => "frl" | .vreq => "vreq" | .vresp => "vresp" | .visit => "visit" | .gen => "gen"

def defaultsOn (call : Json) : Bool :=
  match getStr call "k" with
  | "vreq" => !getBool call "skipDefaults"
  | "visit" => let o := strs (getArr call "opts"); o.contains "defaults" && (o.contains "asreq" || o.contains "asrep")
  | _ => false

def pairs : List String → List String
  | [] => []
  | x :: xs => xs.map (fun y => s!"pair.{x}+{y}") ++ pairs xs

def insertSorted (x : String) : List String → List String
  | [] => [x]
  | y :: ys => if x < y then x :: y :: ys else if x == y then y :: ys else y :: insertSorted x ys

def handle (j : Json) : Json :=
  let doc := getD j "doc" Json.null
  let calls := getArr j "calls"
  let feats := calls.map (callFeat doc)
  let allPats := dedup (feats.flatMap (·.patterns))
  let ops : List OpM := (calls.zip feats).map (fun (c, f) =>
    { kind := parseKind (getStr c "k"),
      patterns := (dedup f.patterns).map (indexOf allPats),
      arrays := f.arrays,
      defaultsOn := defaultsOn c,
      sharedDefault := f.shared,
      genType := getNat c "type",
      recursive := getBool c "rec",
      dialect := if getStr c "rx" == "ci" then 1 else 0 })
  let cm : CaseM := { ops := ops, g := getNat j "g", per := getNat j "per", sched := getNat j "sched" }
  let out := outcome cm
  let kinds := (ops.map (fun o => kindStr o.kind)).foldl (fun acc k => insertSorted k acc) []
  let multi := cm.g ≥ 2
  let branches := if !multi then [] else
    kinds.map (fun k => s!"kind.{k}") ++ pairs kinds ++
    (if multi && ops.any (fun o => validates o.kind && !o.patterns.isEmpty) then ["pattern.cacheUse"] else []) ++
    (if multi && ops.any (fun o => validates o.kind && o.arrays) then ["unique.lazyInit"] else []) ++
    (if multi && ops.any (fun o => o.kind = .gen) then ["typeinfo.cacheFill"] else []) ++
    (if multi && ops.any (fun o => validates o.kind && o.defaultsOn) then ["defaults.on"] else []) ++
    (if getBool j "cold" then ["cold.firstUse", "solo.freshProcess"] else []) ++
    -- per-call options that change verdicts, next to process-wide state
    (let ds := dedup ((ops.filter (fun o => validates o.kind && !o.patterns.isEmpty)).map (fun o => toString o.dialect))
     if ds.length ≥ 2 then ["options.mixedRegexCompilers"] else if ds == ["1"] then ["options.regexCompiler"] else []) ++
    (if getStr doc "docRx" != "" then [s!"doc.validatedWith.{getStr doc "docRx"}"] else []) ++
    (if calls.any (fun c => getStr c "auth" == "deny" || getBool c "key") then ["options.security"] else []) ++
    (if calls.any (fun c => getBool c "exBody" || getBool c "exQuery" || getBool c "exRO") then ["options.exclude"] else []) ++
    -- document shapes
    (let ps := (getArr doc "ops").map (fun o => getStr o "path")
     if (dedup ps).length < ps.length then ["doc.multiMethodPath"] else []) ++
    (if (getArr doc "ops").any (fun o => usesRef 6 (getD (getD o "body" Json.null) "schema" Json.null) ||
                                        usesRef 6 (getD (getD o "resp" Json.null) "schema" Json.null)) ||
        (objKVs (getD doc "schemas" Json.null)).any (fun (_, q) => usesRef 6 q) then ["doc.sharedRef"] else []) ++
    -- the input classes of the two repaired defects (F-C15-1, F-C15-2): kept visible as coverage
    (if ops.any (fun o => validates o.kind && o.defaultsOn && o.sharedDefault) then ["defaults.objectDefault"] else []) ++
    (if ops.any (fun o => o.kind = .gen && o.recursive) then ["typeinfo.recursiveType"] else [])
  jobj [
    ("model", jobj [("race", Json.bool out.race), ("diverge", Json.bool out.diverge), ("docChanged", Json.bool out.docChanged)]),
    ("spec", jobj [("race", Json.bool specOutcome.race), ("diverge", Json.bool specOutcome.diverge),
                   ("docChanged", Json.bool specOutcome.docChanged)]),
    ("excl", Json.arr #[]),
    ("branches", jstrs branches),
    ("trace_len", Json.num (caseTrace cm).length)]

end KinModel.Drv.C15
