/-
C15 driver: a correspondence case (the same JSON from which the Go runner builds the document, the routers
and the concurrent calls) is reduced to the footprint model of KinModel/ConcCase.lean and executed.

case: { doc: { ops: [ {path, method, params:[{name,in,schema}], body: {mt, schema} | null, resp: {schema} | null} ],
               items: { path: [ {name,in,schema} ] },      -- path-level parameters (PathItem.Parameters)
               schemas: { name: schema } },
        calls: [ {k: frg|frl|vreq|vresp|visit|gen, op: idx, skipDefaults: bool, schema: name, opts: [..], type: idx} ],
        g, per, rounds, cold, sched }
-/
import KinModel.Drv.Util
import KinModel.ConcCase
import KinModel.ConcSlice
open Lean
namespace KinModel.Drv.C15
open KinModel.Drv KinModel.Conc

structure Feat where
  patterns : List String := []
  arrays : Bool := false
  shared : Bool := false
  formats : List String := []

def Feat.merge (a b : Feat) : Feat :=
  ⟨a.patterns ++ b.patterns, a.arrays || b.arrays, a.shared || b.shared, a.formats ++ b.formats⟩

def objKVs (j : Json) : List (String × Json) :=
  match j with | .obj kvs => kvs.toList | _ => []   -- TreeMap: sorted by key

def field? (j : Json) (k : String) : Option Json := (j.getObjVal? k).toOption

def isObj (j : Json) : Bool := match j with | .obj _ => true | _ => false

def hasDefault (s : Json) : Bool :=
  match field? s "default" with | some .null => false | some _ => true | none => false

/-- follow `$ref: "#/components/schemas/<name>"` (one step; the recursion below is fuelled) -/
def deref (schemas : Json) (s : Json) : Json :=
  match field? s "$ref" with
  | some (.str r) => getD schemas (r.drop "#/components/schemas/".length).toString Json.null
  | _ => s

def isRef (s : Json) : Bool := match field? s "$ref" with | some (.str _) => true | _ => false

/-- validating the (document-owned) object `d` against schema `s` with default injection would write into `d`
    (the input class of the repaired finding F-C15-1) -/
def injects (sc : Json) : Nat → Json → Json → Bool
  | 0, _, _ => false
  | fuel + 1, s0, d =>
    let s := deref sc s0
    isObj d &&
    ((objKVs (getD s "properties" Json.null)).any (fun (n, q) =>
        match field? d n with
        | none | some .null => hasDefault (deref sc q)
        | some dv => injects sc fuel q dv)
     || (getArr s "allOf").any (fun q => injects sc fuel q d))

def sharedDefault (sc : Json) : Nat → Json → Bool
  | 0, _ => false
  | fuel + 1, s0 =>
    let s := deref sc s0
    (objKVs (getD s "properties" Json.null)).any (fun (_, q0) =>
        let q := deref sc q0
        (match field? q "default" with | some d => injects sc fuel q d | none => false) || sharedDefault sc fuel q)
    || (match field? s "items" with | some q => sharedDefault sc fuel q | none => false)
    || (match field? s "additionalProperties" with | some q => isObj q && sharedDefault sc fuel q | none => false)
    || (getArr s "allOf" ++ getArr s "anyOf" ++ getArr s "oneOf").any (sharedDefault sc fuel)

def children (s : Json) : List Json :=
  (objKVs (getD s "properties" Json.null)).map (·.2) ++
  (match field? s "items" with | some q => [q] | none => []) ++
  (match field? s "additionalProperties" with | some q => if isObj q then [q] else [] | none => []) ++
  (match field? s "not" with | some q => [q] | none => []) ++
  getArr s "allOf" ++ getArr s "anyOf" ++ getArr s "oneOf"

def feat (sc : Json) : Nat → Json → Feat
  | 0, _ => {}
  | fuel + 1, s0 =>
    let s := deref sc s0
    let own : Feat := { patterns := (match field? s "pattern" with | some (.str p) => [p] | _ => []),
                        arrays := getStr s "type" == "array" || (strs (getArr s "type")).contains "array",
                        formats := (match field? s "format" with | some (.str f) => [f] | _ => []) }
    (children s).foldl (fun acc c => acc.merge (feat sc fuel c)) own

def usesRef : Nat → Json → Bool
  | 0, _ => false
  | fuel + 1, s => isRef s || (children s).any (usesRef fuel)

def schemaFeat (sc : Json) (s : Json) : Feat :=
  let f := feat sc 12 s
  { f with shared := sharedDefault sc 12 s }

def indexOf (l : List String) (x : String) : Nat :=
  match l with
  | [] => 0
  | y :: ys => if x == y then 0 else 1 + indexOf ys x

def dedup (l : List String) : List String := l.foldl (fun acc x => if acc.contains x then acc else acc ++ [x]) []

/-- path-level parameters of the path item of `op` -/
def itemParamsOf (doc op : Json) : List Json := getArr (getD doc "items" Json.null) (getStr op "path")

/-- `operationParameters.GetByInAndName(in, name) != nil`: the path-level parameter is skipped -/
def overridden (op p : Json) : Bool :=
  (getArr op "params").any (fun q => getStr q "in" == getStr p "in" && getStr q "name" == getStr p "name")

def opSchemas1 (doc op : Json) (k : String) : List Json :=
  match k with
  | "vreq" => ((itemParamsOf doc op).filter (fun p => !overridden op p)).map (fun p => getD p "schema" Json.null) ++
              (getArr op "params").map (fun p => getD p "schema" Json.null) ++
              (if isNull op "body" then [] else [getD (getD op "body" Json.null) "schema" Json.null])
  | "vresp" => if isNull op "resp" then [] else [getD (getD op "resp" Json.null) "schema" Json.null]
  | _ => []

def opSchemas (doc op : Json) (k : String) : List Json :=
  if k == "mw" then opSchemas1 doc op "vreq" ++ opSchemas1 doc op "vresp" else opSchemas1 doc op k

def callFeat (doc : Json) (call : Json) : Feat :=
  let k := getStr call "k"
  let ops := getArr doc "ops"
  let schemas : List Json :=
    match k with
    | "visit" => [getD (getD doc "schemas" Json.null) (getStr call "schema") Json.null]
    -- document validation walks every schema (defaults and examples are validated against their schemas)
    | "dval" => (objKVs (getD doc "schemas" Json.null)).map (·.2) ++ ops.flatMap (fun o => opSchemas doc o "mw")
    | _ => opSchemas doc (ops.getD (getNat call "op") Json.null) k
  schemas.foldl (fun acc s => acc.merge (schemaFeat (getD doc "schemas" Json.null) s)) {}

def parseKind : String → OpKind
  | "frg" => .frg | "frl" => .frl | "vreq" => .vreq | "vresp" => .vresp | "visit" => .visit | "mw" => .mw | "dval" => .dval | _ => .gen

def kindStr : OpKind → String
  | .frg => "frg" | .frl => "frl" | .vreq => "vreq" | .vresp => "vresp" | .visit => "visit" | .gen => "gen" | .mw => "mw" | .dval => "dval"

def defaultsOn (call : Json) : Bool :=
  match getStr call "k" with
  | "vreq" => !getBool call "skipDefaults"
  | "mw" => true
  | "visit" => let o := strs (getArr call "opts"); o.contains "defaults" && (o.contains "asreq" || o.contains "asrep")
  | _ => false

def pairs : List String → List String
  | [] => []
  | x :: xs => xs.map (fun y => s!"pair.{x}+{y}") ++ pairs xs

def insertSorted (x : String) : List String → List String
  | [] => [x]
  | y :: ys => if x < y then x :: y :: ys else if x == y then y :: ys else y :: insertSorted x ys

def paramKey (p : Json) : String := getStr p "in" ++ ":" ++ getStr p "name"

/-- lengths of the lists found in schemas (required / enum / allOf / anyOf / oneOf / type lists): which of the
    document's slices were decoded with spare capacity -/
def listLens : Nat → Json → List Nat
  | 0, _ => []
  | fuel + 1, s =>
    [(getArr s "required").length, (getArr s "enum").length, (getArr s "allOf").length, (getArr s "anyOf").length,
     (getArr s "oneOf").length, (getArr s "type").length] ++ (children s).flatMap (listLens fuel)

/-- some schema declares `type` as a list of two or more types -/
def hasTypeList : Nat → Json → Bool
  | 0, _ => false
  | fuel + 1, s => decide ((getArr s "type").length ≥ 2) || (children s).any (hasTypeList fuel)

/-- some schema has a `default` that is an array with an object (or array) element: the injected default must be a copy
    all the way down -/
def hasArrObjDefault : Nat → Json → Bool
  | 0, _ => false
  | fuel + 1, s =>
    (getArr s "default").any (fun e => match e with | .obj _ => true | .arr _ => true | _ => false) ||
    (children s).any (hasArrObjDefault fuel)

def handle (j : Json) : Json :=
  let doc := getD j "doc" Json.null
  let calls := getArr j "calls"
  let feats := calls.map (callFeat doc)
  let allPats := dedup (feats.flatMap (·.patterns))
  let docOps := getArr doc "ops"
  let paths := (docOps.map (fun o => getStr o "path")).foldl (fun acc k => insertSorted k acc) []
  let opOf := fun (c : Json) => docOps.getD (getNat c "op") Json.null
  let routed := fun (c : Json) => getStr c "k" != "visit" && getStr c "k" != "gen" && getNat c "op" < docOps.length
  let ops : List OpM := (calls.zip feats).map (fun (c, f) =>
    { kind := parseKind (getStr c "k"),
      patterns := (dedup f.patterns).map (indexOf allPats),
      arrays := f.arrays,
      defaultsOn := defaultsOn c,
      sharedDefault := f.shared,
      genType := getNat c "type",
      recursive := getBool c "rec",
      dialect := if getStr c "rx" == "ci" then 1 else 0,
      item := if routed c then indexOf paths (getStr (opOf c) "path") else 0,
      itemParams := if routed c then (itemParamsOf doc (opOf c)).length else 0,
      ownParams := if routed c then (getArr (opOf c) "params").length else 0,
      registries := !f.formats.isEmpty || ((getStr c "k" == "vreq" || getStr c "k" == "mw") && routed c && !isNull (opOf c) "body" && !getBool c "exBody") ||
                    getStr c "k" == "vresp" || getStr c "k" == "mw" })
  let cm : CaseM := { ops := ops, g := getNat j "g", per := getNat j "per", sched := getNat j "sched" }
  let out := outcome cm
  let kinds := (ops.map (fun o => kindStr o.kind)).foldl (fun acc k => insertSorted k acc) []
  let multi := cm.g ≥ 2
  -- one goroutine that performs every call of the case at least twice on the same objects: the reuse dimension
  let reuse := cm.g == 1 && calls.length ≥ 2 && cm.per ≥ 2 * calls.length
  let branches := if !multi then
      (if reuse then ["reuse.sequential"] ++ kinds.map (fun k => s!"reuse.kind.{k}") ++
         (if getBool j "cold" then ["reuse.cold.firstUse"] else []) else []) else
    kinds.map (fun k => s!"kind.{k}") ++ pairs kinds ++
    (if multi && ops.any (fun o => validates o.kind && !o.patterns.isEmpty) then ["pattern.cacheUse"] else []) ++
    (if multi && ops.any (fun o => validates o.kind && o.arrays) then ["unique.lazyInit"] else []) ++
    (if multi && ops.any (fun o => o.kind = .gen) then ["typeinfo.fillUse"] else []) ++
    (if multi && ops.any (fun o => validates o.kind && o.defaultsOn) then ["defaults.on"] else []) ++
    (if getBool j "cold" then ["cold.firstUse", "solo.freshProcess"] else []) ++
    -- per-call options that change verdicts, next to process-wide state
    (let ds := dedup ((ops.filter (fun o => validates o.kind && !o.patterns.isEmpty)).map (fun o => toString o.dialect))
     if ds.length ≥ 2 then ["options.mixedRegexCompilers"] else if ds == ["1"] then ["options.regexCompiler"] else []) ++
    (if getStr doc "docRx" != "" then [s!"doc.validatedWith.{getStr doc "docRx"}"] else []) ++
    (if calls.any (fun c => getStr c "auth" == "deny" || getBool c "key") then ["options.security"] else []) ++
    (if calls.any (fun c => getBool c "exBody" || getBool c "exQuery" || getBool c "exRO") then ["options.exclude"] else []) ++
    -- document shapes
    (let ps := (getArr doc "ops").map (fun o => getStr o "path")
     if (dedup ps).length < ps.length then ["doc.multiMethodPath"] else []) ++
    (if (getArr doc "ops").any (fun o => usesRef 6 (getD (getD o "body" Json.null) "schema" Json.null) ||
                                        usesRef 6 (getD (getD o "resp" Json.null) "schema" Json.null)) ||
        (objKVs (getD doc "schemas" Json.null)).any (fun (_, q) => usesRef 6 q) then ["doc.sharedRef"] else []) ++
    -- process-wide registries read by validations
    (let fs := dedup (feats.flatMap (·.formats))
     (if fs.isEmpty then [] else ["registry.format"]) ++
     (if fs.any (fun f => f == "c15fmt" || f == "c15even") then ["registry.format.custom"] else [])) ++
    (let mts := dedup ((calls.filter (fun c => (getStr c "k" == "vreq" || getStr c "k" == "mw") && routed c && !isNull (opOf c) "body")).map
                  (fun c => getStr (getD (opOf c) "body" Json.null) "mt"))
     mts.map (fun m => s!"registry.bodyDecoder.{m}")) ++
    (if calls.any (fun c => getStr c "k" == "gen" && (strs (getArr c "opts")).contains "customizer") then ["gen.customizer"] else []) ++
    (if isObj (getD doc "itemServers" Json.null) then ["doc.pathItemServers"] else []) ++
    (if calls.any (fun c => getStr c "k" == "mw" && getBool c "strict") then ["middleware.strict"] else []) ++
    (if calls.any (fun c => getStr c "k" == "mw" && !getBool c "strict") then ["middleware.warn"] else []) ++
    -- slices of the shared document: path-level parameter lists, and which of them were decoded with spare capacity
    (let vq := calls.filter (fun c => (getStr c "k" == "vreq" || getStr c "k" == "mw") && routed c && !getBool c "miss")
     let withItem := vq.filter (fun c => !(itemParamsOf doc (opOf c)).isEmpty)
     (if withItem.isEmpty then [] else ["slices.pathLevelParams"]) ++
     (if withItem.any (fun c => spareCap (itemParamsOf doc (opOf c)).length) then ["slices.pathLevelParams.spareCapacity"] else []) ++
     (if withItem.any (fun c => let n := (itemParamsOf doc (opOf c)).length; let m := (getArr (opOf c) "params").length
                                m > 0 && n + m ≤ decodedCap n) then ["slices.pathLevelParams.ownParamsFitSpare"] else []) ++
     (if withItem.any (fun c => (itemParamsOf doc (opOf c)).any (overridden (opOf c))) then ["slices.pathLevelParams.overridden"] else []) ++
     -- two calls on DIFFERENT operations of one path item whose own parameters differ
     (if vq.any (fun c => vq.any (fun d => getNat c "op" != getNat d "op" && getStr (opOf c) "path" == getStr (opOf d) "path" &&
            (getArr (opOf c) "params").map paramKey != (getArr (opOf d) "params").map paramKey))
      then ["slices.sharedPathItem.differentOwnParams"] else []) ++
     (if vq.any (fun c => spareCap (getArr (opOf c) "params").length) then ["slices.operationParams.spareCapacity"] else [])) ++
    (let lens := (objKVs (getD doc "schemas" Json.null)).flatMap (fun (_, q) => listLens 6 q) ++
                 docOps.flatMap (fun o => listLens 6 (getD (getD o "body" Json.null) "schema" Json.null) ++
                                          listLens 6 (getD (getD o "resp" Json.null) "schema" Json.null))
     if lens.any spareCap then ["slices.schemaLists.spareCapacity"] else []) ++
    (if (objKVs (getD doc "schemas" Json.null)).any (fun (_, q) => hasTypeList 6 q) then ["schema.typeList"] else []) ++
    -- declared response headers (inline or one component response shared by several operations), array-of-objects defaults
    (let rs := docOps.map (fun o => getD o "resp" Json.null)
     (if rs.any (fun r => isObj (getD r "headers" Json.null)) then ["doc.responseHeaders"] else []) ++
     (if rs.any (fun r => isObj (getD (getD r "headers" Json.null) "Content-Type" Json.null)) then ["doc.responseHeaders.contentTypeDeclared"] else []) ++
     (if (rs.filter (fun r => getBool r "shared")).length ≥ 2 then ["doc.sharedComponentResponse"] else [])) ++
    (if (objKVs (getD doc "schemas" Json.null)).any (fun (_, q) => hasArrObjDefault 6 q) ||
        docOps.any (fun o => hasArrObjDefault 6 (getD (getD o "body" Json.null) "schema" Json.null)) then ["defaults.arrayOfObjectsDefault"] else []) ++
    -- the input classes of the two repaired defects (F-C15-1, F-C15-2): kept visible as coverage
    (if ops.any (fun o => validates o.kind && o.defaultsOn && o.sharedDefault) then ["defaults.objectDefault"] else []) ++
    (if ops.any (fun o => o.kind = .gen && o.recursive) then ["typeinfo.recursiveType"] else [])
  jobj [
    ("model", jobj [("race", Json.bool out.race), ("diverge", Json.bool out.diverge), ("docChanged", Json.bool out.docChanged)]),
    ("spec", jobj [("race", Json.bool specOutcome.race), ("diverge", Json.bool specOutcome.diverge),
                   ("docChanged", Json.bool specOutcome.docChanged)]),
    ("excl", Json.arr #[]),
    ("branches", jstrs branches),
    -- what the model says encoding/json leaves behind for every path-level parameter list: [path, len, cap]
    ("caps", Json.arr ((paths.filter (fun p => !(getArr (getD doc "items" Json.null) p).isEmpty)).map (fun p =>
        let n := (getArr (getD doc "items" Json.null) p).length
        Json.arr #[Json.str p, Json.num n, Json.num (decodedCap n)])).toArray),
    ("trace_len", Json.num (caseTrace cm).length)]

end KinModel.Drv.C15
