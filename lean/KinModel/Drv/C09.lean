import KinModel.Drv.Util
import KinModel.Router
import KinModel.RouterSpec
open Lean
namespace KinModel.Drv.C09
open KinModel.Drv KinModel.Router

def cs (s : String) : Str := s.toList
def sc (s : Str) : String := String.ofList s

def parseVar (j : Json) : SrvVar := ⟨cs (getStr j "n"), cs (getStr j "d"), (strs (getArr j "e")).map cs⟩
def parseServer (j : Json) : Server := ⟨cs (getStr j "url"), (getArr j "vars").map parseVar⟩
def parsePath (j : Json) : PathDecl := ⟨cs (getStr j "t"), (strs (getArr j "m")).map cs, (getArr j "s").map parseServer⟩

/-- the harness names `Route.Server` the same way: "nil", "doc#i", "path#<template>#i" -/
def refStr : SrvRef → String
  | .none => "nil"
  | .doc i => s!"doc#{i}"
  | .path t i => s!"path#{sc t}#{i}"

def jparams (ps : List (Str × Str)) : Json := Json.mkObj (ps.map (fun kv => (sc kv.1, Json.str (sc kv.2))))

def outcomeJson : Outcome → Json
  | .route t m ps sv => jobj [("kind", "route"), ("template", Json.str (sc t)), ("method", Json.str (sc m)), ("params", jparams ps),
      ("server", Json.str (refStr sv))]
  | .notFound => jobj [("kind", "notfound")]
  | .methodNotAllowed => jobj [("kind", "method")]
  | .panic => jobj [("kind", "panic")]
  | .buildError => jobj [("kind", "builderror")]

def mustStr : Must → String | .route => "route" | .notFound => "notfound" | .error => "error"

def candJson (c : Cand) : Json :=
  jobj [("template", Json.str (sc c.template)), ("params", jparams c.params), ("server", Json.str (refStr c.server))]

/-- request: {router, paths:[{t,m,s:[servers]}], servers:[{url,vars:[{n,d,e}]}], method, abs, scheme, host, path} -/
def handle (j : Json) : Json :=
  let kind : RouterKind := if getStr j "router" = "gorilla" then .gorilla else .legacy
  let d : Doc := ⟨(getArr j "paths").map parsePath, (getArr j "servers").map parseServer⟩
  -- "path" is the escaped path as written on the wire, "dpath" (optional) its decoded form when the two differ
  let epath := cs (getStr j "path")
  let dpath := match j.getObjVal? "dpath" with | .ok (.str x) => cs x | _ => epath
  let w : Wire := ⟨⟨cs (getStr j "method"), getBool j "abs", cs (getStr j "scheme"), cs (getStr j "host"), dpath⟩, epath⟩
  -- the reading of the path that the router under test matches on (gorillaFindW / legacyFindW), and the other one
  let r : Req := match kind with | .gorilla => w.raw | .legacy => if d.servers = [] then w.req else w.raw
  let rAlt : Req := if r = w.raw then w.req else w.raw
  let model := match kind with | .legacy => legacyFindW d w | .gorilla => gorillaFindW d w
  let sp := specOutcome true d r
  let spAlt := specOutcome true d rAlt
  let excl :=
    (if exclLegacy14 kind d r then ["Legacy14"] else []) ++
    (if exclSrvEnum33 d r then ["SrvEnum33"] else []) ++
    (if exclGorillaShadow40 kind d r then ["GorillaShadow40"] else []) ++
    (if exclLegacyVarThenLiteral kind d then ["LegacyVarThenLiteral"] else []) ++
    (if exclLegacyURLForm kind d r then ["LegacyURLForm"] else []) ++
    (if exclLegacyFirstServer kind d r then ["LegacyFirstServer"] else []) ++
    (if exclLegacyPathServers kind d r then ["LegacyPathServers"] else []) ++
    (if exclLegacyKeyCollision kind d then ["LegacyKeyCollision"] else []) ++
    (if exclSrvVarDot d r then ["SrvVarDot"] else [])
  -- legacy: the other outcomes that a different insertion order of colliding keys gives
  let alts := if kind = .legacy ∧ keyCollision (docKeys d) then (legacyFindAll d r).filter (· ≠ model) else []
  let pre := if kind = .legacy then "l." else "g."
  let nvars := match model with | .route t _ _ _ => (svarNames (sparseS t)).length | _ => 0
  let branches :=
    (match model with
      | .route t _ _ _ => [pre ++ "route", pre ++ (if isLiteralT t then "route.literal" else s!"route.vars{nvars}")]
      | .notFound => [pre ++ "notfound"]
      | .methodNotAllowed => [pre ++ "method"]
      | .panic => [pre ++ "panic"]
      | .buildError => [pre ++ "builderror"]) ++
    (if d.servers = [] then [] else
      [pre ++ (if d.servers.all (fun s => isRelativeURL s.url) then "srv.relative" else "srv.absolute")]) ++
    (if d.servers.any (fun s => s.vars ≠ []) then [pre ++ "srv.vars"] else []) ++
    (if d.servers.length > 1 then [pre ++ "srv.many"] else []) ++
    (if d.paths.any (fun p => p.servers ≠ []) then [pre ++ "srv.pathlevel"] else []) ++
    (match model with
      | .route _ _ _ (.doc i) => [pre ++ s!"srv.returned.doc{i}"]
      | .route _ _ _ (.path _ i) => [pre ++ s!"srv.returned.path{i}"]
      | _ => []) ++
    (if ((specCands true d r).map (·.server)).eraseDups.length > 1 then [pre ++ "cands.servers.many"] else []) ++
    (if kind = .legacy ∧ d.servers ≠ [] ∧ (legacyServer d r).isNone then ["l.srv.nomatch"] else []) ++
    (if (specCands true d r).length > 1 then [pre ++ "cands.many"] else []) ++
    (if d.paths.any (fun p => varThenLiteral (sparseS p.template)) then [pre ++ "tmpl.midseg"] else []) ++
    (if sp.1 = .route ∧ (sp.2.any (fun c => isLiteralT c.template)) ∧ (specCands true d r).any (fun c => !isLiteralT c.template)
      then [pre ++ "literal.vs.template"] else []) ++
    (if r.abs then [] else [pre ++ "req.serverstyle"]) ++
    (if w.epath = w.req.path then [] else [pre ++ "req.percent-encoded"]) ++
    excl.map (fun e => "excl." ++ e)
  -- trivial case: nothing matches, nothing is excluded, the model says not-found
  let branches := if model = .notFound ∧ specCands true d r = [] ∧ excl = [] then [] else branches
  jobj [
    ("model", outcomeJson model),
    ("modelAlts", Json.arr (alts.map outcomeJson).toArray),
    ("spec", jobj [("must", Json.str (mustStr sp.1)), ("allowed", Json.arr (sp.2.map candJson).toArray)]),
    ("specAlt", if rAlt = r then Json.null else
      jobj [("must", Json.str (mustStr spAlt.1)), ("allowed", Json.arr (spAlt.2.map candJson).toArray)]),
    ("excl", jstrs excl),
    ("branches", jstrs branches)]

end KinModel.Drv.C09
