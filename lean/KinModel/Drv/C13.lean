import KinModel.Drv.Util
import KinModel.C13Stream
import KinModel.C13Body
import KinModel.C13Params
import KinModel.C13Media
open Lean
namespace KinModel.Drv.C13
open KinModel.Drv KinModel.C13

/-! ### JSON ↔ model values -/

partial def toJ : Json → Body.J
  | .null => .null
  | .bool b => .bool b
  | .num n => .num n.mantissa          -- the generator only produces integers (exponent 0)
  | .str s => .str s
  | .arr a => .arr (a.toList.map toJ)
  | .obj kvs => .obj (kvs.toList.map (fun (k, v) => (k, toJ v)))

partial def ofJ : Body.J → Json
  | .null => .null
  | .bool b => .bool b
  | .num n => .num (JsonNumber.fromInt n)
  | .str s => .str s
  | .arr xs => .arr (xs.map ofJ).toArray
  | .obj kvs => Json.mkObj (kvs.map (fun (k, v) => (k, ofJ v)))

def hasKey (j : Json) (k : String) : Bool := (j.getObjVal? k).toOption.isSome

def attrOf (j : Json) : Body.Attr :=
  { nullable := getBool j "nullable", readOnly := getBool j "readOnly",
    dflt := match j.getObjVal? "default" with | .ok d => some (toJ d) | .error _ => none }

def objEntries (j : Json) : List (String × Json) :=
  match j with | .obj kvs => kvs.toList | _ => []

/-- OpenAPI schema JSON (of the fragment) → model schema; properties arrive sorted by name -/
partial def toS (j : Json) : Body.S :=
  let a := attrOf j
  if hasKey j "allOf" then .comb a .allOf ((getArr j "allOf").map toS)
  else if hasKey j "oneOf" then .comb a .oneOf ((getArr j "oneOf").map toS)
  else if hasKey j "anyOf" then .comb a .anyOf ((getArr j "anyOf").map toS)
  else match getStr j "type" with
    | "object" =>
      let addl := match j.getObjVal? "additionalProperties" with | .ok (.bool b) => b | _ => true
      .obj a (strs (getArr j "required")) ((objEntries (getD j "properties" Json.null)).map (fun (k, v) => (k, toS v))) addl
    | "array" => .arr a (toS (getD j "items" (Json.mkObj [])))
    | "number" => .leaf a .number
    | "integer" => .leaf a .number
    | "string" => .leaf a .string
    | "boolean" => .leaf a .boolean
    | _ => .leaf a .any

open Params in
def toScalar : Json → Scalar
  | .bool b => .bool b
  | .num n => .int n.mantissa
  | .str s => .str s
  | _ => .str ""

open Params in
def toPVal : Json → PVal
  | .arr a => .list (a.toList.map toScalar)
  | j => .sc (toScalar j)

open Params in
def toWire (j : Json) : Wire :=
  match getStr j "k" with
  | "lit" => .lit (toScalar (getD j "v" Json.null))
  | "csv" => mkCsv ((getArr j "v").map toScalar)
  | "sprint" => .sprint ((getArr j "v").map toScalar)
  | _ => .empty

open Params in
def ofScalar : Scalar → Json
  | .int n => .num (JsonNumber.fromInt n) | .str s => .str s | .bool b => .bool b

open Params in
def ofWire : Wire → Json
  | .empty => jobj [("k", "empty")]
  | .lit a => jobj [("k", "lit"), ("v", ofScalar a)]
  | .csv as => jobj [("k", "csv"), ("v", Json.arr (as.map ofScalar).toArray)]
  | .sprint as => jobj [("k", "sprint"), ("v", Json.arr (as.map ofScalar).toArray)]

open Params in
def toLoc (s : String) : Loc :=
  match s with | "query" => .query | "header" => .header | "cookie" => .cookie | _ => .path
open Params in
def locStr : Loc → String | .query => "query" | .header => "header" | .cookie => "cookie" | .path => "path"

open Params in
def toSTy (s : String) : STy := match s with | "integer" => .integer | "boolean" => .boolean | _ => .string

open Params in
def toParam (j : Json) : Param :=
  let loc := toLoc (getStr j "in")
  let ty : PTy := match getStr j "ty" with
    | "untyped" => .untyped
    | "array:integer" => .array .integer | "array:string" => .array .string | "array:boolean" => .array .boolean
    | t => .sc (toSTy t)
  let explode := match j.getObjVal? "explode" with
    | .ok (.bool b) => b
    | _ => (loc == .query || loc == .cookie)       -- style form explodes by default, style simple does not
  { name := getStr j "name", loc := loc, ty := ty,
    dflt := effDefault (match j.getObjVal? "dflt" with | .ok .null => none | .ok d => some (toPVal d) | .error _ => none)
      (if getBool j "viaAllOf" then [match j.getObjVal? "allOfDflt" with | .ok .null => none | .ok d => some (toPVal d) | .error _ => none] else []),
    required := getBool j "required" || loc == .path, allowEmpty := getBool j "allowEmpty", explode := explode,
    content := getBool j "content" }

open Params in
def toStore (js : List Json) : Store :=
  js.map (fun e => ((toLoc (getStr e "in"), getStr e "name"), (getArr e "raw").map toWire))

/-- insertion sort of store entries by (location, name): the observation is a map -/
def insEntry (e : String × Json) : List (String × Json) → List (String × Json)
  | [] => [e]
  | x :: xs => if e.1 ≤ x.1 then e :: x :: xs else x :: insEntry e xs

open Params in
def ofStore (st : Store) : Json :=
  let es := st.map (fun (k, ws) => (locStr k.1 ++ ":" ++ k.2, Json.arr (ws.map ofWire).toArray))
  Json.mkObj ((es.filter (fun e => match e.2 with | .arr a => a.size > 0 | _ => true)).foldr insEntry [])

def insName (s : String) : List String → List String
  | [] => [s]
  | x :: xs => if s ≤ x then s :: x :: xs else x :: insName s xs

/-! ### one validation pass over (stream, store) -/

structure Setup where
  skip : Bool
  multi : Bool
  excludeBody : Bool
  ctx : Body.Ctx
  hasFunc : Bool
  reqs : List (List Stream.Scheme)
  params : List Params.Param
  hasBodySpec : Bool
  required : Bool
  declared : List (String × Option Body.S)   -- requestBody.content: media type ↦ schema (none: no schema)
  header : String                            -- the Content-Type header as sent
  origText : String
  useSpec : Bool := false                    -- evaluate the body with the spec's outcome (for the oracle)
  origBytes : Stream.Bytes
  origVal : Option Body.J         -- none: not JSON
  /-- the received text is what the JSON encoder writes for its value (compact, keys sorted): re-encoding the unchanged
      value gives the very same bytes -/
  origCanonical : Bool := false

structure PassOut where
  req : Stream.Req
  store : Params.Store
  ok : Bool
  seenFull : Bool
  /-- the query cache of the RequestValidationInput after the pass -/
  view : Params.Store := []
  /-- byte tokens → decoded value, for the bodies installed so far -/
  table : List (Stream.Bytes × Option Body.J)

/-! ### the form decoder under a flat object schema (trusted `Codec.form`; the generator stays inside: fields of the
schema's own properties, values that parse for their type) -/

def formPairs (t : String) : List (String × String) :=
  (t.splitOn "&").filterMap (fun kv => match kv.splitOn "=" with
    | [k, v] => some (k, v)
    | [k] => if k == "" then none else some (k, "")
    | _ => none)

def formScalar (ty : Body.Ty) (t : String) : Option Body.J :=
  if t == "" then none
  else match ty with
    | .string => some (.str t)
    | .number => t.toInt?.map Body.J.num
    | .boolean => if t == "true" then some (.bool true) else if t == "false" then some (.bool false) else none
    | .any => none

/-- UrlencodedBodyDecoder: the schema must be an object whose properties are primitives (arrays of primitives are not
    generated); a field that is absent, empty or does not parse is left out -/
def formDecode (s : Body.S) (t : String) : Option Body.J :=
  match s with
  | .obj _ _ props _ =>
    if props.all (fun p => match p.2 with | .leaf _ _ => true | _ => false) then
      some (.obj (props.filterMap (fun p => match p.2 with
        | .leaf _ ty => (((formPairs t).lookup p.1).bind (formScalar ty)).map (fun x => (p.1, x))
        | _ => none)))
    else none
  | _ => none

def lookupBytes (t : List (Stream.Bytes × Option Body.J)) (b : Stream.Bytes) : Option Body.J :=
  match t with
  | [] => none
  | (b', v) :: r => if b == b' then v else lookupBytes r b

/-- decoding + validation of the bytes: media type selection, the value layer, the encoder -/
def evalBody (su : Setup) (table : List (Stream.Bytes × Option Body.J)) (fresh : Stream.Bytes) (data : Stream.Bytes) :
    Stream.BodyOutcome × Option Body.J :=
  -- the generator sends only JSON texts under a YAML media type: the YAML decoder reads them as the same value;
  -- the encoder: an unchanged value whose text already is the encoder's own output is written as the same bytes
  let canonical := if data == su.origBytes then su.origCanonical else true
  let enc := fun (v : Body.J) => match lookupBytes table data with
    | some dv => if canonical && Body.J.beq v dv then data else fresh
    | none => fresh
  let form := fun (_ : Stream.Bytes) => match Media.selected su.declared su.header with
    | some (some s) => formDecode s su.origText
    | _ => none
  let cd : Media.Codec := { parse := fun d => lookupBytes table d, yaml := fun d => lookupBytes table d, form := form,
                            text := fun _ => su.origText, enc := enc }
  let out := if su.useSpec then Media.specOutcome su.ctx su.declared su.header cd data
             else Media.bodyOutcome su.ctx su.declared su.header cd data
  let newVal := match Media.selected su.declared su.header with
    | some (some s) => (Media.decoded su.header cd data).bind (fun v => if su.useSpec then Body.specVisit su.ctx s v else Body.visit su.ctx s v)
    | _ => none
  (out, match out with | .rewrite _ => newVal | _ => none)

def runPass (su : Setup) (n : Nat) (view : Params.Store) (r : Stream.Req) (st : Params.Store) (table : List (Stream.Bytes × Option Body.J)) : PassOut :=
  let (r1, secOK, seen) := Stream.secPhase su.hasFunc r su.reqs
  let seenFull := seen.all (fun x => x == Stream.readAll r)
  if !secOK && !su.multi then { req := r1, store := st, ok := false, seenFull := seenFull, view := view, table := table }
  else
    let (view1, st1, pOK) := Params.paramsPhaseCached su.skip su.multi view su.params st
    if !pOK && !su.multi then { req := r1, store := st1, ok := false, seenFull := seenFull, view := view1, table := table }
    else if su.hasBodySpec && !su.excludeBody then
      let fresh : Stream.Bytes := List.replicate (su.origBytes.length + n) n
      let newVal := match r1.body with
        | some data => (evalBody su table fresh data).2
        | none => none
      let (r2, bOK) := Stream.bodyPhase su.required (fun d => (evalBody su table fresh d).1) r1
      { req := r2, store := st1, ok := secOK && pOK && bOK, seenFull := seenFull, view := view1, table := (fresh, newVal) :: table }
    else { req := r1, store := st1, ok := secOK && pOK, seenFull := seenFull, view := view1, table := table }

def bodyObs (su : Setup) (p : PassOut) (incomingCLok : Bool) : Json :=
  let bytes := Stream.readAll p.req
  let kind :=
    if p.req.body.isNone then "none"
    else if bytes == su.origBytes then "orig"
    else if bytes == [] then "consumed"
    else "new"
  let val := if kind == "new" then (match lookupBytes p.table bytes with | some v => ofJ v | none => Json.null) else Json.null
  jobj [("ok", Json.bool p.ok), ("body", Json.str kind), ("json", val),
        ("clIsLen", if incomingCLok then Json.bool (p.req.contentLength == bytes.length) else Json.null),
        ("getBodyOK", Json.bool (Stream.getOKB p.req bytes)),
        ("seenFull", Json.bool p.seenFull),
        ("store", ofStore p.store)]

mutual
partial def schemaBranches (s : Body.S) : List String :=
  match s with
  | .leaf _ _ => []
  | .obj _ _ props _ => (if props.any (fun p => p.2.attr.dflt.isSome) then ["body.default"] else []) ++
      (if props.any (fun p => match p.2.attr.dflt with | some (.obj _) | some (.arr _) => true | _ => false) then ["body.structuredDefault"] else []) ++
      (if props.any (fun p => p.2.attr.readOnly) then ["body.readOnly"] else []) ++
      (props.map (fun p => match p.2 with | .leaf _ _ => [] | x => "body.nested" :: schemaBranches x)).flatten
  | .arr _ items => "body.array" :: schemaBranches items
  | .comb _ k bs => (match k with | .allOf => "body.allOf" | .oneOf => "body.oneOf" | .anyOf => "body.anyOf") ::
      (bs.map schemaBranches).flatten
end

/-- some object member, at any depth, is an explicit null (the class of the repaired finding #24) -/
partial def hasNullMember : Body.J → Bool
  | .arr xs => xs.any hasNullMember
  | .obj kvs => kvs.any (fun kv => kv.2.isNull || hasNullMember kv.2)
  | _ => false

def dedup (l : List String) : List String := l.foldr (fun x acc => if acc.contains x then acc else x :: acc) []

def handle (j : Json) : Json :=
  let o := getD j "opts" Json.null
  let sec := getD j "sec" Json.null
  let declared := strs (getArr sec "declared")
  let authOf := fun (n : String) =>
    let a := getD (getD sec "auth" Json.null) n Json.null
    ({ readsBody := getBool a "reads", ok := getBool a "ok" } : Stream.Auth)
  let reqs : List (List Stream.Scheme) := (getArr sec "reqs").map (fun q =>
    ((strs (asArr q)).foldr insName []).map (fun n => { declared := declared.contains n, auth := authOf n }))
  let bs := getD j "bodySpec" Json.null
  let skip := getBool o "skip"
  let ctx : Body.Ctx := { setDefaults := !skip, roDisabled := getBool o "roDisabled" }
  let bodyText : Option String := match j.getObjVal? "body" with | .ok (.str s) => some s | _ => none
  let origVal : Option Body.J := match bodyText with
    | some t => (match Json.parse t with | .ok v => some (toJ v) | .error _ => none)
    | none => none
  let origBytes : Stream.Bytes := match bodyText with | some t => List.replicate t.utf8ByteSize 0 | none => []
  let declaredContent : List (String × Option Body.S) := match bs.getObjVal? "content" with
    | .ok (.arr a) => a.toList.map (fun e => (getStr e "key", if isNull e "schema" then none else some (toS (getD e "schema" Json.null))))
    | _ => [("application/json", if isNull bs "schema" then none else some (toS (getD bs "schema" Json.null)))]
  let header := getStr j "ctype"
  let exq := getBool o "excludeQuery"
  let pathParams := (getArr j "pathParams").map toParam
  let opParams := (getArr j "params").map toParam
  let su : Setup := {
    skip := skip, multi := getBool o "multi", excludeBody := getBool o "excludeBody", ctx := ctx,
    hasFunc := getBool sec "hasFunc", reqs := reqs, params := Params.visited exq pathParams opParams,
    hasBodySpec := getBool bs "present", required := getBool bs "required",
    declared := declaredContent, header := header, origText := bodyText.getD "",
    origBytes := origBytes, origVal := origVal,
    origCanonical := match bodyText with
      | some t => (match Json.parse t with | .ok v => v.compress == t | .error _ => false)
      | none => false }
  let stm := getD j "stream" Json.null
  let clKnown := getStr stm "cl" != "unknown" && getStr stm "cl" != "zero"
  let r0 : Stream.Req := {
    body := bodyText.map (fun _ => origBytes),
    getBody := if bodyText.isNone then .none else match getStr stm "getBody" with | "ok" => .ok origBytes | "fails" => .fails | _ => .none,
    contentLength := match getStr stm "cl" with | "unknown" => -1 | "zero" => 0 | _ => origBytes.length }
  let st0 := toStore (getArr j "store")
  let reuse := getBool j "reuseInput"
  let p1 := runPass su 1 st0 r0 st0 [(origBytes, origVal)]
  -- the next handler reads the body; the second validation sees what it would see (and, when the same
  -- RequestValidationInput is used again, the query cache of the first validation)
  let p2 := runPass su 2 (if reuse then p1.view else p1.store) p1.req p1.store p1.table
  -- spec
  let selS := Media.selected su.declared header
  let form0 : Option Body.J := match selS with | some (some s) => formDecode s su.origText | _ => none
  let cd0 : Media.Codec := { parse := (fun _ => origVal), yaml := (fun _ => origVal), form := (fun _ => form0), text := (fun _ => su.origText), enc := (fun _ => []) }
  let v0 : Option Body.J := Media.decoded header cd0 origBytes
  let bodyReached := su.hasBodySpec && !su.excludeBody && bodyText.isSome && !origBytes.isEmpty && !su.declared.isEmpty
  let bodyActive := bodyReached && (match selS with | some (some _) => true | _ => false) && v0.isSome &&
    (Media.decoderOf (Media.base header) == .json || Media.decoderOf (Media.base header) == .yaml ||
     Media.decoderOf (Media.base header) == .form)
  let selSchema : Option Body.S := match selS with | some (some s) => some s | _ => none
  let specBody : Json := match selSchema, v0 with
    | some s, some v => (match Body.specVisit ctx s v with | some v' => ofJ v' | none => Json.null)
    | _, _ => Json.null
  let bodyExpected : String := match selSchema, v0 with
    | some s, some v => (match Body.specVisit ctx s v with | some _ => "value" | none => "reject")
    | _, _ => "na"
  let noEnc := bodyReached && Media.NoBodyEncoder ctx su.declared header cd0 origBytes
  let pS := runPass { su with useSpec := true } 1 st0 r0 st0 [(origBytes, origVal)]
  let specStore := Params.specParams skip su.params st0
  -- exclusion classes
  let excl :=
    (match selSchema, v0 with
     | some s, some v =>
       (if bodyActive && !skip && Body.BranchShift ctx s v then ["BranchShift"] else [])
     | _, _ => []) ++
    (if su.params.any (fun p => Params.DefaultReadsAsEmpty skip p st0) then ["DefaultReadsAsEmpty"] else []) ++
    (if noEnc then ["NoBodyEncoder"] else []) ++
    (if su.params.any (fun p => Params.ContentParamDefault skip p st0) then ["ContentParamDefault"] else [])
  let anyReq := fun (f : Stream.Scheme → Bool) => reqs.any (fun q => q.any f)
  let branches := dedup (
    (if reuse then ["opt.reuseInput"] else []) ++
    (if skip then ["opt.skip"] else []) ++ (if su.multi then ["opt.multi"] else []) ++
    (if su.excludeBody then ["opt.excludeBody"] else []) ++ (if ctx.roDisabled then ["opt.roDisabled"] else []) ++
    (if !su.hasFunc && !reqs.isEmpty then ["sec.nofunc"] else []) ++
    (if reqs.any (·.isEmpty) then ["sec.emptyReq"] else []) ++
    (if anyReq (fun s => !s.declared) then ["sec.undeclared"] else []) ++
    (if anyReq (fun s => s.auth.readsBody) then ["sec.authReads"] else []) ++
    (if anyReq (fun s => !s.auth.ok) then ["sec.authFails"] else []) ++
    (if reqs.length > 1 then ["sec.manyReqs"] else []) ++
    (if bodyText.isNone then ["stream.noBody"] else match r0.getBody with
      | .none => ["stream.getBodyNil"] | .fails => ["stream.getBodyFails"] | .ok _ => []) ++
    (if getStr stm "cl" == "unknown" then ["stream.clUnknown"] else []) ++
    (if getStr stm "cl" == "zero" && bodyText.isSome then ["stream.clZeroWithBody"] else []) ++
    (if getStr stm "kind" == "pipe" && bodyText.isSome then ["stream.pipe"] else []) ++
    (if getStr stm "kind" == "nil" && bodyText.isNone then ["stream.nilBody"] else []) ++
    (if origBytes.isEmpty && bodyText.isSome then ["stream.emptyBody"] else []) ++
    (if bodyText.isSome && origVal.isNone then ["body.notJSON"] else []) ++
    (if bodyActive && (match origVal with | some v => hasNullMember v | none => false) then ["body.explicitNull"] else []) ++
    (if bodyActive && !su.origCanonical then ["body.textNotCanonical"] else []) ++
    (if (header.toList.contains ';') then ["media.params"] else []) ++
    (if bodyReached then (match Media.contentGet (su.declared.map (·.1)) header with
       | none => ["media.unmatched"]
       | some k => (if k.toList.contains '*' then ["media.wildcard"] else []) ++
                   (if k != Media.base header && k != header then ["media.fallback"] else [])) else []) ++
    (if su.hasBodySpec && su.declared.isEmpty then ["media.noContent"] else []) ++
    (if su.declared.length > 1 then ["media.several"] else []) ++
    (if bodyReached && (match selS with | some none => true | _ => false) then ["media.noSchema"] else []) ++
    (if bodyReached then (match Media.decoderOf (Media.base header) with
       | .none => ["media.noDecoder"] | .plain => ["media.plain"] | .yaml => ["media.yaml"] | .form => ["media.form"]
       | .json => if Media.base header != "application/json" then ["media.jsonFamily"] else []) else []) ++
    (if !pathParams.isEmpty then ["param.pathLevel"] else []) ++
    (if pathParams.any (Params.overridden opParams) then ["param.overridden"] else []) ++
    (if exq then ["opt.excludeQuery"] else []) ++
    (if su.params.any (·.content) then ["param.content"] else []) ++
    (if (getArr j "params" ++ getArr j "pathParams").any (fun pj => getBool pj "viaAllOf") then ["param.allOfDefault"] else []) ++
    (if getBool sec "docLevel" then ["sec.docLevel"] else []) ++
    (match selSchema with | some s => (if bodyActive then schemaBranches s else []) | none => []) ++
    (if Stream.readAll p1.req != origBytes then ["body.rewritten"] else []) ++
    (if !p1.ok then ["pass1.reject"] else []) ++
    (if p1.ok && !p2.ok then ["pass2.reject"] else []) ++
    (if p1.ok && (Stream.readAll p2.req != Stream.readAll p1.req) then ["pass2.bodyChanged"] else []) ++
    (su.params.map (fun p => "param." ++ locStr p.loc)) ++
    (if su.params.any (fun p => p.dflt.isSome) then ["param.default"] else []) ++
    (if su.params.any (fun p => match p.ty with | .array _ => true | _ => false) then ["param.array"] else []) ++
    (if (ofStore p1.store).compress != (ofStore st0).compress then ["param.written"] else []) ++
    (if (ofStore p2.store).compress != (ofStore p1.store).compress then ["pass2.storeChanged"] else []) ++
    excl.map (fun e => "excl." ++ e))
  jobj [
    ("model", jobj [("pass1", bodyObs su p1 clKnown), ("pass2", bodyObs su p2 clKnown)]),
    ("spec", jobj [("body", specBody), ("bodyExpected", Json.str bodyExpected), ("store", ofStore specStore), ("skip", Json.bool skip),
                   ("bodyActive", Json.bool bodyActive), ("mustAccept", Json.bool pS.ok)]),
    ("excl", jstrs excl),
    ("branches", jstrs branches)]

end KinModel.Drv.C13
