import KinModel.Drv.Util
import KinModel.Middleware
open Lean
namespace KinModel.Drv.C14
open KinModel.Drv KinModel.Middleware

def parseOp (j : Json) : Op :=
  match getStr j "op" with
  | "set" => .setHdr (getStr j "k") (getStr j "v")
  | "del" => .delHdr (getStr j "k")
  | "wh" => .writeHeader (getNat j "n")
  | "w" => .write (getStr j "b").toList
  | _ => .flush

def parseOps (js : List Json) : List Op := js.map parseOp

/-- the callbacks the harness installs as ErrFunc (case field "errfn") -/
def errOpsOf (kind : String) (custom : List Op) : ErrCode → List Op :=
  match kind with
  | "default" => defaultErrOps
  | "echo" => fun e => [.setHdr "X-Err" (toString e.num), .writeHeader e.httpStatus,
                        .write ("E" ++ toString e.num).toList]
  | "silent" => fun _ => []
  | _ => fun _ => custom

/-- the ErrorEncoder the harness installs on ValidationHandler (case field "enc") -/
def encOpsOf (kind : String) (custom : List Op) : ReqFail → List Op :=
  match kind with
  | "vee" => fun f => [.writeHeader f.convStatus, .write ['V']]   -- ValidationErrorEncoder{custom}: status from ConvertErrors
  | "silent" => fun _ => []
  | _ => fun _ => custom

/-! verdict of ValidateResponse for the document family of the harness: `responses` is a list of
(key, kind) with key a status code text or "default", kind "any" (no content) or "json" (content
application/json with schema {type: integer}); option IncludeResponseStatus. Body bytes are drawn from
digits 1-9 and 'x', so "is a JSON integer" is "non-empty and all digits". -/
def validInt (b : Bytes) : Bool := !b.isEmpty && b.all (fun ch => '1' ≤ ch && ch ≤ '9')

def ctIsJson (h : Hdr) : Bool :=
  match hget h "Content-Type" with
  | some v => v == "application/json" || v.startsWith "application/json;"
  | none => false

def respOKOf (entries : List (String × String)) (includeStatus : Bool) (st : Nat) (h : Hdr) (b : Bytes) : Bool :=
  if st == 304 || st == 308 || st == 307 || st == 301 then true else
  if entries.isEmpty then true else
  let e := match entries.find? (fun p => p.1 == toString st) with
    | some p => some p
    | none => entries.find? (fun p => p.1 == "default")
  match e with
  | none => !includeStatus
  | some (_, kind) => if kind == "json" then ctIsJson h && validInt b else true

def insertKV (p : String × String) : List (String × String) → List (String × String)
  | [] => [p]
  | q :: qs => if p.1 ≤ q.1 then p :: q :: qs else q :: insertKV p qs
def sortKV (h : Hdr) : Hdr := h.foldr insertKV []

def jhdr (h : Hdr) : Json := Json.arr ((sortKV h).map (fun p => Json.arr #[Json.str p.1, Json.str p.2])).toArray

/-- headers as received once the exchange is over (no WriteHeader: the map as it is at the end) -/
def finalSent (c : Client) : Hdr := if c.status.isNone then c.hdr else c.sent

def jclient (c : Client) : List (String × Json) :=
  [("status", Json.num (c.seen.status : Nat)), ("body", Json.str (String.ofList c.body)),
   ("sent", jhdr (finalSent c)), ("flushed", Json.bool c.flushed), ("panicked", Json.bool c.panicked)]

def errStr (e : ErrCode) : String := s!"{e.httpStatus}:{e.num}"
def logStr : LogKind → String | .route => "route" | .request => "request" | .response => "response"
def failStr : ReqFail → String | .none => "none" | .noPath => "nopath" | .noMethod => "nomethod" | .invalid => "invalid"

def opBranches (ops : List Op) (strict : Bool) : List String :=
  let firstIdx := ops.findIdx (fun o => match o with | .writeHeader _ => true | .write _ => true | _ => false)
  let after := ops.drop (firstIdx + 1)
  (if (wroteStatus ops).isNone then ["ops.nostatus"] else []) ++
  (if (ops.filter (fun o => match o with | .writeHeader _ => true | _ => false)).length > 1 then ["ops.multi_wh"] else []) ++
  (if (match ops.find? (fun o => match o with | .writeHeader _ => true | .write _ => true | _ => false) with
        | some (.write _) => true | _ => false) then ["ops.write_first"] else []) ++
  (if (ops.filter (fun o => match o with | .write _ => true | _ => false)).length > 1 then ["ops.pieces"] else []) ++
  (if firstStatus true ops != firstStatus false ops then ["ops.flush_before_status"] else []) ++
  (if ops.any (fun o => o == .flush) then ["ops.flush"] else []) ++
  (if after.any (fun o => match o with | .setHdr _ _ => true | .delHdr _ => true | _ => false) then ["ops.hdr_after_status"] else []) ++
  (if !validCodesB ops then ["ops.invalid_code"] else []) ++
  (if ops.any (fun o => match o with | .write [] => true | _ => false) then ["ops.empty_write"] else []) ++
  (if strict then ["strict"] else [])

def handleMw (j : Json) : Json :=
  let ops := parseOps (getArr j "ops")
  let strict := getBool j "strict"
  let errfn := getStr j "errfn"
  let cfg : Cfg := { strict := strict, errOps := errOpsOf errfn (parseOps (getArr j "errops")) }
  let doc := getD j "doc" Json.null
  let entries := (getArr doc "responses").map (fun e => (getStr e "key", getStr e "kind"))
  let env : Env := { routeFound := getStr j "route" == "ok", reqOK := getStr j "req" == "ok",
                     respOK := respOKOf entries (getBool doc "includeStatus") }
  let o := middleware cfg env ops
  let s := spec cfg env ops
  let applicable := validCodesB ops
  let excl : List String := []
  let branches :=
    (if !env.routeFound then ["mw.noroute"] else if !env.reqOK then ["mw.badreq"] else
      opBranches ops strict ++
      (if o.logs == [.response] then (if strict then ["mw.strict_replaced"] else ["mw.warn_logged"]) else
        (if strict then ["mw.strict_flushed"] else [])) ++
      (if o.client.panicked then ["mw.panic"] else [])) ++
    (if errfn != "default" then ["cb.err." ++ errfn] else []) ++
    (if getStr j "logfn" == "default" then ["cb.log.default"] else []) ++
    (if getStr j "transport" == "server" then ["tr.server"] else []) ++
    (if env.routeFound && env.reqOK && (wroteStatus ops).isNone &&
        (env.respOK 0 (finalHdr ops) [] != env.respOK 200 (finalHdr ops) []) then ["mw.status0_as_200"] else [])
  jobj [
    ("model", jobj ([("ran", Json.bool o.handlerRan), ("err", jstrs (o.errCalls.map errStr)),
                     ("logs", jstrs (o.logs.map logStr))] ++ jclient o.client)),
    ("spec", jobj [("applicable", Json.bool applicable), ("ran", Json.bool s.handlerRan),
                   ("status", Json.num (s.seen.status : Nat)), ("body", Json.str (String.ofList s.seen.body)),
                   ("err", jstrs (s.errCalls.map errStr)), ("panicked", Json.bool s.panicked),
                   ("full", match s.full with | some c => jobj (jclient c) | none => Json.null),
                   ("meets", Json.bool (meetsB o s))]),
    ("excl", jstrs excl),
    ("branches", jstrs branches)]

def handleVh (j : Json) : Json :=
  let ops := parseOps (getArr j "ops")
  let enc := getStr j "enc"
  let encOps := encOpsOf enc (parseOps (getArr j "errops"))
  let fail : ReqFail :=
    match getStr j "route" with
    | "nopath" => .noPath
    | "nomethod" => .noMethod
    | _ => if getStr j "req" == "ok" then .none else .invalid
  let o := vhandler encOps fail ops
  let s := vspec encOps fail ops
  let branches :=
    ["vh." ++ failStr fail, "vh.enc." ++ enc, "vh.entry." ++ getStr j "entry"] ++
    (if fail == .none then opBranches ops false else []) ++
    (if getStr j "transport" == "server" then ["tr.server"] else [])
  let out (v : VOutcome) := jobj ([("ran", Json.bool v.handlerRan), ("err", jstrs (v.encCalls.map failStr)),
                                   ("logs", jstrs [])] ++ jclient v.client)
  jobj [
    ("model", out o),
    ("spec", jobj [("applicable", Json.bool true), ("ran", Json.bool s.handlerRan),
                   ("status", Json.num (s.client.seen.status : Nat)), ("body", Json.str (String.ofList s.client.seen.body)),
                   ("err", jstrs (s.encCalls.map failStr)), ("panicked", Json.bool s.client.panicked),
                   ("full", jobj (jclient s.client)), ("meets", Json.bool (decide (o = s)))]),
    ("excl", Json.arr #[]),
    ("branches", jstrs branches)]

/-- request: {mode: "mw"|"vh", strict, errfn, errops, logfn, route: ok|nopath|nomethod, req: ok|missing|type,
    doc: {responses:[{key,kind}], includeStatus}, ops:[…], transport, router, enc, entry} -/
def handle (j : Json) : Json :=
  if getStr j "mode" == "vh" then handleVh j else handleMw j

end KinModel.Drv.C14
