import KinModel.Drv.Util
import KinModel.Middleware
import KinModel.MiddlewareSrc
import KinModel.Gen.WrapperMethods
open Lean
namespace KinModel.Drv.C14
open KinModel.Drv KinModel.Middleware

/-- bytes of a write: "b", repeated "rep" times when given (large bodies) -/
def opBytes (j : Json) : Bytes :=
  let b := (getStr j "b").toList
  match getNat j "rep" with
  | 0 => b
  | n => (List.replicate n b).flatten

/-- Handler calls of the harness. Calls that go through an optional interface are lowered to what they amount
to on the wrappers as the source defines them (table WrapperMethods; obligations
`strict_wrapper_offers_no_optional_interface`, `warn_wrapper_offers_flusher_only`):
  "rcfl"  http.NewResponseController(w).Flush(): FlushError, else http.Flusher, else Unwrap — a Flush exactly when
          the writer is an http.Flusher, i.e. the model's `.flush` (a no-op on the strict wrapper);
  "ws"    io.WriteString(w, s): WriteString if offered, else Write — a Write;
  "copy"  io.Copy(w, r): ReadFrom if offered, else Write per chunk — a Write of the bytes (nothing when empty);
  "probe" records which optional interfaces the writer offers (no call on the writer). -/
def parseOp (j : Json) : Option Op :=
  match getStr j "op" with
  | "set" => some (.setHdr (getStr j "k") (getStr j "v"))
  | "del" => some (.delHdr (getStr j "k"))
  | "wh" => some (.writeHeader (getNat j "n"))
  | "w" => some (.write (opBytes j))
  | "ws" => some (.write (opBytes j))
  | "copy" => if (opBytes j).isEmpty then none else some (.write (opBytes j))
  | "panic" => some .panic
  | "probe" => none
  | _ => some .flush

def parseOps (js : List Json) : List Op := js.filterMap parseOp

def hasOpKind (js : List Json) (k : String) : Bool := js.any (fun j => getStr j "op" == k)

/-- the callbacks the harness installs as ErrFunc (case field "errfn") -/
def errOpsOf (kind : String) (custom : List Op) : ErrCode → List Op :=
  match kind with
  | "default" => defaultErrOps
  | "echo" => fun e => [.setHdr "X-Err" (toString e.num), .writeHeader e.httpStatus,
                        .write ("E" ++ toString e.num).toList]
  | "silent" => fun _ => []
  | _ => fun _ => custom

/-- the ErrorEncoder the harness installs on ValidationHandler (case field "enc") -/
def encOpsOf (kind : String) (custom : List Op) : ReqFail → List Op :=
  match kind with
  | "vee" => fun f => [.writeHeader f.convStatus, .write ['V']]   -- ValidationErrorEncoder{custom}: status from ConvertErrors
  -- DefaultErrorEncoder (what Load installs): text/plain, 500 (no request-validation error carries a status),
  -- body err.Error() — the wording is the library's: '*' stands for "some non-empty text"
  | "default" => fun _ => [.setHdr "Content-Type" "text/plain; charset=utf-8", .writeHeader 500, .write ['*']]
  -- ValidationErrorEncoder{DefaultErrorEncoder}: a converted error carries its status (StatusCoder)
  | "veedefault" => fun f => [.setHdr "Content-Type" "text/plain; charset=utf-8", .writeHeader f.convStatus, .write ['*']]
  | "silent" => fun _ => []
  | _ => fun _ => custom

/-! verdict of ValidateResponse for the document family of the harness: `responses` is a list of
(key, kind) with key a status code text or "default", kind "any" (no content) or "json" (content
application/json with schema {type: integer}); option IncludeResponseStatus. Body bytes are drawn from
digits 1-9 and 'x', so "is a JSON integer" is "non-empty and all digits". -/
def validInt (b : Bytes) : Bool := !b.isEmpty && b.all (fun ch => '1' ≤ ch && ch ≤ '9')

def ctIsJson (h : Hdr) : Bool :=
  match hget h "Content-Type" with
  | some v => v == "application/json" || v.startsWith "application/json;"
  | none => false

/-- required response header X-A with schema {type: integer}; the harness sets X-A to "1", "2" or "z" -/
def hdrXAok (h : Hdr) : Bool :=
  match hget h "X-A" with
  | some v => validInt v.toList
  | none => false

/-- Responses.Status: exact code, then the "NXX" range key for 100..599; then `default` -/
def lookupEntry (entries : List (String × String)) (st : Nat) : Option (String × String) :=
  match entries.find? (fun p => p.1 == toString st) with
  | some p => some p
  | none =>
    let range := if 99 < st && st < 600 then entries.find? (fun p => p.1 == toString (st / 100) ++ "XX") else none
    match range with
    | some p => some p
    | none => entries.find? (fun p => p.1 == "default")

def respOKOf (entries : List (String × String)) (includeStatus excludeBody : Bool) (st : Nat) (h : Hdr) (b : Bytes) : Bool :=
  if st == 304 || st == 308 || st == 307 || st == 301 then true else
  if entries.isEmpty && !includeStatus then true else   -- `responses.Len() == 0 && !options.IncludeResponseStatus`
  match lookupEntry entries st with
  | none => !includeStatus
  | some (_, kind) =>
    let needHdr := kind == "hdr" || kind == "hdrjson"
    let needJson := kind == "json" || kind == "hdrjson"
    (!needHdr || hdrXAok h) && (excludeBody || !needJson || (ctIsJson h && validInt b))

/-! request side: the case describes the matched operation as in C07 ("rq": opParams/pathParams with a
controlled verdict each, opSecurity/docSecurity/declared/accepted, hasBody/bodyFail, option flags); the
always-present required query parameter `q` of the older cases is one more operation-level parameter. -/
open KinModel.Request in
def parseIn (s : String) : In :=
  match s with | "path" => .path | "query" => .query | "header" => .header | _ => .cookie
def inStr : KinModel.Request.In → String
  | .path => "path" | .query => "query" | .header => "header" | .cookie => "cookie"
def parseParam (j : Json) : KinModel.Request.Param := ⟨getStr j "name", parseIn (getStr j "in"), getBool j "ok"⟩
def parseReqs (js : List Json) : List KinModel.Request.Requirement := js.map (fun r => strs (asArr r))

structure Rq where
  o : KinModel.Request.Opts
  op : KinModel.Request.Op
  declared : List String
  accepted : List String

def parseRq (j : Json) (useOpts : Bool) : Rq :=
  let rq := getD j "rq" Json.null
  let qs : List KinModel.Request.Param :=
    if getBool j "noq" then [] else [⟨"q", .query, getStr j "req" == "ok"⟩]
  { o := if useOpts then { excludeBody := getBool rq "excludeBody", excludeQuery := getBool rq "excludeQuery",
                           multiError := getBool rq "multi" } else {},
    op := { opParams := qs ++ (getArr rq "opParams").map parseParam,
            pathParams := (getArr rq "pathParams").map parseParam,
            opSecurity := if isNull rq "opSecurity" then none else some (parseReqs (getArr rq "opSecurity")),
            docSecurity := parseReqs (getArr rq "docSecurity"),
            hasBody := getBool rq "hasBody", bodyOK := getStr rq "bodyFail" == "" },
    declared := strs (getArr rq "declared"),
    -- "noauth": no AuthenticationFunc configured. Validator (useOpts): validateSecurityRequirement returns
    -- ErrAuthenticationServiceMissing for every non-empty requirement (an empty one, {}, passes before the function
    -- is looked for — 1f8c043; in the C07 model an empty requirement makes no authentication call at all); ValidationHandler: Load installs the no-op function,
    -- which accepts every scheme it is asked about (undeclared schemes fail before it is asked)
    accepted := if getBool rq "noauth" then
                  (if useOpts then [] else
                    ((parseReqs (getArr rq "opSecurity") ++ parseReqs (getArr rq "docSecurity")).foldl (· ++ ·) []).eraseDups)
                else strs (getArr rq "accepted") }

def Rq.verdict (r : Rq) : KinModel.Request.Res :=
  KinModel.Request.validateRequest r.o r.op (fun s => r.declared.contains s) (fun s => r.accepted.contains s)

def partBranch (r : Rq) : KinModel.Request.Part → String
  | .security => if r.op.opSecurity.isSome then "rq.fail.security.op" else "rq.fail.security.doc"
  | .body => "rq.fail.body"
  | .param p => (if r.op.opParams.contains p then "rq.fail.param.op." else "rq.fail.param.path.") ++ inStr p.loc

def rqBranches (j : Json) (r : Rq) : List String :=
  let d := fun s => r.declared.contains s
  let a := fun s => r.accepted.contains s
  let fails := KinModel.Request.failing r.o r.op d a
  let hasSecOp := r.op.opSecurity.isSome
  let hasSecDoc := !r.op.docSecurity.isEmpty
  let nOp := r.op.opParams.length
  let nPath := r.op.pathParams.length
  -- what the operation declares at all (the sole-constraint cells)
  let sole :=
    if isNull j "rq" then []   -- the older family (one required query parameter `q`) is the default shape
    else if hasSecDoc && !hasSecOp && nOp == 0 && nPath == 0 && !r.op.hasBody then ["rq.sole.security.doc"]
    else if hasSecOp && !hasSecDoc && nOp == 0 && nPath == 0 && !r.op.hasBody then ["rq.sole.security.op"]
    else if !hasSecOp && !hasSecDoc && nOp == 1 && nPath == 0 && !r.op.hasBody then
      ["rq.sole.param.op." ++ String.join (r.op.opParams.take 1 |>.map (fun p => inStr p.loc))]
    else if !hasSecOp && !hasSecDoc && nOp == 0 && nPath == 1 && !r.op.hasBody then
      ["rq.sole.param.path." ++ String.join (r.op.pathParams.take 1 |>.map (fun p => inStr p.loc))]
    else if !hasSecOp && !hasSecDoc && nOp == 0 && nPath == 0 && r.op.hasBody then ["rq.sole.body"]
    else if !hasSecOp && !hasSecDoc && nOp == 0 && nPath == 0 && !r.op.hasBody then ["rq.unconstrained"]
    else []
  (fails.map (partBranch r)).eraseDups ++ sole ++
  (if fails.length > 1 then ["rq.fail.many"] else []) ++
  (if !fails.isEmpty && getStr (getD j "rq" Json.null) "bodyFail" != "" && fails.contains .body then
     ["rq.body." ++ getStr (getD j "rq" Json.null) "bodyFail"] else []) ++
  (if hasSecOp && hasSecDoc then ["rq.sec.op_overrides_doc"] else []) ++
  (if r.op.pathParams.any (KinModel.Request.overridden r.op.opParams) then ["rq.param.override"] else []) ++
  (if r.o.excludeBody && r.op.hasBody then ["rq.opt.exb"] else []) ++
  (if r.o.excludeQuery && (r.op.pathParams ++ r.op.opParams).any (fun p => p.loc == .query) then ["rq.opt.exq"] else []) ++
  (if r.o.multiError then ["rq.opt.multi"] else []) ++
  (if getBool (getD j "rq" Json.null) "noauth" then ["rq.noauth"] else []) ++
  (if (KinModel.Request.securityList r.op).any (·.isEmpty) then
     ["rq.sec.empty_requirement" ++ (if getBool (getD j "rq" Json.null) "noauth" then ".noauth" else "")] else []) ++
  (if getBool j "decoy" then ["doc.decoy"] else [])

def insertKV (p : String × String) : List (String × String) → List (String × String)
  | [] => [p]
  | q :: qs => if p.1 ≤ q.1 then p :: q :: qs else q :: insertKV p qs
def sortKV (h : Hdr) : Hdr := h.foldr insertKV []

def jhdr (h : Hdr) : Json := Json.arr ((sortKV h).map (fun p => Json.arr #[Json.str p.1, Json.str p.2])).toArray

/-- headers as received once the exchange is over (no WriteHeader: the map as it is at the end) -/
def finalSent (c : Client) : Hdr := if c.status.isNone then c.hdr else c.sent

/-- net/http's client gives up on a response preceded by more than 5 informational responses
(http.Transport, max1xxResponses): the exchange is then observed as aborted, like a handler panic -/
def aborted (c : Client) : Bool := c.panicked || (c.server && c.info.length > 5)

def jclient (c : Client) : List (String × Json) :=
  [("status", Json.num (c.seen.status : Nat)), ("body", Json.str (String.ofList c.body)),
   ("sent", jhdr (finalSent c)), ("flushed", Json.bool c.flushed), ("panicked", Json.bool (aborted c)),
   ("info", Json.arr (c.info.map (fun n => Json.num (n : Nat))).toArray)]

def errStr (e : ErrCode) : String := s!"{e.httpStatus}:{e.num}"
def logStr : LogKind → String | .route => "route" | .request => "request" | .response => "response"
def failStr : ReqFail → String
  | .none => "none" | .noPath => "nopath" | .noMethod => "nomethod" | .invalid => "param"
  | .security => "security" | .bodySchema => "body" | .bodyMissing => "body" | .bodyType => "body"

def opBranches (ops : List Op) (strict : Bool) : List String :=
  let firstIdx := ops.findIdx (fun o => match o with | .writeHeader _ => true | .write _ => true | _ => false)
  let after := ops.drop (firstIdx + 1)
  (if (wroteStatus ops).isNone then ["ops.nostatus"] else []) ++
  (if (ops.filter (fun o => match o with | .writeHeader _ => true | _ => false)).length > 1 then ["ops.multi_wh"] else []) ++
  (if (match ops.find? (fun o => match o with | .writeHeader _ => true | .write _ => true | _ => false) with
        | some (.write _) => true | _ => false) then ["ops.write_first"] else []) ++
  (if (ops.filter (fun o => match o with | .write _ => true | _ => false)).length > 1 then ["ops.pieces"] else []) ++
  (if firstStatus false true ops != firstStatus false false ops then ["ops.flush_before_status"] else []) ++
  (if ops.any (fun o => o == .flush) then ["ops.flush"] else []) ++
  (if after.any (fun o => match o with | .setHdr _ _ => true | .delHdr _ => true | _ => false) then ["ops.hdr_after_status"] else []) ++
  (if !validCodesB ops then ["ops.invalid_code"] else []) ++
  (if badCode ops then ["ops.refused_effective_code"] else []) ++
  (if ops.any (fun o => match o with | .write [] => true | _ => false) then ["ops.empty_write"] else []) ++
  (if ops.any (fun o => match o with | .write bs => bs.length ≥ 4096 | _ => false) then ["ops.big_write"] else []) ++
  (if ops.any opInfo then ["ops.info_code"] else []) ++
  (if panics ops then ["ops.panic"] else []) ++
  (if strict then ["strict"] else [])

structure MwIn where
  cfg : Cfg
  env : Env
  ops : List Op
  rq : Rq
  entries : List (String × String)

/-- the options handed to NewValidator, in order (case field "vopts"); ω = (IncludeResponseStatus, ExcludeResponseBody) -/
def parseVOpt (custom : List Op) (j : Json) : VOpt (Bool × Bool) :=
  match getStr j "o" with
  | "strict" => .strict (getBool j "v")
  | "onerr" => .onErr (errOpsOf (getStr j "kind") custom)
  | "onlog" => .onLog
  | _ => .validationOptions (getBool j "inc", getBool j "exb")

def parseMw (j : Json) : MwIn :=
  let ops := parseOps (getArr j "ops")
  let doc0 := getD j "doc" Json.null
  -- with "vopts" the Validator's configuration is what NewValidator makes of the option list
  let setup : Option (Setup (Bool × Bool)) :=
    match j.getObjVal? "vopts" with
    | .ok (.arr a) => some (newValidator (false, false) (a.toList.map (parseVOpt (parseOps (getArr j "errops")))))
    | _ => none
  let strict := match setup with | some s => s.strict | none => getBool j "strict"
  let errfn := getStr j "errfn"
  let cfg : Cfg := match setup with
    | some s => s.cfg
    | none => { strict := strict, errOps := errOpsOf errfn (parseOps (getArr j "errops")) }
  let doc := match setup with
    | some s => doc0.mergeObj (jobj [("includeStatus", Json.bool s.options.1), ("excludeRespBody", Json.bool s.options.2)])
    | none => doc0
  -- a second operation (GET /w) with its own responses: requests with "path2" go there
  let entries := (getArr doc (if getBool j "path2" then "responses2" else "responses")).map
                   (fun e => (getStr e "key", getStr e "kind"))
  let rq := parseRq j true
  let env : Env := envOf (getStr j "route" == "ok") rq.o rq.op (fun s => rq.declared.contains s)
                     (fun s => rq.accepted.contains s)
                     -- ValidateResponse returns nil for every response to a HEAD request
                     (if getBool j "head" && !rq.op.hasBody then fun _ _ _ => true
                      else respOKOf entries (getBool doc "includeStatus") (getBool doc "excludeRespBody"))
                     (getStr j "transport" == "server")
  { cfg := cfg, env := env, ops := ops, rq := rq, entries := entries }

def hasKind (js : List Json) (k : String) : Bool := js.any (fun j => getStr j "o" == k)

/-- reply for one request, given the outcome the (sequence) model assigns to it -/
def renderMw (j : Json) (p : MwIn) (o : Outcome) : Json :=
  let ops := p.ops
  let strict := p.cfg.strict
  let errfn := getStr j "errfn"
  let cfg := p.cfg
  let doc := getD j "doc" Json.null
  let entries := p.entries
  let rq := p.rq
  let env := p.env
  let s := spec cfg env ops
  let applicable := true   -- `middleware_meets_spec_total` has no hypothesis: the spec is an oracle for every handler
  let excl : List String := []
  let rawOps := getArr j "ops"
  let vopts := getArr j "vopts"
  let wrapperTy := if strict then "strictResponseWrapper" else "warnResponseWrapper"
  let ifaces := (KinModel.MiddlewareSrc.offered KinModel.Gen.wrapperMethods wrapperTy).map (·.name)
  let branches :=
    (if env.routeFound then rqBranches j rq else []) ++
    (if env.routeFound && env.reqOK then
       (match lookupEntry entries (validatedStatus ((wroteStatus ops).getD 0)) with
        | some (k, kind) => ["resp.kind." ++ kind] ++ (if k.endsWith "XX" then ["resp.range_key"] else []) ++
                            (if k == "default" then ["resp.default_key"] else [])
        | none => ["resp.undocumented"]) ++
       (if getBool doc "excludeRespBody" then ["resp.opt.exb"] else [])
     else []) ++
    (if !env.routeFound then ["mw.noroute"] else if !env.reqOK then ["mw.badreq"] else
      opBranches ops strict ++
      (if o.logs == [.response] then (if strict then ["mw.strict_replaced"] else ["mw.warn_logged"]) else
        (if strict then ["mw.strict_flushed"] else [])) ++
      (if o.client.panicked then ["mw.panic"] else [])) ++
    (if errfn != "default" && vopts.isEmpty then ["cb.err." ++ errfn] else []) ++
    (if getStr j "logfn" == "default" && vopts.isEmpty then ["cb.log.default"] else []) ++
    (if getStr j "transport" == "server" then ["tr.server"] else []) ++
    (if getBool j "head" then ["req.head"] else []) ++
    (["rcfl", "ws", "copy", "probe"].filter (hasOpKind rawOps)).map ("ops.iface." ++ ·) ++
    (if informational env.server ops && env.routeFound && env.reqOK then ["mw.info_" ++ (if strict then "strict" else "warn")] else []) ++
    (vopts.map (fun o => "opt." ++ getStr o "o" ++ (if getStr o "o" == "onerr" then "." ++ getStr o "kind" else ""))).eraseDups ++
    (if !vopts.isEmpty then
       (["strict", "onerr", "onlog", "valopts"].filter (fun k => !hasKind vopts k)).map ("opt.default." ++ ·) ++
       (["strict", "onerr", "onlog", "valopts"].filter (fun k => (vopts.filter (fun o => getStr o "o" == k)).length > 1)).map ("opt.repeated." ++ ·)
     else []) ++
    (if env.routeFound && env.reqOK && (wroteStatus ops).isNone &&
        (env.respOK 0 (finalHdr ops) [] != env.respOK 200 (finalHdr ops) []) then ["mw.status0_as_200"] else [])
  jobj [
    ("model", jobj ([("ran", Json.bool o.handlerRan), ("err", jstrs (o.errCalls.map errStr)),
                     ("logs", jstrs (o.logs.map logStr)),
                     -- what a `probe` call of the handler sees: the optional interfaces of the wrapper it was handed
                     ("ifaces", if o.handlerRan then jstrs ifaces else Json.null)] ++ jclient o.client)),
    ("spec", jobj [("applicable", Json.bool applicable), ("ran", Json.bool s.handlerRan),
                   ("status", Json.num (s.seen.status : Nat)), ("body", Json.str (String.ofList s.seen.body)),
                   ("err", jstrs (s.errCalls.map errStr)),
                   ("panicked", Json.bool (s.panicked || (match s.full with | some c => aborted c | none => false))),
                   ("full", match s.full with | some c => jobj (jclient c) | none => Json.null),
                   -- a dead writer with nothing on the wire is acceptable as well (refused status code, strict mode)
                   ("orDead", Json.bool s.orDead),
                   ("meets", Json.bool (meetsTB o s))]),
    ("excl", jstrs excl),
    ("branches", jstrs branches)]

def handleMw (j : Json) : Json :=
  let p := parseMw j
  renderMw j p (middleware p.cfg p.env p.ops)

structure VhIn where
  encOps : ReqFail → List Op
  fail : ReqFail
  ops : List Op
  rq : Rq
  server : Bool

def parseVh (j : Json) : VhIn :=
  let rq := parseRq j false
  let fail : ReqFail :=
    match getStr j "route" with
    | "nopath" => .noPath
    | "nomethod" => .noMethod
    | _ => match rq.verdict with
           | .ok => .none
           | .err (.security :: _) => .security
           | .err (.body :: _) =>
             (match getStr (getD j "rq" Json.null) "bodyFail" with
              | "empty" => .bodyMissing | "ctype" => .bodyType | _ => .bodySchema)
           | .err _ => .invalid
  { encOps := encOpsOf (getStr j "enc") (parseOps (getArr j "errops")), fail := fail,
    ops := parseOps (getArr j "ops"), rq := rq, server := getStr j "transport" == "server" }

def renderVh (j : Json) (p : VhIn) (o : VOutcome) : Json :=
  let ops := p.ops
  let enc := getStr j "enc"
  let fail := p.fail
  let rq := p.rq
  let s := vspec p.encOps fail ops p.server
  let branches :=
    ["vh." ++ failStr fail, "vh.enc." ++ enc, "vh.entry." ++ getStr j "entry"] ++
    (if fail == .none then opBranches ops false else []) ++
    (if fail != .noPath && fail != .noMethod then rqBranches j rq else []) ++
    (if getStr j "transport" == "server" then ["tr.server"] else [])
  let out (v : VOutcome) := jobj ([("ran", Json.bool v.handlerRan), ("err", jstrs (v.encCalls.map failStr)),
                                   ("logs", jstrs [])] ++ jclient v.client)
  jobj [
    ("model", out o),
    ("spec", jobj [("applicable", Json.bool true), ("ran", Json.bool s.handlerRan),
                   ("status", Json.num (s.client.seen.status : Nat)), ("body", Json.str (String.ofList s.client.seen.body)),
                   ("err", jstrs (s.encCalls.map failStr)), ("panicked", Json.bool (aborted s.client)),
                   ("full", jobj (jclient s.client)), ("meets", Json.bool (decide (o = s)))]),
    ("excl", Json.arr #[]),
    ("branches", jstrs branches)]

def handleVh (j : Json) : Json :=
  let p := parseVh j
  renderVh j p (vhandler p.encOps p.fail p.ops p.server)

/-! a history: {"seq": [step, …]} — every step overrides `route`, `req`, `ops`, `path2` of the base case; all
steps go through ONE Validator / ValidationHandler chain. The outcomes come from the sequence machine
(`serveSeq` / `vserveSeq`), the oracle is the per-request spec. -/
def zip3 {α β γ : Type} : List α → List β → List γ → List (α × β × γ)
  | a :: as, b :: bs, c :: cs => (a, b, c) :: zip3 as bs cs
  | _, _, _ => []

def pairsOf {α : Type} : List α → List (α × α)
  | a :: b :: rest => (a, b) :: pairsOf (b :: rest)
  | _ => []

def seqBranches (j : Json) (steps : List Json) (replies : List Json) : List String :=
  let brs := replies.map (fun r => strs (getArr r "branches"))
  let has (l : List String) (b : String) := l.contains b
  let trans := (pairsOf brs).foldl (fun acc (a, b) =>
      acc ++
      (if has a "mw.strict_replaced" && has b "mw.strict_flushed" then ["seq.valid_after_rejected"] else []) ++
      (if has a "mw.strict_flushed" && has b "mw.strict_replaced" then ["seq.rejected_after_valid"] else []) ++
      (if has a "mw.strict_replaced" && has b "mw.strict_replaced" then ["seq.rejected_after_rejected"] else []) ++
      (if has a "mw.warn_logged" then ["seq.after_warn_logged"] else []) ++
      (if has a "mw.badreq" || has a "mw.noroute" then ["seq.after_rejected_request"] else []) ++
      (if (has b "mw.badreq" || has b "mw.noroute") && has a "mw.strict_replaced" then ["seq.rejected_request_after_rejected_response"] else []) ++
      (if has a "mw.panic" then ["seq.after_panic"] else []) ++
      (if has a "ops.nostatus" && !has b "ops.nostatus" then ["seq.after_silent_handler"] else []) ++
      (if has a "vh.none" && !has b "vh.none" then ["seq.vh.rejected_after_served"] else []) ++
      (if !has a "vh.none" && has b "vh.none" && has a "vh.enc.vee" then ["seq.vh.served_after_rejected"] else [])) []
  let paths := (steps.map (fun s => getBool s "path2")).eraseDups
  ["seq.len" ++ toString steps.length] ++ trans.eraseDups ++
  (if paths.length > 1 then ["seq.two_operations"] else []) ++
  (if getBool j "par" then ["seq.concurrent"] else []) ++
  (brs.foldl (· ++ ·) []).eraseDups

def handleSeq (j : Json) : Json :=
  let steps := (getArr j "seq").map (fun s => j.mergeObj s)
  let replies : List Json :=
    if getStr j "mode" == "vh" then
      let ps := steps.map parseVh
      let outs := vserveSeq (parseVh j).encOps (ps.map (fun p => ⟨p.fail, p.ops, p.server⟩))
      (zip3 steps ps outs).map (fun (s, p, o) => renderVh s p o)
    else
      let ps := steps.map parseMw
      let outs := serveSeq (parseMw j).cfg (ps.map (fun p => ⟨p.env, p.ops⟩))
      (zip3 steps ps outs).map (fun (s, p, o) => renderMw s p o)
  let field (k : String) := Json.arr (replies.map (fun r => getD r k Json.null)).toArray
  jobj [
    ("model", jobj [("steps", field "model")]),
    ("spec", jobj [("steps", field "spec")]),
    ("excl", jstrs ((replies.map (fun r => strs (getArr r "excl"))).foldl (· ++ ·) []).eraseDups),
    ("branches", jstrs (seqBranches j steps replies))]

/-- request: {mode: "mw"|"vh", strict, errfn, errops, logfn, route: ok|nopath|nomethod, req: ok|missing|type,
    doc: {responses:[{key,kind}], includeStatus}, ops:[…], transport, router, enc, entry} -/
def handle (j : Json) : Json :=
  match j.getObjVal? "seq" with
  | .ok (.arr _) => handleSeq j
  | _ => if getStr j "mode" == "vh" then handleVh j else handleMw j

end KinModel.Drv.C14
