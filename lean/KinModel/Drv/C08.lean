import KinModel.Drv.Util
import KinModel.Response
import KinModel.ResponseReg
open Lean
namespace KinModel.Drv.C08
open KinModel.Drv KinModel.Response

/-- http.CanonicalHeaderKey for names made of letters, digits and '-' (the generator's family) -/
def canonChars : Bool → List Char → List Char
  | _, [] => []
  | up, c :: cs => (if up then c.toUpper else c.toLower) :: canonChars (c = '-') cs
def canon (s : String) : String := String.ofList (canonChars true s.toList)

instance : Inhabited J := ⟨.null⟩
instance : Inhabited Sch := ⟨.mk {} .nil .none .none⟩

partial def parseJ : Json → J
  | .null => .null
  | .bool b => .bool b
  | .num n => .num n.mantissa
  | .str s => .str s
  | .arr a => .arr (a.toList.foldr (fun x r => JL.cons (parseJ x) r) JL.nil)
  | .obj kvs => .obj (kvs.toList.foldr (fun (kv : String × Json) r => KVs.cons kv.1 (parseJ kv.2) r) KVs.nil)

def parseTy (s : String) : Ty :=
  match s with
  | "boolean" => .boolean | "integer" => .integer | "string" => .string
  | "array" => .array | "object" => .object | _ => .any

def optNat (j : Json) (k : String) : Option Nat := (j.getObjValAs? Nat k).toOption
def optInt (j : Json) (k : String) : Option Int := (j.getObjValAs? Int k).toOption

partial def parseSch (j : Json) : Sch :=
  let core : Core := {
    ty := parseTy (getStr j "type"), nullable := getBool j "nullable", readOnly := getBool j "readOnly",
    writeOnly := getBool j "writeOnly", maxLen := optNat j "maxLength", maxI := optInt j "maximum",
    required := strs (getArr j "required"),
    addlAllowed := match j.getObjVal? "addl" with | .ok (.bool false) => false | _ => true }
  let props := (getArr j "properties").foldr
    (fun p r => match p with
      | .arr a => Props.cons (asStr (a.getD 0 .null)) (parseSch (a.getD 1 .null)) r
      | _ => r) Props.nil
  let osch (k : String) : OSch := match j.getObjVal? k with
    | .ok (.obj o) => .some (parseSch (.obj o))
    | _ => .none
  .mk core props (osch "addl") (osch "items")

def parseOSch (j : Json) (k : String) : Option Sch :=
  match j.getObjVal? k with | .ok (.obj o) => some (parseSch (.obj o)) | _ => none

def parseDec (j : Json) : Dec :=
  match getStr j "k" with
  | "val" => .val (parseJ (getD j "v" .null))
  | "nil" => .nil
  | "panic" => .panic
  | _ => .err

def parseHdr (j : Json) : Hdr :=
  { name := getStr j "name", required := getBool j "required", schema := parseOSch j "schema",
    explode := getBool j "explode", emptyNameDec := parseDec (getD j "dec" .null) }

mutual
partial def jOfJ : J → Json
  | .null => .null
  | .bool b => .bool b
  | .num n => .num (JsonNumber.fromInt n)
  | .str s => .str s
  | .arr xs => .arr (jlOf xs).toArray
  | .obj kvs => Json.mkObj (kvsOf kvs)
partial def jlOf : JL → List Json
  | .nil => []
  | .cons x r => jOfJ x :: jlOf r
partial def kvsOf : KVs → List (String × Json)
  | .nil => []
  | .cons k v r => (k, jOfJ v) :: kvsOf r
end

def decJson : Dec → Json
  | .err => jobj [("k", "err")]
  | .nil => jobj [("k", "nil")]
  | .panic => jobj [("k", "panic")]
  | .val v => jobj [("k", "val"), ("v", jOfJ v)]

def decBranch (s : Sch) : Dec → List String
  | .err => ["dec.err"]
  | .nil => ["dec.nil"]
  | .panic => ["dec.panic"]
  | .val _ => match s.core.ty with
    | .integer => ["dec.int"] | .boolean => ["dec.bool"] | .string => ["dec.str"]
    | .array => ["dec.arr"] | .object => ["dec.obj"] | .any => []

def parseResp (j : Json) : String × Resp :=
  (getStr j "key",
   { headers := (getArr j "headers").map parseHdr,
     content := (getArr j "content").map (fun c => (getStr c "mime", ({ schema := parseOSch c "schema" } : MediaType))),
     resolved := !getBool j "unresolved" })

def errStr : Err → String
  | .statusNotSupported => "status" | .respUnresolved => "unresolved" | .hdrMissing n => "hdrMissing:" ++ n | .hdrDecode n => "hdrDecode:" ++ n
  | .hdrSchema n => "hdrSchema:" ++ n | .hdrPanic _ => "panic" | .ctUndeclared => "ct" | .bodyRead => "bodyRead"
  | .bodyDecode => "bodyDecode" | .bodySchema => "bodySchema"

def errBranch : Err → String
  | .statusNotSupported => "err.status" | .respUnresolved => "err.unresolved" | .hdrMissing _ => "err.hdrMissing" | .hdrDecode _ => "err.hdrDecode"
  | .hdrSchema _ => "err.hdrSchema" | .hdrPanic _ => "err.hdrPanic" | .ctUndeclared => "err.ct" | .bodyRead => "err.bodyRead"
  | .bodyDecode => "err.bodyDecode" | .bodySchema => "err.bodySchema"

/-- which key selected the response entry -/
def selBranch (m : List (String × Resp)) (status : Int) : String :=
  if (lookup (codeKey status) m).isSome then ""
  else if (match classKey status with | some k => (lookup k m).isSome | none => false) then "sel.class"
  else if (lookup "default" m).isSome then "sel.default" else "sel.none"

def ctBranch (c : List (String × MediaType)) (mime : String) : String :=
  if mime = "" then "ct.empty"
  else if (lookup mime c).isSome then (if mime = base mime then "" else "ct.exact_params")
  else if (lookup (base mime) c).isSome then "ct.base"
  else match majorType (base mime) with
    | none => "ct.noslash"
    | some t => if (lookup (t ++ "/*") c).isSome then "ct.major" else if (lookup "*/*" c).isSome then "ct.star" else "ct.none"

mutual
partial def schFlags : Sch → List String
  | .mk c ps a it =>
    (if c.writeOnly then ["sch.wo"] else []) ++ (if c.readOnly then ["sch.ro"] else []) ++
    (if c.required.isEmpty then [] else ["sch.required"]) ++ (if c.addlAllowed then [] else ["sch.addl_false"]) ++
    propsFlags ps ++ (match a with | .some s => "sch.addl_schema" :: schFlags s | .none => []) ++
    (match it with | .some s => "sch.items" :: schFlags s | .none => [])
partial def propsFlags : Props → List String
  | .nil => []
  | .cons _ s r => schFlags s ++ propsFlags r
end

def handle (j : Json) : Json :=
  let o : Opts := { strict := getBool j "strict", excludeBody := getBool j "excludeBody",
                    woOff := getBool j "woOff", multi := getBool j "multi" }
  let i : Input := {
    method := getStr j "method", status := getInt j "status",
    responses := (getArr j "responses").map parseResp,
    hdrs := (getArr j "hdrs").map (fun p => match p with
      | .arr a => (asStr (a.getD 0 .null), if a.size ≥ 2 then some (asStr (a.getD 1 .null)) else none)
      | _ => ("", none)),
    body := getStr j "body", readFails := getBool j "readFails", bodyDec := parseDec (getD j "bodyDec" .null) }
  let out := validateResponse canon genReg o i
  let spec := acceptB canon genReg o i
  -- what the model's header decoder makes of every declared, schema-described header that the response carries
  -- (compared with the real decoder on every case)
  let hdrDecs : List Json := (i.responses.filter (fun kr => kr.2.resolved)).flatMap (fun kr =>
    kr.2.headers.filterMap (fun h => match hdrDec canon i.hdrs h with
      | some d => some (Json.arr #[Json.str (kr.1 ++ "/" ++ h.name), decJson d])
      | none => none))
  let excl :=
    (if HdrDecodedNil canon i then ["HdrDecodedNil"] else []) ++
    (if HdrArrayNoItems canon i then ["HdrArrayNoItems"] else []) ++
    []
  let skipped := skippedB i
  let sel := if skipped || i.responses.isEmpty then none else statusLookup i.responses i.status
  let branches :=
    (if i.method = "HEAD" then ["skip.head"] else []) ++
    (if skipStatus i.status then ["skip.status"] else []) ++
    (if !skipped && i.responses.isEmpty then ["map.empty"] else []) ++
    (if !skipped && !i.responses.isEmpty then [selBranch i.responses i.status].filter (· ≠ "") else []) ++
    (if o.strict then ["opt.strict"] else []) ++
    (if o.multi then ["opt.multi"] else []) ++
    (match out.err with | some e => [errBranch e] | none => []) ++
    (match sel with
     | none => []
     | some r =>
       (if r.headers.any (·.name = "Content-Type") then ["hdr.ct_ignored"] else []) ++
       (if r.headers.any (fun h => h.schema.isNone) then ["hdr.by_content"] else []) ++
       (if r.headers.any (fun h => h.name ≠ canon h.name) then ["hdr.noncanonical_name"] else []) ++
       (if r.headers.any (fun h => h.required && !present canon i.hdrs h) then ["hdr.required_absent"] else []) ++
       (if r.headers.any (fun h => !h.required && !present canon i.hdrs h) then ["hdr.optional_absent"] else []) ++
       (if (checkedHeaders r).length > 1 then ["hdr.many"] else []) ++
       ((checkedHeaders r).flatMap (fun h => match h.schema, hdrDec canon i.hdrs h with
          | some s, some d =>
            decBranch s d ++ (if h.explode then ["hdr.explode"] else []) ++
            (if lookup (canon h.name) i.hdrs == some none then ["hdr.no_values"] else []) ++
            (match s.core.ty, lookup (canon h.name) i.hdrs with
             | .object, some (some raw) =>
               (match propsFromString h.explode raw with
                | some pairs => if emptyNameCorner s pairs then ["dec.empty_name_corner"] else []
                | none => ["dec.obj_malformed"])
             | _, _ => []) ++
            (match d with
             | .val v => if visit ⟨true, o.woOff⟩ v s != visit ⟨false, o.woOff⟩ v s then ["hdr.asrep_matters"] else []
             | _ => [])
          | _, _ => [])).eraseDups ++
       (if (firstErr (checkHeader canon o.woOff i.hdrs) (checkedHeaders r)).isSome then [] else
         (if o.excludeBody then ["opt.exb"] else
          if r.content.isEmpty then ["content.empty"] else
            [ctBranch r.content (ctOf i)].filter (· ≠ "") ++
            (match contentGet r.content (ctOf i) with
             | none => []
             | some mt => match mt.schema with
               | none => ["mt.noschema"]
               | some s =>
                 (if o.woOff then ["opt.wooff"] else []) ++ (schFlags s).eraseDups ++
                 (match lookup (parseMediaType (ctOf i)) genReg with
                  | none => ["body.unregistered"]
                  | some d => if textDecoder d then ["body.text"] else []) ++
                 (match decodeBody genReg i with
                  | .val v =>
                    (if visit ⟨true, o.woOff⟩ v s != visit ⟨false, o.woOff⟩ v s then ["body.asrep_matters"] else []) ++
                    (if visit ⟨true, true⟩ v s != visit ⟨true, false⟩ v s then ["body.wo_present"] else [])
                  | _ => [])))))
  jobj [
    ("model", jobj [("err", match out.err with | some e => Json.str (errStr e) | none => Json.null),
                    ("bodyAfter", match out.bodyAfter with | some b => Json.str b | none => Json.null),
                    ("hdrDec", Json.arr hdrDecs.toArray)]),
    ("spec", jobj [("accept", Json.bool spec),
                   ("bodyAfter", if i.readFails then Json.null else Json.str i.body)]),
    ("excl", jstrs excl),
    ("branches", jstrs branches.eraseDups)]

end KinModel.Drv.C08
