import KinModel.Drv.Util
import KinModel.Marshal
import KinModel.Gen.Descriptors
open Lean
namespace KinModel.Drv.C03
open KinModel.Drv KinModel.Marshal

/-- decimal number in lowest terms of ten: 1.50 ↦ 15·10⁻¹ -/
partial def normNum (m : Int) (e : Nat) : Int × Nat :=
  if e > 0 && m % 10 == 0 then normNum (m / 10) (e - 1) else (m, e)

partial def ofJson : Json → JV
  | .null => .null
  | .bool b => .bool b
  | .num n => let (m, e) := normNum n.mantissa n.exponent; .num m e
  | .str s => .str s
  | .arr a => .arr (a.toList.map ofJson)
  | .obj o => .obj (o.toList.map (fun (k, v) => (k, ofJson v)))

partial def toJson : JV → Json
  | .null => .null
  | .bool b => .bool b
  | .num m e => .num ⟨m, e⟩
  | .str s => .str s
  | .arr xs => .arr (xs.map toJson).toArray
  | .obj kvs => Json.mkObj ((sortObj kvs).map (fun (k, v) => (k, toJson v)))

def parseShape (j : Json) : Shape :=
  let n := getStr j "kind"
  match getStr j "wrap" with
  | "ref" => .ref n
  | "maplike" => .maplike n
  | "map" => .map (.kind n)
  | "pmap" => .pmap (.kind n)
  | "list" => .list (.kind n)
  | "types" => .types
  | "addProps" => .addProps
  | _ => .kind n

def entryShape (d : Desc) : Shape := match d.valueShape with | .map s => s | s => s

def nullEntry (T : List Desc) : Shape → List String
  | .ref w => match findDesc T w with
              | some d => if d.valueNilSafe then [] else ["nullRefEntry"]
              | none => []
  | _ => []

/-- Branches of the model reached by this input (coverage report; mirrors the recursion of `rt`). -/
partial def branches (T : List Desc) : Shape → JV → List String
  | .leaf, _ => []
  | .strLeaf, _ => []
  | .unknown _, _ => []
  | .types, .arr [] => ["types.empty"]
  | .types, .arr [_] => ["types.single"]
  | .types, .arr _ => ["types.list"]
  | .types, _ => ["types.string"]
  | .addProps, .bool _ => ["addProps.bool"]
  | .addProps, .obj [] => ["addProps.empty"]
  | .addProps, .obj kvs => "addProps.schema" :: branches T (.ref "openapi3.SchemaRef") (.obj kvs)
  | .addProps, _ => []
  | .list s, .arr xs => xs.flatMap (fun x => (if x.isNull then ["list.null"] else []) ++ branches T s x)
  | .list _, _ => []
  | .map s, .obj kvs => kvs.flatMap (fun kv => branches T s kv.2)
  | .map _, _ => []
  | .pmap s, .obj kvs => kvs.flatMap (fun kv => (if kv.2.isNull then ["pmap.null"] ++ nullEntry T s else []) ++ branches T s kv.2)
  | .pmap _, _ => []
  | .ref w, v =>
    match findDesc T w, v with
    | some d, .obj kvs =>
      match refString kvs with
      | some _ => if kvs.length > 1 then ["ref.taken", "ref.siblings"] else ["ref.taken"]
      | none => branches T d.valueShape v
    | some d, v => branches T d.valueShape v
    | none, _ => ["table.miss"]
  | .maplike w, .obj kvs =>
    match findDesc T w with
    | none => ["table.miss"]
    | some d => ["maplike:" ++ w] ++ kvs.flatMap (fun kv =>
        if isExtKey kv.1 then ["maplike.ext"]
        else (if kv.2.isNull then ["maplike.null"] ++ nullEntry T (entryShape d) else []) ++ branches T (entryShape d) kv.2)
  | .maplike _, _ => []
  | .kind k, v =>
    match findDesc T k, v with
    | none, _ => ["table.miss"]
    | some d, .obj kvs =>
      match d.template with
      | .alias => branches T d.valueShape v
      | .struct =>
        let r := unmarshal d kvs
        let here := ["kind:" ++ k] ++
          (if d.refEarly && !(r.fld "Ref").isEmptyStr then ["refEarly.taken"] else []) ++
          (if kvs.any (fun kv => (fieldByKey d kv.1).isNone && isExtKey kv.1) then ["ext.kept"] else []) ++
          (if kvs.any (fun kv => (fieldByKey d kv.1).isNone && !isExtKey kv.1) then ["unknown.kept"] else []) ++
          (if kvs.any (fun kv => match fieldByKey d kv.1 with | some f => isDefault f.tc kv.2 | none => false) then ["default.dropped"] else []) ++
          (if (alwaysKeys d).any (fun k => !hasKey k kvs) then ["required.added"] else []) ++
          (if d.marsh.any (fun m => m.guard == .orEmpty && (r.fld m.goName).isNull) then ["requiredMap.filled"] else []) ++
          (if d.marsh.any (fun m => m.guard == .neNilLenNe0 && (r.fld m.goName).isEmptyColl) then ["emptyList.omitted"] else []) ++
          (if dateTrimHit d kvs then ["dateTrim"] else [])
        here ++ kvs.flatMap (fun kv => match fieldByKey d kv.1 with
                                      | some f => (if isDefault f.tc kv.2 then [] else ["field:" ++ k ++ "." ++ kv.1]) ++ branches T f.shape kv.2
                                      | none => [])
      | _ => []
    | some _, _ => []

partial def depth : JV → Nat
  | .arr xs => 1 + xs.foldl (fun a x => max a (depth x)) 0
  | .obj kvs => 1 + kvs.foldl (fun a kv => max a (depth kv.2)) 0
  | _ => 1

/-- the object kinds of the regenerated table, as the harness names them ("wrap:name") -/
def tableKinds (T : List Desc) : List String :=
  T.filterMap (fun d => match d.template with
    | .struct => some ("kind:" ++ d.name)
    | .alias => some ("kind:" ++ d.name)
    | .ref => some ("ref:" ++ d.name)
    | .maplike => some ("maplike:" ++ d.name)
    | _ => none)

def handleDoc (j : Json) : Json :=
  let T := KinModel.Gen.descriptors
  let s := parseShape j
  let doc := ofJson (getD j "doc" Json.null)
  let fuel := 4 * depth doc + 16
  let first := rt T fuel s doc
  let second := first.bind (rt T fuel s)
  let normal := normalB T fuel s doc
  let br := ((branches T s doc) ++ (if normal then ["spec.normal"] else []) ++
    (if doc.clean then [] else ["excl.notClean"])).eraseDups
  let excl := (if br.contains "dateTrim" then ["DateExampleTrim"] else [])
  let oj : Res JV → Json := fun o => match o with
    | .ok v => toJson v
    | .error .panic => jobj [("panic", Json.bool true)]
    | .error .unparsed => jobj [("unparsed", Json.bool true)]
    | .error .fuel => Json.str "<out of fuel>"
  jobj [
    ("model", jobj [("first", oj first), ("second", oj second)]),
    ("spec", jobj [("normal", Json.bool normal), ("first", if normal then toJson doc else Json.null), ("stable", Json.bool true)]),
    ("excl", jstrs excl),
    ("branches", jstrs br)]

def handle (j : Json) : Json :=
  if getBool j "listKinds" then
    let ks := tableKinds KinModel.Gen.descriptors
    jobj [("model", jstrs ks), ("spec", jstrs ks), ("excl", jstrs []), ("branches", jstrs ["table.kinds"])]
  else handleDoc j

end KinModel.Drv.C03
