import KinModel.Drv.SchemaJson
import KinModel.Drv.C01
import KinModel.Schema.Spec
open Lean
namespace KinModel.Drv.C12
open KinModel.Drv KinModel.Schema

/-- request: {schema, value, regex, formats}; reply: the model's report in each mode and the spec verdict -/
def handle (j : Json) : Json :=
  let sj := getD j "schema" (Json.mkObj [])
  let s := caseSchema j
  let v := toJ (getD j "value" Json.null)
  let env := envOf j
  let t := events env s v
  let d := report .dflt t
  let m := report .multi t
  let f := report .failfast t
  let sp := satB env s v
  let nErr := m.errs.length
  let br := (C01.kwBranches sj 0).eraseDups ++ [C01.valKind v] ++ (if d.isOk then ["accept"] else ["reject"]) ++
    (if nErr > 1 then ["multi.many"] else []) ++
    (if m.errs.any (fun e => !e.rpath.isEmpty) then ["err.nested"] else []) ++
    (if m.errs.any (fun e => e.field == "required") then ["err.required"] else []) ++
    (if m.errs.any (fun e => e.value.isNone) then ["err.novalue"] else []) ++
    (if env.asreq then ["ctx.asreq"] else []) ++ (if env.asrep then ["ctx.asrep"] else []) ++
    (if m.errs.any (fun e => e.field == roErr.field) then ["err.readWriteOnly"] else [])
  jobj [("model", jobj [("dflt", resJson d), ("multi", resJson m), ("failfast", Json.bool f.isOk)]),
        ("spec", jobj [("sat", Json.bool sp)]),
        ("excl", Json.arr #[]), ("branches", jstrs br)]

end KinModel.Drv.C12
