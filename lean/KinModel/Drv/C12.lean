import KinModel.Drv.SchemaJson
import KinModel.Drv.C01
import KinModel.Schema.Spec
import KinModel.Schema.Defaults
import KinModel.C12.ErrObject
open Lean
namespace KinModel.Drv.C12
open KinModel.Drv KinModel.Schema

/-- field, pointer, quoted value (the reason fragments are C19's); `reobs`: the pointers the object model shows for the
further observations the run makes on the same error (`reobsSeq`: JSONPointer, Error, Unwrap, JSONPointer, ConvertErrors, JSONPointer) -/
def errJsonLoc (e : Err) : Json :=
  Json.mkObj ([("field", Json.str e.field), ("pointer", jstrs (e.pointer.map tokStr)),
               ("reobs", Json.arr ((observe true e.rpath reobsSeq).1.map (fun p => jstrs (p.map tokStr))).toArray)] ++
              (match e.value with | some v => [("value", fromJ v)] | none => []))

def outJson (inj : Bool) (v : J) (o : Res × J) : Json :=
  Json.mkObj ([("ok", Json.bool o.1.isOk)] ++ (if o.1.errs.isEmpty then [] else [("errs", Json.arr (o.1.errs.map errJsonLoc).toArray)]) ++
              (if inj then [("after", fromJ o.2), ("fired", Json.bool (!jeq o.2 v))] else []))

/-- request: {schema, value, regex, formats, ctx, dfl, …}; reply: the model's report in each of the four modes (with the
value afterwards when defaults are injected) and the spec verdict. Without injection the model is `validate` (the
mode-free event tree), with injection `validateD`; `xcheck` asks for both and compares them. -/
def handle (j : Json) : Json :=
  let sj := getD j "schema" (Json.mkObj [])
  let s := caseSchema j
  let v := toJ (getD j "value" Json.null)
  let env := envOf j
  let inj := env.injects
  let out (m : Mode) : Res × J := if inj then validateD m env s v else (validate m env s v, v)
  let d := out .dflt
  let m := out .multi
  let f := out .failfast
  let fm := out .ffmulti
  let sp := satB env s v
  let xbad := getBool j "xcheck" && !inj &&
    ([Mode.dflt, .multi, .failfast, .ffmulti].any (fun mo =>
      (resJson (validateD mo env s v).1).compress != (resJson (validate mo env s v)).compress ||
      (fromJ (validateD mo env s v).2).compress != (fromJ v).compress))
  let nErr := m.1.errs.length
  let changed := inj && (fromJ m.2).compress != (fromJ v).compress
  let br := (C01.kwBranches sj 0).eraseDups ++ [C01.valKind v] ++ (if d.1.isOk then ["accept"] else ["reject"]) ++
    (if nErr > 1 then ["multi.many"] else []) ++
    (if m.1.errs.any (fun e => !e.rpath.isEmpty) then ["err.nested"] else []) ++
    (if m.1.errs.any (fun e => e.field == "required") then ["err.required"] else []) ++
    (if m.1.errs.any (fun e => e.value.isNone) then ["err.novalue"] else []) ++
    (if env.asreq then ["ctx.asreq"] else []) ++ (if env.asrep then ["ctx.asrep"] else []) ++
    (if env.dfl then ["opt.defaultsSet"] else []) ++
    (if changed then ["dflt.injected", "dflt.callback"] else []) ++
    (if inj && !changed && s.hasPropDflt then ["dflt.callback.silent"] else []) ++
    (if changed && !d.1.isOk then ["dflt.injected.rejected"] else []) ++
    (if inj && (fromJ d.2).compress != (fromJ m.2).compress then ["dflt.after.differs.by.mode"] else []) ++
    (if getBool j "xcheck" then ["xcheck"] else []) ++
    (if inj && s.dfltUnderNot then ["dflt.under.not"] else []) ++
    (if m.1.errs.any (fun e => e.field == roErr.field) then ["err.readWriteOnly"] else []) ++
    (if m.1.errs.any (fun e => e.rpath.length ≥ 2 && e.rpath != e.rpath.reverse) then ["err.reobserved.deep"] else [])
  jobj [("model", jobj [("dflt", outJson inj v d), ("multi", outJson inj v m), ("failfast", outJson inj v f), ("ffmulti", outJson inj v fm),
                        ("xbad", Json.bool xbad)]),
        ("spec", if inj then jobj [("agree", Json.bool true)] else jobj [("sat", Json.bool sp)]),
        ("excl", Json.arr #[]), ("branches", jstrs br)]

end KinModel.Drv.C12
