import KinModel.Drv.Util
import KinModel.Internalize
open Lean
namespace KinModel.Drv.C16
open KinModel.Drv KinModel.Internalize

def nats (js : List Json) : List Nat := js.map fun j => (j.getNat?).toOption.getD 0
def getNats (j : Json) (k : String) : List Nat := nats (getArr j k)

def parseCell (j : Json) : Cell :=
  { k := getStr j "k", ref := getStr j "ref",
    refPath := if getBool j "hasrp" then some (getStr j "rpp", getStr j "rpf") else none,
    val := getInt j "val" }

def parseMT (j : Json) : MT :=
  { schema := getInt j "schema", ex := getNats j "ex", enc := (getArr j "enc").map fun e => nats (asArr e) }

def parseOp (j : Json) : Op :=
  { rb := getInt j "rb", cbs := getNats j "cbs", resps := getNats j "resps", params := getNats j "params" }

def parsePI (j : Json) : PI :=
  { ref := getStr j "ref", params := getNats j "params", ops := (getArr j "ops").map parseOp }

def parseVal (j : Json) : Val :=
  { t := getStr j "t", cc := getStr j "cc", ch := getNats j "ch", schema := getInt j "schema",
    content := (getArr j "content").map parseMT, headers := getNats j "headers", links := getNats j "links",
    items := getNats j "items" }

def kinds : List String :=
  ["schemas", "parameters", "headers", "requestBodies", "responses", "securitySchemes", "examples", "links", "callbacks"]

def parseHeap (j : Json) : Heap :=
  let cj := getD j "comps" Json.null
  { root := if getBool j "hasurl" then some (getStr j "root") else none,
    hasComp := getBool j "hascomp", validBefore := getBool j "valid",
    cells := ((getArr j "cells").map parseCell).toArray,
    vals := ((getArr j "vals").map parseVal).toArray,
    pis := ((getArr j "pis").map parsePI).toArray,
    comps := kinds.map fun k => (k, (getArr cj k).map fun e => (getStr e "n", getNat e "c")),
    paths := getNats j "paths" }

/-- request: {root, files, heap}; only `heap` is read by the model -/
def handle (j : Json) : Json :=
  let h := parseHeap (getD j "heap" Json.null)
  let static : List String :=
    (if UnwalkedRef h then ["UnwalkedRef"] else []) ++
    (if SelfRefComponent h then ["SelfRefComponent"] else []) ++
    (if WrongRefPath h then ["WrongRefPath"] else []) ++
    (if CallbackCycle h then ["CallbackCycle"] else [])
  match internalize h with
  | .done s =>
    let ok := specB h s
    let dyn : List String :=
      (if NameCollision s then ["NameCollision"] else []) ++
      (if StaleInternalRef h s then ["StaleInternalRef"] else [])
    -- an exclusion class is reported only when the model predicts a failure; a failure no class explains is left bare
    let excl := if ok then [] else static ++ dyn
    jobj [
      ("model", jobj [("outcome", Json.str "done"), ("refs", jstrs s.refs.toList), ("pirefs", jstrs s.pirefs.toList),
                      ("comps", jobj (kinds.map fun k => (k, jstrs ((compsOf s k).map (·.1))))),
                      ("specok", Json.bool ok), ("ambiguous", Json.bool s.ambiguous)]),
      ("spec", jobj [("ok", Json.bool true)]),
      ("excl", jstrs excl),
      ("branches", jstrs (s.flags ++ (if ok then [] else ["spec.fails"])))]
  | .panic site =>
    jobj [("model", jobj [("outcome", Json.str "panic"), ("site", Json.str site), ("specok", Json.bool false)]),
          ("spec", jobj [("ok", Json.bool true)]),
          ("excl", jstrs static),
          ("branches", jstrs ["panic"])]
  | .diverge =>
    jobj [("model", jobj [("outcome", Json.str "diverge"), ("specok", Json.bool false)]),
          ("spec", jobj [("ok", Json.bool true)]),
          ("excl", jstrs static),
          ("branches", jstrs ["diverge"])]

end KinModel.Drv.C16
