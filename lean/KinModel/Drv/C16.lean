import KinModel.Drv.Util
import KinModel.Internalize
import KinModel.Lemmas.C16Heaps
import KinModel.Lemmas.C16Rerun
open Lean
namespace KinModel.Drv.C16
open KinModel.Drv KinModel.Internalize

def nats (js : List Json) : List Nat := js.map fun j => (j.getNat?).toOption.getD 0
def getNats (j : Json) (k : String) : List Nat := nats (getArr j k)
def getL (j : Json) (k : String) : List Char := (getStr j k).toList

def parseCell (j : Json) : Cell :=
  { k := getL j "k", ref := getL j "ref",
    refPath := if getBool j "hasrp" then some (getL j "rpp", getL j "rpf") else none,
    val := getInt j "val" }

def parseMT (j : Json) : MT :=
  { schema := getInt j "schema", ex := getNats j "ex", enc := (getArr j "enc").map fun e => nats (asArr e) }

def parseOp (j : Json) : Op :=
  { rb := getInt j "rb", cbs := getNats j "cbs", resps := getNats j "resps", params := getNats j "params" }

def parsePI (j : Json) : PI :=
  { ref := getL j "ref", params := getNats j "params", ops := (getArr j "ops").map parseOp }

def parseVal (j : Json) : Val :=
  { t := getStr j "t", cc := getStr j "cc", ch := getNats j "ch", schema := getInt j "schema",
    content := (getArr j "content").map parseMT, headers := getNats j "headers", links := getNats j "links",
    items := getNats j "items", pex := getNats j "pex",
    dmap := (getArr j "dmap").map fun e => (getL e "t", getNat e "c") }

def kinds : List String :=
  ["schemas", "parameters", "headers", "requestBodies", "responses", "securitySchemes", "examples", "links", "callbacks"]

def parseHeap (j : Json) : Heap :=
  let cj := getD j "comps" Json.null
  { root := if getBool j "hasurl" then some (getL j "root") else none,
    hasComp := getBool j "hascomp", validBefore := getBool j "valid",
    cells := ((getArr j "cells").map parseCell).toArray,
    vals := ((getArr j "vals").map parseVal).toArray,
    pis := ((getArr j "pis").map parsePI).toArray,
    comps := kinds.flatMap fun k => (getArr cj k).map fun e => (k.toList, getL e "n", getNat e "c"),
    paths := getNats j "paths" }

/-- the heaps the witness / regression theorems of Props/C16.lean are about, by the tag of their corpus case: the reply
tells whether the heap extracted from the real loader for that case still IS that heap -/
def twins : List (String × Heap) :=
  [("f17-underscore-vs-slash", Heaps.hCollision),
   ("self-response", Heaps.hSelfResponse),
   ("comp-link-external", Heaps.hSelfLink),
   ("flag-dropped-inline-path-item-of-external-callback", Heaps.hFlagDropped),
   ("ext-value-first-reached-internally", Heaps.hFirstReachedInternally),
   ("param-example-external", Heaps.hParamExample),
   ("header-example-in-imported-file", Heaps.hHeaderExampleImported),
   ("discriminator-mapping-external", Heaps.hDiscriminator),
   ("inline-callback-cycle", Heaps.hInlineCycle),
   ("loader-unresolved-below-path-item-element-ref", Heaps.hLoaderUnresolved),
   ("f41-encoding-header-ref", Heaps.hEncHeaderInternal),
   ("enc-header-external", Heaps.hEncHeaderExternal),
   ("wrongrefpath-link-empty-name", Heaps.hLinkWholeFile),
   ("callback-cycle", Heaps.hCallbackCycle),
   ("callback-cycle-via-paths", Heaps.hCallbackCycleViaPaths),
   ("m1-shape-whole-and-element", Heaps.hWholeAndElement),
   ("shared-header-twice", Heaps.hSharedHeader),
   ("fix18-absolute-root-backref", Heaps.hAbsoluteBackref),
   ("path-item-chain", Heaps.hPathItemChain),
   ("same-name-response-then-request-body", Heaps.hSameName),
   ("media-type-without-schema", Heaps.hNoSchemaMT),
   ("path-item-file-chain", Heaps.hPathItemFileChain)]

def twinOf (j : Json) (h : Heap) : Json :=
  match twins.find? (·.1 == getStr j "tag") with
  | some (_, t) => Json.bool (decide (t = h))
  | none => Json.null

/-- what the layout contains (for the distribution printed into the evidence) -/
def features (h : Heap) : List String :=
  (if h.vals.toList.any (fun v => !v.pex.isEmpty) then ["has.parameter_or_header_examples"] else []) ++
  (if h.vals.toList.any (fun v => !v.dmap.isEmpty) then ["has.discriminator_mapping"] else []) ++
  (if h.vals.toList.any (fun v => v.content.any (fun m => m.enc.any (fun e => !e.isEmpty))) then ["has.encoding_headers"] else []) ++
  (if h.pis.toList.any (fun p => !p.ref.isEmpty) then ["has.path_item_ref"] else []) ++
  (if h.pis.toList.any (fun p => KinModel.RefName.isPrefix "#/paths/".toList p.ref) then ["has.path_item_ref_into_paths"] else []) ++
  (if h.cells.toList.any (fun c => c.val < 0) then ["has.nil_value_cell"] else []) ++
  (if h.vals.toList.any (fun v => !v.items.isEmpty) then ["has.callback"] else []) ++
  (if (h.root.map (fun r => KinModel.RefName.isPrefix ['/'] r)).getD false then ["root.absolute"] else ["root.relative"])

def strsOf (l : List (List Char)) : Json := jstrs (l.map String.ofList)

/-- request: {root, files, heap}; only `heap` is read by the model -/
def handle (j : Json) : Json :=
  let h := parseHeap (getD j "heap" Json.null)
  match internalize h with
  | .done s =>
    let ok := specB h s
    -- the hypotheses of `spec_holds_partial` that fail on this input; the first four are the known-finding classes
    let excl : List String :=
      (if NameCollision s then ["NameCollision"] else []) ++
      (if SelfRefComponent h s then ["SelfRefComponent"] else []) ++
      (if StaleInternalRef h s then ["StaleInternalRef"] else []) ++
      (if UnwalkedExample h s then ["UnwalkedExample"] else []) ++
      (if DiscriminatorMapping h s then ["DiscriminatorMapping"] else []) ++
      (if InlinedCycle h s then ["InlinedCycle"] else []) ++
      (if Unresolved h then ["Unresolved"] else []) ++
      (if PathItemLeft h s then ["PathItemLeft"] else []) ++
      (if EmptyName h s then ["EmptyName"] else []) ++
      (if !kindsPlain h then ["KindWithSlash"] else [])
    -- a class is reported only when the model predicts a failure (by `spec_holds_partial` at least one then holds)
    let excl := if ok then [] else excl
    -- the reuse dimension: a second call on the state the first one left (visited sets reset)
    let allint := allIntB s
    let second : List (String × Json) :=
      match internalizeM h (budget h) (rerunSt h s) with
      | .ok (_, s2) =>
        [("outcome2", Json.str "done"), ("refs2", strsOf s2.refs.toList), ("pirefs2", strsOf s2.pirefs.toList),
         ("comps2", jobj (kinds.map fun k => (k, strsOf ((compsOf s2 k.toList).map (·.1)))))]
      | .error (.panic _) => [("outcome2", Json.str "panic")]
      | .error .fuel => [("outcome2", Json.str "diverge")]
    jobj [
      ("model", jobj ([("outcome", Json.str "done"), ("refs", strsOf s.refs.toList), ("pirefs", strsOf s.pirefs.toList),
                      ("comps", jobj (kinds.map fun k => (k, strsOf ((compsOf s k.toList).map (·.1))))),
                      ("specok", Json.bool ok), ("ambiguous", Json.bool s.ambiguous),
                      ("cyclic", Json.bool (InlinedCycle h s)), ("twin", twinOf j h),
                      ("allint", Json.bool allint)] ++ second)),
      ("spec", jobj [("ok", Json.bool true)]),
      ("excl", jstrs excl),
      ("branches", jstrs (s.flags ++ (if ok then [] else ["spec.fails"]) ++
        (if s.flags.isEmpty then [] else features h ++ (if allint then ["second_call.compared"] else []))))]
  | .panic site =>
    jobj [("model", jobj [("outcome", Json.str "panic"), ("site", Json.str site), ("specok", Json.bool false)]),
          ("spec", jobj [("ok", Json.bool true)]),
          ("excl", jstrs (if Unresolved h then ["Unresolved"] else [])),
          ("branches", jstrs ["panic"])]
  | .diverge =>
    jobj [("model", jobj [("outcome", Json.str "diverge"), ("specok", Json.bool false)]),
          ("spec", jobj [("ok", Json.bool true)]),
          ("excl", jstrs []),
          ("branches", jstrs ["diverge"])]

end KinModel.Drv.C16
