/- JSON helpers shared by the per-property driver handlers (core-only: Lean.Data.Json). -/
import Lean.Data.Json
open Lean
namespace KinModel.Drv

def getD (j : Json) (k : String) (d : Json) : Json := (j.getObjVal? k).toOption.getD d
def getStr (j : Json) (k : String) : String := (j.getObjValAs? String k).toOption.getD ""
def getBool (j : Json) (k : String) : Bool := (j.getObjValAs? Bool k).toOption.getD false
def getNat (j : Json) (k : String) : Nat := (j.getObjValAs? Nat k).toOption.getD 0
def getInt (j : Json) (k : String) : Int := (j.getObjValAs? Int k).toOption.getD 0
def getArr (j : Json) (k : String) : List Json :=
  match j.getObjVal? k with | .ok (.arr a) => a.toList | _ => []
def isNull (j : Json) (k : String) : Bool :=
  match j.getObjVal? k with | .ok .null => true | .ok _ => false | .error _ => true
def asStr (j : Json) : String := match j with | .str s => s | _ => ""
def asArr (j : Json) : List Json := match j with | .arr a => a.toList | _ => []
def strs (js : List Json) : List String := js.map asStr
def jstrs (l : List String) : Json := Json.arr (l.map Json.str).toArray
def jobj (kvs : List (String × Json)) : Json := Json.mkObj kvs

end KinModel.Drv
