import KinModel.Drv.Util
import KinModel.LoaderJson
import KinModel.LoaderHistory
open Lean
namespace KinModel.Drv.C02
open KinModel.Drv KinModel.Loader KinModel.LoaderJson

def kindStr : Kind → String
  | .header => "header" | .parameter => "parameter" | .requestBody => "requestBody" | .response => "response"
  | .schema => "schema" | .securityScheme => "securityScheme" | .example => "example" | .callback => "callback"
  | .link => "link" | .pathItem => "pathItem"

def addNodes (ns new : List CNode) : List CNode :=
  new.foldl (fun acc n =>
    if acc.any (·.same n) then (if n.nat then acc.map (fun m => if m.same n then { m with nat := true } else m) else acc)
    else acc ++ [n]) ns

def srcJson (fs : Files) (rootData : Option Json) (src : String) : Option Json :=
  if src = "" then rootData else (fs.find? (·.1 = src)).map (·.2)

/-- the nodes a step makes necessary: the walked document, and the target object with its subtree -/
def needed (fs : Files) (rootData : Option Json) (tabs : Tabs) (cx : Cx) (n : CNode) : List CNode × List Cx :=
  match n.ref with
  | none => ([], [])
  | some t =>
    let dl := docLoadGo fs cx t
    let docNodes := match dl with
       | some d => match fetch fs d with
         | some dj => enumDoc ⟨some d, some d⟩ (storeKey d) dj
         | none => []
       | none => []
    let docCx := match dl with | some d => [⟨some d, some d⟩] | none => []
    match stepGo fs rootData tabs cx t n.kind with
    | .node cont home src ptr typed _ =>
      (docNodes ++
      (match (srcJson fs rootData src).bind (fun j => rawAt j ptr) with
       | some v => (enum 64 home src ptr n.kind v typed false).map (fun x => { x with nat := typed || (cx == n.cx && n.nat) })
       | none => []),
       [cont, home] ++ docCx)
    | _ => (docNodes, docCx)

def dedup [BEq α] (l : List α) : List α := l.foldl (fun acc x => if acc.contains x then acc else acc ++ [x]) []

/-- closure of objects and contexts: every reference object is evaluated in every context that occurs -/
def close (fs : Files) (rootData : Option Json) (tabs : Tabs) : Nat → List CNode → List Cx → List CNode × List Cx
  | 0, ns, cxs => (ns, cxs)
  | f + 1, ns, cxs =>
    let (ns', cxs') := ns.foldl (fun (acc : List CNode × List Cx) n =>
      if n.ref.isNone then acc else
      cxs.foldl (fun (acc : List CNode × List Cx) cx =>
        let (nn, nc) := needed fs rootData tabs cx n
        (addNodes acc.1 nn, dedup (acc.2 ++ nc))) acc) (ns, cxs)
    if ns'.length = ns.length && cxs'.length = cxs.length then (ns, cxs) else close fs rootData tabs f ns' cxs'

structure Built where
  nodes : List CNode
  cxs   : List Cx
  texts : List String
  world : World

def idxOf [BEq α] (l : List α) (x : α) : Option Nat :=
  let i := l.findIdx (· == x)
  if i < l.length then some i else none

def findObj (nodes : List CNode) (home : Cx) (src : String) (ptr : List String) (k : Kind) (cp : Bool) : Option Nat :=
  let i := nodes.findIdx (fun m => m.cx == home && m.src == src && m.ptr == ptr && m.kind == k && m.copy == cp)
  if i < nodes.length then some i else none

def build (fs : Files) (rootData : Option Json) (tabs : Tabs) (roots : List (Cx × String × Json)) : Built :=
  let (nodes0, cxs) := close fs rootData tabs 24
    (roots.foldl (fun acc (c, src, j) => addNodes acc (enumDoc c src j)) []) (dedup (roots.map (·.1)))
  -- a resolver works on a local copy of a target that is itself a reference
  let nodes := nodes0 ++ (nodes0.filter (fun n => n.ref.isSome)).map (fun n => { n with copy := true })
  let texts := dedup (nodes.filterMap (·.ref))
  let table : List Node := nodes.map (fun m =>
      { kind := m.kind, empty := m.empty, ref := m.ref.bind (idxOf texts),
        kids := m.kids.filterMap (fun (p, k) => findObj nodes m.cx m.src p k false),
        home := (idxOf cxs m.cx).getD 0,
        orig := if m.copy then findObj nodes m.cx m.src m.ptr m.kind false else none })
  let step (l : Loc) (t : Text) (k : Kind) : Option StepR :=
    match cxs[l]?, texts[t]? with
    | some c, some tx => some (stepGo fs rootData tabs c tx k)
    | _, _ => none
  let w : World := {
    nodes := table,
    roots := fun l => match cxs[l]? with
      | some c =>
        if c.doc == c.path then
          let dj := match c.doc with | some d => fetch fs d | none => rootData
          let src := match c.doc with | some d => storeKey d | none => ""
          match dj with
          | some dj => (docChildren dj).filterMap (fun ch => findObj nodes c src ch.toks ch.kind false)
          | none => []
        else []
      | none => [],
    docOf := fun l t => match cxs[l]?, texts[t]? with
      | some c, some tx => (docLoadGo fs c tx).bind (fun d => idxOf cxs ⟨some d, some d⟩)
      | _, _ => none,
    target := fun l t k => match step l t k with
      | some (.node cont home src ptr _ _) => (idxOf cxs cont).bind (fun ci =>
          match findObj nodes home src ptr k true with
          | some ni => some (ci, ni)
          | none => (findObj nodes home src ptr k false).map (fun ni => (ci, ni)))
      | _ => none,
    fragment := fun _ t _ => match texts[t]? with
      | some tx => tx.contains '#'
      | none => false,
    emptyTarget := fun l t k => match step l t k with
      | some .empty => true
      | _ => false }
  { nodes := nodes, cxs := cxs, texts := texts, world := w }

/-- positions of an object that are reference-capable by type but not walked -/
def skippedOf (b : Built) (i : Nat) : List Nat :=
  match b.nodes[i]? with
  | some m => m.skipped.filterMap (fun (p, k) => findObj b.nodes m.cx m.src p k false)
  | none => []

/-- reference objects reachable in the loaded object graph, with the value each was given -/
def reach (b : Built) (s : St) : Nat → List Obj → List Obj → List (String × Option Json) → List (String × Option Json)
  | 0, _, _, acc => acc
  | _, [], _, acc => acc
  | f + 1, i :: rest, seen, acc =>
    if seen.contains i then reach b s f rest seen acc
    else
      match b.world.node i with
      | none => reach b s f rest (i :: seen) acc
      | some n =>
        match n.ref with
        | none => reach b s f (rest ++ n.kids ++ skippedOf b i) (i :: seen) acc
        | some _ =>
          let rid := ((b.nodes[i]?).map (·.rid)).getD "?"
          match s.get i with
          | none => reach b s f rest (i :: seen) (acc ++ [(rid, none)])
          | some v =>
            let vj := (b.nodes[v]?).map (·.j)
            reach b s f (rest ++ [v]) (i :: seen) (acc ++ [(rid, vj)])

def groupRefs (l : List (String × Option Json)) : Json :=
  let rids := dedup (l.map (·.1))
  Json.mkObj (rids.map (fun r =>
    let vs := (l.filter (·.1 = r)).map (fun p => (p.2.getD Json.null))
    let vs := vs.foldl (fun acc v => if acc.any (fun x => x.compress = v.compress) then acc else acc ++ [v]) []
    (r, Json.arr vs.toArray)))

def parseFiles (j : Json) : Files :=
  (getArr j "files").map (fun f => (storeKey (getStr f "path"), getD f "json" Json.null))

/-- one load of a history -/
structure LoadReq where
  entry : String
  root  : String
  cx    : Cx
  src   : String
  j     : Json

/-- request: {files: [{path, json, virtual?}], loads: [{entry: "file"|"path"|"uri"|"data", root: "<location>"}]} — the loads
    are made one after the other on ONE Loader; a "data" load (at most one per history) takes the root document from a
    `virtual` file, which is not part of the store. Short form for a single load: {entry, root, files} ("data": the
    root document is `files[0].json`). -/
def handleFrom (j : Json) (st0 : St) : Json × St :=
  let rawLoads : List (String × String) :=
    match getArr j "loads" with
    | [] => [(getStr j "entry", getStr j "root")]
    | ls => ls.map (fun l => (getStr l "entry", getStr l "root"))
  let short := (getArr j "loads").isEmpty
  let fileObjs := getArr j "files"
  let isVirtual (i : Nat) (f : Json) : Bool := getBool f "virtual" || (short && i == 0 && getStr j "entry" = "data")
  let allFiles : List (String × Json × Bool) :=
    (fileObjs.zipIdx).map (fun (f, i) => (storeKey (getStr f "path"), getD f "json" Json.null, isVirtual i f))
  let fs : Files := (allFiles.filter (fun f => !f.2.2)).map (fun f => (f.1, f.2.1))
  let dataRoot : Option String := (rawLoads.find? (·.1 = "data")).map (·.2)
  let rootData : Option Json := dataRoot.bind (fun r =>
    ((allFiles.find? (fun f => f.2.2 && (short || f.1 = storeKey r))).map (·.2.1)))
  let loads : List LoadReq := rawLoads.map (fun (entry, root) =>
    if entry = "data" then ⟨entry, root, ⟨none, none⟩, "", rootData.getD Json.null⟩
    else ⟨entry, root, ⟨some root, some root⟩, storeKey root, (fetch fs root).getD Json.null⟩)
  let tabs := mkTabs fs rootData
  let b := build fs rootData tabs (loads.map (fun l => (l.cx, l.src, l.j)))
  let w := b.world
  -- fuel: the bound of `load_terminates` ((#keys + 1) · (R + 1)); rank of an object = R − depth of its pointer
  -- (the children of a value lie strictly deeper), R = the deepest pointer
  let depthMax := b.nodes.foldl (fun m n => max m n.ptr.length) 0
  let nkeys := (dedup ((b.nodes.filter (·.ref.isSome)).map (fun n => (kindStr n.kind, n.ref.getD "")))).length
  let fuel := (nkeys + 1) * (depthMax + 2)
  -- static facts about the references of the history
  let refNodes := b.nodes.filter (fun n => n.ref.isSome && !n.copy && n.nat)
  -- one step of every reference, evaluated at home (computed once)
  let stepsAtHome : List StepR := refNodes.map (fun n => stepGo fs rootData tabs n.cx (n.ref.getD "") n.kind)
  let stepOf (n : CNode) : StepR :=
    let i := refNodes.findIdx (fun m => m.same n)
    stepsAtHome[i]?.getD .fail
  let stepKey (r : StepR) : String := match r with
    | .node cx _ src ptr _ _ => s!"{repr cx}|{src}|{ptr}"
    | .fail => "fail" | .empty => "empty"
  let keyed : List (CNode × String) := (refNodes.zip stepsAtHome).map (fun (n, r) => (n, stepKey r))
  let textsShared := keyed.any (fun (a, ka) => keyed.any (fun (c, kc) =>
    a.ref == c.ref && a.kind == c.kind && ka != kc))
  let targetIsRef (n : CNode) : Bool := match stepOf n with
    | .node _ home src ptr _ _ => b.nodes.any (fun m => m.cx == home && m.src == src && m.ptr == ptr && m.kind == n.kind && m.ref.isSome && !m.copy)
    | _ => false
  let specStepKey (n : CNode) : String :=
    match stepSpec fs rootData (if n.src = "" then none else some n.src) (n.ref.getD "") with
    | some (file, toks, v) =>
      let kindOK := match toks with
        | [] => true
        | first :: _ => if knownTop.contains first then tabs.specKind file toks == some n.kind else true
      if isObj v && kindOK then s!"{file.getD ""}|{toks}" else "fail"
    | none => "fail"
  let goStepKey (n : CNode) : String := match stepOf n with
    | .node _ _ src ptr _ _ => s!"{src}|{ptr}"
    | .fail => "fail" | .empty => "empty"
  let disagree := refNodes.filter (fun n => goStepKey n != specStepKey n)
  let internalInElem := disagree.any (fun n => (n.ref.getD "").startsWith "#" && n.cx.doc != n.cx.path)
  let otherDisagree := disagree.any (fun n =>
    !(match stepOf n with | .empty => true | _ => false) &&
    !((n.ref.getD "").startsWith "#" && n.cx.doc != n.cx.path))
  let nullMember := b.nodes.any (·.empty)
  -- the loads, one after the other, each from the state the previous one left
  let step (acc : St × List (Json × Json × List String × List String)) (ld : LoadReq) : St × List (Json × Json × List String × List String) :=
    let (st, out) := acc
    let rootIdx := (idxOf b.cxs ld.cx).getD 0
    let res := loadEntry w fuel ⟨rootIdx, ld.entry != "data", true⟩ st
    let topIds : List Obj := (docAll ld.j).filterMap (fun ch => findObj b.nodes ld.cx ld.src ch.toks ch.kind false)
    let (outcome, refs, s') := match res with
      | .ok s => ("ok", reach b s 4000 topIds [] [], s)
      | .err _ s => ("err", [], s)
      | .outOfFuel => ("outOfFuel", [], st)
    -- the specification looks at this load alone
    let isData := ld.entry = "data"
    let specRefs := specWalk fs rootData tabs 4000
      ((specDocChildren ld.j).map (fun c => ((if isData then none else some (storeKey ld.root)), c.kind, c.j, c.toks.getLast?.getD "")))
      (if isData then [] else [storeKey ld.root]) []
    let specOK := specRefs.all (·.2.isSome)
    let ok := outcome == "ok"
    -- exclusion classes: the negated hypotheses of the partial theorems, as this load's run raised them
    let excl :=
      (if s'.tclash then ["TextNotGlobal"] else []) ++
      (if ok && (s'.nnil > 0 || s'.nempty > 0) then ["DegenerateTarget"] else []) ++
      (if s'.foreign then ["ForeignContext"] else [])
    let branches :=
      (if s'.nback > 0 then ["backtrack"] else []) ++
      (if s'.nnil > 0 then ["unvisit.nil"] else []) ++
      (if s'.nempty > 0 then ["empty.swallowed"] else []) ++
      (if !ok then ["outcome." ++ outcome] else []) ++ ["entry." ++ ld.entry]
    (s', out ++ [(jobj [("outcome", Json.str outcome), ("refs", groupRefs refs)],
                  jobj [("ok", Json.bool specOK), ("malformed", Json.bool nullMember),
                        ("refs", Json.mkObj (specRefs.map (fun (r, v) => (r, v.getD Json.null))))],
                  excl, branches)])
  let (stEnd, perLoad) := loads.foldl step (st0, [])
  let excl := dedup (perLoad.flatMap (·.2.2.1)) ++
    (if internalInElem then ["InternalRefInElementFile"] else []) ++
    (if otherDisagree then ["StepDisagree"] else [])
  -- branches
  let texts := refNodes.filterMap (·.ref)
  let isUntyped (n : CNode) : Bool := match stepOf n with | .node _ _ _ ptr false _ => !ptr.isEmpty | _ => false
  let outcomes := perLoad.map (fun p => getStr p.1 "outcome")
  let branches :=
    (if texts.any (·.startsWith "#") then ["ref.internal"] else []) ++
    (if texts.any (fun t => !(t.startsWith "#") && t.contains '#') then ["ref.external.fragment"] else []) ++
    (if texts.any (fun t => !(t.contains '#')) then ["ref.wholefile"] else []) ++
    (if refNodes.any targetIsRef then ["chain"] else []) ++
    (if textsShared then ["text.sharedByTwoTargets"] else []) ++
    (if nullMember then ["nullMember"] else []) ++
    (if b.cxs.length > 1 then ["ctx.many"] else []) ++
    (if b.cxs.any (fun c => c.doc != c.path) then ["ctx.element"] else []) ++
    (if refNodes.any isUntyped then ["untyped.codec"] else []) ++
    (if texts.any (fun t => (t.splitOn "~").length > 1) then ["ptr.escape"] else []) ++
    (if texts.any (fun t => (t.splitOn "..").length > 1) then ["path.dotdot"] else []) ++
    (if texts.any (fun t => t.startsWith "/" || t.startsWith "./" || (t.splitOn "//").length > 1) then ["path.spelling"] else []) ++
    (dedup (refNodes.map (fun n => "kind." ++ kindStr n.kind))) ++
    (if loads.length > 1 then ["history." ++ ".".intercalate outcomes] else []) ++
    dedup (perLoad.flatMap (·.2.2.2)) ++
    excl.map (fun e => "excl." ++ e)
  let lastM := (perLoad.getLast?.map (·.1)).getD Json.null
  let lastS := (perLoad.getLast?.map (·.2.1)).getD Json.null
  (jobj [
    ("model", jobj [("outcome", getD lastM "outcome" Json.null), ("refs", getD lastM "refs" Json.null),
                    ("loads", Json.arr (perLoad.map (·.1)).toArray)]),
    ("spec", jobj [("ok", getD lastS "ok" Json.null), ("refs", getD lastS "refs" Json.null),
                   ("loads", Json.arr (perLoad.map (·.2.1)).toArray)]),
    ("excl", jstrs excl),
    ("fuel", Json.num (JsonNumber.fromNat fuel)),
    ("dbg", jstrs (disagree.map (fun n => s!"{n.ref.getD ""} @{n.src} go={goStepKey n} spec={specStepKey n}"))),
    ("branches", jstrs branches)], stEnd)

/-- request, long form for a store that CHANGES between the loads: {epochs: [{files, loads}, …]} — the loads of all
    epochs are made one after the other on ONE Loader, the files are replaced between two epochs. The model is
    `Loader.loadSeqW`: every epoch builds its own world and fuel and starts from the state the previous epoch left
    (which `loadEntry` discards: `changing_store_history_is_fresh_loads`); the specification of a load looks at the
    files of its own epoch alone. -/
def handle (j : Json) : Json :=
  match getArr j "epochs" with
  | [] => (handleFrom j {}).1
  | eps =>
    let (_, outs) := eps.foldl (fun (acc : St × List Json) ep =>
      let (r, s') := handleFrom ep acc.1
      (s', acc.2 ++ [r])) (({} : St), [])
    let part (r : Json) (k : String) : Json := getD r k Json.null
    let mLoads := outs.flatMap (fun r => getArr (part r "model") "loads")
    let sLoads := outs.flatMap (fun r => getArr (part r "spec") "loads")
    let strs (r : Json) (k : String) : List String := (getArr r k).filterMap (fun x => match x with | .str t => some t | _ => none)
    let excl := dedup (outs.flatMap (fun r => strs r "excl"))
    let outcomes := mLoads.map (fun l => getStr l "outcome")
    let branches := dedup (outs.flatMap (fun r => strs r "branches")) ++
      ["store.changed", "store.changed." ++ ".".intercalate outcomes]
    let lastM := mLoads.getLast?.getD Json.null
    let lastS := sLoads.getLast?.getD Json.null
    jobj [
      ("model", jobj [("outcome", getD lastM "outcome" Json.null), ("refs", getD lastM "refs" Json.null),
                      ("loads", Json.arr mLoads.toArray)]),
      ("spec", jobj [("ok", getD lastS "ok" Json.null), ("refs", getD lastS "refs" Json.null),
                     ("loads", Json.arr sLoads.toArray)]),
      ("excl", jstrs excl),
      ("dbg", jstrs (outs.flatMap (fun r => strs r "dbg"))),
      ("branches", jstrs branches)]

end KinModel.Drv.C02
