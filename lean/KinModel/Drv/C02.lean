import KinModel.Drv.Util
import KinModel.LoaderJson
open Lean
namespace KinModel.Drv.C02
open KinModel.Drv KinModel.Loader KinModel.LoaderJson

def kindStr : Kind → String
  | .header => "header" | .parameter => "parameter" | .requestBody => "requestBody" | .response => "response"
  | .schema => "schema" | .securityScheme => "securityScheme" | .example => "example" | .callback => "callback"
  | .link => "link" | .pathItem => "pathItem"

def addNodes (ns new : List CNode) : List CNode :=
  new.foldl (fun acc n =>
    if acc.any (·.same n) then (if n.nat then acc.map (fun m => if m.same n then { m with nat := true } else m) else acc)
    else acc ++ [n]) ns

def srcJson (fs : Files) (rootData : Option Json) (src : String) : Option Json :=
  if src = "" then rootData else (fs.find? (·.1 = src)).map (·.2)

/-- the nodes a step makes necessary: the walked document, and the target object with its subtree -/
def needed (fs : Files) (rootData : Option Json) (tabs : Tabs) (cx : Cx) (n : CNode) : List CNode × List Cx :=
  match n.ref with
  | none => ([], [])
  | some t =>
    let dl := docLoadGo fs cx t
    let docNodes := match dl with
       | some d => match fetch fs d with
         | some dj => enumDoc ⟨some d, some d⟩ (storeKey d) dj
         | none => []
       | none => []
    let docCx := match dl with | some d => [⟨some d, some d⟩] | none => []
    match stepGo fs rootData tabs cx t n.kind with
    | .node cont home src ptr typed _ =>
      (docNodes ++
      (match (srcJson fs rootData src).bind (fun j => rawAt j ptr) with
       | some v => (enum 64 home src ptr n.kind v typed).map (fun x => { x with nat := typed || (cx == n.cx && n.nat) })
       | none => []),
       [cont, home] ++ docCx)
    | _ => (docNodes, docCx)

def dedup [BEq α] (l : List α) : List α := l.foldl (fun acc x => if acc.contains x then acc else acc ++ [x]) []

/-- closure of objects and contexts: every reference object is evaluated in every context that occurs -/
def close (fs : Files) (rootData : Option Json) (tabs : Tabs) : Nat → List CNode → List Cx → List CNode × List Cx
  | 0, ns, cxs => (ns, cxs)
  | f + 1, ns, cxs =>
    let (ns', cxs') := ns.foldl (fun (acc : List CNode × List Cx) n =>
      if n.ref.isNone then acc else
      cxs.foldl (fun (acc : List CNode × List Cx) cx =>
        let (nn, nc) := needed fs rootData tabs cx n
        (addNodes acc.1 nn, dedup (acc.2 ++ nc))) acc) (ns, cxs)
    if ns'.length = ns.length && cxs'.length = cxs.length then (ns, cxs) else close fs rootData tabs f ns' cxs'

structure Built where
  nodes : List CNode
  cxs   : List Cx
  texts : List String
  world : World

def idxOf [BEq α] (l : List α) (x : α) : Option Nat :=
  let i := l.findIdx (· == x)
  if i < l.length then some i else none

def findObj (nodes : List CNode) (home : Cx) (src : String) (ptr : List String) (k : Kind) (cp : Bool) : Option Nat :=
  let i := nodes.findIdx (fun m => m.cx == home && m.src == src && m.ptr == ptr && m.kind == k && m.copy == cp)
  if i < nodes.length then some i else none

def build (fs : Files) (rootData : Option Json) (tabs : Tabs) (rootCx : Cx) (rootSrc : String) (rootJ : Json) : Built :=
  let (nodes0, cxs) := close fs rootData tabs 24 (enumDoc rootCx rootSrc rootJ) [rootCx]
  -- a resolver works on a local copy of a target that is itself a reference
  let nodes := nodes0 ++ (nodes0.filter (fun n => n.ref.isSome)).map (fun n => { n with copy := true })
  let texts := dedup (nodes.filterMap (·.ref))
  let table : List Node := nodes.map (fun m =>
      { kind := m.kind, ref := m.ref.bind (idxOf texts),
        kids := m.kids.filterMap (fun (p, k) => findObj nodes m.cx m.src p k false),
        home := (idxOf cxs m.cx).getD 0,
        orig := if m.copy then findObj nodes m.cx m.src m.ptr m.kind false else none })
  let step (l : Loc) (t : Text) (k : Kind) : Option StepR :=
    match cxs[l]?, texts[t]? with
    | some c, some tx => some (stepGo fs rootData tabs c tx k)
    | _, _ => none
  let w : World := {
    nodes := table,
    roots := fun l => match cxs[l]? with
      | some c =>
        if c.doc == c.path then
          let dj := match c.doc with | some d => fetch fs d | none => rootData
          let src := match c.doc with | some d => storeKey d | none => ""
          match dj with
          | some dj => (docChildren dj).filterMap (fun ch => findObj nodes c src ch.toks ch.kind false)
          | none => []
        else []
      | none => [],
    docOf := fun l t => match cxs[l]?, texts[t]? with
      | some c, some tx => (docLoadGo fs c tx).bind (fun d => idxOf cxs ⟨some d, some d⟩)
      | _, _ => none,
    target := fun l t k => match step l t k with
      | some (.node cont home src ptr _ _) => (idxOf cxs cont).bind (fun ci =>
          match findObj nodes home src ptr k true with
          | some ni => some (ci, ni)
          | none => (findObj nodes home src ptr k false).map (fun ni => (ci, ni)))
      | _ => none,
    rewalk := fun _ t _ => match texts[t]? with
      | some tx => tx.contains '#'
      | none => false,
    emptyTarget := fun l t k => match step l t k with
      | some .empty => true
      | _ => false }
  { nodes := nodes, cxs := cxs, texts := texts, world := w }

/-- positions of an object that are reference-capable by type but not walked -/
def skippedOf (b : Built) (i : Nat) : List Nat :=
  match b.nodes[i]? with
  | some m => m.skipped.filterMap (fun (p, k) => findObj b.nodes m.cx m.src p k false)
  | none => []

/-- reference objects reachable in the loaded object graph, with the value each was given -/
def reach (b : Built) (s : St) : Nat → List Obj → List Obj → List (String × Option Json) → List (String × Option Json)
  | 0, _, _, acc => acc
  | _, [], _, acc => acc
  | f + 1, i :: rest, seen, acc =>
    if seen.contains i then reach b s f rest seen acc
    else
      match b.world.node i with
      | none => reach b s f rest (i :: seen) acc
      | some n =>
        match n.ref with
        | none => reach b s f (rest ++ n.kids ++ skippedOf b i) (i :: seen) acc
        | some _ =>
          let rid := ((b.nodes[i]?).map (·.rid)).getD "?"
          match s.get i with
          | none => reach b s f rest (i :: seen) (acc ++ [(rid, none)])
          | some v =>
            let vj := (b.nodes[v]?).map (·.j)
            reach b s f (rest ++ [v]) (i :: seen) (acc ++ [(rid, vj)])

def groupRefs (l : List (String × Option Json)) : Json :=
  let rids := dedup (l.map (·.1))
  Json.mkObj (rids.map (fun r =>
    let vs := (l.filter (·.1 = r)).map (fun p => (p.2.getD Json.null))
    let vs := vs.foldl (fun acc v => if acc.any (fun x => x.compress = v.compress) then acc else acc ++ [v]) []
    (r, Json.arr vs.toArray)))

def parseFiles (j : Json) : Files :=
  (getArr j "files").map (fun f => (storeKey (getStr f "path"), getD f "json" Json.null))

/-- request: {entry: "file"|"path"|"data", root: "<location>", files: [{path, json}]}
    ("data": the root document is `files[0].json`, loaded without a location) -/
def handle (j : Json) : Json :=
  let entry := getStr j "entry"
  let root := getStr j "root"
  let allFiles := parseFiles j
  let isData := entry = "data"
  let rootJ : Json := (if isData then (allFiles.head?.map (·.2)) else fetch allFiles root).getD Json.null
  let fs : Files := if isData then allFiles.drop 1 else allFiles
  let rootData : Option Json := if isData then some rootJ else none
  let rootCx : Cx := if isData then ⟨none, none⟩ else ⟨some root, some root⟩
  let rootSrc := if isData then "" else storeKey root
  let tabs := mkTabs fs rootData
  let b := build fs rootData tabs rootCx rootSrc rootJ
  let w := b.world
  -- fuel: the bound of `load_terminates` ((#texts + 1) · (R + 1)); rank of an object = R − depth of its pointer
  -- (the children of a value lie strictly deeper), R = the deepest pointer
  let depthMax := b.nodes.foldl (fun m n => max m n.ptr.length) 0
  let fuel := (b.texts.length + 1) * (depthMax + 1)
  let res := load w fuel 0
  let topIds : List Obj := (docAll rootJ).filterMap (fun ch => findObj b.nodes rootCx rootSrc ch.toks ch.kind false)
  let (outcome, refs, nback, foreign, tclash, nnil, nskip, nempty) := match res with
    | .ok s => ("ok", reach b s 4000 topIds [] [], s.nback, s.foreign, s.tclash, s.nnil, s.nskip, s.nempty)
    | .err fl => ("err", [], 0, fl.foreign, fl.tclash, 0, 0, 0)
    | .outOfFuel => ("outOfFuel", [], 0, false, false, 0, 0, 0)
  -- specification
  let specRefs := specWalk fs rootData tabs 4000
    ((specDocChildren rootJ).map (fun c => ((if isData then none else some (storeKey root)), c.kind, c.j, c.toks.getLast?.getD ""))) (if isData then [] else [storeKey root]) []
  let specOK := specRefs.all (·.2.isSome)
  -- exclusion classes
  let refNodes := b.nodes.filter (fun n => n.ref.isSome && !n.copy && n.nat)
  -- one step of every reference, evaluated at home (computed once)
  let stepsAtHome : List StepR := refNodes.map (fun n => stepGo fs rootData tabs n.cx (n.ref.getD "") n.kind)
  let stepOf (n : CNode) : StepR :=
    let i := refNodes.findIdx (fun m => m.same n)
    stepsAtHome[i]?.getD .fail
  let stepKey (r : StepR) : String := match r with
    | .node cx _ src ptr _ _ => s!"{repr cx}|{src}|{ptr}"
    | .fail => "fail" | .empty => "empty"
  -- #29: the model's own flag — a callback fired for a reference whose one-step target differs from the visitor's
  -- (`textsShared`: the static over-approximation, reported as a branch only)
  let keyed : List (CNode × String) := (refNodes.zip stepsAtHome).map (fun (n, r) => (n, stepKey r))
  let textsShared := keyed.any (fun (a, ka) => keyed.any (fun (c, kc) =>
    a.ref == c.ref && a.kind == c.kind && ka != kc))
  let textNotGlobal := tclash
  -- a04fe6c: a callback that meets a value of another kind returns; when the load then succeeds the
  -- component of that callback may be left without value although its reference is of the wrong kind
  let kindClash := outcome == "ok" && nskip > 0
  let targetIsRef (n : CNode) : Bool := match stepOf n with
    | .node _ home src ptr _ _ => b.nodes.any (fun m => m.cx == home && m.src == src && m.ptr == ptr && m.kind == n.kind && m.ref.isSome && !m.copy)
    | _ => false
  -- #34: `unvisitRef` with a nil value (a pure `$ref` cycle) or a swallowed `errMUST…` (the fragment `#`) — the
  -- events that, with `nskip`, make up the hypothesis `Clean` of the completeness theorem
  let degenerate := outcome == "ok" && (nnil > 0 || nempty > 0)
  let specStepKey (n : CNode) : String :=
    match stepSpec fs rootData (if n.src = "" then none else some n.src) (n.ref.getD "") with
    | some (file, toks, v) =>
      let kindOK := match toks with
        | [] => true
        | first :: _ => if knownTop.contains first then tabs.specKind file toks == some n.kind else true
      if isObj v && kindOK then s!"{file.getD ""}|{toks}" else "fail"
    | none => "fail"
  let goStepKey (n : CNode) : String := match stepOf n with
    | .node _ _ src ptr _ _ => s!"{src}|{ptr}"
    | .fail => "fail" | .empty => "empty"
  let disagree := refNodes.filter (fun n => goStepKey n != specStepKey n)
  let internalInElem := disagree.any (fun n => (n.ref.getD "").startsWith "#" && n.cx.doc != n.cx.path)
  let otherDisagree := disagree.any (fun n =>
    !(match stepOf n with | .empty => true | _ => false) &&
    !((n.ref.getD "").startsWith "#" && n.cx.doc != n.cx.path))
  let excl :=
    (if textNotGlobal then ["TextNotGlobal"] else []) ++ (if kindClash then ["KindClashUnresolved"] else []) ++
    (if degenerate then ["DegenerateTarget"] else []) ++
    (if internalInElem then ["InternalRefInElementFile"] else []) ++
    (if foreign then ["ForeignContext"] else []) ++
    (if otherDisagree then ["StepDisagree"] else [])
  -- branches
  let texts := refNodes.filterMap (·.ref)
  let isUntyped (n : CNode) : Bool := match stepOf n with | .node _ _ _ ptr false _ => !ptr.isEmpty | _ => false
  let branches :=
    (if texts.any (·.startsWith "#") then ["ref.internal"] else []) ++
    (if texts.any (fun t => !(t.startsWith "#") && t.contains '#') then ["ref.external.fragment"] else []) ++
    (if texts.any (fun t => !(t.contains '#')) then ["ref.wholefile"] else []) ++
    (if refNodes.any targetIsRef then ["chain"] else []) ++
    (if nback > 0 then ["backtrack"] else []) ++
    (if textsShared then ["text.sharedByTwoTargets"] else []) ++
    (if nnil > 0 then ["unvisit.nil"] else []) ++
    (if nskip > 0 then ["callback.otherKind"] else []) ++
    (if nempty > 0 then ["empty.swallowed"] else []) ++
    (if b.cxs.length > 1 then ["ctx.many"] else []) ++
    (if b.cxs.any (fun c => c.doc != c.path) then ["ctx.element"] else []) ++
    (if refNodes.any isUntyped then ["untyped.codec"] else []) ++
    (if texts.any (fun t => (t.splitOn "~").length > 1) then ["ptr.escape"] else []) ++
    (if texts.any (fun t => (t.splitOn "..").length > 1) then ["path.dotdot"] else []) ++
    (if texts.any (fun t => t.startsWith "/" || t.startsWith "./" || (t.splitOn "//").length > 1) then ["path.spelling"] else []) ++
    (dedup (refNodes.map (fun n => "kind." ++ kindStr n.kind))) ++
    (if outcome != "ok" then ["outcome." ++ outcome] else []) ++
    excl.map (fun e => "excl." ++ e)
  jobj [
    ("model", jobj [("outcome", Json.str outcome), ("refs", groupRefs refs)]),
    ("spec", jobj [("ok", Json.bool specOK), ("refs", Json.mkObj (specRefs.map (fun (r, v) => (r, v.getD Json.null))))]),
    ("excl", jstrs excl),
    ("fuel", Json.num (JsonNumber.fromNat fuel)),
    ("dbg", jstrs (disagree.map (fun n => s!"{n.ref.getD ""} @{n.src} go={goStepKey n} spec={specStepKey n}"))),
    ("branches", jstrs branches)]

end KinModel.Drv.C02
