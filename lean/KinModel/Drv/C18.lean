import KinModel.Drv.Util
import KinModel.Gen3
open Lean
namespace KinModel.Drv.C18
open KinModel.Drv KinModel.Gen3

instance : Inhabited GoType := ⟨.bool⟩
instance : Inhabited GoVal := ⟨.nil⟩
instance : Inhabited Sch := ⟨.ref ""⟩
instance : Inhabited J := ⟨.null⟩

def parseKind : String → IntKind
  | "int8" => .int8 | "int16" => .int16 | "int32" => .int32 | "int64" => .int64 | "uint" => .uint
  | "uint8" => .uint8 | "uint16" => .uint16 | "uint32" => .uint32 | "uint64" => .uint64 | _ => .int

mutual
partial def parseType (j : Json) : GoType :=
  match getStr j "k" with
  | "bool" => .bool
  | "int" => .int (parseKind (getStr j "ik"))
  | "float" => .float (getBool j "b32")
  | "string" => .string
  | "bytes" => .bytes
  | "time" => .time
  | "ptr" => .ptr (parseType (getD j "e" .null))
  | "slice" => .slice (parseType (getD j "e" .null))
  | "map" => .map (parseType (getD j "e" .null))
  | "struct" => .struct (parseFields (getArr j "fields"))
  | "named" => .named (getStr j "n")
  | _ => .bool
partial def parseFields (js : List Json) : Fields :=
  js.map (fun f => (parseTag (getStr f "name") (getStr f "tag") (getBool f "emb") (!getBool f "unexp"), parseType (getD f "t" .null)))
end

def intOf (j : Json) : Int :=
  match j with
  | .str s => s.toInt?.getD 0
  | .num n => n.mantissa
  | _ => 0

partial def parseVal (j : Json) : GoVal :=
  match j with
  | .obj _ =>
    match j.getObjVal? "b" with
    | .ok (.bool x) => .b x
    | _ =>
    match j.getObjVal? "i" with
    | .ok x => .i (intOf x)
    | _ =>
    match j.getObjVal? "f" with
    | .ok (.arr a) => .f (intOf (a.getD 0 .null)) (intOf (a.getD 1 .null)).toNat
    | _ =>
    match j.getObjVal? "s" with
    | .ok (.str x) => .s x
    | _ =>
    match j.getObjVal? "bytes" with
    | .ok (.str x) => .bytes x
    | _ =>
    match j.getObjVal? "time" with
    | .ok (.str x) => .time x
    | _ =>
    match j.getObjVal? "ref" with
    | .ok x => .ref (parseVal x)
    | _ =>
    match j.getObjVal? "slice" with
    | .ok (.arr a) => .slice (a.toList.map parseVal)
    | _ =>
    match j.getObjVal? "map" with
    | .ok (.arr a) => .map (a.toList.map (fun kv => (asStr ((asArr kv).getD 0 .null), parseVal ((asArr kv).getD 1 .null))))
    | _ =>
    match j.getObjVal? "struct" with
    | .ok (.arr a) => .struct (a.toList.map parseVal)
    | _ => .nil
  | _ => .nil

mutual
partial def jOfJ : J → Json
  | .null => .null
  | .bool b => .bool b
  | .num m e => .num ⟨m, e⟩
  | .str s => .str s
  | .arr xs => .arr (xs.map jOfJ).toArray
  | .obj kvs => Json.mkObj (kvs.map (fun (k, v) => (k, jOfJ v)))
end

partial def jOfSch : Sch → Json
  | .ref n => Json.mkObj [("$ref", .str ("#/components/schemas/" ++ n))]
  | .node ty nl fmt lo hi items props addl _ =>
    Json.mkObj (
      (if ty = "" then [] else [("type", Json.str ty)]) ++
      (if nl then [("nullable", Json.bool true)] else []) ++
      (if fmt = "" then [] else [("format", Json.str fmt)]) ++
      (match lo with | some l => [("minimum", Json.num ⟨l, 0⟩)] | none => []) ++
      (match hi with | some h => [("maximum", Json.num ⟨h, 0⟩)] | none => []) ++
      (match items with | some it => [("items", jOfSch it)] | none => []) ++
      (if props.isEmpty then [] else [("properties", Json.mkObj (props.map (fun (k, s) => (k, jOfSch s))))]) ++
      (match addl with | some a => [("additionalProperties", jOfSch a)] | none => []))

partial def refNames : Sch → List String
  | .ref n => [n]
  | .node _ _ _ _ _ items props addl _ =>
    (match items with | some it => refNames it | none => []) ++
    (props.flatMap (fun p => refNames p.2)) ++ (match addl with | some a => refNames a | none => [])

def dedupBy (key : α → String) (l : List α) : List α :=
  l.foldl (fun acc x => if acc.any (fun y => key y == key x) then acc else acc ++ [x]) []

/-- every component map the loop of NewSchemaRefForValue can produce (bounded list) -/
def optionsFor (σ : St) : List Comps :=
  (σ.comps.foldr (fun n acc =>
    let cs := dedupBy (fun s => (jOfSch s).compress) (candidatesFor σ n)
    if cs.isEmpty then acc else (cs.flatMap (fun c => acc.map (fun g => (n, c) :: g))).take 32) [[]])

partial def typeBranches (Δ : Decls) (all : Bool) : GoType → List String
  | .bool => ["k.bool"] | .int k => ["k." ++ (match k with
      | .int => "int" | .int8 => "int8" | .int16 => "int16" | .int32 => "int32" | .int64 => "int64" | .uint => "uint"
      | .uint8 => "uint8" | .uint16 => "uint16" | .uint32 => "uint32" | .uint64 => "uint64")]
  | .float b => [if b then "k.float32" else "k.float64"]
  | .string => [] | .bytes => ["k.bytes"] | .time => ["k.time"]
  | .ptr t => "ptr" :: typeBranches Δ all t
  | .slice t => "k.slice" :: typeBranches Δ all t
  | .map t => "k.map" :: typeBranches Δ all t
  | .named _ => ["named"]
  | .struct fs =>
    let cs := flat fs
    (if fs.any (fun f => f.1.embedded && !f.1.hasTag) then ["embedded"] else []) ++
    (if cs.any (fun c => !c.tagged) then [if all then "untagged.used" else "untagged.skipped"] else []) ++
    (if cs.any (·.omitempty) then ["omitempty"] else []) ++
    (if (gcands all fs).isEmpty then ["struct.noprops"] else []) ++
    fs.flatMap (fun f => typeBranches Δ all f.2)

def uniq (l : List String) : List String := dedupBy id l

def handle (j : Json) : Json :=
  let all := getBool j "all"
  let Δ : Decls := (getArr j "decls").map (fun d => (getStr d "name", parseFields (getArr d "fields")))
  let t := parseType (getD j "type" .null)
  let v := parseVal (getD j "value" .null)
  let inDom := hasTypeB Δ t v
  let enc := encode Δ t v
  let (r, σ) := genRoot Δ all 100000 t
  let excl0 := (if heredAll quotedIn Δ t then ["HasQuoted"] else []) ++ (if heredAll dupIn Δ t then ["DupNames"] else [])
  match r with
  | .ok s =>
    let opts := optionsFor σ
    let optJ := opts.map (fun Γ =>
      let names := refNames s ++ Γ.flatMap (fun p => refNames p.2)
      jobj [("comps", Json.mkObj (Γ.map (fun (n, c) => (n, jOfSch c)))),
            ("resolves", Json.bool (names.all (fun n => (resolve Γ (.ref n)).isSome))),
            ("accept", Json.bool (acceptB Γ s enc))])
    let nil19 := opts.any (fun Γ => nilAtCycB Γ s enc)
    let excl := excl0 ++ (if nil19 then ["NilAtCycle"] else [])
    let br := uniq (σ.trace ++ typeBranches Δ all t ++ Δ.flatMap (fun d => typeBranches Δ all (.struct d.2)) ++
      (if all then ["useAll"] else []) ++ (if isPtr t then ["ptr.root"] else []) ++
      (if opts.length > 1 then ["comp.multi"] else []) ++ (if !σ.comps.isEmpty then ["comp.export"] else []) ++ (if σ.anon then ["cycle.anon"] else []) ++ excl.map ("excl." ++ ·))
    jobj [("model", jobj [("outcome", "ok"), ("schema", jOfSch s), ("enc", jOfJ enc), ("options", Json.arr optJ.toArray)]),
          ("spec", jobj [("inDomain", Json.bool (inDom && (match enc with | .null => false | _ => true))), ("accept", Json.bool true), ("resolves", Json.bool true)]),
          ("excl", jstrs excl), ("branches", jstrs br)]
  | .cycle => jobj [("model", jobj [("outcome", "cycle")]), ("spec", jobj [("inDomain", Json.bool inDom), ("accept", Json.bool true)]), ("excl", jstrs excl0), ("branches", jstrs [])]
  | .nofuel => jobj [("model", jobj [("outcome", "nofuel")]), ("spec", jobj [("inDomain", Json.bool inDom), ("accept", Json.bool true)]), ("excl", jstrs excl0), ("branches", jstrs ["nofuel"])]

end KinModel.Drv.C18
