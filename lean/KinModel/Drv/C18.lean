import KinModel.Drv.Util
import KinModel.Gen3
open Lean
namespace KinModel.Drv.C18
open KinModel.Drv KinModel.Gen3

instance : Inhabited GoType := ⟨.bool⟩
instance : Inhabited GoVal := ⟨.nil⟩
instance : Inhabited Sch := ⟨.ref ""⟩
instance : Inhabited J := ⟨.null⟩

def parseKind : String → IntKind
  | "int8" => .int8 | "int16" => .int16 | "int32" => .int32 | "int64" => .int64 | "uint" => .uint
  | "uint8" => .uint8 | "uint16" => .uint16 | "uint32" => .uint32 | "uint64" => .uint64 | _ => .int

mutual
partial def parseType (j : Json) : GoType :=
  match getStr j "k" with
  | "bool" => .bool
  | "int" => .int (parseKind (getStr j "ik"))
  | "float" => .float (getBool j "b32")
  | "string" => .string
  | "bytes" => .bytes
  | "time" => .time
  | "ptr" => .ptr (parseType (getD j "e" .null))
  | "slice" => .slice (parseType (getD j "e" .null))
  | "map" => .map (parseType (getD j "e" .null))
  | "struct" => .struct (parseFields (getArr j "fields"))
  | "named" => .named (getStr j "n")
  | "def" => .defd (getStr j "n") (parseType (getD j "u" .null))
  | "array" => .array (getNat j "len") (parseType (getD j "e" .null))
  | "recs" => .recs (getBool j "m")
  | _ => .bool
partial def parseFields (js : List Json) : Fields :=
  js.map (fun f => (parseTag (getStr f "name") (getStr f "tag") (getBool f "emb") (!getBool f "unexp") (getBool f "lower")
    (match f.getObjVal? "yaml" with | .ok (.str y) => some y | _ => none), parseType (getD f "t" .null)))
end

def parseOpts (j : Json) : Opts :=
  let o := getD j "opts" .null
  { all := getBool j "all" || getBool o "all", throwCycle := getBool o "throw", cust := getBool o "cust",
    custExcl := (getArr o "excl").map asStr, custFail := (getArr o "fail").map asStr,
    exp := getBool o "export", expTop := getBool o "top", expGenerics := getBool o "generics",
    tng := (match o.getObjVal? "tng" with
      | .ok (.obj m) => some { pfx := getStr (.obj m) "pfx",
                               tbl := (getArr (.obj m) "tbl").map (fun kv => (asStr ((asArr kv).getD 0 .null), asStr ((asArr kv).getD 1 .null))) }
      | _ => none) }

def intOf (j : Json) : Int :=
  match j with
  | .str s => s.toInt?.getD 0
  | .num n => n.mantissa
  | _ => 0

partial def parseVal (j : Json) : GoVal :=
  match j with
  | .obj _ =>
    match j.getObjVal? "b" with
    | .ok (.bool x) => .b x
    | _ =>
    match j.getObjVal? "i" with
    | .ok x => .i (intOf x)
    | _ =>
    match j.getObjVal? "f" with
    | .ok (.arr a) => .f (intOf (a.getD 0 .null)) (intOf (a.getD 1 .null)).toNat
    | _ =>
    match j.getObjVal? "s" with
    | .ok (.str x) => .s x
    | _ =>
    match j.getObjVal? "bytes" with
    | .ok (.str x) => .bytes x
    | _ =>
    match j.getObjVal? "time" with
    | .ok (.str x) => .time x
    | _ =>
    match j.getObjVal? "ref" with
    | .ok x => .ref (parseVal x)
    | _ =>
    match j.getObjVal? "slice" with
    | .ok (.arr a) => .slice (a.toList.map parseVal)
    | _ =>
    match j.getObjVal? "map" with
    | .ok (.arr a) => .map (a.toList.map (fun kv => (asStr ((asArr kv).getD 0 .null), parseVal ((asArr kv).getD 1 .null))))
    | _ =>
    match j.getObjVal? "struct" with
    | .ok (.arr a) => .struct (a.toList.map parseVal)
    | _ => .nil
  | _ => .nil

mutual
partial def jOfJ : J → Json
  | .null => .null
  | .bool b => .bool b
  | .num m e => .num ⟨m, e⟩
  | .str s => .str s
  | .arr xs => .arr (xs.map jOfJ).toArray
  | .obj kvs => Json.mkObj (kvs.map (fun (k, v) => (k, jOfJ v)))
end

partial def jOfSch : Sch → Json
  | .ref n => Json.mkObj [("$ref", .str ("#/components/schemas/" ++ n))]
  | .node ty nl fmt lo hi items props addl _ =>
    Json.mkObj (
      (if ty = "" then [] else [("type", Json.str ty)]) ++
      (if nl then [("nullable", Json.bool true)] else []) ++
      (if fmt = "" then [] else [("format", Json.str fmt)]) ++
      (match lo with | some l => [("minimum", Json.num ⟨l, 0⟩)] | none => []) ++
      (match hi with | some h => [("maximum", Json.num ⟨h, 0⟩)] | none => []) ++
      (match items with | some it => [("items", jOfSch it)] | none => []) ++
      (if props.isEmpty then [] else [("properties", Json.mkObj (props.map (fun (k, s) => (k, jOfSch s))))]) ++
      (match addl with | some a => [("additionalProperties", jOfSch a)] | none => []))

/-- the validator as built: `f.Validate(int64(value))` converts a float64 beyond ±2^63 to an int64 inside the range
    (implementation-defined conversion), so the `int64` format never rejects; within the range it is exact
    (`int64_format_exact_in_range`). Only reachable when a uint64 field meets the schema of another field (DupNames). -/
partial def dropI64 : Sch → Sch
  | .ref n => .ref n
  | .node ty nl fmt lo hi items props addl cyc =>
    .node ty nl (if fmt = "int64" then "" else fmt) lo hi (items.map dropI64) (props.map (fun (k, s) => (k, dropI64 s)))
      (addl.map dropI64) cyc

def dedupBy (key : α → String) (l : List α) : List α :=
  l.foldl (fun acc x => if acc.any (fun y => key y == key x) then acc else acc ++ [x]) []

/-- every component map the loop of NewSchemaRefForValue can produce (bounded list) -/
def optionsFor (σ : St) : List Comps :=
  (σ.comps.foldr (fun n acc =>
    let cs := dedupBy (fun s => (jOfSch s).compress) (candidatesFor σ n)
    if cs.isEmpty then acc else (cs.flatMap (fun c => acc.map (fun g => (n, c) :: g))).take 32) [[]])

partial def typeBranches (Δ : Decls) (all : Bool) : GoType → List String
  | .bool => ["k.bool"] | .int k => ["k." ++ kindName k]
  | .float b => [if b then "k.float32" else "k.float64"]
  | .string => [] | .bytes => ["k.bytes"] | .time => ["k.time"]
  | .ptr t => "ptr" :: typeBranches Δ all t
  | .slice t => (if isU8 t then "k.bytes.definedElem" else "k.slice") :: typeBranches Δ all t
  | .map t => "k.map" :: typeBranches Δ all t
  | .named _ => ["named"]
  | .defd _ t => "k.defined" :: typeBranches Δ all t
  | .array _ t => "k.array" :: typeBranches Δ all t
  | .recs m => [if m then "k.recmap" else "k.recslice"]
  | .struct fs =>
    let cs := flat fs
    (if fs.any (fun f => f.1.embedded && !f.1.hasTag) then ["embedded"] else []) ++
    (if cs.any (fun c => !c.disc) then ["embedded.nonstruct"] else []) ++
    (if cs.any (fun c => !c.enc) then ["field.gen-only"] else []) ++
    (if cs.any (fun c => c.disc && !c.tagged) then [if all then "untagged.used" else "untagged.skipped"] else []) ++
    (if all && cs.any (fun c => propName all c != c.name) then ["yaml.name"] else []) ++
    (if cs.any (·.omitempty) then ["omitempty"] else []) ++
    (if (gcands all fs).isEmpty then ["struct.noprops"] else []) ++
    fs.flatMap (fun f => typeBranches Δ all f.2)

def uniq (l : List String) : List String := dedupBy id l

def outcomeName : R → String
  | .ok _ => "ok" | .cycle => "cycle" | .nofuel => "nofuel" | .excluded => "excluded" | .err => "err"

/-- the conditions on a case under which the model speaks about it: declared names distinct and non-empty, the
    type-name generator injective on them (and away from the name of anonymous structs) -/
def wfCase (Δ : Decls) (o : Opts) : Bool :=
  let ns := Δ.map (·.1)
  !ns.contains "" && !dupNames ns && !dupNames (("" :: ns).map (typeName o))

def handle (j : Json) : Json :=
  let o := parseOpts j
  let all := o.all
  let Δ : Decls := (getArr j "decls").map (fun d => (getStr d "name", parseFields (getArr d "fields")))
  let t := parseType (getD j "type" .null)
  let v := parseVal (getD j "value" .null)
  let inDom := hasTypeB Δ t v && wfCase Δ o
  let enc := encode Δ t v
  -- reuse: the types generated before on the same generator (`genAfter_nil`: none = `genRoot`)
  let pre := (getArr j "pre").map parseType
  let fuel := pre.foldl (fun a p => max a (enoughFuel Δ p)) (enoughFuel Δ t)   -- `gen_finite`: never `nofuel` for a single call
  let (r, σ) := genAfter Δ o fuel pre t
  let excl0 := (if heredAll quotedIn Δ t then ["HasQuoted"] else []) ++ (if heredAll dupIn Δ t then ["DupNames"] else [])
  let optBr := (if all then ["useAll"] else []) ++ (if o.throwCycle then ["opt.throw"] else []) ++ (if o.cust then ["opt.cust"] else []) ++
    (if o.exp then ["opt.export"] else []) ++ (if o.exp && o.expTop then ["opt.exportTop"] else []) ++
    (if o.exp && o.expGenerics then ["opt.exportGenerics"] else []) ++ (if o.tng.isSome then ["opt.typeNames"] else []) ++
    (if pre.isEmpty then [] else ["reuse"]) ++ (if pre.length > 1 then ["reuse.many"] else [])
  let mayFail := o.throwCycle || o.cust
  let specJ := fun (d : Bool) => jobj [("inDomain", Json.bool d), ("mayFail", Json.bool mayFail), ("accept", Json.bool true), ("resolves", Json.bool true)]
  match r with
  | .ok s =>
    let opts := optionsFor σ
    let optJ := opts.map (fun Γ =>
      let names := refNames s ++ Γ.flatMap (fun p => refNames p.2)
      jobj [("comps", Json.mkObj (Γ.map (fun (n, c) => (n, jOfSch c)))),
            ("resolves", Json.bool (names.all (fun n => (resolve Γ (.ref n)).isSome))),
            ("accept", Json.bool (acceptB Γ s enc)),
            ("acceptImpl", Json.bool (acceptB (Γ.map (fun (n, c) => (n, dropI64 c))) (dropI64 s) enc))])
    let nil19 := opts.any (fun Γ => nilAtCycB Γ s enc)
    let excl := excl0 ++ (if nil19 then ["NilAtCycle"] else []) ++ (if danglingB σ then ["Dangling"] else []) ++
      (if wrongCandB o σ then ["WrongComponent"] else [])
    let br := uniq (σ.trace ++ typeBranches Δ all t ++ Δ.flatMap (fun d => typeBranches Δ all (.struct d.2)) ++ optBr ++
      (if isPtr t then ["ptr.root"] else []) ++
      (if opts.length > 1 then ["comp.multi"] else []) ++ (if !σ.comps.isEmpty then ["comp.registered"] else []) ++ excl.map ("excl." ++ ·))
    jobj [("model", jobj [("outcome", "ok"), ("schema", jOfSch s), ("enc", jOfJ enc), ("options", Json.arr optJ.toArray)]),
          ("spec", specJ (inDom && (match enc with | .null => false | _ => true))),
          ("excl", jstrs excl), ("branches", jstrs br)]
  | r =>
    jobj [("model", jobj [("outcome", outcomeName r), ("enc", jOfJ enc)]),
          ("spec", specJ (inDom && (match enc with | .null => false | _ => true))),
          ("excl", jstrs excl0), ("branches", jstrs (uniq (["out." ++ outcomeName r] ++ optBr ++ typeBranches Δ all t)))]

end KinModel.Drv.C18
