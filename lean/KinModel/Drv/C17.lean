import KinModel.Drv.Util
import KinModel.Conv
open Lean
namespace KinModel.Drv.C17
open KinModel.Drv KinModel.Conv

/-! Driver handler for C17. The case is `{"doc": <an OpenAPI 2 document, as JSON>}`. It is parsed into the
model's `Doc2 Json` (scalar values stay opaque JSON), converted by the model, and the abstract APIs of the
input (spec), of `toV3` and of `fromV3 ∘ toV3` (model) are printed in one canonical JSON shape. -/

def objKVs (j : Json) : List (String × Json) :=
  match j with
  | .obj kvs => kvs.foldl (init := []) (fun acc k v => acc ++ [(k, v)])
  | _ => []

def has (j : Json) (k : String) : Bool := (j.getObjVal? k).toOption.isSome
def optStr (j : Json) (k : String) : Option String :=
  match j.getObjVal? k with | .ok (.str s) => some s | _ => none

/-- the kinds of the rows of the (pinned = regenerated) prefix table `ref2To3`, in its order -/
def refKinds : List (RK × RK) := [(.def2, .def3), (.resp2, .resp3), (.par2, .par3)]

def prefixes : List (String × RK) :=
  (ref2To3.zip refKinds).flatMap (fun (ps, ks) => [(ps.1, ks.1), (ps.2, ks.2)]) ++
  [("#/components/requestBodies/", .rb3)]

def parseRef (s : String) : RK × String :=
  match prefixes.find? (fun (p, _) => s.startsWith p) with
  | some (p, k) => (k, (s.drop p.length).toString)
  | none => (.other, s)

def rkPrefix : RK → String
  | .def2 => "#/definitions/" | .par2 => "#/parameters/" | .resp2 => "#/responses/"
  | .def3 => "#/components/schemas/" | .par3 => "#/components/parameters/"
  | .resp3 => "#/components/responses/" | .rb3 => "#/components/requestBodies/" | .other => ""

/-- scalar keys kept as opaque values -/
def scalarKeys : List String :=
  ["title", "description", "enum", "default", "example", "externalDocs", "uniqueItems", "exclusiveMinimum",
   "exclusiveMaximum", "readOnly", "writeOnly", "allowEmptyValue", "deprecated", "xml", "minimum", "maximum",
   "multipleOf", "minLength", "maxLength", "pattern", "minItems", "maxItems", "minProperties", "maxProperties"]

def parseSc (j : Json) : Rec Json :=
  (scalarKeys.filterMap (fun k => (j.getObjVal? k).toOption.map (fun v => (k, v)))) ++
  (match j.getObjVal? "additionalProperties" with
   | .ok (.bool b) => [("additionalProperties", Json.bool b)]
   | _ => [])

def parseHd (j : Json) : Hd Json :=
  { ty := optStr j "type", fmt := optStr j "format", nullable := getBool j "nullable",
    xnull := getBool j "x-nullable",
    disc := match optStr j "discriminator" with | some "" => none | o => o,   -- Go: the empty string is "absent"
    req := match j.getObjVal? "required" with | .ok (.arr a) => strs a.toList | _ => [],
    sc := parseSc j }

partial def parseSch (j : Json) : Sch Json :=
  match optStr j "$ref" with
  | some r => let (k, n) := parseRef r; .ref k n
  | none =>
    let items := match j.getObjVal? "items" with | .ok (.obj o) => [(Slot.items, parseSch (.obj o))] | _ => []
    let props := (objKVs (getD j "properties" Json.null)).map (fun (k, v) => (Slot.prop k, parseSch v))
    let allOf := (getArr j "allOf").zipIdx.map (fun (v, i) => (Slot.allOf i, parseSch v))
    let addl := match j.getObjVal? "additionalProperties" with | .ok (.obj o) => [(Slot.addl, parseSch (.obj o))] | _ => []
    .node (parseHd j) (items ++ props ++ allOf ++ addl)

def parseParam (j : Json) : Param2 Json :=
  { name := getStr j "name", loc := getStr j "in", required := getBool j "required",
    cons := { ty := optStr j "type", fmt := optStr j "format", sc := parseSc j },
    items := match j.getObjVal? "items" with | .ok (.obj o) => some (parseSch (.obj o)) | _ => none,
    schema := match j.getObjVal? "schema" with | .ok (.obj o) => some (parseSch (.obj o)) | _ => none }

def parsePRef (j : Json) : PRef2 Json :=
  match optStr j "$ref" with
  | some r => let (k, n) := parseRef r; .ref k n
  | none => .val (parseParam j)

def parseRRef (j : Json) : RRef2 Json :=
  match optStr j "$ref" with
  | some r => let (k, n) := parseRef r; .ref k n
  | none => .val { desc := getStr j "description",
                   headers := (objKVs (getD j "headers" Json.null)).map (fun (k, v) => (k, parseParam v)),
                   schema := match j.getObjVal? "schema" with | .ok (.obj o) => some (parseSch (.obj o)) | _ => none }

def parseSec (j : Json) : Sec2 :=
  { type := getStr j "type", loc := getStr j "in", name := getStr j "name", flow := getStr j "flow",
    authUrl := getStr j "authorizationUrl", tokenUrl := getStr j "tokenUrl",
    scopes := (objKVs (getD j "scopes" Json.null)).map (fun (k, v) => (k, asStr v)) }

def methods : List String := ["delete", "get", "head", "options", "patch", "post", "put"]

/-- Go reads an absent field and its zero value alike (`summary: ""`, `deprecated: false`, `tags: []`) -/
def isZero : Json → Bool
  | .null => true | .str "" => true | .bool false => true | .arr #[] => true | _ => false

def parseMeta (j : Json) : Rec Json :=
  opMetaFields.filterMap (fun k => match j.getObjVal? k with
    | .ok v => if isZero v then none else some (k, v)
    | _ => none)

def parseOp (m : String) (j : Json) : Op2 Json :=
  { method := m, opId := getStr j "operationId", consumes := strs (getArr j "consumes"),
    produces := strs (getArr j "produces"), params := (getArr j "parameters").map parsePRef,
    responses := (objKVs (getD j "responses" Json.null)).map (fun (k, v) => (k, parseRRef v)),
    info := parseMeta j,
    -- `security: []` on an operation (no authentication) is a value, an absent `security` is not
    security := match j.getObjVal? "security" with | .ok (.arr a) => some (.arr a) | _ => none }

def parsePath (p : String) (j : Json) : Path2 Json :=
  { path := p, params := (getArr j "parameters").map parsePRef,
    ops := methods.filterMap (fun m => (j.getObjVal? m).toOption.map (parseOp m)) }

def parseDoc (j : Json) : Doc2 Json :=
  { loc := { host := getStr j "host", basePath := getStr j "basePath", schemes := strs (getArr j "schemes") },
    consumes := strs (getArr j "consumes"), produces := strs (getArr j "produces"),
    params := (objKVs (getD j "parameters" Json.null)).map (fun (k, v) => (k, parsePRef v)),
    responses := (objKVs (getD j "responses" Json.null)).map (fun (k, v) => (k, parseRRef v)),
    defs := (objKVs (getD j "definitions" Json.null)).map (fun (k, v) => (k, parseSch v)),
    secs := (objKVs (getD j "securityDefinitions" Json.null)).map (fun (k, v) => (k, parseSec v)),
    paths := (objKVs (getD j "paths" Json.null)).map (fun (k, v) => parsePath k v),
    security := match j.getObjVal? "security" with | .ok (.arr a) => if a.isEmpty then none else some (.arr a) | _ => none }

/-! printing -/

def jopt (o : Option String) : Json := match o with | some s => Json.str s | none => Json.null
def jarr (l : List Json) : Json := Json.arr l.toArray

def akStr : AK → String
  | .schema => "schema" | .param => "param" | .resp => "resp"
  | .v2only k => "v2:" ++ rkPrefix k | .v3only k => "v3:" ++ rkPrefix k

def slotStr : Slot → String
  | .items => "items" | .prop k => "prop:" ++ k | .allOf i => s!"allOf:{i}" | .addl => "addl"

def hdJson (h : Hd Json) : List (String × Json) :=
  [("ty", jopt h.ty), ("fmt", jopt h.fmt), ("nullable", Json.bool h.nullable), ("disc", jopt h.disc),
   ("req", jstrs h.req), ("sc", jobj h.sc)]

partial def aschJson : ASch Json → Json
  | .ref k n => jobj [("ref", jstrs [akStr k, n])]
  | .node h kids => jobj (hdJson h ++ [("kids", jarr (kids.map (fun (sl, c) => jobj [("slot", Json.str (slotStr sl)), ("s", aschJson c)])))])

def joptS (o : Option (ASch Json)) : Json := match o with | some s => aschJson s | none => Json.null

def inputJson : InputA Json → Json
  | .ref k n => jobj [("k", "ref"), ("target", akStr k), ("name", n)]
  | .param n l r c => jobj [("k", "param"), ("name", n), ("in", l), ("required", Json.bool r), ("cons", aschJson c)]
  | .body r s => jobj [("k", "body"), ("required", Json.bool r), ("schema", joptS s)]
  | .form n r c => jobj [("k", "form"), ("name", n), ("required", Json.bool r), ("cons", aschJson c)]

def respJson : RespRA Json → Json
  | .ref k n => jobj [("ref", jstrs [akStr k, n])]
  | .val r => jobj [("desc", r.desc), ("headers", jarr (r.headers.map (fun (n, c) => jobj [("name", n), ("cons", aschJson c)]))),
                    ("schema", joptS r.schema)]

def secJson : SecA → Json
  | .basic => jobj [("kind", "basic")]
  | .apiKey l n => jobj [("kind", "apiKey"), ("in", l), ("pname", n)]
  | .oauth2 f a t sc => jobj [("kind", "oauth2"), ("flow", f), ("authUrl", a), ("tokenUrl", t),
                              ("scopes", jobj (sc.map (fun (k, v) => (k, Json.str v))))]
  | .other w => jobj [("kind", "other"), ("what", w)]

def serverJson (s : Server) : Json := jobj [("scheme", s.scheme), ("host", s.host), ("base", s.base)]

def apiJson (a : Api Json) : Json :=
  jobj [
    ("ops", jarr (a.ops.map (fun o => jobj [("path", o.path), ("method", o.method), ("opId", o.opId),
        ("inputs", jarr (o.inputs.map inputJson)),
        ("responses", jarr (o.responses.map (fun (k, r) => jobj [("status", k), ("r", respJson r)]))),
        ("meta", jobj o.info), ("security", o.security.getD Json.null)]))),
    ("pathParams", jarr (a.pathParams.map (fun (p, is) => jobj [("path", p), ("inputs", jarr (is.map inputJson))]))),
    ("shared", jarr (a.shared.map (fun (k, i) => jobj [("name", k), ("input", inputJson i)]))),
    ("sharedResponses", jarr (a.sharedResponses.map (fun (k, r) => jobj [("name", k), ("r", respJson r)]))),
    ("defs", jarr (a.defs.map (fun (k, s) => jobj [("name", k), ("schema", aschJson s)]))),
    ("servers", jarr (a.servers.map serverJson)),
    ("security", jarr (a.security.map (fun (k, s) => jobj [("name", k), ("s", secJson s)]))),
    ("securityReq", a.securityReq.getD Json.null)]

/-! references left in a non-v2 form by the round trip -/

def schRefs (s : Sch Json) : List (RK × String) := docRefs s
def prefRefs : PRef2 Json → List (RK × String)
  | .ref k n => [(k, n)]
  | .val p => ((p.items.map schRefs).getD []) ++ ((p.schema.map schRefs).getD [])
def rrefRefs : RRef2 Json → List (RK × String)
  | .ref k n => [(k, n)]
  | .val r => ((r.schema.map schRefs).getD []) ++ r.headers.flatMap (fun (_, h) => prefRefs (.val h))
def docRefs2 (d : Doc2 Json) : List (RK × String) :=
  d.params.flatMap (fun (_, p) => prefRefs p) ++ d.responses.flatMap (fun (_, r) => rrefRefs r) ++
  d.defs.flatMap (fun (_, s) => schRefs s) ++
  d.paths.flatMap (fun p => p.params.flatMap prefRefs ++ p.ops.flatMap (fun o =>
    o.params.flatMap prefRefs ++ o.responses.flatMap (fun (_, r) => rrefRefs r)))
def badRefs (d : Doc2 Json) : List String :=
  ((docRefs2 d).filter (fun (k, _) => !k.isV2)).map (fun (k, n) => rkPrefix k ++ n)

/-! exclusion classes (known findings) and branch labels -/

def allSchemas (d : Doc2 Json) : List (Sch Json) :=
  let ofP : PRef2 Json → List (Sch Json) := fun p => match p with
    | .ref _ _ => [] | .val q => q.items.toList ++ q.schema.toList
  let ofR : RRef2 Json → List (Sch Json) := fun r => match r with
    | .ref _ _ => [] | .val q => q.schema.toList ++ q.headers.flatMap (fun (_, h) => h.items.toList)
  d.params.flatMap (fun (_, p) => ofP p) ++ d.responses.flatMap (fun (_, r) => ofR r) ++ d.defs.map (·.2) ++
  d.paths.flatMap (fun p => p.params.flatMap ofP ++ p.ops.flatMap (fun o =>
    o.params.flatMap ofP ++ o.responses.flatMap (fun (_, r) => ofR r)))

def opParams (d : Doc2 Json) : List (Param2 Json) :=
  d.paths.flatMap (fun p => p.ops.flatMap (fun o => o.params.filterMap (fun q => match q with | .val v => some v | _ => none)))

def sharedVals (d : Doc2 Json) : List (Param2 Json) :=
  d.params.filterMap (fun (_, q) => match q with | .val v => some v | _ => none)

def pathVals (d : Doc2 Json) : List (Param2 Json) :=
  d.paths.flatMap (fun p => p.params.filterMap (fun q => match q with | .val v => some v | _ => none))

def headerVals (d : Doc2 Json) : List (Param2 Json) :=
  let ofR : RRef2 Json → List (Param2 Json) := fun r => match r with | .ref _ _ => [] | .val q => q.headers.map (·.2)
  d.responses.flatMap (fun (_, r) => ofR r) ++
  d.paths.flatMap (fun p => p.ops.flatMap (fun o => o.responses.flatMap (fun (_, r) => ofR r)))

def exclusions (d : Doc2 Json) : List String :=
  let ss := allSchemas d
  (if ss.any addlImpure then ["AddlSubschemaUnconverted"] else []) ++
  (if ss.any (fun s => !noBinary2 s) ||
      ((opParams d) ++ (sharedVals d) ++ pathVals d ++ headerVals d).any (fun p => p.loc != "formData" && p.loc != "body" &&
        (p.cons.ty == some "file" || (p.cons.ty == some "string" && p.cons.fmt == some "binary")))
   then ["BinaryString"] else []) ++
  (if (sharedVals d).any (fun p => p.loc == "formData" && p.cons.ty != some "file") then ["SharedFormParamNotFile"] else []) ++
  (if d.params.any (fun (k, p) => match p with
        | .val q => q.loc == "formData" && (alookup k d.defs).isSome
        | _ => false)
   then ["SharedFormParamDefClash"] else []) ++
  (if (opParams d ++ sharedVals d).any (fun p => p.loc == "body" && p.schema.isNone) then ["BodyWithoutSchema"] else []) ++
  (if d.defs.any (fun (k, _) => !identOK k) || d.params.any (fun (k, _) => !identOK k) ||
      d.responses.any (fun (k, _) => !identOK k) || d.secs.any (fun (k, _) => !identOK k)
   then ["BadComponentName"] else []) ++
  (if (d.consumes.filter (fun m => !isFormMime m)).length ≥ 2 &&
      (sharedVals d).any (fun p => p.loc == "body" && (p.schema.map hasXnull).getD false)
   then ["SharedBodyNullableLost"] else []) ++
  (if d.loc.host == "" && (d.loc.basePath != "" || !d.loc.schemes.isEmpty) then ["BasePathWithoutHost"] else [])

partial def schBranches (s : Sch Json) : List String :=
  match s with
  | .ref k _ => ["s.ref." ++ (rkPrefix k)]
  | .node h kids =>
    (if h.xnull then ["s.xnullable"] else []) ++ (if h.ty == some "file" then ["s.file"] else []) ++
    (if h.disc.isSome then ["s.discriminator"] else []) ++ (if !h.req.isEmpty then ["s.required"] else []) ++
    h.sc.map (fun (k, _) => "s.f." ++ k) ++
    kids.flatMap (fun (sl, c) => (match sl with
      | .items => ["s.items"] | .prop _ => ["s.prop"] | .allOf _ => ["s.allOf"] | .addl => ["s.addl"]) ++ schBranches c)

def paramBranches (pre : String) : PRef2 Json → List String
  | .ref k _ => [pre ++ ".ref." ++ rkPrefix k]
  | .val p => [pre ++ ".in." ++ p.loc] ++ (if p.required then [pre ++ ".required"] else []) ++
      (if p.cons.ty == some "file" then [pre ++ ".file"] else []) ++ (if p.cons.fmt.isSome then [pre ++ ".format"] else []) ++
      p.cons.sc.map (fun (k, _) => pre ++ ".f." ++ k) ++ (if p.items.isSome then [pre ++ ".items"] else [])

def respBranches (pre : String) : RRef2 Json → List String
  | .ref _ _ => [pre ++ ".ref"]
  | .val r => (if r.schema.isSome then [pre ++ ".schema"] else [pre ++ ".noschema"]) ++
      (if !r.headers.isEmpty then [pre ++ (if r.schema.isSome then ".headers+schema" else ".headers-noschema")] else []) ++
      r.headers.flatMap (fun (_, h) => h.cons.sc.map (fun (k, _) => pre ++ ".hdr.f." ++ k))

def branches (d : Doc2 Json) (excl : List String) : List String :=
  let raw :=
    (allSchemas d).flatMap schBranches ++
    d.params.flatMap (fun (_, p) => paramBranches "shared" p) ++
    d.responses.flatMap (fun (_, r) => respBranches "sharedresp" r) ++
    d.paths.flatMap (fun p => p.params.flatMap (paramBranches "pathparam") ++ p.ops.flatMap (fun o =>
      ["op." ++ o.method] ++ (if !o.consumes.isEmpty then ["op.consumes"] else []) ++
      o.info.map (fun (k, _) => "op.info." ++ k) ++
      (match o.security with | some (.arr #[]) => ["op.security.empty"] | some _ => ["op.security"] | none => []) ++
      (if !o.produces.isEmpty then ["op.produces"] else []) ++
      (if !(formVals o.params).isEmpty && formTwice (effConsumes d.consumes o) then ["op.form.bothMediaTypes"] else []) ++
      (if o.params.any (formItemsTwice (effConsumes d.consumes o)) then ["op.form.bothMediaTypes.itemsNullable"] else []) ++
      o.params.flatMap (paramBranches "param") ++ o.responses.flatMap (fun (_, r) => respBranches "resp" r))) ++
    d.secs.map (fun (_, s) => "sec." ++ s.type ++ (if s.flow != "" then "." ++ s.flow else "")) ++
    (if d.loc.host != "" then ["loc.host"] else []) ++ (if d.loc.basePath != "" then ["loc.basePath"] else []) ++
    d.loc.schemes.map (fun s => "loc.scheme." ++ s) ++
    (if d.security.isSome then ["doc.security"] else []) ++
    (if !d.consumes.isEmpty then ["doc.consumes"] else []) ++ (if !d.produces.isEmpty then ["doc.produces"] else []) ++
    excl.map (fun e => "excl." ++ e) ++
    -- which hypotheses of the document-level theorems this input satisfies (the fragments are decidable)
    (if excl.isEmpty then ["frag.noExclusion"] else []) ++
    (if docSimple d then ["frag.docSimple"] else []) ++ (if docSimpleBack d then ["frag.docSimpleBack"] else []) ++
    (if docBody d then ["frag.docBody"] else []) ++ (if docBodyBack d then ["frag.docBodyBack"] else []) ++
    (if docInputs d then ["frag.docInputs"] else []) ++ (if docInputs d && !docBody d then ["frag.docInputs.only"] else []) ++
    (if docBody d && !docSimple d then ["frag.docBody.only"] else []) ++
    (if docBodyBack d && !docSimpleBack d then ["frag.docBodyBack.only"] else []) ++
    (if docInputsBack d then ["frag.docInputsBack"] else []) ++
    (if docInputsBack d && !docBodyBack d then ["frag.docInputsBack.only"] else []) ++
    (if docInputsBack d && docNamed d then ["frag.fromV3Full"] else [])
  raw.eraseDups

/-- the kinds of value the extension `x-nullable` takes anywhere in the document (only the boolean `true` is nullability) -/
partial def xnullKinds (j : Json) : List String :=
  match j with
  | .obj kvs => kvs.foldl (init := []) (fun acc k v =>
      acc ++ (if k == "x-nullable" then
                [match v with | .bool true => "s.xnullable.true" | .bool false => "s.xnullable.false" | _ => "s.xnullable.nonbool"]
              else []) ++ xnullKinds v)
  | .arr a => a.toList.flatMap xnullKinds
  | _ => []

def handle (j : Json) : Json :=
  let d := parseDoc (getD j "doc" Json.null)
  let spec := api2 d
  let excl := exclusions d
  let model := match toV3 d with
    | .error e => jobj [("toV3", "error"), ("why", e)]
    | .ok d3 =>
      match fromV3Full d3 with
      | .panic => jobj [("toV3", "ok"), ("validates", Json.bool (validates3 d3)), ("api3", apiJson (api3 d3)),
                        ("fromV3", "panic")]
      | .error => jobj [("toV3", "ok"), ("validates", Json.bool (validates3 d3)), ("api3", apiJson (api3 d3)),
                        ("fromV3", "error")]
      | .ok back =>
        jobj [("toV3", "ok"), ("validates", Json.bool (validates3 d3)), ("api3", apiJson (api3 d3)),
              ("fromV3", "ok"), ("back", apiJson (api2 back)), ("badRefs", jstrs (badRefs back))]
  jobj [
    ("model", model),
    ("spec", jobj [("toV3", "ok"), ("validates", Json.bool true), ("fromV3", "ok"), ("api", apiJson spec), ("badRefs", jstrs [])]),
    ("excl", jstrs excl),
    ("branches", jstrs (branches d excl ++ (xnullKinds (getD j "doc" Json.null)).eraseDups))]

end KinModel.Drv.C17
