import KinModel.Drv.Util
import KinModel.Request
open Lean
namespace KinModel.Drv.C07
open KinModel.Drv KinModel.Request

def parseIn (s : String) : In :=
  match s with | "path" => .path | "query" => .query | "header" => .header | _ => .cookie
def inStr : In → String | .path => "path" | .query => "query" | .header => "header" | .cookie => "cookie"

def parseParam (j : Json) : Param := ⟨getStr j "name", parseIn (getStr j "in"), getBool j "ok"⟩
def partStr : Part → String
  | .security => "security" | .body => "body" | .param p => s!"param:{inStr p.loc}:{p.name}"

def parseReqs (js : List Json) : List Requirement := js.map (fun r => strs (asArr r))

/-- request: {opParams, pathParams, opSecurity (null | [[..]]), docSecurity, declared:[..], accepted:[..],
    hasBody, bodyOK, excludeBody, excludeQuery, multi} -/
def handle (j : Json) : Json :=
  let op : Op := {
    opParams := (getArr j "opParams").map parseParam,
    pathParams := (getArr j "pathParams").map parseParam,
    opSecurity := if isNull j "opSecurity" then none else some (parseReqs (getArr j "opSecurity")),
    docSecurity := parseReqs (getArr j "docSecurity"),
    hasBody := getBool j "hasBody", bodyOK := getBool j "bodyOK" }
  let o : Opts := { excludeBody := getBool j "excludeBody", excludeQuery := getBool j "excludeQuery",
                    multiError := getBool j "multi" }
  let declared := strs (getArr j "declared")
  let accepted := strs (getArr j "accepted")
  let d := fun s => declared.contains s
  let a := fun s => accepted.contains s
  let res := validateRequest o op d a
  let parts := match res with | .ok => [] | .err ps => ps.map partStr
  let branches :=
    (if op.opSecurity.isSome then ["sec.op"] else []) ++
    (if (securityList op).isEmpty then ["sec.empty"] else []) ++
    (if (securityList op).any (·.isEmpty) then ["sec.emptyreq"] else []) ++
    (if op.pathParams.any (overridden op.opParams) then ["param.override"] else []) ++
    (if o.excludeQuery && (op.pathParams ++ op.opParams).any (·.loc = In.query) then ["opt.exq"] else []) ++
    (if o.excludeBody && op.hasBody then ["opt.exb"] else []) ++
    (if o.multiError then ["multi"] else []) ++
    (if (failing o op d a).length > 1 then ["fail.many"] else [])
  jobj [
    ("model", jobj [("ok", Json.bool res.isOk), ("parts", jstrs parts), ("authLog", jstrs (authLog d a op))]),
    ("spec", jobj [("accept", Json.bool (acceptB o op d a)),
                   ("failing", jstrs ((failingSpec o op d a).map partStr))]),
    ("excl", Json.arr #[]),
    ("branches", jstrs branches)]

end KinModel.Drv.C07
