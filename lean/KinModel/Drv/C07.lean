import KinModel.Drv.Util
import KinModel.RequestFlow
import KinModel.RequestHistory
import KinModel.RequestOne
import KinModel.Style
import KinModel.Body
open Lean
namespace KinModel.Drv.C07
open KinModel.Drv KinModel.RequestFlow KinModel.RequestHistory
open KinModel.Request (In Param Opts Part overridden skipQuery)

def parseIn (s : String) : In :=
  match s with | "path" => .path | "query" => .query | "header" => .header | _ => .cookie
def inStr : In → String | .path => "path" | .query => "query" | .header => "header" | .cookie => "cookie"

/-- a parameter of the case: {name, in, required, sent, valid} (the bit `ok` is computed from the facts) -/
def parseFacts (j : Json) : ParamFacts := ⟨getBool j "required", getBool j "sent", getBool j "valid"⟩
def parseParam (j : Json) : Param := ⟨getStr j "name", parseIn (getStr j "in"), (parseFacts j).ok⟩
def partStr : Part → String
  | .security => "security" | .body => "body" | .param p => s!"param:{inStr p.loc}:{p.name}"

/-- a requirement: [{"s": scheme, "sc": [scopes…]}, …] -/
def parseUse (j : Json) : SchemeUse := ⟨getStr j "s", strs (getArr j "sc")⟩
def parseReqs (js : List Json) : List Requirement := js.map (fun r => (asArr r).map parseUse)

def callKey (scheme : String) (scopes : List String) : String := scheme ++ "(" ++ ",".intercalate scopes ++ ")"

def shapeStr : Res → String
  | .ok => "nil" | .single _ => "single" | .multi _ => "multi" | .stuck => "stuck"

def dupIn (l : List Param) : Bool :=
  match l with
  | [] => false
  | p :: r => r.any (fun q => q.name = p.name && q.loc = p.loc) || dupIn r

/-! ### the bits recomputed by the models of the neighbours (C05 parameter decision, C06 body verdict)

The stub declarations of the Go runner — an integer schema with maximum 9 or 1 in the default style of the location
against the text `5`; a JSON body `{"a":1}` against an object schema requiring `a` or `b` — are handed to
`Style.validateParameter` and `Body.validateRequestBodyD`; the case's facts must give the same bit. -/

def styleLoc : In → Style.Loc
  | .path => .path | .query => .query | .header => .header | .cookie => .cookie

def styleParam (j : Json) : Style.Param :=
  let loc := styleLoc (parseIn (getStr j "in"))
  let m := Style.defaultMethod loc
  ⟨⟨loc, m.1, m.2⟩, (getStr j "name").toList, getBool j "required", false,
   .leaf (.prim { t := .integer, max := some (if getBool j "valid" then 9 else 1) })⟩

/-- what the request carries for the parameter `j`; `query` = the whole query of the request -/
def styleReq (query : List (Style.Str × List Style.Str)) (j : Json) : Style.Req :=
  let sent := getBool j "sent"
  match parseIn (getStr j "in") with
  | .path => { path := some ['5'], query := query }
  | .query => { query := query }
  | .header => { header := if sent then some [['5']] else none, query := query }
  | .cookie => { cookie := if sent then some ['5'] else none, query := query }

def insertQ (n : Style.Str) : List (Style.Str × List Style.Str) → List (Style.Str × List Style.Str)
  | [] => [(n, [['5']])]
  | kv :: r => if kv.1 = n then kv :: r else kv :: insertQ n r

def wholeQuery (ps : List Json) : List (Style.Str × List Style.Str) :=
  ps.foldl (fun q j => if getStr j "in" == "query" && getBool j "sent" then insertQ (getStr j "name").toList q else q) []

/-- the ONE request of the case, as the Go runner builds it (`c07Request`): path values `5`, the query, a header / a
cookie `5` per parameter sent; with `noise` a header and a cookie no parameter names and, behind every cookie sent, a
second cookie of the same name with the value `99` (above both maxima) -/
def oneRequest (noise : Bool) (ps : List Json) : RequestOne.HttpReq :=
  let sentIn (loc : String) := ps.filter (fun j => getStr j "in" == loc && getBool j "sent")
  let cookies := (sentIn "cookie").map (fun j => ((getStr j "name").toList, ['5']))
  { pathParams := (ps.filter (fun j => getStr j "in" == "path")).map (fun j => ((getStr j "name").toList, ['5'])),
    query := wholeQuery ps,
    headers := (sentIn "header").map (fun j => (RequestOne.canonHeader (getStr j "name").toList, [['5']])) ++
      (if noise then [("X-Other".toList, [['1']])] else []),
    cookies := cookies ++ (if noise then ("zz".toList, ['1']) :: cookies.map (fun kv => (kv.1, ['9', '9'])) else []) }

def bodyByC06 (bf : BodyFacts) : Bool :=
  let need := if bf.valid then "a" else "b"
  let schema := Body.RS.leaf (some .object) false false false 0 none [] [need.toList] none none
  let rb : Body.ReqBody := ⟨bf.required, [("application/json".toList, ⟨some schema, []⟩)]⟩
  let ct := if bf.declaredType then "application/json" else "text/csv"
  let b : Body.BodyIn :=
    if bf.sent then { text := "{\"a\":1}".toList, json := some (.obj [("a".toList, .int 1)]), form := none, parts := none }
    else { text := [], json := none, form := none, parts := none }
  (Body.validateRequestBodyD Body.registry rb ct.toList b false true).isOk

/-- the `Options` value of one call of the case: nil pointer, or the struct with its exclusions, mode and callback -/
def parseCall (j : Json) : Call :=
  if getBool j "optionsNil" then ⟨none⟩ else
  let accepted := strs (getArr j "accepted")
  ⟨some ⟨{ excludeBody := getBool j "excludeBody", excludeQuery := getBool j "excludeQuery", multiError := getBool j "multi" },
         if getBool j "authNil" then none else some (fun s sc => accepted.contains (callKey s sc))⟩⟩

/-- request: {opParams (null | [..]), pathParams, opSecurity (null | [[..]]), docSecurity, declared:[..],
    accepted:["scheme(scope,scope)", ..], authNil, body (null | {required, sent, ctOK, valid}),
    excludeBody, excludeQuery, multi, …fields only the Go runner reads} -/
def handle (j : Json) : Json :=
  let bodyJ := getD j "body" Json.null
  let hasBody := !(isNull j "body")
  let bf : BodyFacts := ⟨getBool bodyJ "required", getBool bodyJ "sent", getBool bodyJ "ctOK", getBool bodyJ "valid"⟩
  let op : Op := {
    opParams := if isNull j "opParams" then none else some ((getArr j "opParams").map parseParam),
    pathParams := (getArr j "pathParams").map parseParam,
    opSecurity := if isNull j "opSecurity" then none else some (parseReqs (getArr j "opSecurity")),
    docSecurity := parseReqs (getArr j "docSecurity"),
    hasBody := hasBody, bodyOK := bf.ok }
  let declared := strs (getArr j "declared")
  let call0 := parseCall j
  -- the history: the case's own call, then one call per entry of "history" (the entry overrides the option fields)
  let steps : List Step := ⟨false, call0⟩ ::
    (getArr j "history").map (fun st => ⟨getStr st "reuse" == "sibling", parseCall (j.mergeObj st)⟩)
  let calls := steps.map (·.call)
  let dfun : String → Bool := fun s => declared.contains s
  let outs := validateSteps op dfun steps
  let o : Opts := call0.opts
  let env : Env := call0.env dfun
  let res := (outs.head?.getD (.stuck, [])).1
  let log := (outs.head?.getD (.stuck, [])).2
  let histModel := (outs.drop 1).map (fun r => jobj [("ok", Json.bool r.1.isOk), ("shape", Json.str (shapeStr r.1)),
                    ("parts", jstrs (r.1.parts.map partStr)),
                    ("authLog", jstrs (r.2.map (fun c => callKey c.scheme c.scopes)))])
  let histSpec := (steps.drop 1).map (fun s => jobj [("accept", Json.bool (acceptB s.call.opts (s.op op) (s.call.env dfun))),
                   ("failing", jstrs ((failingSpec s.call.opts (s.op op) (s.call.env dfun)).map partStr))])
  let histDiffer := (outs.drop 1).any (fun r => r.1.parts != res.parts || r.1.isOk != res.isOk)
  let allParams := op.pathParams ++ opList op
  let allFacts := ((getArr j "pathParams") ++ (getArr j "opParams")).map parseFacts
  let uses := (securityList op).flatten
  let allJ := (getArr j "pathParams") ++ (getArr j "opParams")
  let q := wholeQuery allJ
  let one := oneRequest (getBool j "noise") allJ
  let composeAgree :=
    allJ.all (fun pj => (Style.validateParameter (styleParam pj) (styleReq q pj) == .accept) == (parseFacts pj).ok) &&
    -- the same through the views projected from the one request of the case
    allJ.all (fun pj => (Style.validateParameter (styleParam pj) (RequestOne.view one (styleParam pj)) == .accept) == (parseFacts pj).ok) &&
    (!hasBody || bodyByC06 bf == bf.ok)
  let build := getD j "build" Json.null
  let branches :=
    (if op.opSecurity.isSome then ["sec.op"] else []) ++
    (if (securityList op).isEmpty then ["sec.empty"] else []) ++
    (if (securityList op).any (·.isEmpty) then ["sec.emptyreq"] else []) ++
    (if uses.any (fun u => !u.scopes.isEmpty) then ["sec.scopes"] else []) ++
    (if uses.any (fun u => uses.any (fun v => v.scheme = u.scheme && v.scopes ≠ u.scopes)) then ["sec.samescheme"] else []) ++
    (if uses.any (fun u => !env.declared u.scheme) then ["sec.undeclared"] else []) ++
    (if env.auth.isNone then ["sec.nilauth"] else []) ++
    (if log.length > 1 then ["sec.calls>1"] else []) ++
    (if op.opParams.isNone then ["param.nilop"] else []) ++
    (if op.pathParams.any (overridden (opList op)) then ["param.override"] else []) ++
    (if op.pathParams.any (fun p => (opList op).any (fun q => q.name = p.name && q.loc ≠ p.loc)) then ["param.samename-otherloc"] else []) ++
    (if dupIn op.pathParams || dupIn (opList op) then ["param.dup"] else []) ++
    (if allFacts.any (fun f => !f.sent && f.required) then ["param.absent-required"] else []) ++
    (if allFacts.any (fun f => !f.sent && !f.required) then ["param.absent-optional"] else []) ++
    (if o.excludeQuery && allParams.any (·.loc = In.query) then ["opt.exq"] else []) ++
    (if o.excludeBody && op.hasBody then ["opt.exb"] else []) ++
    (if hasBody && !bf.sent then (if bf.required then ["body.absent-required"] else ["body.absent-optional"]) else []) ++
    (if hasBody && bf.sent && !bf.declaredType then ["body.badct"] else []) ++
    (if o.multiError then ["multi"] else []) ++
    (if (failing o op env).length > 1 then ["fail.many"] else []) ++
    (if getStr build "req" == "httptest" then ["build.req.httptest"] else []) ++
    (if getStr build "route" == "gorilla" then ["build.route.gorilla"] else []) ++
    (if getStr build "route" == "legacy" then ["build.route.legacy"] else []) ++
    (if getStr build "doc" == "loaded" then ["build.doc.loaded"] else []) ++
    (if getBool j "authReadsBody" && !log.isEmpty then ["auth.readsbody"] else []) ++
    (if getBool j "optionsNil" then ["opt.nil"] else []) ++
    (if getBool j "noise" then ["req.noise"] else []) ++
    (if getBool j "noise" && one.cookies.length > 2 then ["req.noise.shadowed-cookie"] else []) ++
    (if !(getArr j "otherOpts").isEmpty then ["opt.other"] else []) ++
    (if calls.length > 1 then ["hist"] else []) ++
    (if calls.length > 2 then ["hist.long"] else []) ++
    (if histDiffer then ["hist.differ"] else []) ++
    (if (calls.drop 1).any (fun c => c.options.isNone) then ["hist.nilopts"] else []) ++
    (if (getArr j "history").any (fun st => getStr st "reuse" == "input") then ["hist.reuse.input"] else []) ++
    (if (getArr j "history").any (fun st => getStr st "reuse" == "request") then ["hist.reuse.request"] else []) ++
    (if (getArr j "history").any (fun st => getStr st "reuse" == "doc") then ["hist.reuse.doc"] else []) ++
    (if steps.any (·.onSibling) then ["hist.sibling"] else []) ++
    (if steps.any (·.onSibling) && op.pathParams.any (overridden (opList op)) then ["hist.sibling.override"] else []) ++
    (if (getArr j "history").any (fun st => getStr st "optsHow" == "mutate") then ["hist.opts.mutate"] else []) ++
    (if getStr j "undeclaredHow" != "" then ["sec.undeclared." ++ getStr j "undeclaredHow"] else []) ++
    (if ((getArr j "pathParams") ++ (getArr j "opParams")).any (fun p => getBool p "ref") then ["param.ref"] else [])
  jobj [
    ("model", jobj [("ok", Json.bool res.isOk), ("shape", Json.str (shapeStr res)),
                    ("parts", jstrs (res.parts.map partStr)),
                    ("authLog", jstrs (log.map (fun c => callKey c.scheme c.scopes))),
                    ("composeAgree", Json.bool composeAgree), ("hist", Json.arr histModel.toArray)]),
    ("spec", jobj [("accept", Json.bool (acceptB o op env)),
                   ("failing", jstrs ((failingSpec o op env).map partStr)), ("hist", Json.arr histSpec.toArray)]),
    ("excl", Json.arr #[]),
    ("branches", jstrs branches)]

end KinModel.Drv.C07
