import KinModel.Drv.Util
import KinModel.Style
import KinModel.StyleNest
import KinModel.StyleContent
import KinModel.StyleRequest
open Lean
namespace KinModel.Drv.C05
open KinModel.Drv KinModel.Style

def chars (s : String) : Str := s.toList
def text (s : Str) : String := String.ofList s

def optInt (j : Json) (k : String) : Option Int :=
  match j.getObjVal? k with
  | .ok (.num n) => if n.exponent = 0 then some n.mantissa else none
  | _ => none
def optNat (j : Json) (k : String) : Option Nat := (optInt j k).map Int.toNat

def parsePT (s : String) : PT :=
  match s with
  | "integer" => .integer | "int32" => .int32 | "number" => .number | "boolean" => .boolean | _ => .string

def parseEV (j : Json) : EV :=
  match j with
  | .num n => .num n.mantissa (- Int.ofNat n.exponent)
  | .bool b => .bool b
  | .str s => .str (chars s)
  | _ => .str []

def parsePS (j : Json) : PS :=
  { t := parsePT (getStr j "t"), min := optInt j "min", max := optInt j "max", enum := (getArr j "enum").map parseEV }

def pair (j : Json) : Json × Json :=
  match j with
  | .arr a => (a.getD 0 .null, a.getD 1 .null)
  | _ => (.null, .null)

def parseDS (j : Json) : DS :=
  match getStr j "k" with
  | "arr" => .arr (parsePS (getD j "items" .null))
  | "obj" => .obj ((getArr j "props").map (fun kv => (chars (asStr (pair kv).1), parsePS (pair kv).2)))
      ((getArr j "required").map (fun s => chars (asStr s)))
  | _ => .prim (parsePS j)

def parseLeaf (j : Json) : Leaf :=
  match getStr j "k" with
  | "arr" => .arr (parsePS (getD j "items" .null)) (optNat j "minItems") (optNat j "maxItems")
      ((getArr j "enum").map (fun e => (asArr e).map parseEV))
  | "obj" => .obj ((getArr j "props").map (fun kv => (chars (asStr (pair kv).1), parsePS (pair kv).2)))
      ((getArr j "required").map (fun s => chars (asStr s)))
      (if isNull j "addl" then none else some (parsePS (getD j "addl" .null)))
  | "untyped" => .untyped ((getArr j "enum").map parseEV)
  | "deep" => .deep ((getArr j "props").map (fun kv => (chars (asStr (pair kv).1), parseDS (pair kv).2)))
      ((getArr j "required").map (fun s => chars (asStr s)))
  | _ => .prim (parsePS j)

def parseSch (j : Json) : Sch :=
  match getStr j "k" with
  | "allOf" => .allOf ((getArr j "alts").map parseLeaf)
  | "anyOf" => .anyOf ((getArr j "alts").map parseLeaf)
  | "oneOf" => .oneOf ((getArr j "alts").map parseLeaf)
  | _ => .leaf (parseLeaf j)

def parseLoc (s : String) : Loc :=
  match s with | "path" => .path | "query" => .query | "header" => .header | _ => .cookie
def parseSty (s : String) : Sty :=
  match s with
  | "simple" => .simple | "label" => .label | "matrix" => .matrix | "form" => .form
  | "spaceDelimited" => .spaceDelimited | "pipeDelimited" => .pipeDelimited | _ => .deepObject

def optStr (j : Json) (k : String) : Option Str :=
  match j.getObjVal? k with | .ok (.str s) => some (chars s) | _ => none

def parseReq (j : Json) : Req :=
  { path := optStr j "path",
    query := (getArr j "query").map (fun kv => (chars (asStr (pair kv).1), (asArr (pair kv).2).map (fun v => chars (asStr v)))),
    header := if isNull j "header" then none else some ((getArr j "header").map (fun v => chars (asStr v))),
    cookie := optStr j "cookie", pathOthers := getBool j "pathOthers" }

def parseTexts (j : Json) : Option Texts :=
  match j.getObjVal? "enc" with
  | .ok (.obj _) =>
    let e := getD j "enc" .null
    match getStr e "kind" with
    | "prim" => some (.prim (chars (getStr e "texts")))
    | "arr" => some (.arr ((getArr e "texts").map (fun v => chars (asStr v))))
    | "obj" => some (.obj ((getArr e "texts").map (fun kv => (chars (asStr (pair kv).1), chars (asStr (pair kv).2)))))
    | _ => none
  | _ => none

def istr (i : Int) : Json := Json.str (toString i)

def pvJson : PV → Json
  | .int i => jobj [("$t", "int64"), ("v", istr i)]
  | .int32 i => jobj [("$t", "int32"), ("v", istr i)]
  | .num m e => jobj [("$t", "float64"), ("m", istr m), ("e", istr e)]
  | .bool b => Json.bool b
  | .str s => Json.str (text s)

/-- specification side: the integer width is not part of the value -/
def pvJsonS : PV → Json
  | .int i => jobj [("$t", "int"), ("v", istr i)]
  | .int32 i => jobj [("$t", "int"), ("v", istr i)]
  | v => pvJson v

def dvJson : DV → Json
  | .p v => pvJson v
  | .a xs => Json.arr (xs.map (fun x => match x with | none => Json.null | some v => pvJson v)).toArray
  | .o kvs => Json.mkObj (kvs.map (fun kv => (text kv.1, pvJson kv.2)))

def valJson : Val → Json
  | .nil => .null
  | .nilObj => .null
  | .prim v => pvJson v
  | .arr xs => Json.arr (xs.map pvJson).toArray
  | .obj kvs => Json.mkObj (kvs.map (fun kv => (text kv.1, pvJson kv.2)))
  | .dobj kvs => Json.mkObj (kvs.map (fun kv => (text kv.1, dvJson kv.2)))

def dvJsonS : DV → Json
  | .p v => pvJsonS v
  | .a xs => Json.arr (xs.map (fun x => match x with | none => Json.null | some v => pvJsonS v)).toArray
  | .o kvs => Json.mkObj (kvs.map (fun kv => (text kv.1, pvJsonS kv.2)))

def valJsonS : Val → Json
  | .nil => .null
  | .nilObj => .null
  | .prim v => pvJsonS v
  | .arr xs => Json.arr (xs.map pvJsonS).toArray
  | .obj kvs => Json.mkObj (kvs.map (fun kv => (text kv.1, pvJsonS kv.2)))
  | .dobj kvs => Json.mkObj (kvs.map (fun kv => (text kv.1, dvJsonS kv.2)))

def errStr : Option DErr → Json
  | none => .null
  | some .parse => "parse" | some .badMethod => "badMethod" | some .other => "other"

def verdictStr : Verdict → String
  | .accept => "accept" | .missing => "missing" | .empty => "empty" | .parse => "parse"
  | .badMethod => "badMethod" | .other => "other" | .schema => "schema"

/-- does a carrier string contain a token that starts with `0` and goes on with a letter or digit? -/
def alnum (c : Char) : Bool := (digitValB c).isSome
def zeroLed : Bool → Str → Bool
  | _, [] => false
  | prevAl, c :: cs =>
    (c = '0' && !prevAl && (match cs with | d :: _ => alnum d | [] => false)) || zeroLed (alnum c) cs

def reqStrings (r : Req) : List Str :=
  (match r.path with | some s => [s] | none => []) ++
  (r.query.map (fun kv => kv.1)) ++ (r.query.map (fun kv => kv.2)).flatten ++
  (match r.header with | some vs => vs | none => []) ++
  (match r.cookie with | some s => [s] | none => [])

def psHasInt (ps : PS) : Bool := psIsInt ps
def leafHasInt : Leaf → Bool
  | .untyped _ => false
  | .prim ps => psHasInt ps
  | .arr it _ _ _ => psHasInt it
  | .obj sp _ ad => sp.any (fun kv => psHasInt kv.2) || (match ad with | some a => psHasInt a | none => false)
  | .deep sp _ => sp.any (fun kv => match kv.2 with | .prim ps => psHasInt ps | .arr it => psHasInt it | .obj sub _ => sub.any (fun x => psHasInt x.2))

def psHasNum (ps : PS) : Bool := ps.t = .number
def leafHasNum : Leaf → Bool
  | .untyped _ => false
  | .prim ps => psHasNum ps
  | .arr it _ _ _ => psHasNum it
  | .obj sp _ ad => sp.any (fun kv => psHasNum kv.2) || (match ad with | some a => psHasNum a | none => false)
  | .deep sp _ => sp.any (fun kv => match kv.2 with | .prim ps => psHasNum ps | .arr it => psHasNum it | .obj sub _ => sub.any (fun x => psHasNum x.2))

def lowerC (c : Char) : Char := if 65 ≤ c.toNat ∧ c.toNat ≤ 90 then Char.ofNat (c.toNat + 32) else c

def hasSub (pat : Str) : Str → Bool
  | [] => pat.isEmpty
  | c :: cs => pat.isPrefixOf (c :: cs) || hasSub pat cs

/-- texts outside the modelled part of strconv: digit separators, hex floats ("inf"/"nan" are parse errors since ccc6020,
as in the model's decimal grammar) -/
def exoticNumberText (s : Str) : Bool :=
  let l := s.map lowerC
  l.contains '_' || hasSub "0x".toList l

def leafKind : Leaf → String
  | .prim _ => "prim" | .arr _ _ _ _ => "arr" | .obj _ _ _ => "obj" | .deep _ _ => "deep" | .untyped _ => "untyped"

/-- colliding deepObject keys (same bracket groups, e.g. `p[a]` and `p[a]zz`): the Go map keeps one of them, which one
depends on the iteration order. The driver evaluates the model on the request and on the request with the query
entries reversed (first wins / last wins); that covers a single collision of two single-valued keys — more is unsupported. -/
def collisionOK (props : List (List Str × List Str)) : Bool :=
  let dups := props.filter (fun a => (props.filter (fun b => b.1 = a.1)).length ≥ 2)
  dups.isEmpty || (dups.length = 2 && dups.all (fun a => a.2.length = 1))

def deepSupportedD (name : Str) (r : Req) (sprops : List (Str × DS)) : Bool :=
  (deepProps name (strictReq name r).query).all (deepSupportedKey sprops) && collisionOK (deepProps name (strictReq name r).query)

def unsupportedLeaf (c : Cell) (name : Str) (r : Req) : Leaf → Bool
  | .deep sp _ => c.style = .deepObject && !deepSupportedD name r sp
  | .obj sp _ _ => c.style = .deepObject && !deepSupportedD name r (sp.map (fun kv => (kv.1, DS.prim kv.2)))
  | _ => false

def valBranch : Val → String
  | .nil => "val.nil" | .nilObj => "val.nilmap" | .prim _ => "val.prim" | .arr _ => "val.arr"
  | .obj [] => "val.emptyobj" | .obj _ => "val.obj" | .dobj _ => "val.deep"

/-! ### deepObject at every depth (schema kind "nest") -/

partial def parseNS (j : Json) : NS :=
  match getStr j "k" with
  | "arr" => .arr (parseNS (getD j "items" .null))
  | "obj" => .obj ((getArr j "props").map (fun kv => (chars (asStr (pair kv).1), parseNS (pair kv).2)))
      ((getArr j "required").map (fun s => chars (asStr s)))
      (if isNull j "addl" then none else some (parseNS (getD j "addl" .null)))
  | _ => .prim (parsePS j)

partial def nvJson (pj : PV → Json) : NV → Json
  | .nil => Json.null
  | .p v => pj v
  | .a xs => Json.arr (xs.map (nvJson pj)).toArray
  | .o kvs => Json.mkObj (kvs.map (fun kv => (text kv.1, nvJson pj kv.2)))

def noutJson (pj : PV → Json) (o : NOut) : Json :=
  match o.val with
  | none => Json.null
  | some kvs => Json.mkObj (kvs.map (fun kv => (text kv.1, nvJson pj kv.2)))

def noutSame (a b : NOut) : Bool :=
  (noutJson pvJson a).compress == (noutJson pvJson b).compress && a.found == b.found &&
  (errStr a.err).compress == (errStr b.err).compress

/-- index-like segments outside the model's domain: non-canonical or signed decimals (strconv.Atoi accepts them) -/
def oddIndex (s : Str) : Bool :=
  ((readNat s).isSome && (natIndex s).isNone) ||
  (match s with
   | '+' :: d => (readNat d).isSome
   | '-' :: d => (readNat d).isSome
   | _ => false)

def handleNest (j : Json) : Json :=
  let name := chars (getStr j "name")
  let sj := getD j "schema" .null
  let props := (getArr sj "props").map (fun kv => (chars (asStr (pair kv).1), parseNS (pair kv).2))
  let req := (getArr sj "required").map (fun s => chars (asStr s))
  let addl := if isNull sj "addl" then none else some (parseNS (getD sj "addl" .null))
  let p : NParam := ⟨name, getBool j "required", getBool j "allowEmpty", props, req, addl⟩
  let r := parseReq j
  let r2 : Req := { r with query := r.query.reverse }
  let dec (fl : Flavour) (rq : Req) : NOut :=
    if rq.query.isEmpty then ⟨none, false, none⟩ else queryNest fl.prim name (strictReq name rq) props req addl
  let om := dec impl r
  let om2 := dec impl r2
  let os := dec spec r
  let vm := validateNest impl enumHitImpl p r
  let vm2 := validateNest impl enumHitImpl p r2
  let vs := validateNest spec enumHitSpec p r
  let hasAlt := !noutSame om om2 || vm2 != vm
  let dp := deepProps name (strictReq name r).query
  let junk := r.query.any (fun kv => !wellFormedKey name kv.1)
  let excl :=
    (if nsEnumInt32 (.obj props req addl) then ["EnumGoType"] else [])
  let unsupported := !collisionOK dp || dp.any (fun kv => kv.1.any (fun s => s.isEmpty || oddIndex s)) ||
    (reqStrings r).any exoticNumberText
  let maxSegs := (dp.map (fun kv => kv.1.length)).foldl Nat.max 0
  let branches := if r.query.isEmpty then [] else
    ["cell.query.deepObject.x", "shape.nest", s!"nest.schemaDepth.{(NS.obj props req addl).depth}", s!"nest.keyDepth.{maxSegs}",
     s!"verdict.{verdictStr vm}", (if om.found then "found" else "notfound"),
     (match om.val with | none => "val.nilmap" | some [] => "val.emptyobj" | some _ => "val.nest")] ++
    (if hasAlt then ["deep.orderDependent"] else []) ++
    (if junk then ["deep.junkKeySkipped"] else []) ++
    (if unsupported then ["unsupported.notCompared"] else ["nest.compared", s!"nest.verdict.{verdictStr vm}"]) ++
    (if vm ≠ vs then ["model≠spec"] else [])
  jobj [
    ("model", jobj [("value", noutJson pvJson om), ("found", Json.bool om.found), ("err", errStr om.err), ("verdict", verdictStr vm)]),
    ("spec", jobj [("value", noutJson pvJsonS os), ("found", Json.bool os.found), ("err", errStr os.err), ("verdict", verdictStr vs),
                   ("enc_ok", Json.bool true), ("oracle", Json.bool false), ("decode_agrees", Json.bool true)]),
    ("model_alt", if hasAlt then jobj [("value", noutJson pvJson om2), ("found", Json.bool om2.found), ("err", errStr om2.err), ("verdict", verdictStr vm2)] else Json.null),
    ("excl", jstrs excl),
    ("unsupported", Json.bool unsupported),
    ("branches", jstrs branches)]

/-! ### content-described parameters (mode "content") -/

def scalarPV : Json → Option PV
  | .bool b => some (.bool b)
  | .num n => some (.num n.mantissa (- Int.ofNat n.exponent))
  | .str s => some (.str (chars s))
  | _ => none

/-- a JSON value as a `Val`; `none`: a shape `Val` cannot hold (nested containers, null inside a container) -/
def jsonVal : Json → Option Val
  | .null => some .nil
  | .arr xs => (xs.toList.mapM scalarPV).map Val.arr
  | .obj kvs => ((kvs.toList.mapM (fun (k, v) => (scalarPV v).map (fun pv => (chars k, pv))))).map Val.obj
  | j => (scalarPV j).map Val.prim

/-- json.Unmarshal of one text, as far as the model goes -/
def unmText (t : Str) : Option Val :=
  match Json.parse (text t) with
  | .ok j => jsonVal j
  | .error _ => none

def unsupportedJSON (t : Str) : Bool :=
  match Json.parse (text t) with
  | .ok j => (jsonVal j).isNone
  | .error _ => false

def handleContent (j : Json) : Json :=
  let loc := parseLoc (getStr j "in")
  let name := chars (getStr j "name")
  let sj := getD j "schema" .null
  let sch : Option Sch := if sj.isNull then none else some (parseSch sj)
  let p : CParam := ⟨loc, name, getBool j "required", getBool j "allowEmpty", (getArr j "media").map (fun m => chars (asStr m)), sch⟩
  let r := parseReq j
  let vm := validateContent unmText (visitSch enumHitImpl deepEqImpl) p r
  let vs := validateContent unmText (visitSch enumHitSpec enumHitSpec) p r
  let vals := (contentValues loc name r).getD []
  -- several values: every item must be a scalar for the model's `Val.arr`
  let itemNotScalar (t : Str) : Bool := match Json.parse (text t) with
    | .ok j => (scalarPV j).isNone
    | .error _ => false
  let unsupported := vals.any unsupportedJSON || (vals.length ≠ 1 && vals.any itemNotScalar)
  let outKind := match decodeContent unmText p r with
    | .absent => "absent" | .err => "error"
    | .val .nil => "null" | .val (.prim (.str _)) => "string" | .val (.prim _) => "scalar" | .val (.arr _) => "array" | .val _ => "object"
  let branches :=
    ["mode.content", s!"content.in.{getStr j "in"}", s!"content.values.{min vals.length 3}", s!"content.decoded.{outKind}",
     s!"content.verdict.{verdictStr vm}", (if sch.isNone then "content.noSchema" else "content.schema")] ++
    (if unsupported then ["unsupported.notCompared"] else []) ++
    (if vm ≠ vs then ["model≠spec"] else [])
  jobj [
    ("model", jobj [("value", Json.null), ("found", Json.bool (contentValues loc name r).isSome), ("err", Json.null), ("verdict", verdictStr vm)]),
    ("spec", jobj [("value", Json.null), ("found", Json.bool (contentValues loc name r).isSome), ("err", Json.null), ("verdict", verdictStr vs),
                   ("enc_ok", Json.bool true), ("oracle", Json.bool false), ("decode_agrees", Json.bool true)]),
    ("excl", jstrs []),
    ("unsupported", Json.bool unsupported),
    ("branches", jstrs branches)]

def handleFlat (j : Json) : Json :=
  -- the document may leave out style, explode or both ("useDefaults"): the cell is what SerializationMethod makes of it
  let omitS := getBool j "omitStyle" || getBool j "useDefaults"
  let omitE := getBool j "omitExplode" || getBool j "useDefaults"
  let cell : Cell := smOf (parseLoc (getStr j "in")) (if omitS then none else some (parseSty (getStr j "style")))
    (if omitE then none else some (getBool j "explode"))
  let name := chars (getStr j "name")
  let sch := parseSch (getD j "schema" .null)
  let p : Param := ⟨cell, name, getBool j "required", getBool j "allowEmpty", sch⟩
  let r := parseReq j
  let om := decodeStyled impl cell name p.required r sch
  let os := decodeStyled spec cell name p.required r sch
  -- mode "resp": the header is a response header, decided by validateResponseHeader
  let resp := getStr j "mode" == "resp"
  let vm := if resp then respHeaderImpl name cell.style cell.explode p.required r sch else validateParameter p r
  let vs := if resp then respHeaderSpec name cell.style cell.explode p.required r sch else validateSpec p r
  -- the other map order (see collisionOK)
  let r2 : Req := { r with query := r.query.reverse }
  let om2 := decodeStyled impl cell name p.required r2 sch
  let vm2 := if resp then vm else validateParameter p r2
  let outSame (a b : Out) : Bool := (valJson a.val).compress == (valJson b.val).compress && a.found == b.found && a.err == b.err
  let hasAlt := cell.style == .deepObject && cell.loc == .query && (!outSame om2 om || vm2 != vm)
  let texts := parseTexts j
  -- the round-trip oracle: for a leaf schema and encodable texts the specification's value is the value that was serialised
  let oracle : Option Val := match texts, sch with
    | some t, .leaf l => if encodable cell name t then expectVal l t else none
    | _, _ => none
  let encOK : Bool := match texts with
    | some t => encode cell name t == some r
    | none => true
  let specVal : Val := match oracle with | some v => v | none => os.val
  let excl :=
    (if CookieExplode p then ["CookieExplode"] else []) ++
    (if EnumGoType p then ["EnumGoType"] else []) ++
    (if UntypedSchema p then ["UntypedSchema"] else []) ++
    []
  let unsupported := (schLeaves sch).any (unsupportedLeaf cell name r) ||
    ((schLeaves sch).any leafHasNum && (reqStrings r).any exoticNumberText)
  let kinds := (schLeaves sch).map leafKind
  let branches := if earlyAbsent cell r then [] else
    [s!"cell.{getStr j "in"}.{getStr j "style"}.{if cell.explode then "x" else "n"}"] ++
    (match sch with | .leaf _ => [] | .allOf _ => ["comp.allOf"] | .anyOf _ => ["comp.anyOf"] | .oneOf _ => ["comp.oneOf"]) ++
    (kinds.eraseDups.map (fun k => s!"shape.{k}")) ++
    [s!"verdict.{verdictStr vm}"] ++
    (if om.found then ["found"] else ["notfound"]) ++
    [valBranch om.val] ++
    (if oracle.isSome then ["roundtrip"] else []) ++
    (if earlyAbsent cell r then ["early.absent"] else []) ++
    (if omitS && omitE then ["sm.bothDefaulted"] else if omitS then ["sm.styleDefaulted"] else if omitE then ["sm.explodeDefaulted"] else []) ++
    (if resp then ["mode.responseHeader"] else []) ++
    (if hasAlt then ["deep.orderDependent"] else []) ++
    (if unsupported then ["unsupported.notCompared"] else []) ++
    (if vm ≠ vs then ["model≠spec"] else [])
  jobj [
    ("model", jobj [("value", valJson om.val), ("found", Json.bool om.found), ("err", errStr om.err), ("verdict", verdictStr vm)]),
    ("spec", jobj [("value", valJsonS specVal), ("found", Json.bool os.found), ("err", errStr os.err), ("verdict", verdictStr vs),
                   ("enc_ok", Json.bool encOK), ("oracle", Json.bool oracle.isSome),
                   ("decode_agrees", Json.bool (match oracle with | none => true | some v => (valJsonS v).compress == (valJsonS os.val).compress))]),
    ("model_alt", if hasAlt then jobj [("value", valJson om2.val), ("found", Json.bool om2.found), ("err", errStr om2.err), ("verdict", verdictStr vm2)] else Json.null),
    ("excl", jstrs excl),
    ("unsupported", Json.bool unsupported),
    ("branches", jstrs branches)]

/-! ### whole requests over a route's parameter lists, sequences of calls on one document (mode "req") -/

def parseParam (j : Json) : Param :=
  let omitS := getBool j "omitStyle" || getBool j "useDefaults"
  let omitE := getBool j "omitExplode" || getBool j "useDefaults"
  let cell : Cell := smOf (parseLoc (getStr j "in")) (if omitS then none else some (parseSty (getStr j "style")))
    (if omitE then none else some (getBool j "explode"))
  ⟨cell, chars (getStr j "name"), getBool j "required", getBool j "allowEmpty", parseSch (getD j "schema" .null)⟩

def parseFullReq (j : Json) : FullReq :=
  { pathParams := (getArr j "pathParams").map (fun kv => (chars (asStr (pair kv).1), chars (asStr (pair kv).2))),
    query := (getArr j "query").map (fun kv => (chars (asStr (pair kv).1), (asArr (pair kv).2).map (fun v => chars (asStr v)))),
    headers := (getArr j "headers").map (fun kv => (chars (asStr (pair kv).1), (asArr (pair kv).2).map (fun v => chars (asStr v)))),
    cookies := (getArr j "cookies").map (fun kv => (chars (asStr (pair kv).1), chars (asStr (pair kv).2))) }

def locStr : Loc → String
  | .path => "path" | .query => "query" | .header => "header" | .cookie => "cookie"

def perrJson (e : PErr) : Json := jstrs [locStr e.1, text e.2.1, verdictStr e.2.2]

def routJson : ROut → Json
  | .ok => jobj [("k", "ok"), ("errs", Json.arr #[])]
  | .first e => jobj [("k", "first"), ("errs", Json.arr #[perrJson e])]
  | .multi es => jobj [("k", "multi"), ("errs", Json.arr (es.map perrJson).toArray)]

def idxIn (ps : List Param) (p : Param) : Int :=
  let rec go : List Param → Nat → Int
    | [], _ => -1
    | q :: qs, i => if q = p then Int.ofNat i else go qs (i + 1)
  go ps 0

def docJson (d0 d : Doc) : Json :=
  jobj [("pathItem", Json.arr ((d.pathItem.map (fun p => toJson (idxIn d0.pathItem p))).toArray)),
        ("operation", Json.arr ((d.operation.map (fun p => toJson (idxIn d0.operation p))).toArray))]

def handleReq (j : Json) : Json :=
  let d : Doc := ⟨(getArr j "pathItem").map parseParam, (getArr j "operation").map parseParam⟩
  let calls : List (CallOpts × FullReq) :=
    (getArr j "calls").map (fun c => (⟨getBool c "excludeQuery", getBool c "multi"⟩, parseFullReq (getD c "req" .null)))
  let run := runCalls d calls
  let specOuts := specCalls d calls
  let all := d.pathItem ++ d.operation
  let excl :=
    (if (effective d).any CookieExplode then ["CookieExplode"] else []) ++
    (if (effective d).any EnumGoType then ["EnumGoType"] else []) ++
    (if (effective d).any UntypedSchema then ["UntypedSchema"] else [])
  let unsupported := calls.any (fun c => all.any (fun p =>
    let r := reqFor p c.2
    (schLeaves p.schema).any (unsupportedLeaf p.cell p.name r) ||
    ((schLeaves p.schema).any leafHasNum && (reqStrings r).any exoticNumberText)))
  let overridden := d.pathItem.filter (fun p => declares d.operation p.cell.loc p.name)
  let modelErrs := (calls.map (fun c => requestErrors validateParameter d c.1 c.2))
  let specSame := (modelErrs.zip specOuts).all (fun ms => ms.1.all (fun e => ms.2.contains e) && ms.2.all (fun e => ms.1.contains e))
  let exBefore : Bool :=
    let rec go : List (CallOpts × FullReq) → Bool → Bool
      | [], _ => false
      | c :: cs, seen => (seen && !c.1.excludeQuery) || go cs (seen || c.1.excludeQuery)
    go calls false
  let branches :=
    ["mode.request", s!"req.calls.{min calls.length 4}", s!"req.pathItem.{min d.pathItem.length 4}", s!"req.operation.{min d.operation.length 4}"] ++
    (if overridden.isEmpty then [] else ["req.override", s!"req.override.{locStr (overridden.headD (parseParam .null)).cell.loc}"]) ++
    (if calls.any (fun c => c.1.excludeQuery) then ["req.excludeQuery"] else []) ++
    (if calls.any (fun c => c.1.multi) then ["req.multiError"] else []) ++
    (if exBefore then ["req.history.excludeThenDefault"] else []) ++
    ((run.2.map (fun o => match o with | .ok => "req.out.ok" | .first _ => "req.out.first" | .multi _ => "req.out.multi")).eraseDups) ++
    ((modelErrs.flatten.map (fun e => s!"req.err.{locStr e.1}.{verdictStr e.2.2}")).eraseDups) ++
    (if unsupported then ["unsupported.notCompared"] else []) ++
    (if !specSame then ["model≠spec"] else [])
  jobj [
    ("model", jobj [("calls", Json.arr (run.2.map routJson).toArray), ("doc", docJson d run.1)]),
    ("spec", jobj [("calls", Json.arr (specOuts.map (fun es => Json.arr (es.map perrJson).toArray)).toArray), ("doc", docJson d d),
                   ("enc_ok", Json.bool true), ("oracle", Json.bool false), ("decode_agrees", Json.bool true)]),
    ("excl", jstrs excl),
    ("unsupported", Json.bool unsupported),
    ("branches", jstrs branches)]

def handle (j : Json) : Json :=
  if getStr j "mode" == "req" then handleReq j
  else if getStr j "mode" == "content" then handleContent j
  else if getStr (getD j "schema" .null) "k" == "nest" then handleNest j else handleFlat j

end KinModel.Drv.C05
