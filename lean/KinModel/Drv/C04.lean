import KinModel.Drv.Util
import KinModel.DocValidate
import KinModel.DocValidateMode
open Lean
namespace KinModel.Drv.C04
open KinModel.Drv KinModel.DocValidate

/-- request: {"doc": <OpenAPI document as JSON>, "detach": ["#/components/…", …] (references the runner
un-resolves after loading), "optlist": [[<constructor name>, <argument>…], …] (the option list given to Validate,
in order), "before": [{"doc", "detach", "optlist"}, …] (Validate calls made earlier in the same process)}.
Older replay files carry "opts": {exDisabled, …, allowed:[…]} and "explicit" instead of "optlist". -/
structure Env where
  root : Json
  detach : List String
  /-- the header objects whose construction (= validation, in the code) is in progress, by reference target -/
  hdrStack : List String := []

def objKVs (j : Json) : List (String × Json) := match j with | .obj kvs => kvs.toList | _ => []
def field? (j : Json) (k : String) : Option Json :=
  match j.getObjVal? k with | .ok .null => none | .ok v => some v | .error _ => none
def isObj (j : Json) : Bool := match j with | .obj _ => true | _ => false
def unknownKeys (j : Json) (known : List String) : List String :=
  ((objKVs j).map (·.1)).filter (fun k => !known.contains k && k != "__origin__")
def strAttrs (j : Json) (ks : List String) : List (String × String) :=
  ks.filterMap (fun k => match j.getObjVal? k with | .ok (.str s) => some (k, s) | _ => none)
def boolFlags (j : Json) (ks : List String) : List String :=
  ks.filter (fun k => match j.getObjVal? k with | .ok (.bool true) => true | _ => false)
def has (j : Json) (k : String) : Bool := (field? j k).isSome
def flagIf (b : Bool) (n : String) : List String := if b then [n] else []

def valOf (j : Json) : Val :=
  match j with
  | .null => .null | .bool _ => .bool | .str _ => .str
  | .num n => if n.exponent == 0 then .int else .num
  | .obj _ =>
    let kvs := objKVs j
    if kvs.all (fun kv => match kv.2 with | .str _ => true | _ => false) then .obj (kvs.map (·.1)) else .other
  | _ => .other
def valAttrs (j : Json) (ks : List String) : List (String × Val) :=
  ks.filterMap (fun k => (field? j k).map (fun v => (k, valOf v)))

def splitRef (r : String) : List String := (r.splitOn "/")

/-- `#/a/b/c`: any pointer into the document (components, but also targets under an extension key) -/
def resolve (env : Env) (r : String) : Option Json :=
  match splitRef r with
  | "#" :: segs =>
    segs.foldl (fun cur seg => cur.bind (fun j =>
      field? j ((seg.replace "~1" "/").replace "~0" "~"))) (some env.root)
  | _ => none

def withKey (key : String) (l : List (String × String)) : List (String × String) :=
  if key = "" then l else ("key", key) :: l

def leaf (k : Kind) (j : Json) (known strs : List String) (key : String := "") (flags : List String := []) : Doc :=
  .node k { strs := withKey key (strAttrs j strs), exts := unknownKeys j known, flags := flags } []

def schemaKnown : List String := ["oneOf", "anyOf", "allOf", "not", "type", "title", "format", "description", "enum",
  "default", "example", "externalDocs", "uniqueItems", "exclusiveMinimum", "exclusiveMaximum", "nullable", "readOnly",
  "writeOnly", "allowEmptyValue", "deprecated", "xml", "minimum", "maximum", "multipleOf", "minLength", "maxLength",
  "pattern", "minItems", "maxItems", "items", "required", "properties", "minProperties", "maxProperties",
  "additionalProperties", "discriminator"]
/-- keywords that can reject a scalar value of the right type -/
def schemaConstraining : List String := ["oneOf", "anyOf", "allOf", "not", "enum", "format", "pattern", "minimum", "maximum",
  "exclusiveMinimum", "exclusiveMaximum", "multipleOf", "minLength", "maxLength"]
def paramKnown : List String := ["name", "in", "description", "style", "explode", "allowEmptyValue", "allowReserved",
  "deprecated", "required", "schema", "example", "examples", "content"]

instance : Inhabited Doc := ⟨.node .root {} []⟩

def mkExternalDocs (j : Json) : Doc := leaf .externalDocs j ["description", "url"] ["url"]

/-- a reference wrapper: `mk` builds the value from the (resolved) JSON object -/
partial def mkRef (env : Env) (wk : Kind) (mk : Json → Doc) (key : String) (j : Json) (fuel : Nat := 8) : Doc :=
  match j.getObjVal? "$ref" with
  | .ok (.str r) =>
    let sibs := ((objKVs j).map (·.1)).filter (fun k => k != "$ref" && k != "__origin__")
    let unresolved : Doc := .node wk { strs := withKey key [("ref", r)], sibs := sibs } []
    if env.detach.contains r || fuel == 0 then unresolved else
    match resolve env r with
    | none => unresolved
    | some t =>
      match (mkRef env wk mk "" t (fuel - 1)).kidsAt "value" with
      | v :: _ => .node wk { strs := withKey key [("ref", r)], sibs := sibs, flags := ["resolved"] } [("value", v)]
      | [] => unresolved
  | _ => .node wk { strs := withKey key [], flags := ["resolved"] } [("value", mk j)]

partial def mkSchema (env : Env) (j : Json) : Doc :=
  let inner := fun (pos : String) (key : String) (x : Json) => (pos, mkRef env .innerSchemaRef (mkSchema env) key x)
  let arr := fun (k : String) => (match field? j k with | some (.arr xs) => xs.toList | _ => []).map (inner k "")
  let one := fun (k : String) => (match field? j k with | some x => if isObj x then [inner k "" x] else [] | none => [])
  let props := (match field? j "properties" with | some p => (objKVs p).map (fun kv => inner "properties" kv.1 kv.2) | none => [])
  let types := match field? j "type" with
    | some (.str s) => [s] | some (.arr xs) => xs.toList.map asStr | _ => []
  let keys := (objKVs j).map (·.1)
  let simple := keys.all (fun k => !schemaConstraining.contains k)
  -- an object schema whose properties are all inline plain string schemas (fragment of `acceptsObj`)
  let propKVs := match field? j "properties" with | some p => objKVs p | none => []
  let plainStr := fun (x : Json) => isObj x && ((objKVs x).map (·.1)).all (["type", "readOnly", "writeOnly", "description"].contains ·) &&
    (match field? x "type" with | some (.str "string") => true | _ => false)
  let objSimple := types == ["object"] && keys.all (["type", "properties", "required", "description"].contains ·) &&
    propKVs.all (fun kv => plainStr kv.2)
  let flagged := fun (f : String) => (propKVs.filter (fun kv => match field? kv.2 f with | some (.bool true) => true | _ => false)).map (·.1)
  let required := match field? j "required" with | some (.arr xs) => xs.toList.map asStr | _ => []
  .node .schema
    { strs := strAttrs j ["format", "pattern"],
      lists := [("type", types)] ++ (if objSimple then [("required", required), ("props", propKVs.map (·.1)),
        ("roProps", flagged "readOnly"), ("woProps", flagged "writeOnly")] else []),
      flags := boolFlags j ["readOnly", "writeOnly", "nullable"] ++ flagIf simple "simple" ++ flagIf objSimple "objSimple",
      vals := valAttrs j ["default", "example"], exts := unknownKeys j schemaKnown }
    (arr "oneOf" ++ arr "anyOf" ++ arr "allOf" ++ one "not" ++ one "items" ++ props ++ one "additionalProperties" ++
     (match field? j "externalDocs" with | some x => [("externalDocs", mkExternalDocs x)] | none => []) ++
     (match field? j "xml" with | some x => [("xml", leaf .xml x ["name", "namespace", "prefix", "attribute", "wrapped"] [])] | none => []) ++
     (match field? j "discriminator" with | some x => [("discriminator", leaf .discriminator x ["propertyName", "mapping"] [])] | none => []))

def mkExample (j : Json) : Doc :=
  .node .example { strs := strAttrs j ["externalValue"], flags := flagIf (has j "value") "hasValue",
                   vals := valAttrs j ["value"], exts := unknownKeys j ["summary", "description", "value", "externalValue"] } []

def mapKids (j : Json) (k pos : String) (f : String → Json → Doc) : List (String × Doc) :=
  match field? j k with | some m => (objKVs m).map (fun kv => (pos, f kv.1 kv.2)) | none => []

def contentCount (j : Json) : Nat := match field? j "content" with | some c => (objKVs c).length | none => 0

mutual
partial def mkMediaType (env : Env) (key : String) (j : Json) : Doc :=
  .node .mediaType
    { strs := withKey key [], flags := flagIf (has j "schema") "hasSchema" ++ flagIf (has j "example") "hasExample" ++
        flagIf (has j "examples") "hasExamples",
      vals := valAttrs j ["example"], exts := unknownKeys j ["schema", "example", "examples", "encoding"] }
    ((match field? j "schema" with | some s => [("schema", mkRef env .schemaRef (mkSchema env) "" s)] | none => []) ++
     mapKids j "examples" "examples" (fun k x => mkRef env .exampleRef mkExample k x) ++
     mapKids j "encoding" "encoding" (fun k x =>
       let explode := match x.getObjVal? "explode" with | .ok (.bool b) => [("explode", if b then "true" else "false")] | _ => []
       .node .encoding { strs := withKey k (strAttrs x ["style"] ++ explode),
                         exts := unknownKeys x ["contentType", "headers", "style", "explode", "allowReserved"] }
         (mapKids x "headers" "headers" (fun hk h => mkHeaderRef env hk h))))
/-- a header position: like `mkRef`, but a reference to a header whose construction is in progress (the header
occurs among the encoding headers of its own content) becomes the mark `again` instead of being expanded -/
partial def mkHeaderRef (env : Env) (key : String) (j : Json) (visited : List String := []) : Doc :=
  match j.getObjVal? "$ref" with
  | .ok (.str r) =>
    let sibs := ((objKVs j).map (·.1)).filter (fun k => k != "$ref" && k != "__origin__")
    let unresolved : Doc := .node .headerRef { strs := withKey key [("ref", r)], sibs := sibs } []
    let resolvedTo := fun (v : Doc) =>
      Doc.node .headerRef { strs := withKey key [("ref", r)], sibs := sibs, flags := ["resolved"] } [("value", v)]
    if env.detach.contains r then unresolved
    else if env.hdrStack.contains r then resolvedTo (.node .header { flags := ["again"] } [])
    else if visited.contains r || visited.length > 8 || env.hdrStack.length > 12 then unresolved   -- a cycle of references only
    else match resolve env r with
      | none => unresolved
      | some t =>
        -- a target that is itself a reference is followed; only a header OBJECT is put on the stack
        let inner := match t.getObjVal? "$ref" with
          | .ok (.str _) => mkHeaderRef env "" t (r :: visited)
          | _ => mkHeaderRef { env with hdrStack := r :: env.hdrStack } "" t
        match inner.kidsAt "value" with
        | v :: _ => resolvedTo v
        | [] => unresolved
  | _ => .node .headerRef { strs := withKey key [], flags := ["resolved"] } [("value", mkParamLike env .header j)]
partial def mkContent (env : Env) (j : Json) : Doc :=
  .node .content {} ((objKVs j).map (fun kv => ("mediaTypes", mkMediaType env kv.1 kv.2)))
partial def mkParamLike (env : Env) (k : Kind) (j : Json) : Doc :=
  let explode := match j.getObjVal? "explode" with | .ok (.bool b) => [("explode", if b then "true" else "false")] | _ => []
  .node k
    { strs := strAttrs j ["name", "in", "style"] ++ explode,
      flags := boolFlags j ["required"] ++ flagIf (has j "schema") "hasSchema" ++ flagIf (has j "example") "hasExample" ++
        flagIf (has j "examples") "hasExamples",
      nums := [("content", contentCount j)], vals := valAttrs j ["example"], exts := unknownKeys j paramKnown }
    ((match field? j "schema" with | some s => [("schema", mkRef env .schemaRef (mkSchema env) "" s)] | none => []) ++
     (match field? j "content" with | some c => [("content", mkContent env c)] | none => []) ++
     mapKids j "examples" "examples" (fun k x => mkRef env .exampleRef mkExample k x))
end

def mkParameters (env : Env) (j : Json) : Doc :=
  .node .parameters {} ((asArr j).map (fun p => ("items", mkRef env .parameterRef (mkParamLike env .parameter) "" p)))

def mkLink (j : Json) : Doc :=
  leaf .link j ["operationRef", "operationId", "description", "parameters", "server", "requestBody"] ["operationRef", "operationId"]

def mkResponse (env : Env) (j : Json) : Doc :=
  .node .response
    { flags := flagIf (match j.getObjVal? "description" with | .ok (.str _) => true | _ => false) "hasDescription",
      exts := unknownKeys j ["description", "headers", "content", "links"] }
    ((match field? j "content" with | some c => [("content", mkContent env c)] | none => []) ++
     mapKids j "headers" "headers" (fun k x => mkHeaderRef env k x) ++
     mapKids j "links" "links" (fun k x => mkRef env .linkRef mkLink k x))

def mkRequestBody (env : Env) (j : Json) : Doc :=
  .node .requestBody { flags := flagIf (has j "content") "hasContent", exts := unknownKeys j ["description", "required", "content"] }
    (match field? j "content" with | some c => [("content", mkContent env c)] | none => [])

def mkResponses (env : Env) (j : Json) : Doc :=
  let rs := (objKVs j).filter (fun kv => !isExtKey kv.1)
  .node .responses { nums := [("count", rs.length)] } (rs.map (fun kv => ("responses", mkRef env .responseRef (mkResponse env) kv.1 kv.2)))

/-- all entries of an object, null ones included -/
def mapKidsN (j : Json) (k pos : String) (f : String → Json → Doc) : List (String × Doc) :=
  match j.getObjVal? k with | .ok m => (objKVs m).map (fun kv => (pos, f kv.1 kv.2)) | .error _ => []

def mkServer (j : Json) : Doc :=
  .node .server { strs := strAttrs j ["url"], exts := unknownKeys j ["url", "description", "variables"],
                  flags := flagIf j.isNull "null" }
    (mapKidsN j "variables" "variables" (fun k x =>
      leaf .serverVar x ["enum", "default", "description"] ["default"] k (flagIf x.isNull "null")))

def serversKid (j : Json) : List (String × Doc) :=
  match field? j "servers" with
  | some sv => [("servers", .node .servers {} ((asArr sv).map (fun x => ("items", mkServer x))))]
  | none => []

def opKnown : List String := ["tags", "summary", "description", "operationId", "parameters", "requestBody", "responses",
  "callbacks", "deprecated", "security", "servers", "externalDocs"]

def mkOperation (env : Env) (key : String) (j : Json) : Doc :=
  .node .operation { strs := withKey key (strAttrs j ["operationId"]), exts := unknownKeys j opKnown }
    ((match field? j "parameters" with | some p => [("parameters", mkParameters env p)] | none => []) ++
     (match field? j "requestBody" with | some b => [("requestBody", mkRef env .requestBodyRef (mkRequestBody env) "" b)] | none => []) ++
     (match field? j "responses" with | some r => [("responses", mkResponses env r)] | none => []) ++
     (match field? j "externalDocs" with | some x => [("externalDocs", mkExternalDocs x)] | none => []) ++
     serversKid j)

def methods : List String := ["connect", "delete", "get", "head", "options", "patch", "post", "put", "trace"]
def pathItemKnown : List String := ["$ref", "summary", "description", "servers", "parameters"] ++ methods

def mkPathItem (env : Env) (key : String) (j : Json) : Doc :=
  .node .pathItem { strs := withKey key [], exts := unknownKeys j pathItemKnown }
    (methods.filterMap (fun m => (field? j m).map (fun o => ("operations", mkOperation env m o))) ++
     (match field? j "parameters" with | some p => [("parameters", mkParameters env p)] | none => []) ++
     serversKid j)

def mkPaths (env : Env) (j : Json) : Doc :=
  .node .paths {} (((objKVs j).filter (fun kv => !isExtKey kv.1)).map (fun kv => ("pathItems", mkPathItem env kv.1 kv.2)))

def mkFlow (ft : String) (j : Json) : Doc :=
  .node .oauthFlow { strs := ("flowType", ft) :: strAttrs j ["authorizationUrl", "tokenUrl", "refreshUrl"],
                     flags := flagIf (has j "scopes") "hasScopes",
                     exts := unknownKeys j ["authorizationUrl", "tokenUrl", "refreshUrl", "scopes"] } []

def mkSecurityScheme (j : Json) : Doc :=
  .node .securityScheme
    { strs := strAttrs j ["type", "name", "in", "scheme", "bearerFormat", "openIdConnectUrl"],
      exts := unknownKeys j ["type", "description", "name", "in", "scheme", "bearerFormat", "flows", "openIdConnectUrl"] }
    (match field? j "flows" with
     | some f => [("flows", .node .oauthFlows { exts := unknownKeys f ["implicit", "password", "clientCredentials", "authorizationCode"] }
          (["implicit", "password", "clientCredentials", "authorizationCode"].filterMap (fun ft => (field? f ft).map (fun x => (ft, mkFlow ft x)))))]
     | none => [])

def mkComponents (env : Env) (j : Json) : Doc :=
  .node .components { exts := unknownKeys j componentPositions }
    (mapKids j "schemas" "schemas" (fun k x => mkRef env .schemaRef (mkSchema env) k x) ++
     mapKids j "parameters" "parameters" (fun k x => mkRef env .parameterRef (mkParamLike env .parameter) k x) ++
     mapKids j "requestBodies" "requestBodies" (fun k x => mkRef env .requestBodyRef (mkRequestBody env) k x) ++
     mapKids j "responses" "responses" (fun k x => mkRef env .responseRef (mkResponse env) k x) ++
     mapKids j "headers" "headers" (fun k x =>
       match x.getObjVal? "$ref" with
       | .ok (.str _) => mkHeaderRef env k x
       | _ => mkHeaderRef { env with hdrStack := ("#/components/headers/" ++ k) :: env.hdrStack } k x) ++
     mapKids j "securitySchemes" "securitySchemes" (fun k x => mkRef env .securitySchemeRef mkSecurityScheme k x) ++
     mapKids j "examples" "examples" (fun k x => mkRef env .exampleRef mkExample k x) ++
     mapKids j "links" "links" (fun k x => mkRef env .linkRef mkLink k x) ++
     mapKids j "callbacks" "callbacks" (fun k x => mkRef env .callbackRef
       (fun c => .node .callback {}          -- every key that is not an `x-` extension is a path item (an expression)
         (((objKVs c).filter (fun kv => !isExtKey kv.1 && kv.1 != "__origin__")).map (fun kv => ("pathItems", mkPathItem env kv.1 kv.2)))) k x))

def mkInfo (j : Json) : Doc :=
  .node .info { strs := strAttrs j ["title", "version"],
                exts := unknownKeys j ["title", "description", "termsOfService", "contact", "license", "version"] }
    ((match field? j "contact" with | some c => [("contact", leaf .contact c ["name", "url", "email"] [])] | none => []) ++
     (match field? j "license" with | some c => [("license", leaf .license c ["name", "url"] ["name"])] | none => []))

def mkRoot (env : Env) : Doc :=
  let j := env.root
  .node .root
    { strs := strAttrs j ["openapi"],
      exts := unknownKeys j ["openapi", "components", "info", "paths", "security", "servers", "tags", "externalDocs"] }
    ((match field? j "components" with | some c => [("components", mkComponents env c)] | none => []) ++
     (match field? j "info" with | some c => [("info", mkInfo c)] | none => []) ++
     (match field? j "paths" with | some c => [("paths", mkPaths env c)] | none => []) ++
     (match field? j "security" with | some _ => [("security", .node .securityReqs {} [])] | none => []) ++
     serversKid j ++
     (match field? j "tags" with | some s => [("tags", .node .tags {} ((asArr s).map (fun x => ("items",
        .node .tag { exts := unknownKeys x ["name", "description", "externalDocs"], flags := flagIf x.isNull "null" }
          (match field? x "externalDocs" with | some e => [("externalDocs", mkExternalDocs e)] | none => [])))))] | none => []) ++
     (match field? j "externalDocs" with | some x => [("externalDocs", mkExternalDocs x)] | none => []))

partial def allNodes (d : Doc) : List Doc := d :: d.kids.flatMap (fun kc => allNodes kc.2)

def kindName (k : Kind) : String := (toString (repr k)).replace "KinModel.DocValidate.Kind." ""

/-- the option list of a call; for replay files of earlier rounds it is rebuilt from the "opts" record the way
the runner did (a set flag gives its `Disable…`/`Enable…` constructor, "explicit" adds the opposite one for an
unset flag, a non-empty allow-list gives `AllowExtraSiblingFields`) -/
def optListOf (j : Json) : List OptCall :=
  match j.getObjVal? "optlist" with
  | .ok (.arr xs) => xs.toList.map (fun x => match asArr x with | n :: args => (asStr n, args.map asStr) | [] => ("", []))
  | _ =>
    let o := getD j "opts" (Json.mkObj [])
    let explicit := getBool j "explicit"
    let one : String → String → String → List OptCall := fun k on off =>
      if getBool o k then [(on, [])] else if explicit then [(off, [])] else []
    one "exDisabled" "DisableExamplesValidation" "EnableExamplesValidation" ++
    one "defDisabled" "DisableSchemaDefaultsValidation" "EnableSchemaDefaultsValidation" ++
    one "fmtEnabled" "EnableSchemaFormatValidation" "DisableSchemaFormatValidation" ++
    one "patDisabled" "DisableSchemaPatternValidation" "EnableSchemaPatternValidation" ++
    one "extProhibited" "ProhibitExtensionsWithRef" "AllowExtensionsWithRef" ++
    (let al := strs (getArr o "allowed"); if al.isEmpty then [] else [("AllowExtraSiblingFields", al)])

def dedup (l : List String) : List String := l.eraseDups

def handle (j : Json) : Json :=
  let env : Env := { root := getD j "doc" Json.null, detach := strs (getArr j "detach") }
  let ol := optListOf j
  let o := optsOf Gen.optionCtors ol          -- the settings the code computes from the list
  let so := specOptsOf ol                     -- the settings the property assigns to it
  let d := mkRoot env
  let nodes := allNodes d
  -- the calls made before in the process: what they leave in the pattern cache (nothing, unless the table says so)
  let before := getArr j "before"
  let cache := before.foldl (fun c b =>
    cacheAfter codeTable c (optsOf Gen.optionCtors (optListOf b))
      (mkRoot { root := getD b "doc" Json.null, detach := strs (getArr b "detach") })) []
  -- F-C04-8: with options one record serves the run; inside the class `leakClass` the reading at the parameter examples
  -- is the response reading (`seen_all_res`), outside it (options + object examples) the reading is not modelled
  let leak := !ol.isEmpty && !o.exDisabled && nodes.any hasObjVal   -- with examples validation off no example is read
  let narrow := leak && leakClass true o d
  let m := if narrow then validateRes codeTable o d else validateIn codeTable cache o d
  let s := specVerdict so d
  let o := so
  let excl :=
    (if nodes.any excl7Node then ["ExclTemplateNames"] else []) ++
    (if nodes.any (exclBelow [(.schema, "xml"), (.schema, "discriminator")] o) then ["ExclExtraFieldsUnchecked"] else []) ++
    (if nodes.any (exclInnerNode o) then ["ExclInnerRefSiblings"] else []) ++
    (if nodes.any (exclBelow [(.encoding, "headers")] o) then ["ExclEncodingHeaderErrorsDropped"] else []) ++
    (if narrow then ["ExclExampleModeLeaks"] else [])
  let viols := nodes.flatMap (fun n => (violations n).map (fun v =>
    s!"{v.rule}@{kindName n.kind}" ++ (if enabled o v then "" else ":off")))
  let branches := dedup (viols ++
    (if o.exDisabled then ["opt.exDisabled"] else []) ++ (if o.defDisabled then ["opt.defDisabled"] else []) ++
    (if o.fmtEnabled then ["opt.fmtEnabled"] else []) ++ (if o.patDisabled then ["opt.patDisabled"] else []) ++
    (if o.extProhibited then ["opt.extProhibited"] else []) ++ (if o.allowed.isEmpty then [] else ["opt.allowed"]) ++
    (if o.customRegex then ["opt.customRegex"] else []) ++
    (if ol.length ≥ 2 then [s!"optlist.len={ol.length}"] else []) ++
    (if (ol.map (·.1)).eraseDups.length < ol.length then ["optlist.repeated-constructor"] else []) ++
    (if ol.any (fun c => ol.any (fun c' => c.1 != c'.1 && (c.1.drop 6 == c'.1.drop 7 || c.1.drop 7 == c'.1.drop 6))) then ["optlist.enable-and-disable"] else []) ++
    (if before.isEmpty then [] else [s!"before.calls={before.length}"]) ++
    (if nodes.any hasObjVal then ["example.object"] else []))
  jobj [
    -- object examples are read plainly only in calls without options (`optionless_examples_read_plainly`); with options
    -- the reading depends on the request bodies / responses met before in the run: outside the modelled fragment
    ("model", jobj [("ok", Json.bool m), ("unmodelled", Json.bool (nodes.any valsUnmodelled || (leak && !narrow)))]),
    ("spec", Json.str (match s with | .accept => "accept" | .reject => "reject" | .unspecified => "unspecified")),
    ("excl", jstrs excl),
    ("branches", jstrs branches)]

end KinModel.Drv.C04
