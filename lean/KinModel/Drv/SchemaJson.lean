/- Conversion of wire JSON into the model's `J` and `S` (driver boundary; not part of the model). -/
import KinModel.Drv.Util
import KinModel.Schema.Events
import KinModel.Schema.Defaults
import KinModel.Schema.Pattern
open Lean
namespace KinModel.Drv
open KinModel.Schema

def numToRat (n : JsonNumber) : Rat := mkRat n.mantissa (10 ^ n.exponent)

partial def toJ : Json → J
  | .null => .null
  | .bool b => .bool b
  | .num n => .num (numToRat n)
  | .str s => .str s
  | .arr xs => .arr (xs.toList.map toJ)
  | .obj kvs => .obj (kvs.toList.map (fun (k, v) => (k, toJ v)))

def optNat (j : Json) (k : String) : Option Nat := (j.getObjValAs? Nat k).toOption
def optRat (j : Json) (k : String) : Option Rat :=
  match j.getObjVal? k with | .ok (.num n) => some (numToRat n) | _ => none

/-- `comps`: the case's component schemas (name ↦ JSON); `$ref: "#/components/schemas/N"` is resolved through it
(bounded depth: the generator emits acyclic documents), and the `$ref` text is remembered in `Kw.ref`. -/
partial def toSWith (comps : List (String × Json)) (fuel : Nat) (refText : String) (j : Json) : S :=
  match j.getObjVal? "$ref" with
  | .ok (.str r) =>
    let name := (r.splitOn "/").getLast!
    match fuel, comps.find? (fun kv => kv.1 == name) with
    | fuel' + 1, some kv => toSWith comps fuel' r kv.2
    | _, _ => .mk { ref := r } [] [] [] none none [] none
  | _ =>
  let types : Option (List String) :=
    match j.getObjVal? "type" with
    | .ok (.str s) => some [s]
    | .ok (.arr a) => some (a.toList.map asStr)
    | _ => none
  let addHas : Option Bool := match j.getObjVal? "additionalProperties" with | .ok (.bool b) => some b | _ => none
  let addl : Option S := match j.getObjVal? "additionalProperties" with | .ok (.obj o) => some (toSWith comps fuel "" (.obj o)) | _ => none
  let sub (k : String) : Option S := match j.getObjVal? k with | .ok (.obj o) => some (toSWith comps fuel "" (.obj o)) | _ => none
  let subs (k : String) : List S := (getArr j k).map (toSWith comps fuel "")
  let props : List (String × S) :=
    match j.getObjVal? "properties" with | .ok (.obj o) => o.toList.map (fun (k, v) => (k, toSWith comps fuel "" v)) | _ => []
  let disc := j.getObjVal? "discriminator"
  let discMapping : List (String × String) :=
    match disc with
    | .ok d => (match d.getObjVal? "mapping" with | .ok (.obj o) => o.toList.map (fun (k, v) => (k, asStr v)) | _ => [])
    | _ => []
  let kw : Kw := {
    types := types, nullable := getBool j "nullable", enum := (getArr j "enum").map toJ, format := getStr j "format",
    minimum := optRat j "minimum", maximum := optRat j "maximum",
    exclMin := getBool j "exclusiveMinimum", exclMax := getBool j "exclusiveMaximum", multipleOf := optRat j "multipleOf",
    minLength := getNat j "minLength", maxLength := optNat j "maxLength", pattern := getStr j "pattern",
    minItems := getNat j "minItems", maxItems := optNat j "maxItems", uniqueItems := getBool j "uniqueItems",
    required := strs (getArr j "required"), addHas := addHas,
    minProps := getNat j "minProperties", maxProps := optNat j "maxProperties",
    readOnly := getBool j "readOnly", writeOnly := getBool j "writeOnly", allowEmptyValue := getBool j "allowEmptyValue",
    ref := refText,
    hasDisc := (match disc with | .ok (.obj _) => true | _ => false),
    discProp := (match disc with | .ok d => getStr d "propertyName" | _ => ""),
    discMapping := discMapping,
    dflt := (match j.getObjVal? "default" with | .ok .null => none | .ok d => some (toJ d) | _ => none) }
  .mk kw (subs "allOf") (subs "anyOf") (subs "oneOf") (sub "not") (sub "items") props addl

def toS (j : Json) : S := toSWith [] 0 "" j

/-- the schema of a case: {schema, components?} -/
def caseSchema (c : Json) : S :=
  let comps := match c.getObjVal? "components" with | .ok (.obj o) => o.toList | _ => []
  toSWith comps 8 "" (getD c "schema" (Json.mkObj []))

/-- oracle tables sent by the harness: [[pattern, string, true|false|null], …] -/
def triples (j : Json) (k : String) : List (String × String × Option Bool) :=
  (getArr j k).filterMap (fun t => match t with
    | .arr a => if a.size == 3 then
        some (asStr a[0]!, asStr a[1]!, match a[2]! with | .bool b => some b | _ => none) else none
    | _ => none)

/-- the regex oracle of a table holder {regex: [[p,s,b],…]} -/
def regexOf (j : Json) : String → String → Option Bool :=
  let rx := triples j "regex"
  fun p s => match rx.find? (fun t => t.1 == p && t.2.1 == s) with | some t => t.2.2 | none => none

/-- Go's regexp on Go pattern text, as a table {gorx: [[goText, string, true|false|null], …]} -/
def goRegexOf (j : Json) : String → String → Option Bool :=
  let rx := triples j "gorx"
  fun g s => match rx.find? (fun t => t.1 == g && t.2.1 == s) with | some t => t.2.2 | none => none

def hasGorx (j : Json) : Bool := match j.getObjVal? "gorx" with | .ok (.arr _) => true | _ => false

def envOf0 (j : Json) : Env :=
  let rx := triples j "regex"
  let fm := triples j "formats"
  let ctx := getStr j "ctx"
  { regex := fun p s => match rx.find? (fun t => t.1 == p && t.2.1 == s) with | some t => t.2.2 | none => none,
    strFormat := fun f s => match fm.find? (fun t => t.1 == f && t.2.1 == s) with | some t => t.2.2 | none => none,
    asreq := ctx == "asreq", asrep := ctx == "asrep", roOff := getBool j "roOff", woOff := getBool j "woOff",
    patOff := getBool j "patOff", dfl := getBool j "dfl" }

/-- the environment of the call as the LIBRARY sees it: with a `gorx` table the default engine is Go's regexp applied to
`intoGo pattern` (the translation is part of the model); otherwise the table is keyed by the pattern itself -/
def envOf (j : Json) : Env :=
  if hasGorx j then (envOf0 j).viaGo (goRegexOf j) intoGo else envOf0 j

/-- … and as the property reads the pattern (ECMA-262) -/
def envSpecOf (j : Json) : Env :=
  if hasGorx j then (envOf0 j).viaGo (goRegexOf j) ecmaToGo else envOf0 j

end KinModel.Drv

namespace KinModel.Drv
open KinModel.Schema Lean

/-- canonical wire form of a model value: numbers as exact fractions {"$num":"n/d"} -/
partial def fromJ : J → Json
  | .null => .null
  | .bool b => .bool b
  | .num q => Json.mkObj [("$num", Json.str s!"{q.num}/{q.den}")]
  | .str s => .str s
  | .arr xs => .arr (xs.map fromJ).toArray
  | .obj kvs => Json.mkObj (kvs.map (fun (k, v) => (k, fromJ v)))

def tokStr : Tok → String | .key k => k | .idx i => toString i

def fragJson : Frag → Json
  | .lit s => Json.mkObj [("lit", Json.str s)]
  | .schemaNum q => Json.mkObj [("g", Json.str s!"{q.num}/{q.den}")]
  | .schemaNat n => Json.mkObj [("d", Json.num (JsonNumber.fromNat n))]
  | .schemaStr s => Json.mkObj [("s", Json.str s)]
  | .schemaQ s => Json.mkObj [("q", Json.str s)]
  | .schemaEnum vs => Json.mkObj [("enum", Json.arr (vs.map fromJ).toArray)]
  | .schemaTypes ts => Json.mkObj [("types", jstrs ts)]
  | .indices l => Json.mkObj [("indices", Json.arr (l.map (fun n => Json.num (JsonNumber.fromNat n))).toArray)]
  | .valueKey k => Json.mkObj [("key", Json.str k)]
  | .valueStr s => Json.mkObj [("valueStr", Json.str s)]
  | .validatorText s => Json.mkObj [("validator", Json.str s)]

def errJson (e : Err) : Json :=
  Json.mkObj ([("field", Json.str e.field), ("pointer", jstrs (e.pointer.map tokStr)),
               ("reason", Json.arr (e.reason.map fragJson).toArray)] ++
              (match e.value with | some v => [("value", fromJ v)] | none => []))

def resJson (r : Res) : Json :=
  Json.mkObj [("ok", Json.bool r.isOk), ("errs", Json.arr (r.errs.map errJson).toArray)]

end KinModel.Drv
