import KinModel.Drv.Util
import KinModel.NoPanic.Server
import KinModel.NoPanic.Router
import KinModel.NoPanic.Recursion
import KinModel.NoPanic.Traffic
open Lean
namespace KinModel.Drv.C10
open KinModel.Drv KinModel.NoPanic KinModel.NoPanic.Router

def kvs (j : Json) : List (String × Json) :=
  match j with | .obj m => m.foldl (fun acc k v => acc ++ [(k, v)]) [] | _ => []
def chars (s : String) : Str := s.toList
def str (l : Str) : String := String.ofList l

/-! ### op "server" -/
def handleServer (j : Json) : Json :=
  let pattern := chars (getStr j "pattern")
  let input := chars (getStr j "input")
  let r := Server.matchRawURL pattern input
  let model := match r with
    | .noMatch => jobj [("kind", "nomatch")]
    | .matched ps rest => jobj [("kind", "match"), ("params", jstrs (ps.map str)), ("rest", Json.str (str rest))]
    | .panic => jobj [("kind", "panic")]
    | .outOfFuel => jobj [("kind", "outOfFuel")]
  let branches :=
    (if pattern.contains '{' then ["srv.var"] else []) ++
    (if pattern.getLast? = some '/' then ["srv.trailing-slash"] else []) ++
    (match r with
     | .matched ps rest => ["srv.match"] ++ (if rest = ['/'] then ["srv.rest-root"] else []) ++ (if ps.any (·.isEmpty) then ["srv.empty-var"] else [])
     | _ => [])
  jobj [("model", model), ("spec", jobj [("panic", Json.bool false)]), ("excl", Json.arr #[]), ("branches", jstrs branches)]

/-! ### op "schema": stage-2 recursion fragment -/
instance : Inhabited Recursion.S := ⟨.leaf true⟩
instance : Inhabited Recursion.J := ⟨.num 0⟩
open Recursion in
partial def parseS (j : Json) : S :=
  match j.getObjVal? "ref" with
  | .ok (.num n) => .ref n.mantissa.toNat
  | _ =>
    match j.getObjVal? "leaf" with
    | .ok (.bool b) => .leaf b
    | _ =>
      let allOf := (getArr j "allOf").map parseS
      let anyOf := (getArr j "anyOf").map parseS
      let items := match j.getObjVal? "items" with | .ok .null => none | .ok x => some (parseS x) | _ => none
      let nt := match j.getObjVal? "not" with | .ok .null => none | .ok x => some (parseS x) | _ => none
      let props := (getArr j "props").filterMap (fun kv => match kv with
        | .arr #[.num k, x] => some (k.mantissa.toNat, parseS x) | _ => none)
      let addl := match j.getObjVal? "addl" with | .ok .null => none | .ok x => some (parseS x) | _ => none
      .node (getBool j "own") nt anyOf allOf items props addl

open Recursion in
partial def parseJ (j : Json) : J :=
  match j with
  | .arr xs => .arr (xs.toList.map parseJ)
  | .obj _ => -- {"o": [[key, value], …]} with the keys in sorted order
    .obj ((getArr j "o").filterMap (fun kv => match kv with
      | .arr #[.num k, x] => some (k.mantissa.toNat, parseJ x) | _ => none))
  | .num n => .num n.mantissa.toNat
  | _ => .num 0

def handleSchema (j : Json) : Json :=
  let defs := (getArr j "defs").map parseS
  let root := parseS (getD j "root" Json.null)
  let v := parseJ (getD j "value" Json.null)
  let r := Recursion.visit (Recursion.envOf defs) 400 root v
  let cyc := Recursion.hasUnguardedCycle defs
  -- the exclusion of the theorem (`Props.C10.ExclRec`): the rank certificate fails
  let excl := !Recursion.guardedB defs
  let ecyc := Recursion.hasEmptinessCycle defs 400
  let model := match r with | .ok true => "accept" | .ok false => "reject" | .diverge => "diverge"
  let anyRef := (Recursion.unguardedRefs root).length > 0 || defs.any (fun s => match s with | .node _ _ _ _ (some _) _ _ => true | .node _ _ _ _ _ (_ :: _) _ => true | .node _ _ _ _ _ _ (some _) => true | _ => false)
  let uses (p : Recursion.S → Bool) : Bool := (root :: defs).any p
  let branches :=
    (if uses (fun s => match s with | .node _ (some _) _ _ _ _ _ => true | _ => false) then ["rec.not"] else []) ++
    (if uses (fun s => match s with | .node _ _ (_ :: _) _ _ _ _ => true | _ => false) then ["rec.anyOf"] else []) ++
    (if uses (fun s => match s with | .node _ _ _ _ _ (_ :: _) _ => true | _ => false) then ["rec.properties"] else []) ++
    (if uses (fun s => match s with | .node _ _ _ _ _ _ (some _) => true | _ => false) then ["rec.additionalProperties"] else []) ++
    (if cyc then ["rec.unguarded-cycle"] else []) ++
    (if ecyc then ["rec.emptiness-cycle"] else []) ++
    (if r = .ok true && anyRef then ["rec.accept"] else []) ++
    (if r = .diverge then ["rec.diverge"] else []) ++
    (if anyRef then ["rec.ref-or-items"] else []) ++
    (if r = .ok false then ["rec.reject"] else [])
  -- `cyc_agree`: the depth-bounded cycle search and the rank certificate say the same about this environment
  -- (the theorem is about the certificate; a disagreement is reported as a model/implementation disagreement)
  jobj [("model", jobj [("res", model), ("cyc_agree", Json.bool (cyc == excl))]), ("spec", jobj [("panic", Json.bool false)]),
        ("excl", jstrs (if r = .diverge && excl then ["UnguardedRecursion"] else [])),
        ("branches", jstrs branches)]

/-! ### op "traffic": document features read from the document JSON itself -/

def methodKeys : List String := ["connect", "delete", "get", "head", "options", "patch", "post", "put", "trace"]

def pathsOf (doc : Json) : List PathM :=
  (kvs (getD doc "paths" Json.null)).map fun (k, item) =>
    ⟨chars k, (methodKeys.filter (fun m => match item.getObjVal? m with | .ok (.obj _) => true | _ => false)).map (fun m => chars m.toUpper)⟩

def serverURLs (j : Json) : List Str := (getArr j "servers").map (fun s => chars (getStr s "url"))

def allServerURLs (doc : Json) : List Str :=
  serverURLs doc ++ ((kvs (getD doc "paths" Json.null)).map (fun kv => serverURLs kv.2)).flatten

/-- every JSON object nested anywhere -/
partial def objects (j : Json) : List Json :=
  match j with
  | .obj _ => j :: ((kvs j).map (fun kv => objects kv.2)).flatten
  | .arr xs => (xs.toList.map objects).flatten
  | _ => []

def hasKey (j : Json) (k : String) : Bool := match j.getObjVal? k with | .ok _ => true | _ => false

/-- a parameter object described by `content` with exactly one entry, which `Content.Get("application/json")`
    finds, and which has no schema (F-C10-4) -/
def isContentParamNoSchema (o : Json) : Bool :=
  hasKey o "in" && hasKey o "name" &&
  (match kvs (getD o "content" Json.null) with
   | [(ct, mt)] => (ct == "application/json" || ct == "application/*" || ct == "*/*") && !hasKey mt "schema"
   | _ => false)

/-- unguarded reference edges of a JSON schema: `$ref` at the top or under allOf / anyOf / oneOf / not -/
partial def unguardedRefNames (s : Json) : List String :=
  (match s.getObjVal? "$ref" with
   | .ok (.str r) => if r.startsWith "#/components/schemas/" then [(r.drop 21).toString] else []
   | _ => []) ++
  (((["allOf", "anyOf", "oneOf"].map (fun k => getArr s k)).flatten).map unguardedRefNames).flatten ++
  (match s.getObjVal? "not" with | .ok x => unguardedRefNames x | _ => [])

def reaches (defs : List (String × Json)) (target : String) : Nat → String → Bool
  | 0, _ => false
  | fuel + 1, x =>
    match defs.lookup x with
    | none => false
    | some s => (unguardedRefNames s).any (fun y => y == target || reaches defs target fuel y)

/-- every component schema name referred to (at any position, guarded or not) inside `j` -/
partial def allRefNames (j : Json) : List String :=
  match j with
  | .obj _ =>
    (match j.getObjVal? "$ref" with
     | .ok (.str r) => if r.startsWith "#/components/schemas/" then [(r.drop 21).toString] else []
     | _ => []) ++ ((kvs j).map (fun kv => allRefNames kv.2)).flatten
  | .arr xs => (xs.toList.map allRefNames).flatten
  | _ => []

/-- component schemas the operations can reach: referred to under `paths`, then closed under every reference -/
def usedComponents (doc : Json) : List String :=
  let defs := kvs (getD (getD doc "components" Json.null) "schemas" Json.null)
  let step (acc : List String) : List String :=
    (acc ++ (acc.map (fun n => match defs.lookup n with | some s => allRefNames s | none => [])).flatten).eraseDups
  (List.range (defs.length + 1)).foldl (fun acc _ => step acc) (allRefNames (getD doc "paths" Json.null)).eraseDups

/-- F-C10-1 at document level: a component schema that lies on an unguarded reference cycle is reachable from some
    operation (whether a given request makes the validator visit it depends on the decoders' answers, which the
    traffic model leaves open: the prediction is "may recurse without bound") -/
def docUnguardedCycle (doc : Json) : Bool :=
  let defs := kvs (getD (getD doc "components" Json.null) "schemas" Json.null)
  (usedComponents doc).any (fun n => reaches defs n defs.length n)

/-! input class of F-C10-6 (fixed 2104468, ccc6020): can a decoder of this exchange be asked for a value that `encoding/json` refuses? -/

def lower (s : String) : String := s.map Char.toLower
def hasSub (s sub : String) : Bool := (s.splitOn sub).length > 1

/-- `strconv.ParseFloat` accepts (case-insensitively, signed) nan / inf / infinity: every such text has one of
    these substrings -/
def nanInfText (s : String) : Bool := let l := lower s; hasSub l "nan" || hasSub l "inf"

/-- a structured YAML body (`ybody`): scalar keys only; non-JSON = a mapping key that is not a string, or a
    non-finite float -/
partial def yamlNonJSON (n : Json) : Bool :=
  (match n.getObjVal? "f" with | .ok (.str f) => nanInfText f | _ => false) ||
  (getArr n "l").any yamlNonJSON ||
  (getArr n "m").any (fun kv => match kv with
    | .arr #[k, v] => !(hasKey k "s") || yamlNonJSON v
    | _ => false)

/-- F-C10-7: a mapping key that `deepcopy.Copy` cannot copy: null (`reflect.ValueOf(nil)`) or NaN (`MapIndex` misses it) -/
partial def yamlBadKey (n : Json) : Bool :=
  (getArr n "l").any yamlBadKey ||
  (getArr n "m").any (fun kv => match kv with
    | .arr #[k, v] => hasKey k "n" || (match k.getObjVal? "f" with | .ok (.str f) => lower f == "nan" | _ => false) || yamlBadKey v
    | _ => false)

def rawYamlMapping (m : Json) : Bool :=
  (hasSub (lower (getStr m "ct")) "yaml" || hasSub (lower (getStr m "body")) "yaml") && hasSub (getStr m "body") ":"

def msgUncopyable (m : Json) : Bool :=
  match m.getObjVal? "ybody" with
  | .ok y => yamlBadKey y
  | _ => rawYamlMapping m

/-- F-C10-8: the query addresses an array element by a huge index: a `[` followed (after an optional `+`) by five or
    more digits (`%5B` counts as `[`) -/
def digitsRun : List Char → Nat
  | c :: cs => if c.isDigit then digitsRun cs + 1 else 0
  | [] => 0
def hugeIndexChars : List Char → Bool
  | [] => false
  | '[' :: rest =>
    let r := match rest with | '+' :: r' => r' | _ => rest
    digitsRun r ≥ 5 || hugeIndexChars rest
  | _ :: rest => hugeIndexChars rest
def hugeIndexQuery (q : String) : Bool :=
  hugeIndexChars (((q.replace "%5B" "[").replace "%5b" "[").replace "%2B" "+").toList

def headerVals (j : Json) : List String :=
  (getArr j "headers").map (fun h => match h with | .arr #[_, v] => asStr v | _ => "")

/-- one message (request or response) as far as F-C10-6 is concerned -/
def msgUnencodable (m : Json) : Bool :=
  let texts := [getStr m "query", getStr m "path", getStr m "body"] ++ headerVals m
  texts.any nanInfText ||
  (match m.getObjVal? "ybody" with
   | .ok y => yamlNonJSON y
   | _ => -- a raw body the YAML decoder may get (directly or as a multipart part): any mapping may have a non-string key
     rawYamlMapping m)

def ownKeys : List String := ["type", "format", "enum", "uniqueItems", "exclusiveMinimum", "exclusiveMaximum", "nullable", "readOnly",
  "writeOnly", "allowEmptyValue", "minimum", "maximum", "multipleOf", "minLength", "maxLength", "pattern", "minItems", "maxItems",
  "required", "minProperties", "maxProperties"]
def hasOwn (s : Json) : Bool :=
  ownKeys.any (hasKey s) || (match s.getObjVal? "additionalProperties" with | .ok (.bool false) => true | _ => false)

def subSchemas (s : Json) : List Json :=
  (match s.getObjVal? "not" with | .ok x => [x] | _ => []) ++
  (match s.getObjVal? "additionalProperties" with | .ok (.obj m) => [Json.obj m] | _ => []) ++
  (match s.getObjVal? "items" with | .ok x => [x] | _ => []) ++
  ((kvs (getD s "properties" Json.null)).map (·.2)) ++
  ((["oneOf", "anyOf", "allOf"].map (fun k => getArr s k)).flatten)

def refName (s : Json) : Option String :=
  match s.getObjVal? "$ref" with
  | .ok (.str r) => if r.startsWith "#/components/schemas/" then some (r.drop 21).toString else none
  | _ => none

/-- references `Schema.IsEmpty` follows from `s`: through every sub-schema position of schemas without own keywords -/
partial def emptyRefNames (s : Json) : List String :=
  if hasOwn s then []
  else ((subSchemas s).map (fun t => match refName t with | some n => [n] | none => emptyRefNames t)).flatten

def reachesE (defs : List (String × Json)) (target : String) : Nat → String → Bool
  | 0, _ => false
  | fuel + 1, x =>
    match defs.lookup x with
    | none => false
    | some s => (emptyRefNames s).any (fun y => y == target || reachesE defs target fuel y)

/-- F-C10-5 (over-approximated at document level): a reference cycle made of schemas without own keywords -/
def docEmptinessCycle (doc : Json) : Bool :=
  let defs := kvs (getD (getD doc "components" Json.null) "schemas" Json.null)
  defs.any (fun kv => reachesE defs kv.1 defs.length kv.1)

def routeStr : RouteRes → String
  | .found => "found" | .pathNotFound => "nopath" | .methodNotAllowed => "nomethod"
  | .routerError => "router-err" | .panic _ => "panic"

def featureBranches (doc : Json) : List String :=
  let objs := objects doc
  let has (p : Json → Bool) (name : String) : List String := if objs.any p then [name] else []
  has (fun o => hasKey o "in" && hasKey o "content") "doc.param-by-content" ++
  has (fun o => (kvs (getD o "headers" Json.null)).any (fun kv => hasKey kv.2 "content")) "doc.header-by-content" ++
  has (fun o => (getBool o "exclusiveMinimum" && !hasKey o "minimum") || (getBool o "exclusiveMaximum" && !hasKey o "maximum")) "doc.exclusive-without-bound" ++
  has (fun o => match o.getObjVal? "multipleOf" with | .ok (.num n) => n.mantissa == 0 | _ => false) "doc.multipleOf-zero" ++
  has (fun o => hasKey o "discriminator") "doc.discriminator" ++
  has (fun o => getStr o "style" == "deepObject") "doc.deepObject" ++
  has (fun o => hasKey o "$ref") "doc.ref"

def handleTraffic (j : Json) : Json :=
  let doc := getD j "doc" Json.null
  let req := getD j "req" Json.null
  let router := getStr j "router"
  let paths := pathsOf doc
  let servers := serverURLs doc
  let method := chars (getStr req "method")
  let route := legacyFindRoute servers paths method (chars (getStr req "rawURL")) (chars (getStr req "path"))
  -- regression classes of repaired findings: reported as branches, no longer exclusions
  let literal := router == "legacy" && !templateMatches paths (keyOf method (if servers.isEmpty then chars (getStr req "path") else [])) &&
                 (paths.find? (fun p => p.tpl = chars (getStr req "path"))).any (fun p => p.methods.contains method) && servers.isEmpty
  let portBad := router == "gorilla" && (allServerURLs doc).any (fun u => gorillaPortBranch u = .routerError)
  let paramNoSchema := (objects doc).any isContentParamNoSchema
  let exRec := docUnguardedCycle doc
  let emp := docEmptinessCycle doc
  let unenc := msgUnencodable req || msgUnencodable (getD j "resp" Json.null)
  let uncopy := msgUncopyable req || msgUncopyable (getD j "resp" Json.null)
  let huge := hugeIndexQuery (getStr req "query")
  let excl := (if exRec then ["UnguardedRecursion"] else [])
  let branches :=
    featureBranches doc ++
    (if router == "legacy" then ["route.legacy." ++ routeStr route] else ["route.gorilla"]) ++
    (if servers.any (fun s => s.getLast? = some '/') then ["doc.server-trailing-slash"] else []) ++
    (if servers.any (·.contains '{') then ["doc.server-variable"] else []) ++
    (if paths.any (·.methods.isEmpty) then ["doc.path-without-operations"] else []) ++
    (if !knownMethods.contains method then ["req.unknown-method"] else []) ++
    (if hasKey req "ybody" then ["req.yaml-body"] else []) ++
    (if hasKey (getD j "resp" Json.null) "ybody" then ["resp.yaml-body"] else []) ++
    (if yamlNonJSON (getD req "ybody" Json.null) || yamlNonJSON (getD (getD j "resp" Json.null) "ybody" Json.null) then ["traffic.yaml-non-json-value"] else []) ++
    (if ([getStr req "query", getStr req "path"] ++ headerVals req ++ headerVals (getD j "resp" Json.null)).any nanInfText then ["traffic.nan-inf-text"] else []) ++
    (if hasKey req "body_b64" then ["req.binary-body"] else []) ++
    -- state kept between calls (NoPanic/PatternCache): a history of the same exchange; a pattern document validation does not compile
    (if getStr req "ct" == "application/x-c10-typed" then ["req.typed-value"] else []) ++
    (if getStr req "ct" == "application/x-c10-typed" && ((getStr req "body").splitOn "[{\"i\"").length + ((getStr req "body").splitOn "[{\"b\"").length + ((getStr req "body").splitOn "[{\"f\"").length > 3 then ["req.typed-non-string-key"] else []) ++
    (if getNat j "repeat" ≥ 2 then ["history.repeat"] else []) ++
    (if !(getArr j "before").isEmpty then ["history.other-document-first"] else []) ++
    (if getNat j "repeat" ≥ 2 && getBool j "reuse" then ["history.same-objects"] else []) ++
    (if (objects doc).any (fun o => (match o.getObjVal? "pattern" with | .ok (.str _) => true | _ => false) && getStr o "type" != "string") then ["doc.pattern-not-compiled-by-gate"] else []) ++
    (if literal then ["fixed.literal-template"] else []) ++ (if portBad then ["fixed.port-unclosed"] else []) ++
    (if paramNoSchema then ["fixed.content-param-no-schema"] else []) ++ (if emp then ["fixed.emptiness-cycle"] else []) ++
    -- input classes of the findings repaired in round 3 (F-C10-6/7/8): regression coverage, no longer exclusions
    (if unenc then ["fixed.unencodable-value"] else []) ++ (if uncopy then ["fixed.uncopyable-yaml-key"] else []) ++
    (if huge then ["fixed.huge-array-index"] else []) ++
    excl.map (fun e => "excl." ++ e)
  -- the traffic model leaves the decoders' and the validator's answers open (`Bits`): what it says about one
  -- concrete exchange is the SET of outcomes it allows — normal return always, unbounded recursion only when an
  -- unguarded cycle is reachable; nothing else
  jobj [("model", jobj [("may_crash", Json.bool exRec),
                        ("route", if router == "legacy" then Json.str (routeStr route) else Json.null)]),
        ("spec", jobj [("panic", Json.bool false)]),
        ("excl", jstrs excl), ("branches", jstrs branches)]

def handle (j : Json) : Json :=
  match getStr j "op" with
  | "server" => handleServer j
  | "schema" => handleSchema j
  | "traffic" => handleTraffic j
  | op => jobj [("error", Json.str s!"C10: unknown op {op}")]

end KinModel.Drv.C10
