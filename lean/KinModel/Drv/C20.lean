import KinModel.Drv.Util
import KinModel.LoadDoc
open Lean
namespace KinModel.Drv.C20
open KinModel.Drv KinModel.LoadSafety KinModel.LoadDoc

partial def conv : Json → JV
  | .null => .null
  | .bool b => .bool b
  | .num n =>
    -- a number beyond float64 makes `json.Unmarshal` fail; the YAML fallback of `unmarshal` then reads it as a
    -- string where a typed member is decoded (observed: `$ref: 1e400` of a wrapper becomes a reference text) and
    -- leaves it a number inside extension members (`JV.refText?`, `JV.plain`)
    if (toString n.mantissa.natAbs).length > n.exponent + 309 then .num "inf"
    else .num (if n.mantissa == 0 then "0" else "nz")
  | .str s => .str s
  | .arr a => .arr (a.toList.map conv)
  | .obj kvs => .obj (kvs.foldl (fun acc k v => acc ++ [(k, conv v)]) [])

def siteStr : Site → String
  | .assertKind => "assertKind" | .typedNil => "typedNil" | .drill => "drill"

def resStr : Res → String
  | .ok _ => "ok" | .errMust _ _ => "errMust" | .err => "err" | .panic s => "panic:" ++ siteStr s | .outOfFuel => "fuel"

def tgtTag : Tgt → String
  | .err => "tgt.err" | .wrapper _ => "tgt.wrapper" | .raw _ => "tgt.raw" | .single _ => "tgt.single"
  | .nilPtr => "tgt.nil" | .drillPanic => "tgt.panic"

def dedupStr (l : List String) : List String := l.foldl (fun acc x => if acc.contains x then acc else acc ++ [x]) []

/-- request: {doc?, files?, ext, entry, parsed?}; a case without `doc` are bytes no parser accepts -/
def handle (j : Json) : Json :=
  match j.getObjVal? "doc" with
  | .error _ =>
    jobj [("model", jobj [("load", Json.str "unparsed"), ("abnormal", jstrs [])]), ("spec", jobj [("abnormal", jstrs [])]),
          ("excl", Json.arr #[]), ("branches", jstrs [])]
  | .ok dj =>
    let root := conv dj
    let files : List (String × JV) := match j.getObjVal? "files" with
      | .ok (.obj kvs) => kvs.foldl (fun acc k v => acc ++ [(k, conv v)]) []
      | _ => []
    let entry := getStr j "entry"
    let ds : Docs := { root := root, files := files, ext := getBool j "ext", hasPath := entry == "path" || entry == "file" }
    if !root.isObj then
      -- a scalar / array / null document: decoding into `T` fails or yields the zero document
      jobj [("model", jobj [("load", Json.str "not-an-object"), ("abnormal", jstrs [])]), ("spec", jobj [("abnormal", jstrs [])]),
            ("excl", Json.arr #[]), ("branches", jstrs ["doc.nonobject"])]
    else
    let b := build codeCfg ds
    let o := outcome codeCfg ds
    let load := o.load
    let refs := b.refs
    let hit := o.hit
    let excl := o.excl
    let abnormal := o.abnormal
    let tags := b.table.map (fun r => tgtTag r.2)
    let branches := dedupStr (
      (if refs.isEmpty then [] else ["refs"]) ++ tags ++
      (if refs.any (fun r => !(b.textOf r.1).startsWith "#") then ["ref.external"] else []) ++
      ["load." ++ resStr load] ++
      (match load with
       | .ok st => (if st.inprog.isEmpty then [] else ["inprog.leak"]) ++
                   (if (refIdsOfs b.roots).any (fun id => !st.value.contains id) then ["ref.unresolved"] else []) ++
                   (if (refIdsOfs b.roots).any (fun id => !st.value.contains id && !st.pathed.contains id) then ["ref.pathless"] else [])
       | _ => []) ++
      (match hit with | some h => ["intern.hit", if isExternalRef h.text false then "intern.hit.text" else "intern.hit.parent"] | none => []) ++
      (if refs.any (fun r => refs.any (fun s => s.1 == r.1 && s.2.1 != r.2.1)) then ["text.kinds"] else []) ++
      (if refs.any (fun r => refs.any (fun s => s.1 == r.1 && (s.2.1 != r.2.1 || s.2.2 != r.2.2))) then ["text.shared"] else []) ++
      (if !files.isEmpty then ["files"] else []) ++ (if ds.ext then ["ext.on"] else []) ++
      (if entry != "data" then ["entry." ++ entry] else []) ++
      (if getStr j "enc" == "yaml" then ["yaml"] else []) ++
      (match j.getObjVal? "raw64" with | .ok _ => ["raw.parsed"] | _ => []) ++
      excl.map (fun e => "excl." ++ e))
    jobj [("model", jobj [("load", Json.str (resStr load)), ("abnormal", jstrs abnormal)]),
          ("spec", jobj [("abnormal", jstrs specAbnormal)]),
          ("excl", jstrs excl), ("branches", jstrs branches)]

end KinModel.Drv.C20
