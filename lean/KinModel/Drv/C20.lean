import KinModel.Drv.Util
open Lean
namespace KinModel.Drv.C20
open KinModel.Drv

def handle (_j : Json) : Json :=
  jobj [("model", jobj [("abnormal", jstrs [])]), ("spec", jobj [("abnormal", jstrs [])]),
        ("excl", Json.arr #[]), ("branches", jstrs [])]

end KinModel.Drv.C20
