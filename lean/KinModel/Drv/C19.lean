import KinModel.Drv.SchemaJson
import KinModel.Drv.C01
open Lean
namespace KinModel.Drv.C19
open KinModel.Drv KinModel.Schema

def fragFromValue : Frag → Bool | .valueStr _ => true | _ => false

/-- request: {schema, value, regex, formats}; reply: the model's reports with reason fragments -/
def handle (j : Json) : Json :=
  let sj := getD j "schema" (Json.mkObj [])
  let s := caseSchema j
  let v := toJ (getD j "value" Json.null)
  let env := envOf j
  let t := events env s v
  let d := report .dflt t
  let m := report .multi t
  let bad := (d.errs ++ m.errs).any (fun e => e.reason.any fragFromValue)
  let br := if m.isOk then [] else
    ((m.errs.map (fun e => "err." ++ e.field)).eraseDups ++
     (if m.errs.any (fun e => !e.rpath.isEmpty) then ["err.nested"] else []) ++
     (if m.errs.any (fun e => e.rpath.length > 1) then ["err.nested2"] else []) ++
     (if m.errs.length > 1 then ["multi.many"] else []) ++ [C01.valKind v])
  jobj [("model", jobj [("dflt", resJson d), ("multi", resJson m), ("valueFrag", Json.bool bad)]),
        ("spec", jobj [("leak", Json.bool false)]),
        ("excl", Json.arr #[]), ("branches", jstrs br)]

end KinModel.Drv.C19
