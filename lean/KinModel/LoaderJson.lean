/-
C02 — concrete layer: raw JSON files, URI/path algebra, JSON pointers, typed traversal of documents.

Two ONE-STEP interpretations of a reference text are defined here:
  * `stepGo`   — what openapi3/loader.go does: `url.Parse` (first `#` splits), `resolvePath`
                 (`path.Join ∘ path.Dir`, absolute paths and URLs taken as they are), whole-file references
                 decoded as the expected kind, typed drill-down with `unescapeRefString` (`~1` then `~0`),
                 `T.Extensions` for unknown top-level keys, the raw re-read fallback (of the REFERENCED
                 file `componentPath` since f972c33; a nil typed field on the way is a drill error since 25200f7);
  * `stepSpec` — RFC 3986 reference resolution (merge + remove_dot_segments) and an RFC 6901 pointer
                 evaluated in the RAW JSON of the target file. It never looks at typed structures.
`buildWorld` closes the set of nodes under `stepGo` and produces the abstract `Loader.World` on which
`Loader.load` (the model) runs. `specRefs` follows references in the raw files only.
-/
import Lean.Data.Json
import KinModel.Loader
open Lean
namespace KinModel.LoaderJson
open KinModel.Loader

/-! ### JSON-pointer tokens -/

/-- `strings.Replace(s, "~1", "/", -1)` on characters -/
def replTilde1 : List Char → List Char
  | '~' :: '1' :: r => '/' :: replTilde1 r
  | c :: r => c :: replTilde1 r
  | [] => []
/-- `strings.Replace(s, "~0", "~", -1)` -/
def replTilde0 : List Char → List Char
  | '~' :: '0' :: r => '~' :: replTilde0 r
  | c :: r => c :: replTilde0 r
  | [] => []
/-- `unescapeRefString`: first `~1`, then `~0` -/
def unescGo (s : List Char) : List Char := replTilde0 (replTilde1 s)
/-- RFC 6901 §4 as one left-to-right pass over the escape sequences -/
def unescRfc : List Char → List Char
  | '~' :: '1' :: r => '/' :: unescRfc r
  | '~' :: '0' :: r => '~' :: unescRfc r
  | c :: r => c :: unescRfc r
  | [] => []

def drop1 (s : String) : String := String.mk (s.toList.drop 1)

def tokensWith (un : List Char → List Char) (frag : String) : List String :=
  ((drop1 frag).splitOn "/").map (fun t => String.mk (un t.toList))

/-! ### Paths -/

/-- `path.Clean` on the segments of a path (`abs`: rooted). The stack is kept reversed. -/
def cleanStack (abs : Bool) : List String → List String → List String
  | [], st => st.reverse
  | seg :: r, st =>
    if seg = "" ∨ seg = "." then cleanStack abs r st
    else if seg = ".." then
      match st with
      | top :: st' => if top = ".." then cleanStack abs r (".." :: st) else cleanStack abs r st'
      | [] => if abs then cleanStack abs r [] else cleanStack abs r [".."]
    else cleanStack abs r (seg :: st)

/-- RFC 3986 §5.2.4 remove_dot_segments on the segments after the leading `/` of a rooted path
    (empty segments are kept; the trailing-slash cases do not occur for file references and are not modelled) -/
def rfcStack : List String → List String → List String
  | [], st => st.reverse
  | seg :: r, st =>
    if seg = "." then rfcStack r st
    else if seg = ".." then rfcStack r st.tail
    else rfcStack r (seg :: st)

def goClean (p : String) : String :=
  let abs := p.startsWith "/"
  let segs := cleanStack abs (p.splitOn "/") []
  if abs then "/" ++ "/".intercalate segs
  else if segs.isEmpty then "." else "/".intercalate segs

/-- `path.Dir` -/
def goDir (p : String) : String :=
  match (p.splitOn "/").reverse with
  | _ :: r => if r.isEmpty then "." else goClean ("/".intercalate r.reverse ++ "/")
  | [] => "."

def goJoin (a b : String) : String := if b = "" then goClean a else goClean (a ++ "/" ++ b)

/-- scheme+authority prefix and path of a location string (only `http(s)://host` prefixes are modelled) -/
def splitPre (u : String) : String × String :=
  if u.startsWith "http://" || u.startsWith "https://" then
    match u.splitOn "/" with
    | sch :: _ :: host :: rest => (sch ++ "//" ++ host, if rest.isEmpty then "" else "/" ++ "/".intercalate rest)
    | _ => ("", u)
  else ("", u)

def hasAuthority (u : String) : Bool := u.startsWith "http://" || u.startsWith "https://"

/-- `resolvePath(basePath, componentPath)` of loader.go, as location strings -/
def resolvePathGo (base : Option String) (p : String) : String :=
  if hasAuthority p then p
  else if p.startsWith "/" then p
  else match base with
    | none => p
    | some b => let (pre, bp) := splitPre b; pre ++ goJoin (goDir bp) p

/-- RFC 3986 §5.2.2 for the reference forms used here (no query) -/
def resolvePathRfc (base : Option String) (p : String) : String :=
  if hasAuthority p then
    let (pre, pp) := splitPre p
    pre ++ "/" ++ "/".intercalate (rfcStack ((drop1 pp).splitOn "/") [])
  else match base with
    | none => p
    | some b =>
      let (pre, bp) := splitPre b
      if p.startsWith "/" then pre ++ "/" ++ "/".intercalate (rfcStack ((drop1 p).splitOn "/") [])
      else
        let dir := ((drop1 bp).splitOn "/").dropLast
        pre ++ "/" ++ "/".intercalate (rfcStack (dir ++ p.splitOn "/") [])

/-- the in-memory store is keyed like a file system: the path is cleaned before the lookup -/
def storeKey (u : String) : String := let (pre, p) := splitPre u; pre ++ goClean p

abbrev Files := List (String × Json)
def fetch (fs : Files) (u : String) : Option Json := (fs.find? (·.1 = storeKey u)).map (·.2)

/-- first `#` splits path and fragment (`url.Parse`) -/
def splitHash (t : String) : String × Option String :=
  match t.splitOn "#" with
  | [] => ("", none)
  | [p] => (p, none)
  | p :: rest => (p, some ("#".intercalate rest))

/-! ### Raw JSON access -/

def sub (j : Json) (k : String) : Option Json := (j.getObjVal? k).toOption
def isObj : Json → Bool | .obj _ => true | _ => false
def kvs (j : Json) : List (String × Json) :=
  match j with
  | .obj m => m.foldl (fun acc k v => acc ++ [(k, v)]) []
  | _ => []
def refOf (j : Json) : Option String :=
  match j.getObjVal? "$ref" with
  | .ok (.str s) => if s = "" then none else some s
  | _ => none

/-- RFC 6901 evaluation in raw JSON (tokens already unescaped) -/
def rawAt : Json → List String → Option Json
  | j, [] => some j
  | .obj m, t :: r => match m.get? t with | some v => rawAt v r | none => none
  | .arr a, t :: r => match t.toNat? with
    | some n => if t.isEmpty then none else match a[n]? with | some v => rawAt v r | none => none
    | none => none
  | _, _ :: _ => none

/-! ### Typed traversal: the child positions of each kind

Two tables, each compared with a table regenerated from the source on every run (`Gen.LoaderPositions`):
  * `positions` — what each `resolve*Ref` routine, each walk helper and `ResolveRefsIn` hand to a resolver, as a
    tree of loops and calls in SOURCE ORDER (read from the bodies of the routines, field selectors translated to
    JSON names by the struct tags). The model's `children` is the interpretation of that tree on a raw JSON value.
  * `refPositions` — where a value of each kind CAN hold a reference-capable object, read from the TYPE
    declarations. The specification's `specChildren` is its interpretation: it does not depend on what the loader
    walks. `Props/C02.lean` proves that every such position is walked.
Path segments: a JSON key; `*` every member of an object; `~` every member of a maplike object (Paths, Callback,
Responses) that is not an `x-` extension; `#` every array element; `{op}` every operation of a path item. -/

structure Child where
  toks   : List String
  j      : Json
  kind   : Kind
  /-- a null entry a resolver is called on (`isEmpty()`) -/
  empty  : Bool := false

def notExt (n : String) : Bool := !(n.startsWith "x-")

def opNames : List String := ["connect", "delete", "get", "head", "options", "patch", "post", "put", "trace"]

/-- the JSON values a path leads to from `j`, with their pointer tokens -/
def walkPath : List String → Json → List String → List (List String × Json)
  | [], j, pre => [(pre, j)]
  | seg :: rest, j, pre =>
    if seg = "*" then (kvs j).flatMap (fun (n, v) => walkPath rest v (pre ++ [n]))
    else if seg = "~" then ((kvs j).filter (fun (n, _) => notExt n)).flatMap (fun (n, v) => walkPath rest v (pre ++ [n]))
    else if seg = "#" then
      match j with
      | .arr a => (a.toList.zipIdx).flatMap (fun (v, i) => walkPath rest v (pre ++ [toString i]))
      | _ => []
    else if seg = "{op}" then
      opNames.flatMap (fun o => match sub j o with
        | some v => walkPath rest v (pre ++ [o])
        | none => [])
    else match sub j seg with
      | some v => walkPath rest v (pre ++ [seg])
      | none => []

/-- what a routine calls after its `$ref` block -/
inductive Call
  | res (k : Kind)     -- loader.resolve<K>Ref(doc, <position>, documentPath …)
  | content            -- loader.resolveContentRefs(doc, <position>, documentPath)
  | examples           -- loader.resolveExampleRefs(doc, <position>, documentPath)
  deriving DecidableEq, Repr

def goName : Kind → String
  | .header => "Header" | .parameter => "Parameter" | .requestBody => "RequestBody" | .response => "Response"
  | .schema => "Schema" | .securityScheme => "SecurityScheme" | .example => "Example" | .callback => "Callback"
  | .link => "Link" | .pathItem => "PathItem"

def Call.name : Call → String
  | .res k => goName k
  | .content => "ContentRefs"
  | .examples => "ExampleRefs"

/-- the statements after the `$ref` block, as far as they concern child positions -/
inductive Pos
  | call (c : Call) (path : List String)        -- a resolver / helper called on the position at `path`
  /-- `for … range`: `path` leads to the loop elements; `skipNil`: the body begins with `if <element> == nil { continue }` -/
  | each (skipNil : Bool) (path : List String) (body : List Pos)
  | guard                                        -- a `return` of a new error

def eachCall (path : List String) (k : Kind) : Pos := .each false path [.call (.res k) []]

def schemaPos : List Pos :=
  [.call (.res .schema) ["items"], eachCall ["properties", "*"] .schema, .call (.res .schema) ["additionalProperties"],
   .call (.res .schema) ["not"], eachCall ["allOf", "#"] .schema, eachCall ["anyOf", "#"] .schema, eachCall ["oneOf", "#"] .schema]
def headerPos : List Pos := [.call .content ["content"], .call (.res .schema) ["schema"], .call .examples ["examples"]]
/-- a parameter with both `schema` and `content` is a load error (the generator never writes one) -/
def parameterPos : List Pos := .guard :: headerPos
def requestBodyPos : List Pos := [.call .content ["content"]]
def responsePos : List Pos := [eachCall ["headers", "*"] .header, .call .content ["content"], eachCall ["links", "*"] .link]
def callbackPos : List Pos := [eachCall ["~"] .pathItem]
def pathItemPos : List Pos :=
  [eachCall ["parameters", "#"] .parameter,
   .each false ["{op}"] [eachCall ["parameters", "#"] .parameter, .call (.res .requestBody) ["requestBody"],
                   eachCall ["responses", "~"] .response, eachCall ["callbacks", "*"] .callback]]
/-- `resolveContentRefs`: per media type its examples, its schema, then the headers of each of its encodings -/
def contentPos : List Pos :=
  [.each true ["*"] [.call .examples ["examples"], .call (.res .schema) ["schema"],
                     .each true ["encoding", "*"] [eachCall ["headers", "*"] .header]]]
/-- `resolveExampleRefs` -/
def examplesPos : List Pos := [eachCall ["*"] .example]
/-- `ResolveRefsIn` -/
def documentPos : List Pos :=
  [eachCall ["components", "headers", "*"] .header, eachCall ["components", "parameters", "*"] .parameter,
   eachCall ["components", "requestBodies", "*"] .requestBody, eachCall ["components", "responses", "*"] .response,
   eachCall ["components", "schemas", "*"] .schema, eachCall ["components", "securitySchemes", "*"] .securityScheme,
   eachCall ["components", "examples", "*"] .example, eachCall ["components", "callbacks", "*"] .callback,
   eachCall ["components", "links", "*"] .link, .each true ["paths", "~"] [.call (.res .pathItem) []]]

def positions : Kind → List Pos
  | .schema => schemaPos | .header => headerPos | .parameter => parameterPos | .requestBody => requestBodyPos
  | .response => responsePos | .callback => callbackPos | .pathItem => pathItemPos
  | .securityScheme => [] | .example => [] | .link => []

mutual
/-- the children a position tree yields on a JSON value (`leaf c elem v p`: what a call yields; `elem`: the call is
    on the loop element itself — a single field is tested against nil before the call, an element is not) -/
def Pos.run (leaf : Call → Bool → Json → List String → List Child) : Pos → Json → List String → List Child
  | .call c path, j, pre => (walkPath path j pre).flatMap (fun (p, v) => leaf c path.isEmpty v p)
  | .each skipNil path body, j, pre =>
    ((walkPath path j pre).filter (fun (_, v) => !(skipNil && v.isNull))).flatMap (fun (p, v) => Pos.runList leaf body v p)
  | .guard, _, _ => []
def Pos.runList (leaf : Call → Bool → Json → List String → List Child) : List Pos → Json → List String → List Child
  | [], _, _ => []
  | p :: ps, j, pre => Pos.run leaf p j pre ++ Pos.runList leaf ps j pre
end

mutual
/-- the token list of the generated table -/
def Pos.flat : Pos → List (String × String × List String)
  | .call c path => [("call", c.name, path)]
  | .each skipNil path body => ("each", if skipNil then "skipNil" else "", path) :: (Pos.flatList body ++ [("end", "", [])])
  | .guard => [("guard", "", [])]
def Pos.flatList : List Pos → List (String × String × List String)
  | [] => []
  | p :: ps => Pos.flat p ++ Pos.flatList ps
end

mutual
/-- the callees in source order (`!error` for a guard): the `calls` column of `Gen.resolverSkeleton` -/
def Pos.callees : Pos → List String
  | .call c _ => [c.name]
  | .each _ _ body => Pos.calleesList body
  | .guard => ["!error"]
def Pos.calleesList : List Pos → List String
  | [] => []
  | p :: ps => Pos.callees p ++ Pos.calleesList ps
end

mutual
/-- every full path a tree reaches with a resolver, `{op}` and the helpers expanded (`leaf`) -/
def Pos.paths (leaf : Call → List String → List (List String × String)) : Pos → List String → List (List String × String)
  | .call c path, pre => leaf c (pre ++ path)
  | .each _ path body, pre => Pos.pathsList leaf body (pre ++ path)
  | .guard, _ => []
def Pos.pathsList (leaf : Call → List String → List (List String × String)) : List Pos → List String → List (List String × String)
  | [], _ => []
  | p :: ps, pre => Pos.paths leaf p pre ++ Pos.pathsList leaf ps pre
end

/-- a resolver is handed an object, or — as a loop element — a null entry (`isEmpty()`: the sentinel `errMUST…`) -/
def leaf0 : Call → Bool → Json → List String → List Child
  | .res k, elem, v, p =>
    if isObj v then [⟨p, v, k, false⟩]
    -- a null entry: a nil wrapper (`isEmpty()`); for a path item of a callback the decoder makes an empty path item
    else if elem && v.isNull then [⟨p, v, k, k != .pathItem⟩]
    else []
  | _, _, _, _ => []
def leaf1 : Call → Bool → Json → List String → List Child
  | .examples, _, v, p => Pos.runList leaf0 examplesPos v p
  | c, e, v, p => leaf0 c e v p
def leaf2 : Call → Bool → Json → List String → List Child
  | .content, _, v, p => Pos.runList leaf1 contentPos v p
  | c, e, v, p => leaf1 c e v p

/-- children of a VALUE of kind `k`, in the order the resolver of that kind visits them -/
def children (k : Kind) (j : Json) : List Child := Pos.runList leaf2 (positions k) j []

/-- top-level positions of a document, in `ResolveRefsIn` order -/
def docChildren (j : Json) : List Child := Pos.runList leaf2 documentPos j []

def pleaf0 : Call → List String → List (List String × String)
  | .res k, p => [(p, goName k)]
  | _, _ => []
def pleaf1 : Call → List String → List (List String × String)
  | .examples, p => Pos.pathsList pleaf0 examplesPos p
  | c, p => pleaf0 c p
def pleaf2 : Call → List String → List (List String × String)
  | .content, p => Pos.pathsList pleaf1 contentPos p
  | c, p => pleaf1 c p

/-- `{op}` written out -/
def expandOps (p : List String × String) : List (String × String) :=
  if p.1.contains "{op}" then opNames.map (fun o => ("/".intercalate (p.1.map (fun s => if s = "{op}" then o else s)), p.2))
  else [("/".intercalate p.1, p.2)]

/-- every (JSON path, kind) the routine of a kind — with the helpers it calls — hands to a resolver -/
def walkedPaths (ps : List Pos) : List (String × String) := (Pos.pathsList pleaf2 ps []).flatMap expandOps

/-! #### reference-capable positions by TYPE (the specification's notion of "a reference in the document") -/

def contentRefPositions : List (List String × Kind) :=
  [(["content", "*", "encoding", "*", "headers", "*"], .header), (["content", "*", "examples", "*"], .example),
   (["content", "*", "schema"], .schema)]

def opRefPositions (o : String) : List (List String × Kind) :=
  [([o, "callbacks", "*"], .callback), ([o, "parameters", "#"], .parameter), ([o, "requestBody"], .requestBody),
   ([o, "responses", "~"], .response)]

def refPositions : Kind → List (List String × Kind)
  | .schema => [(["additionalProperties"], .schema), (["allOf", "#"], .schema), (["anyOf", "#"], .schema), (["items"], .schema),
                (["not"], .schema), (["oneOf", "#"], .schema), (["properties", "*"], .schema)]
  | .header => contentRefPositions ++ [(["examples", "*"], .example), (["schema"], .schema)]
  | .parameter => contentRefPositions ++ [(["examples", "*"], .example), (["schema"], .schema)]
  | .requestBody => contentRefPositions
  | .response => contentRefPositions ++ [(["headers", "*"], .header), (["links", "*"], .link)]
  | .callback => [(["~"], .pathItem)]
  | .pathItem =>
    -- (sorted like the generated table: "options" < "parameters" < "patch")
    (["connect", "delete", "get", "head", "options"].flatMap opRefPositions) ++ [(["parameters", "#"], .parameter)] ++
    (["patch", "post", "put", "trace"].flatMap opRefPositions)
  | .securityScheme => [] | .example => [] | .link => []

def docRefPositions : List (List String × Kind) :=
  [(["components", "callbacks", "*"], .callback), (["components", "examples", "*"], .example),
   (["components", "headers", "*"], .header), (["components", "links", "*"], .link),
   (["components", "parameters", "*"], .parameter), (["components", "requestBodies", "*"], .requestBody),
   (["components", "responses", "*"], .response), (["components", "schemas", "*"], .schema),
   (["components", "securitySchemes", "*"], .securityScheme), (["paths", "~"], .pathItem)]

def atPositions (ps : List (List String × Kind)) (j : Json) : List Child :=
  ps.flatMap (fun (path, k) => (walkPath path j []).filterMap (fun (p, v) => if isObj v then some ⟨p, v, k, false⟩ else none))

/-- the reference-capable objects directly below a value of kind `k` (by type, in no particular order) -/
def specChildren (k : Kind) (j : Json) : List Child := atPositions (refPositions k) j
def specDocChildren (j : Json) : List Child := atPositions docRefPositions j

/-! ### Concrete nodes -/

/-- `(doc, documentPath)` a resolver runs with -/
structure Cx where
  doc  : Option String
  path : Option String
  deriving BEq, Repr

structure CNode where
  cx      : Cx
  src     : String            -- store key of the file whose raw JSON holds the content ("" = root given as data)
  ptr     : List String
  kind    : Kind
  ref     : Option String
  rid     : String
  j       : Json
  kids    : List (List String × Kind)
  skipped : List (List String × Kind)   -- reference-capable by type, not walked (none at present: `walk_covers`)
  typed   : Bool              -- a position of the typed document tree of `src`
  nat     : Bool := true      -- exists in a real run (not only in the over-approximating closure over contexts)
  copy    : Bool := false     -- the local copy `resolved` that a resolver makes of a target that is itself a reference
  empty   : Bool := false     -- a null entry a resolver is called on

def CNode.same (a b : CNode) : Bool := a.cx == b.cx && a.src == b.src && a.ptr == b.ptr && a.kind == b.kind && a.copy == b.copy

/-- identification of a reference object in the observations: its `x-rid` tag; a `$ref` path item is
    overwritten by its target when it is resolved, so it is identified by its map key -/
def ridOf (k : Kind) (j : Json) (ptr : List String) : String :=
  if k == .pathItem then "pi:" ++ (ptr.getLast?.getD "")
  else match j.getObjVal? "x-rid" with
    | .ok (.str s) => s
    | _ => "?"

def enum : Nat → Cx → String → List String → Kind → Json → Bool → Bool → List CNode
  | 0, _, _, _, _, _, _, _ => []
  | f + 1, cx, src, ptr, k, j, typed, empty =>
    let r := if empty then none else refOf j
    let cs := if r.isSome || empty then [] else children k j
    let extra := if r.isSome || empty then [] else (specChildren k j).filter (fun c => !cs.any (fun d => d.toks == c.toks && d.kind == c.kind))
    { cx := cx, src := src, ptr := ptr, kind := k, ref := r, rid := ridOf k j ptr, j := j,
      kids := cs.map (fun c => (ptr ++ c.toks, c.kind)),
      skipped := extra.map (fun c => (ptr ++ c.toks, c.kind)), typed := typed, empty := empty } ::
    (cs ++ extra).flatMap (fun c => enum f cx src (ptr ++ c.toks) c.kind c.j typed c.empty)

/-- the top-level positions of a document: walked ones first, then those that are reference-capable by type only -/
def docAll (j : Json) : List Child :=
  let cs := docChildren j
  cs ++ (specDocChildren j).filter (fun c => !cs.any (fun d => d.toks == c.toks && d.kind == c.kind))

def enumDoc (cx : Cx) (src : String) (j : Json) : List CNode :=
  (docAll j).flatMap (fun c => enum 64 cx src c.toks c.kind c.j true c.empty)

/-! ### The resolver skeleton the model assumes (compared with the generated table `Gen.resolverSkeleton`) -/

/-- does `documentPath, err = loader.loadSingleElementFromURI(…)` move the document path (or is it `_, err =`):
    every routine does since 0a3c233 -/
def movesDocumentPath : Kind → Bool := fun _ => true

/-- the rest of the routine (the walk of the value's children) runs in the TARGET's context: only
    `resolvePathItemRef` assigns `doc, documentPath, err = loader.resolveComponent(…)`; the other nine declare
    locals `doc, componentPath, err :=` that end with the else-block -/
def walksInTargetContext : Kind → Bool
  | .pathItem => true
  | _ => false

/-- the statements of a routine's `$ref` block as the model reads them (tokens of the generated table):
    isEmpty test; the key of the in-progress set and of the backtrack table is THIS routine's kind plus the text
    (7245059: an entry under a key is registered by the routine of that kind only, so the ok-check in the
    callbacks is unreachable and `unvisit` has no kind test); value present → return; key in progress → callback;
    visitRef; whole-file branch (decode the element, MOVE documentPath, set the value); fragment branch (local copy,
    resolveComponent, recursive call on the copy — for path items only when the copy is a reference —, `errMUST…`
    out of it swallowed only `&& resolved.isEmpty()` (3c3716e), set the value); deferred unvisitRef LAST (error
    returns and the swallowed errMUST… of an empty target leave the key in progress) -/
def skeletonSteps (k : Kind) : List String :=
  ["empty", "key:own-kind", "value", "shouldVisit:checked", "visit", "single(", "elem",
   (if movesDocumentPath k then "load:moves" else "load:stays")] ++
  (if k = .pathItem then ["recurse:ifRef", "setValue"] else ["setValue", "setRefPath:moved"]) ++
  [")", "fragment(", "copy"] ++
  (if walksInTargetContext k then ["component:switch", "recurse:ifRef", "setValue"]
   else ["component:local", "fail", "recurse:swallowEmptyTarget", "setValue", "setRefPath:target"]) ++
  [")"] ++ (if k = .pathItem then ["keepRef"] else []) ++ ["defer:unvisit"]

def kindsByGoName : List Kind :=
  [.callback, .example, .header, .link, .parameter, .pathItem, .requestBody, .response, .schema, .securityScheme]

/-- The functions `stepGo` / `docLoadGo` / `unvisit` / `loadDoc` were written from, as they were read: the two
    shortest as text (`unescGo` = `~1` first, then `~0`; a reference without `#` is a whole file), the others as the
    digest of signature and body. A change of any of them breaks `skeleton_matches_model`: re-read it, bring the
    model in line, then update the digest. (Digests at repository commit bfa9f46; `resetVisitedPathItemRefs` empties the in-progress set, the backtrack table and the documents cache — `St.reset`.) -/
def frozen : List (String × String) :=
  [("drillIntoField", "sha256:230fefe7d39d4741"),
   ("isSingleRefElement", "{ return !strings.Contains(ref, \"#\") }"),
   ("join", "sha256:248e27cd7be2c33e"),
   ("loadFromDataWithPathInternal", "sha256:6ccad2f87e2fe281"),
   ("loadFromURIInternal", "sha256:bbc70f746eeaaa24"),
   ("loadSingleElementFromURI", "sha256:0a809f24ce12af89"),
   -- readURL (round 5): every document is fetched through the Loader's own reader when one is set — the "store" of a
   -- history (`World` per load, `loadSeqW`) is what that reader answers; only without one the package's caching reader
   -- body as read: { if f := loader.ReadFromURIFunc; f != nil { return f(loader, location) } return DefaultReadFromURI(loader, location) }
   ("readURL", "sha256:4855b2d6a5fed069"),
   -- resetVisitedPathItemRefs: visitedPathItemRefs, visitedRefs, visitedPath, backtrack are emptied, visitedDocuments = nil
   ("resetVisitedPathItemRefs", "sha256:76a92f947423e135"),
   ("resolveComponent", "sha256:14c4da81ffb14b3b"),
   ("resolvePath", "sha256:06f2e27942d0a986"),
   ("resolvePathWithRef", "sha256:f16cea032f5e4a16"),
   ("resolveRef", "sha256:271f1842a235ded5"),
   ("resolveRefAndDocument", "sha256:9e1fe64438b4de6a"),
   ("resolveRefPath", "sha256:7397a3c2dde3908c"),
   ("shouldVisitRef", "sha256:5fd3c28aeb95d700"),
   ("unescapeRefString", "{ return strings.Replace(strings.Replace(ref, \"~1\", \"/\", -1), \"~0\", \"~\", -1) }"),
   ("unvisitRef", "sha256:823d2cc9b725947c"),
   ("visitRef", "sha256:703f4f7db8bcb99a")]

/-- the exported entry points of the Loader and, in source order, what each does with the per-load state:
    `reset` = `resetVisitedPathItemRefs()` (unconditionally), `delegate:` = hands over to another entry point,
    `internal:` = the routine the document goes to. `ResolveRefsIn` (also called for every document loaded on the
    way) initialises the state only when it was never initialised. -/
def entryPoints : List (String × List String) :=
  [("LoadFromData", ["reset", "internal:ResolveRefsIn"]),
   ("LoadFromDataWithPath", ["reset", "internal:loadFromDataWithPathInternal"]),
   ("LoadFromFile", ["delegate:LoadFromURI"]),
   ("LoadFromIoReader", ["delegate:LoadFromData"]),
   ("LoadFromStdin", ["delegate:LoadFromIoReader"]),
   ("LoadFromURI", ["reset", "internal:loadFromURIInternal"]),
   ("ResolveRefsIn", ["resetIfNil"])]

/-- does the entry point `name` begin — itself or through the entry point it delegates to — with the reset, before
    any document is handed to an internal routine (`Entry.resets` of the model) -/
def entryResets (tbl : List (String × List String)) : Nat → String → Bool
  | 0, _ => false
  | f + 1, name =>
    match (tbl.find? (·.1 = name)).map (·.2) with
    | some (first :: _) =>
      first = "reset" || tbl.any (fun r => first = "delegate:" ++ r.1 && entryResets tbl f r.1)
    | _ => false

/-- the entry points through which a document is LOADED -/
def loadEntries : List String :=
  ["LoadFromData", "LoadFromDataWithPath", "LoadFromFile", "LoadFromIoReader", "LoadFromStdin", "LoadFromURI"]

def routineRow (k : Kind) : String × List String × List String :=
  (goName k, skeletonSteps k, Pos.calleesList (positions k))

/-- what the generated table `Gen.resolverSkeleton` must be (rows sorted by name): the ten routines, the two
    walk helpers, `ResolveRefsIn` ("Document"), and the one-step functions whose text the model's `stepGo` was
    written from (`frozen`) -/
def expectedSkeleton : List (String × List String × List String) :=
  [routineRow .callback, ("ContentRefs", [], Pos.calleesList contentPos), ("Document", [], Pos.calleesList documentPos),
   routineRow .example, ("ExampleRefs", [], Pos.calleesList examplesPos), routineRow .header, routineRow .link,
   routineRow .parameter, routineRow .pathItem, routineRow .requestBody, routineRow .response, routineRow .schema,
   routineRow .securityScheme] ++ entryPoints.map (fun (n, st) => ("entry:" ++ n, st, [])) ++
  frozen.map (fun (n, t) => ("fn:" ++ n, [t], []))

/-- what `Gen.loaderWalked` must be: the position trees as token lists (rows sorted by name) -/
def expectedWalked : List (String × List (String × String × List String)) :=
  [("Callback", Pos.flatList callbackPos), ("ContentRefs", Pos.flatList contentPos), ("Document", Pos.flatList documentPos),
   ("Example", []), ("ExampleRefs", Pos.flatList examplesPos), ("Header", Pos.flatList headerPos), ("Link", []),
   ("Parameter", Pos.flatList parameterPos), ("PathItem", Pos.flatList pathItemPos),
   ("RequestBody", Pos.flatList requestBodyPos), ("Response", Pos.flatList responsePos), ("Schema", Pos.flatList schemaPos),
   ("SecurityScheme", [])]

/-- what `Gen.loaderRefPositions` must be -/
def expectedRefPositions : List (String × String × String) :=
  (kindsByGoName.flatMap (fun k => (refPositions k).map (fun (p, c) => (goName k, "/".intercalate p, goName c)))) ++
  docRefPositions.map (fun (p, c) => ("Document", "/".intercalate p, goName c))

/-! ### One step of the loader -/

inductive StepR
  | fail
  | empty                                            -- fragment `#` of a document without extensions: an empty component
  /-- `cx`: the context to continue in; `home`: the context the target object is written in -/
  | node (cx : Cx) (home : Cx) (src : String) (ptr : List String) (typed : Bool) (docLoad : Option String)
  deriving Repr

def knownTop : List String := ["openapi", "components", "info", "paths", "security", "servers", "tags", "externalDocs"]

/-- the reference-capable positions of a document BY TYPE (pointer, kind), values only (a `$ref` object has no
    children of its own) -/
def specEnum : Nat → List String → Kind → Json → List (List String × Kind)
  | 0, _, _, _ => []
  | f + 1, ptr, k, j =>
    (ptr, k) :: (if (refOf j).isSome then [] else
      (specChildren k j).flatMap (fun c => specEnum f (ptr ++ c.toks) c.kind c.j))

def specEnumDoc (j : Json) : List (List String × Kind) :=
  (specDocChildren j).flatMap (fun c => specEnum 64 c.toks c.kind c.j)

/-- per document (store key; `none` = the root document given as data), computed once per case:
    `go` — the positions of the typed document tree as the loader's drill-down sees them;
    `spec` — the reference-capable positions by type -/
structure Tabs where
  go   : List (Option String × List CNode)
  spec : List (Option String × List (List String × Kind))

def mkTabs (fs : Files) (rootData : Option Json) : Tabs :=
  let docs : List (Option String × Json) :=
    (match rootData with | some j => [(none, j)] | none => []) ++ fs.map (fun (k, j) => (some k, j))
  { go := docs.map (fun (k, j) => (k, enumDoc ⟨none, none⟩ "" j)),
    spec := docs.map (fun (k, j) => (k, specEnumDoc j)) }

def Tabs.goOf (t : Tabs) (u : Option String) : List CNode := ((t.go.find? (·.1 == u)).map (·.2)).getD []

/-- kind of the typed position `ptr` of document `u` by type (`none`: not a reference-capable position) -/
def Tabs.specKind (t : Tabs) (u : Option String) (ptr : List String) : Option Kind :=
  ((t.spec.find? (·.1 == u)).bind (fun e => e.2.find? (·.1 == ptr))).map (·.2)

def stepGo (fs : Files) (rootData : Option Json) (tabs : Tabs) (cx : Cx) (text : String) (k : Kind) : StepR :=
  let docJson (u : Option String) : Option Json := match u with | some u => fetch fs u | none => rootData
  let (p, frag) := splitHash text
  match frag with
  | none =>
    -- loadSingleElementFromURI
    let u := resolvePathGo cx.path p
    match fetch fs u with
    | none => .fail
    | some j =>
      if !isObj j then .fail
      else
        .node ⟨cx.doc, if movesDocumentPath k then some u else cx.path⟩ ⟨cx.doc, some u⟩ (storeKey u) [] false none
  | some fr =>
    let internal := p = ""
    let cdoc : Option String := if internal then cx.doc else some (resolvePathGo cx.path p)
    let cpath : Option String := if internal then cx.path else some (resolvePathGo cx.path p)
    match docJson cdoc with
    | none => .fail
    | some dj =>
      if !isObj dj then .fail else
      let load := if internal then none else cdoc
      if fr = "" && (kvs dj).all (fun (k, _) => knownTop.contains k) then .empty else
      let fr := if fr = "" then "/" else fr
      if !fr.startsWith "/" then .fail else
      let toks := tokensWith unescGo fr
      let dsrc := match cdoc with | some u => storeKey u | none => ""
      -- `Header` embeds `Parameter` without a yaml tag: drillIntoField finds no field of a header, so every
      -- pointer that passes through a header object is a drill error (→ raw re-read)
      let tab := tabs.goOf (cdoc.map storeKey)
      let typedNode (_ : Json) (p : List String) : Option CNode := tab.find? (·.ptr == p)
      let throughHeader := (List.range toks.length).any (fun i => (typedNode dj (toks.take i)).any (fun n => n.kind == .header && n.ref.isNone) && i > 0)
      match (if throughHeader then none else typedNode dj toks) with
      | some tn => if tn.kind = k then .node ⟨cdoc, cpath⟩ ⟨cdoc, cdoc⟩ dsrc toks true load else .fail
      | none =>
        let first := toks.headD ""
        if !(knownTop.contains first) && first ≠ "" && (rawAt dj toks).isSome then
          -- T.Extensions: unknown top-level keys are kept raw; decoded as the expected kind
          match rawAt dj toks with
          | some v => if isObj v then .node ⟨cdoc, cpath⟩ ⟨cdoc, cpath⟩ dsrc toks false load else .fail
          | none => .fail
        else if (rawAt dj toks).isSome && !throughHeader then .fail       -- drill succeeds, type differs: "bad data"
        else
          -- drill error (absent key, nil typed field, anything below a header) → the raw re-read of
          -- `componentPath`, the REFERENCED file (for a `#/…` reference: the referring `documentPath`)
          match cpath with
          | none => .fail
          | some rp =>
            match fetch fs rp with
            | none => .fail
            | some rj =>
              match rawAt rj toks with
              | some v => if isObj v then .node ⟨cdoc, cpath⟩ ⟨cdoc, cpath⟩ (storeKey rp) toks false load else .fail
              | none => .fail

/-- the document `resolveRefAndDocument` loads (and walks, when new) for a reference: external references
    with a fragment, whatever the fragment turns out to name -/
def docLoadGo (fs : Files) (cx : Cx) (text : String) : Option String :=
  let (p, frag) := splitHash text
  if frag.isNone || p = "" then none
  else
    let u := resolvePathGo cx.path p
    match fetch fs u with
    | some j => if isObj j then some u else none
    | none => none

/-! ### Specification side: raw files only -/

/-- one step per RFC 3986 + RFC 6901: the file (store key) and pointer a reference text written in `loc` names -/
def stepSpec (fs : Files) (rootData : Option Json) (loc : Option String) (text : String) : Option (Option String × List String × Json) :=
  let (p, frag) := splitHash text
  let target : Option String := if p = "" then loc else some (resolvePathRfc loc p)
  let dj := match target with | some u => fetch fs u | none => rootData
  match dj with
  | none => none
  | some dj =>
    match frag with
    | none => some (target.map storeKey, [], dj)
    | some fr =>
      if fr = "" then (if p = "" then none else some (target.map storeKey, [], dj))   -- `#` alone: the document itself is no component
      else if !fr.startsWith "/" then none
      else
        let toks := tokensWith unescRfc fr
        (rawAt dj toks).map (fun v => (target.map storeKey, toks, v))

/-- the object a reference designates: follow the chain in the raw files; every hop must be an object and,
    where it sits at a typed position of its document, of the expected kind -/
def specDesignates (fs : Files) (rootData : Option Json) (tabs : Tabs) : Nat → Option String → String → Kind → Option (Option String × Json)
  | 0, _, _, _ => none
  | f + 1, loc, text, k =>
    match stepSpec fs rootData loc text with
    | none => none
    | some (file, toks, v) =>
      if !isObj v then none
      else
        -- inside the typed part of a document (known top-level fields) the position must be one of kind k;
        -- whole files and positions under unknown top-level keys carry no kind of their own
        let kindOK := match toks with
          | [] => true
          | first :: _ =>
            if knownTop.contains first then tabs.specKind file toks == some k else true
        if !kindOK then none
        else match refOf v with
          | some t' => specDesignates fs rootData tabs f file t' k
          | none => some (file, v)

/-- the file an external fragment reference names (RFC resolution), when it exists: the loader loads
    documents whole, so every reference written in such a file takes part in the load -/
def specDocOf (fs : Files) (loc : Option String) (text : String) : Option String :=
  let (p, frag) := splitHash text
  if p = "" || frag.isNone then none
  else
    let u := resolvePathRfc loc p
    match fetch fs u with
    | some j => if isObj j then some (storeKey u) else none
    | none => none

/-- all references that take part in the load: those reachable from the root document through designated
    objects, and those written in documents named by external fragment references: (rid, designated value) -/
def specWalk (fs : Files) (rootData : Option Json) (tabs : Tabs) : Nat → List (Option String × Kind × Json × String) → List String → List (String × Option Json) → List (String × Option Json)
  | 0, _, _, acc => acc
  | _, [], _, acc => acc
  | f + 1, (loc, k, j, name) :: rest, docs, acc =>
    match refOf j with
    | some t =>
      let rid := ridOf k j [name]
      if acc.any (·.1 = rid) then specWalk fs rootData tabs f rest docs acc
      else
        let item (l : Option String) (c : Child) : Option String × Kind × Json × String := (l, c.kind, c.j, c.toks.getLast?.getD "")
        let (docs, extra) : List String × List (Option String × Kind × Json × String) := match specDocOf fs loc t with
          | some d => if docs.contains d then (docs, []) else
              (docs ++ [d], match fetch fs d with
                | some dj => (specDocChildren dj).map (item (some d))
                | none => [])
          | none => (docs, [])
        match specDesignates fs rootData tabs 64 loc t k with
        | none => specWalk fs rootData tabs f (rest ++ extra) docs (acc ++ [(rid, none)])
        | some (file, v) =>
          specWalk fs rootData tabs f (rest ++ extra ++ (specChildren k v).map (item file)) docs (acc ++ [(rid, some v)])
    | none => specWalk fs rootData tabs f (rest ++ (specChildren k j).map (fun c => (loc, c.kind, c.j, c.toks.getLast?.getD ""))) docs acc

end KinModel.LoaderJson
