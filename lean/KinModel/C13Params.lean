/-
C13, part 3 — parameter default population (openapi3filter/validate_request.go ValidateParameter: the block
"Set default value if needed", populateDefaultQueryParameters, Header.Add, AddCookie) together with as much of
decodeStyledParameter / decodeValue (req_resp_decoder.go) as is needed to say what a SECOND validation sees.

The request's parameters are a store: (location, name) ↦ the list of raw values, in order of appearance
(query: `url.Values[name]`; header: `Header[CanonicalHeaderKey(name)]`; cookie: the cookies of that name; path:
`PathParams[name]`).  A raw value is kept by SHAPE, not as text (`Wire`): the empty string, `fmt.Sprint` of a scalar,
scalars joined by ",", or `fmt.Sprint` of a slice ("[1 2]" — no longer written by the repaired code, still a possible
incoming value).  Text ↔ number conversion (strconv) is trusted.

Branch by branch:
  * decode: query/header/path take the FIRST raw value of the key (`values[0]`, `raw[0]`), cookies the first cookie of
    that name; an empty raw value decodes to nil (found, except for a path parameter: not found); a schema without `type` never yields a value (only `found`);
    arrays: query with explode → one item per raw value, otherwise the first raw value split at ","; header: split at
    ","; cookie: split at ",", and explode=true is "invalid serialization method"; an item that decodes to nil makes
    the whole array nil; an array without items is nil;
  * decode error → RequestError before any default is looked at;
  * defaults (the repaired code: commits "a parameter default was appended although the parameter was present",
    "array defaults of header and cookie parameters were written as Go slices", "validating the same input twice
    appended query defaults again"): only when SkipSettingDefaults is off, the decoded value is nil, the parameter was
    NOT FOUND and the schema has a default: path — nothing is written; query — scalar: `q.Add(name, Sprint v)`; array:
    one Add per item with explode, else one Add of the items joined by ","; then `RawQuery = q.Encode()` and the
    query cache `input.QueryParams = q`; header — `Header.Add(name, defaultValueText v)`; cookie —
    `AddCookie(name, defaultValueText v)` where defaultValueText joins an array by "," and Sprints a scalar;
  * a parameter described by `content` (application/json, scalar schema): not found → no schema comes back, hence no
    default; found → the single raw value is JSON-decoded (or taken as a string) and validated;
  * then: required and not found → error; value still nil → error iff found and not allowEmptyValue; otherwise the
    value (decoded, or the default itself) is validated against the schema.
Not modelled: content parameters, object-valued parameters, allOf/anyOf/oneOf parameter schemas, styles other than
the default of each location.
-/
namespace KinModel.C13.Params

inductive Loc | query | header | cookie | path
  deriving DecidableEq, Repr

inductive Scalar | int (n : Int) | str (s : String) | bool (b : Bool)
  deriving DecidableEq, Repr

/-- a default value: a scalar or an array of scalars -/
inductive PVal | sc (a : Scalar) | list (as : List Scalar)
  deriving DecidableEq, Repr

/-- a raw value, by shape -/
inductive Wire
  | empty                        -- ""
  | lit (a : Scalar)             -- fmt.Sprint(a)
  | csv (as : List Scalar)       -- items joined by ","   (two items or more; see `mkCsv`)
  | sprint (as : List Scalar)    -- fmt.Sprint([]any{…}) = "[a b]"
  deriving DecidableEq, Repr

inductive STy | integer | string | boolean
  deriving DecidableEq, Repr

inductive PTy | untyped | sc (t : STy) | array (t : STy)
  deriving DecidableEq, Repr

structure Param where
  name : String
  loc : Loc
  ty : PTy
  dflt : Option PVal
  required : Bool
  allowEmpty : Bool
  explode : Bool            -- the effective explode of parameter.SerializationMethod()
  content : Bool := false   -- described by `content: {application/json: {schema}}` instead of `schema`
  deriving DecidableEq, Repr

abbrev Key := Loc × String
abbrev Store := List (Key × List Wire)

def Param.key (p : Param) : Key := (p.loc, p.name)

def Store.get (st : Store) (k : Key) : Option (List Wire) :=
  match st with
  | [] => none
  | (k', ws) :: r => if k = k' then some ws else Store.get r k

/-- `Add`: append raw values to the key (creating it) -/
def Store.add (st : Store) (k : Key) (ws : List Wire) : Store :=
  match st with
  | [] => [(k, ws)]
  | (k', ws') :: r => if k = k' then (k', ws' ++ ws) :: r else (k', ws') :: Store.add r k ws

/-- strings.Join(items, ",") by shape -/
def mkCsv : List Scalar → Wire
  | [] => .empty
  | [a] => .lit a
  | as => .csv as

/-- strings.Split(raw, ",") by shape -/
def splitComma : Wire → List Wire
  | .empty => [.empty]
  | .lit a => [.lit a]
  | .csv as => as.map .lit
  | .sprint as => [.sprint as]

inductive Parsed | err | nil | val (a : Scalar)
  deriving DecidableEq, Repr

/-- parsePrimitive on one raw value -/
def parseScalar (t : STy) : Wire → Parsed
  | .empty => .nil
  | .lit a =>
    match t, a with
    | .integer, .int n => .val (.int n)
    | .integer, _ => .err
    | .boolean, .bool b => .val (.bool b)
    | .boolean, .int n => if n = 0 then .val (.bool false) else if n = 1 then .val (.bool true) else .err
    | .boolean, _ => .err
    | .string, a => .val a
  | .csv _ => match t with | .string => .val (.str "csv") | _ => .err
  | .sprint _ => match t with | .string => .val (.str "sprint") | _ => .err

inductive Decoded
  | err                          -- RequestError with a ParseError / invalid serialization method
  | nil (found : Bool)           -- no value
  | val                          -- a value of the parameter's type
  deriving DecidableEq, Repr

/-- parseArray: first error wins unless a nil item comes first; a nil item makes the array nil -/
def parseItems (t : STy) : List Wire → Parsed
  | [] => .val (.str "")         -- all items fine
  | w :: ws =>
    match parseScalar t w with
    | .err => .err
    | .nil => .nil
    | .val _ => parseItems t ws

def decodeArray (t : STy) (pieces : List Wire) : Decoded :=
  match pieces with
  | [] => .nil true
  | _ => match parseItems t pieces with
    | .err => .err
    | .nil => .nil true
    | .val _ => .val

/-- decodeStyledParameter for the parameter, given the raw values of its key -/
def decode (p : Param) (raw : Option (List Wire)) : Decoded :=
  match p.ty with
  | .untyped => .nil raw.isSome
  | .sc t =>
    match raw with
    | none => .nil false
    | some [] => .nil true
    | some (w :: _) =>
      match parseScalar t w with
      | .err => .err
      | .nil => .nil (p.loc != .path)      -- an empty path segment counts as "not found"
      | .val _ => .val
  | .array t =>
    if p.loc = .cookie && p.explode then .err
    else match raw with
    | none => .nil false
    | some [] => .nil true
    | some (w :: ws) =>
      if p.loc = .query && p.explode then decodeArray t (w :: ws)
      else decodeArray t (splitComma w)

/-- the raw values written for a default; nothing for an array without members (repaired code, commit 9af6bbd) -/
def encodeDefault (p : Param) (d : PVal) : List Wire :=
  match p.loc, d with
  | .path, _ => []
  | _, .list [] => []
  | .query, .sc a => [.lit a]
  | .query, .list as => if p.explode then as.map .lit else [mkCsv as]
  | _, .sc a => [.lit a]
  | _, .list as => [mkCsv as]

/-- writing a default into the request (`q.Add` creates the key even … only when something is added) -/
def writeDefault (p : Param) (d : PVal) (st : Store) : Store :=
  match encodeDefault p d with
  | [] => st
  | ws => st.add p.key ws

def scalarHasType : STy → Scalar → Bool
  | .integer, .int _ => true
  | .string, .str _ => true
  | .boolean, .bool _ => true
  | _, _ => false

/-- schema.VisitJSON(default) for the type-only parameter schemas of the fragment -/
def dfltValid (ty : PTy) (d : PVal) : Bool :=
  match ty, d with
  | .untyped, _ => true
  | .sc t, .sc a => scalarHasType t a
  | .array t, .list as => as.all (scalarHasType t)
  | _, _ => false

/-- decodeContentParameter + defaultContentParameterDecoder + validation, for a scalar JSON content parameter that is
    present with raw values `ws`: one value; valid JSON is taken as such, anything else as the string itself -/
def contentValid (ty : PTy) : List Wire → Bool
  | [w] =>
    match ty, w with
    | .untyped, _ => true
    | .sc .integer, .lit (.int _) => true
    | .sc .boolean, .lit (.bool _) => true
    | .sc .string, .lit (.str _) => true
    | .sc .string, .empty => true
    | .sc .string, .csv _ => true                     -- "a,b" and "1,2" are not JSON: the string itself
    | .sc .string, .sprint as => as.length ≥ 2        -- "[1 2]" is not JSON; "[]" and "[1]" are (arrays)
    | _, _ => false
  | _ => false

/-- ValidateParameter once the raw values `raw` of the parameter's key have been looked up: store afterwards and verdict -/
def stepWith (skip : Bool) (p : Param) (raw : Option (List Wire)) (st : Store) : Store × Bool :=
  if p.content then
    -- a content parameter that is not found comes back WITHOUT its schema: no default is ever looked at
    (match raw with
     | none => (st, !p.required)   -- absent: fine unless required (repaired code c3da93a: an absent cookie is no error)
     | some ws => (st, contentValid p.ty (if p.loc = .cookie then ws.take 1 else ws)))   -- Request.Cookie: the first one
  else
  match decode p raw with
  | .err => (st, false)
  | .val => (st, true)
  | .nil found =>
    match (if skip || found then none else p.dflt) with
    | some d =>
      (writeDefault p d st, !(p.required && !found) && dfltValid p.ty d)
    | none =>
      (st, !(p.required && !found) && !(found && !p.allowEmpty))

/-- ValidateParameter on a request whose parameters are `st` -/
def paramStep (skip : Bool) (p : Param) (st : Store) : Store × Bool := stepWith skip p (st.get p.key) st

/-- the parameter loops of ValidateRequest (fail-first stops at the first failing parameter) -/
def paramsPhase (skip multi : Bool) : List Param → Store → Store × Bool
  | [], st => (st, true)
  | p :: ps, st =>
    let (st1, ok) := paramStep skip p st
    if !ok && !multi then (st1, false)
    else
      let (st2, ok2) := paramsPhase skip multi ps st1
      (st2, ok && ok2)

/-- the "Set default value" block runs with a non-nil default -/
def defaultBranch (skip : Bool) (p : Param) (raw : Option (List Wire)) : Bool :=
  !p.content &&
  (match decode p raw with
   | .nil false => !skip && p.dflt.isSome
   | _ => false)

/-- The code as it is: QUERY parameters are decoded from `RequestValidationInput.QueryParams`, a cache that
    `GetQueryParams` fills from the URL at its first use; defaults are written into the URL, and (repaired code) the
    cache is replaced by the rewritten query at the same time.  `view` is that cache.
    Result: cache afterwards, request afterwards, verdict. -/
def paramStepCached (skip : Bool) (view : Store) (p : Param) (st : Store) : Store × Store × Bool :=
  ((if p.loc = .query && defaultBranch skip p ((if p.loc = .query then view else st).get p.key)
      then (stepWith skip p ((if p.loc = .query then view else st).get p.key) st).1 else view),
   (stepWith skip p ((if p.loc = .query then view else st).get p.key) st).1,
   (stepWith skip p ((if p.loc = .query then view else st).get p.key) st).2)

def paramsPhaseCached (skip multi : Bool) : Store → List Param → Store → Store × Store × Bool
  | view, [], st => (view, st, true)
  | view, p :: ps, st =>
    if !(paramStepCached skip view p st).2.2 && !multi
    then ((paramStepCached skip view p st).1, (paramStepCached skip view p st).2.1, false)
    else
      ((paramsPhaseCached skip multi (paramStepCached skip view p st).1 ps (paramStepCached skip view p st).2.1).1,
       (paramsPhaseCached skip multi (paramStepCached skip view p st).1 ps (paramStepCached skip view p st).2.1).2.1,
       (paramStepCached skip view p st).2.2 &&
         (paramsPhaseCached skip multi (paramStepCached skip view p st).1 ps (paramStepCached skip view p st).2.1).2.2)

/-- the cache agrees with the URL on every query parameter -/
def InSync (view st : Store) : Prop := ∀ n : String, view.get (Loc.query, n) = st.get (Loc.query, n)

/-! ### the remaining exclusion class and the spec -/

/-- F-C13-7 (what is left after 9af6bbd): the default that is written reads back as "no value" on the next validation
    — a schema without `type` never decodes to a value — and a parameter that is found without a value is rejected
    ("empty value is not allowed") unless allowEmptyValue is set.  The forwarded request is then stable but does
    not validate again. -/
def DefaultReadsAsEmpty (skip : Bool) (p : Param) (st : Store) : Bool :=
  !p.content && !skip && !p.allowEmpty && decode p (st.get p.key) == .nil false &&
  (match p.dflt with
   | some d => encodeDefault p d != [] && p.ty == .untyped
   | none => false)

/-- "Set default value": `value = schema.Default`, but the first allOf member that has a default wins -/
def effDefault (own : Option PVal) : List (Option PVal) → Option PVal
  | [] => own
  | some d :: _ => some d
  | none :: r => effDefault own r

/-- a path-item parameter is overridden by an operation parameter with the same location and name -/
def overridden (opParams : List Param) (p : Param) : Bool := opParams.any (fun q => q.key == p.key)

/-- ExcludeRequestQueryParams skips query parameters -/
def excluded (exq : Bool) (p : Param) : Bool := exq && p.loc == .query

/-- the parameters ValidateRequest hands to ValidateParameter, in the order of the calls: the path item's (not
    excluded, not overridden), then the operation's (not excluded) -/
def visited (exq : Bool) (pathParams opParams : List Param) : List Param :=
  pathParams.filter (fun p => !excluded exq p && !overridden opParams p) ++
  opParams.filter (fun p => !excluded exq p)

/-- Spec: the effective parameters of the operation — the operation's own, plus those of the path item that the
    operation does not redeclare; query parameters only if they are not excluded (a set; the order is immaterial) -/
def Effective (exq : Bool) (pathParams opParams : List Param) (p : Param) : Prop :=
  (p ∈ opParams ∨ (p ∈ pathParams ∧ ∀ q ∈ opParams, q.key ≠ p.key)) ∧ ¬ (exq = true ∧ p.loc = .query)

/-- F-C13-9: a parameter described by `content` that is absent: decodeContentParameter returns no schema for a
    parameter it did not find, so its default is never written -/
def ContentParamDefault (skip : Bool) (p : Param) (st : Store) : Bool :=
  p.content && !skip && p.dflt.isSome && p.loc != .path && (st.get p.key).isNone

/-- the parameters of one operation have pairwise distinct (location, name) -/
def keysDistinct : List Param → Bool
  | [] => true
  | p :: ps => ps.all (fun q => q.key != p.key) && keysDistinct ps

/-- Spec, from the property text: a parameter that is ABSENT and has a default appears with that default, in the
    serialisation its own decoder reads; nothing else changes.  An array without members has no serialisation: the
    form and simple expansions (RFC 6570 §2.3, §3.2.1: "a variable defined as a list value is considered undefined if
    the list contains zero members") write nothing for it — whatever `explode` says. -/
def specEncode (p : Param) (d : PVal) : List Wire :=
  match p.loc, d with
  | .path, _ => []
  | _, .list [] => []
  | _, .sc a => [.lit a]
  | .query, .list as => if p.explode then as.map .lit else [mkCsv as]
  | _, .list as => [mkCsv as]

def specStep (skip : Bool) (p : Param) (st : Store) : Store :=
  if skip then st
  else match st.get p.key, p.dflt with
    | none, some d => (match specEncode p d with | [] => st | ws => st.add p.key ws)
    | _, _ => st

def specParams (skip : Bool) : List Param → Store → Store
  | [], st => st
  | p :: ps, st => specParams skip ps (specStep skip p st)

end KinModel.C13.Params
