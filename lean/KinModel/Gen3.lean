/-
C18 — model of openapi3gen (schema generation from Go types), of encoding/json's encoder for the
supported kinds, and of the fragment of schema validation that generated schemas use.

What is modelled, branch by branch (openapi3gen/openapi3gen.go, field_info.go, type_info.go):
  * the option set `generatorOpt` (`Opts`): UseAllExportedFields, ThrowErrorOnCycle, SchemaCustomizer (through the three
    ways it can return: nil, ExcludeSchemaSentinel, another error; with one installed the type table is never
    consulted), CreateComponentSchemas {ExportComponentSchemas, ExportTopLevelSchema, ExportGenerics},
    CreateTypeNameGenerator (prefix + exception table);
  * `generateSchemaRefFor`: the per-generator type table `g.Types` keyed by the reflect.Type INCLUDING
    pointer-ness (a hit returns the stored schema unchanged), the `(nil, nil)` of an excluded schema, error
    propagation, then `generateWithoutSaving`;
  * `generateWithoutSaving`: cycle test against the parent chain (pointer-stripped types), pointer
    stripping with `nullable = !isRoot`, the kind switch on the UNDERLYING type of defined types (table `modelKinds`,
    compared with the table read off the source), `[]byte` and every slice whose element KIND is uint8,
    `time.Time`, slices (items), maps (additionalProperties), arrays and the self-recursive container types,
    structs (early `$ref` for an already exported component, field loop over the flattened, name-sorted field
    list, "only fields with a JSON tag" unless `UseAllExportedFields`, `yaml` tag as property name, later property
    of the same name overwrites the earlier one, `type: object` only if there are properties), the customizer
    call, the export decision (generic names, top level) with the generated type name;
  * `appendFields`: `json:"-"`, embedded structs without tag are flattened (one pointer stripped), embedded
    non-struct types are NOT discovered (encoding/json emits them), "private" = lower-case first rune (encoding/json:
    unexported), tag name / `omitempty` / `string` options;
  * cycle cutting: `generateCycleSchemaRef` (pointer stripped, slice/map wrappers, an unconstrained schema for a
    container met again below itself — `type L []L`, repair 0916db1 —, `$ref` to the component named by the type-name generator, registration in
    `componentSchemaRefs`, the enclosing struct's schema as the reference's `Value`);
  * `NewSchemaRefForValue`: every registered component name is filled from ANY entry of `g.SchemaRefs` whose
    (trimmed) reference name equals it and whose Value has properties (Go map iteration order decides which one:
    the candidates are an explicit list here, theorems quantify over the choice).
  * encoding/json: kinds (of defined types too), pointers (nil → null), `omitempty`, `,string`, embedded structs with
    the dominant-field rule (least depth, then tagged, else dropped), embedded defined types, nil embedded pointers.
What is abstracted: base64 text of byte slices and RFC 3339 text of `time.Time` are carried as strings
(`HasType` demands that they match the library's `byte` / `date-time` format expressions, which the
differential run checks on the real encodings); floats are exact decimals; map keys are carried as their JSON text;
`reflect` and `encoding/json` themselves are trusted; a SchemaCustomizer that edits the schema, the `…Ref` struct
special case, `SetSchemar`, `json.RawMessage`, interfaces, func/chan fields and the second `generateSchemaRefFor`
call for fields of embedded structs under UseAllExportedFields (idempotent) are not modelled.
-/
namespace KinModel.Gen3

/-! ## JSON values and the schema fragment -/

inductive J where
  | null
  | bool (b : Bool)
  | num (m : Int) (e : Nat)          -- the decimal m / 10^e
  | str (s : String)
  | arr (xs : List J)
  | obj (kvs : List (String × J))

inductive Sch where
  /-- `cyc` is a ghost flag: the node was built by `generateCycleSchemaRef` (slice/map wrapper) -/
  | node (ty : String) (nullable : Bool) (fmt : String) (lo hi : Option Int)
         (items : Option Sch) (props : List (String × Sch)) (addl : Option Sch) (cyc : Bool)
  | ref (name : String)

abbrev Comps := List (String × Sch)

def lookup (k : String) : List (String × α) → Option α
  | [] => none
  | (k', v) :: r => if k = k' then some v else lookup k r

/-- what the loader does with `$ref: #/components/schemas/<name>` (component values are never references
    themselves in generated documents: a reference to a reference is reported as unresolved) -/
def resolve (Γ : Comps) : Sch → Option Sch
  | .ref n => match lookup n Γ with
    | some (.node a b c d e f g h i) => some (.node a b c d e f g h i)
    | _ => none
  | s => some s

/-! ### leaf checks (read off visitJSONNumber / visitJSONString / format validators) -/

def TyOK (ty want : String) : Prop := ty = "" ∨ ty = want
instance : Decidable (TyOK a b) := by unfold TyOK; exact inferInstance

def fmtLo (fmt : String) : Option Int :=
  if fmt = "int32" then some (-2147483648) else if fmt = "int64" then some (-9223372036854775808) else none
def fmtHi (fmt : String) : Option Int :=
  if fmt = "int32" then some 2147483647 else if fmt = "int64" then some 9223372036854775807 else none

def GeOpt (lo : Option Int) (m : Int) (e : Nat) : Prop := ∀ l, lo = some l → l * (10 : Int) ^ e ≤ m
def LeOpt (hi : Option Int) (m : Int) (e : Nat) : Prop := ∀ h, hi = some h → m ≤ h * (10 : Int) ^ e
instance : Decidable (GeOpt lo m e) := by
  unfold GeOpt; cases lo with
  | none => exact isTrue (by intro l h; cases h)
  | some l => exact decidable_of_iff (l * (10 : Int) ^ e ≤ m) ⟨fun h _ h' => by cases h'; exact h, fun h => h l rfl⟩
instance : Decidable (LeOpt hi m e) := by
  unfold LeOpt; cases hi with
  | none => exact isTrue (by intro l h; cases h)
  | some l => exact decidable_of_iff (m ≤ l * (10 : Int) ^ e) ⟨fun h _ h' => by cases h'; exact h, fun h => h l rfl⟩

/-- number against `type`, `format` (int32/int64 are range checks, applied to integers only), `minimum`, `maximum` -/
def NumOK (ty fmt : String) (lo hi : Option Int) (m : Int) (e : Nat) : Prop :=
  (ty = "" ∨ ty = "number" ∨
    (ty = "integer" ∧ m % (10 : Int) ^ e = 0 ∧ GeOpt (fmtLo fmt) m e ∧ LeOpt (fmtHi fmt) m e)) ∧
  GeOpt lo m e ∧ LeOpt hi m e
instance : Decidable (NumOK ty fmt lo hi m e) := by unfold NumOK; exact inferInstance

def isB64Char (c : Char) : Bool :=
  c.isAlphanum || c == '+' || c == '/' || c == '-' || c == '_'
/-- `(^$|^[a-zA-Z0-9+/\-_]*=*$)` -/
def byteFmt (s : String) : Bool :=
  (s.toList.dropWhile isB64Char).all (· == '=')

def digits (l : List Char) : Bool := l.all Char.isDigit
def twoDigitIn (a b : Char) (lo hi : Nat) : Bool :=
  a.isDigit && b.isDigit && (let n := (a.toNat - 48) * 10 + (b.toNat - 48); decide (lo ≤ n ∧ n ≤ hi))
def zoneOK : List Char → Bool
  | [] => true
  | ['Z'] => true
  | [s, a, b, ':', c, d] => (s == '+' || s == '-') && a.isDigit && b.isDigit && c.isDigit && d.isDigit
  | _ => false
def fracZoneOK : List Char → Bool
  | '.' :: r => (match r.span Char.isDigit with | (ds, rest) => !ds.isEmpty && zoneOK rest)
  | r => zoneOK r
/-- the library's `date-time` expression -/
def dateTimeFmt (s : String) : Bool :=
  match s.toList with
  | y1 :: y2 :: y3 :: y4 :: '-' :: m1 :: m2 :: '-' :: d1 :: d2 :: 'T' :: h1 :: h2 :: ':' :: n1 :: n2 :: ':' :: s1 :: s2 :: r =>
    digits [y1, y2, y3, y4] && twoDigitIn m1 m2 1 12 && twoDigitIn d1 d2 1 31 && twoDigitIn h1 h2 0 23 &&
    twoDigitIn n1 n2 0 59 && twoDigitIn s1 s2 0 60 && fracZoneOK r
  | _ => false

def StrOK (ty fmt : String) (s : String) : Prop :=
  TyOK ty "string" ∧ (fmt = "byte" → byteFmt s = true) ∧ (fmt = "date-time" → dateTimeFmt s = true)
instance : Decidable (StrOK ty fmt s) := by unfold StrOK; exact inferInstance

/-! ### `Sat`: the declarative reading of the keywords generated schemas use, relative to a component map.
    Recursion is on the value: a reference is only ever followed at the position of a child value. -/
mutual
def Sat' (rx : Bool) (Γ : Comps) : Sch → J → Prop
  | s, .null => (match s with
      | .ref _ => rx = true ∨ (match resolve Γ s with
          | some (.node _ nl _ _ _ _ _ _ _) => nl = true
          | _ => False)
      | .node _ nl _ _ _ _ _ _ cyc => nl = true ∨ (rx = true ∧ cyc = true))
  | s, .bool _ => (match resolve Γ s with
      | some (.node ty _ _ _ _ _ _ _ _) => TyOK ty "boolean"
      | _ => False)
  | s, .num m e => (match resolve Γ s with
      | some (.node ty _ fmt lo hi _ _ _ _) => NumOK ty fmt lo hi m e
      | _ => False)
  | s, .str x => (match resolve Γ s with
      | some (.node ty _ fmt _ _ _ _ _ _) => StrOK ty fmt x
      | _ => False)
  | s, .arr xs => (match resolve Γ s with
      | some (.node ty _ _ _ _ items _ _ _) =>
        TyOK ty "array" ∧ (match items with | none => True | some it => SatItems rx Γ it xs)
      | _ => False)
  | s, .obj kvs => (match resolve Γ s with
      | some (.node ty _ _ _ _ _ props addl _) => TyOK ty "object" ∧ SatProps rx Γ props addl kvs
      | _ => False)
def SatItems (rx : Bool) (Γ : Comps) : Sch → List J → Prop
  | _, [] => True
  | s, x :: xs => Sat' rx Γ s x ∧ SatItems rx Γ s xs
def SatProps (rx : Bool) (Γ : Comps) : List (String × Sch) → Option Sch → List (String × J) → Prop
  | _, _, [] => True
  | p, ad, (k, x) :: r =>
    (match lookup k p with
     | some s => Sat' rx Γ s x
     | none => (match ad with | none => True | some s => Sat' rx Γ s x)) ∧ SatProps rx Γ p ad r
end

/-- the specification's acceptance relation; `Sat' true` additionally tolerates `null` at positions produced by
    cycle cutting (used to isolate finding #19 in the proofs) -/
abbrev Sat (Γ : Comps) (s : Sch) (j : J) : Prop := Sat' false Γ s j

/-! ### executable twin (this is what the driver evaluates; `acceptB_iff` is in Props/C18.lean) -/
mutual
def acceptB (Γ : Comps) : Sch → J → Bool
  | s, .null => (match resolve Γ s with
      | some (.node _ nl _ _ _ _ _ _ _) => nl
      | _ => false)
  | s, .bool _ => (match resolve Γ s with
      | some (.node ty _ _ _ _ _ _ _ _) => decide (TyOK ty "boolean")
      | _ => false)
  | s, .num m e => (match resolve Γ s with
      | some (.node ty _ fmt lo hi _ _ _ _) => decide (NumOK ty fmt lo hi m e)
      | _ => false)
  | s, .str x => (match resolve Γ s with
      | some (.node ty _ fmt _ _ _ _ _ _) => decide (StrOK ty fmt x)
      | _ => false)
  | s, .arr xs => (match resolve Γ s with
      | some (.node ty _ _ _ _ items _ _ _) =>
        decide (TyOK ty "array") && (match items with | none => true | some it => acceptItems Γ it xs)
      | _ => false)
  | s, .obj kvs => (match resolve Γ s with
      | some (.node ty _ _ _ _ _ props addl _) => decide (TyOK ty "object") && acceptProps Γ props addl kvs
      | _ => false)
def acceptItems (Γ : Comps) : Sch → List J → Bool
  | _, [] => true
  | s, x :: xs => acceptB Γ s x && acceptItems Γ s xs
def acceptProps (Γ : Comps) : List (String × Sch) → Option Sch → List (String × J) → Bool
  | _, _, [] => true
  | p, ad, (k, x) :: r =>
    (match lookup k p with
     | some s => acceptB Γ s x
     | none => (match ad with | none => true | some s => acceptB Γ s x)) && acceptProps Γ p ad r
end



/-! ## Go types and values -/

inductive IntKind | int | int8 | int16 | int32 | int64 | uint | uint8 | uint16 | uint32 | uint64
  deriving DecidableEq, Repr

/-- per-field facts read by `appendFields` / encoding/json's `typeFields` -/
structure FMeta where
  goName : String
  hasTag : Bool := false     -- the `json` tag is non-empty (and not "-")
  tagName : String := ""     -- name part of the tag ("" = keep the Go name)
  skip : Bool := false       -- `json:"-"`
  omitempty : Bool := false
  quoted : Bool := false     -- `,string`
  embedded : Bool := false
  exported : Bool := true      -- encoding/json: `IsExported()`
  lowerFirst : Bool := false   -- appendFields: `unicode.IsLower(firstRune)` ("private")
  yaml : Option String := none -- the `yaml` tag when present and not "-" (read with UseAllExportedFields only)
  deriving DecidableEq, Repr

inductive GoType where
  | bool | int (k : IntKind) | float (b32 : Bool) | string | bytes | time
  | ptr (t : GoType) | slice (t : GoType) | map (t : GoType)
  | struct (fs : List (FMeta × GoType))
  | named (n : String)               -- declared struct type, fields in the declaration list
  | defd (n : String) (t : GoType)   -- `type n t`: defined type over a non-struct, non-pointer underlying type
  | array (len : Nat) (t : GoType)   -- `[len]t`
  | recs (isMap : Bool)              -- `type L []L` / `type M map[string]M`: the self-recursive container types

abbrev Fields := List (FMeta × GoType)
abbrev Decls := List (String × Fields)

inductive GoVal where
  | b (x : Bool) | i (n : Int) | f (m : Int) (e : Nat) | s (x : String)
  | bytes (b64 : String)            -- base64 text that encoding/json emits for the slice
  | time (txt : String)             -- RFC 3339 text that time.Time.MarshalJSON emits
  | nil                             -- nil pointer
  | ref (v : GoVal)                 -- non-nil pointer
  | slice (vs : List GoVal)         -- non-nil slice, or array
  | map (kvs : List (String × GoVal)) -- non-nil map
  | struct (fs : List GoVal)        -- one value per declared field, in declaration order

-- identity of reflect.Type: structural for unnamed types (tags included), nominal for declared ones
mutual
def GoType.beq : GoType → GoType → Bool
  | .bool, .bool => true
  | .int a, .int b => a == b
  | .float a, .float b => a == b
  | .string, .string => true
  | .bytes, .bytes => true
  | .time, .time => true
  | .ptr a, .ptr b => GoType.beq a b
  | .slice a, .slice b => GoType.beq a b
  | .map a, .map b => GoType.beq a b
  | .struct a, .struct b => beqFs a b
  | .named a, .named b => a == b
  | .defd a t, .defd b u => a == b && GoType.beq t u
  | .array n a, .array m b => n == m && GoType.beq a b
  | .recs a, .recs b => a == b
  | _, _ => false
def beqFs : Fields → Fields → Bool
  | [], [] => true
  | (m, t) :: r, (m', t') :: r' => m == m' && GoType.beq t t' && beqFs r r'
  | _, _ => false
end

def stripPtr : GoType → GoType
  | .ptr t => stripPtr t
  | t => t
def isPtr : GoType → Bool
  | .ptr _ => true
  | _ => false
/-- the underlying type of a defined type (kind switches look at this) -/
def under : GoType → GoType
  | .defd _ t => under t
  | t => t
/-- `t.Elem()` (through a defined type) -/
def elemOf : GoType → GoType
  | .ptr t => t | .slice t => t | .map t => t | .array _ t => t
  | .defd _ t => elemOf t
  | .recs m => .recs m
  | t => t
/-- `t.Kind() == reflect.Struct` -/
def isStructKind (t : GoType) : Bool :=
  match under t with
  | .struct _ | .named _ => true
  | _ => false
/-- `t.Kind() == reflect.Uint8` -/
def isU8 : GoType → Bool
  | .int .uint8 => true
  | .defd _ t => isU8 t
  | _ => false
/-- the slice types that encoding/json writes as base64 text -/
def isBytesTy : GoType → Bool
  | .bytes => true
  | .slice e => isU8 e
  | .defd _ t => isBytesTy t
  | _ => false
def kindName : IntKind → String
  | .int => "int" | .int8 => "int8" | .int16 => "int16" | .int32 => "int32" | .int64 => "int64" | .uint => "uint"
  | .uint8 => "uint8" | .uint16 => "uint16" | .uint32 => "uint32" | .uint64 => "uint64"
/-- `t.Name()` -/
def goName : GoType → String
  | .bool => "bool" | .int k => kindName k | .float b => if b then "float32" else "float64"
  | .string => "string" | .time => "Time" | .named n => n | .defd n _ => n | .recs m => if m then "M" else "L"
  | _ => ""
def fieldsOf (Δ : Decls) : GoType → Fields
  | .struct fs => fs
  | .named n => (lookup n Δ).getD []
  | _ => []

def intLo : IntKind → Int
  | .int => -9223372036854775808 | .int8 => -128 | .int16 => -32768 | .int32 => -2147483648
  | .int64 => -9223372036854775808 | _ => 0
def intHi : IntKind → Int
  | .int => 9223372036854775807 | .int8 => 127 | .int16 => 32767 | .int32 => 2147483647
  | .int64 => 9223372036854775807 | .uint => 18446744073709551615 | .uint8 => 255 | .uint16 => 65535
  | .uint32 => 4294967295 | .uint64 => 18446744073709551615
def inRange (k : IntKind) (n : Int) : Bool := decide (intLo k ≤ n ∧ n ≤ intHi k)

/-! ### field discovery (shared shape of `appendFields` and encoding/json's `typeFields`) -/

structure Cand where
  name : String
  tagged : Bool       -- openapi3gen's HasJSONTag: the tag is non-empty
  namedTag : Bool     -- encoding/json's `tagged`: the tag gives a name
  depth : Nat
  path : List Nat
  ty : GoType
  omitempty : Bool
  quoted : Bool
  yaml : Option String := none
  disc : Bool := true   -- discovered by `appendFields` (false: an embedded non-struct field, which only encoding/json sees)
  enc : Bool := true    -- seen by encoding/json (false: unexported name that is not lower case, which only `appendFields` sees)

def FMeta.jsonName (m : FMeta) : String := if m.tagName = "" then m.goName else m.tagName

/-- an embedded field that is flattened: a struct or a pointer to one -/
def isStructish : GoType → Bool
  | .struct _ => true
  | .ptr (.struct _) => true
  | _ => false

mutual
def flatFs (depth : Nat) (path : List Nat) (idx : Nat) : Fields → List Cand
  | [] => []
  | (m, t) :: r =>
    (if m.skip then []
     else if m.embedded && !m.hasTag then
       (if isStructish t then flatEmb (depth + 1) (path ++ [idx]) true t
        else if m.exported then
          [{ name := m.goName, tagged := false, namedTag := false, depth := depth, path := path ++ [idx], ty := t,
             omitempty := false, quoted := false, disc := false }]
        else [])
     else if !m.exported && m.lowerFirst then []
     else [{ name := m.jsonName, tagged := m.hasTag, namedTag := m.tagName != "", depth := depth, path := path ++ [idx],
             ty := t, omitempty := m.omitempty, quoted := m.quoted, yaml := m.yaml, disc := !m.lowerFirst,
             enc := m.exported }]) ++
    flatFs depth path (idx + 1) r
def flatEmb (depth : Nat) (path : List Nat) (allowPtr : Bool) : GoType → List Cand
  | .struct fs => flatFs depth path 0 fs
  | .ptr t => if allowPtr then flatEmb depth path false t else []
  | _ => []
end

def flat (fs : Fields) : List Cand := flatFs 0 [] 0 fs

/-- encoding/json: among the fields of one name the shallowest wins; several at that depth: the single
    tagged one; otherwise the name is dropped -/
def dominantOf (cs : List Cand) (k : String) : Option Cand :=
  let g := cs.filter (fun c => c.name == k && c.enc)
  let d := g.foldl (fun a c => min a c.depth) ((g.head?.map (·.depth)).getD 0)
  match g.filter (fun c => c.depth == d) with
  | [c] => some c
  | top => (match top.filter (·.namedTag) with | [c] => some c | _ => none)

def domPaths (cs : List Cand) : List (List Nat) :=
  (cs.filter (fun c => match dominantOf cs c.name with | some d => d.path == c.path | none => false)).map (·.path)

/-- `,string` applies to these kinds only (one unnamed pointer level is looked through) -/
def scalarKind : GoType → Bool
  | .bool | .int _ | .float _ | .string => true
  | _ => false
def quotable : GoType → Bool
  | .ptr t => scalarKind (under t)
  | t => scalarKind (under t)

def isEmptyVal : GoVal → Bool
  | .b x => !x | .i n => n == 0 | .f m _ => m == 0 | .s x => x == "" | .bytes x => x == ""
  | .nil => true | .slice vs => vs.isEmpty | .map kvs => kvs.isEmpty
  | _ => false

/-- decimal text of m / 10^e (as strconv prints the decimals the harness generates) -/
def decStr (m : Int) (e : Nat) : String :=
  if e = 0 then toString m else
  let ds := (toString m.natAbs).toList
  let ds := List.replicate (e + 1 - ds.length) '0' ++ ds
  (if m < 0 then "-" else "") ++ String.ofList (ds.take (ds.length - e)) ++ "." ++ String.ofList (ds.drop (ds.length - e))

def quoteJ : J → J
  | .bool b => .str (toString b)
  | .num m e => .str (decStr m e)
  | .str s => .str ("\"" ++ s ++ "\"")
  | j => j

/-! ### typing of values and the encoder -/
mutual
def hasTypeB (Δ : Decls) : GoType → GoVal → Bool
  | t, .b _ => (match under t with | .bool => true | _ => false)
  | t, .i n => (match under t with | .int k => inRange k n | _ => false)
  | t, .f _ _ => (match under t with | .float _ => true | _ => false)
  | t, .s _ => (match under t with | .string => true | _ => false)
  | t, .bytes x => isBytesTy t && byteFmt x
  | t, .time x => (match t with | .time => dateTimeFmt x | _ => false)
  | t, .nil => isPtr t
  | t, .ref v => isPtr t && hasTypeB Δ (elemOf t) v
  | t, .slice vs => (match under t with
      | .slice e => !isU8 e && hasTypeL Δ e vs
      | .array _ e => hasTypeL Δ e vs
      | .recs false => hasTypeL Δ (.recs false) vs
      | _ => false)
  | t, .map kvs => (match under t with
      | .map e => hasTypeKV Δ e kvs
      | .recs true => hasTypeKV Δ (.recs true) kvs
      | _ => false)
  | t, .struct vs => (match t with
      | .struct fs => hasTypeFs Δ fs vs
      | .named n => (match lookup n Δ with | some fs => hasTypeFs Δ fs vs | none => false)
      | _ => false)
def hasTypeL (Δ : Decls) : GoType → List GoVal → Bool
  | _, [] => true
  | t, v :: vs => hasTypeB Δ t v && hasTypeL Δ t vs
def hasTypeKV (Δ : Decls) : GoType → List (String × GoVal) → Bool
  | _, [] => true
  | t, (_, v) :: r => hasTypeB Δ t v && hasTypeKV Δ t r
def hasTypeFs (Δ : Decls) : Fields → List GoVal → Bool
  | [], [] => true
  | (_, t) :: fs, v :: vs => hasTypeB Δ t v && hasTypeFs Δ fs vs
  | _, _ => false
end

/-- `HasType Δ v t`: v is a value of Go type t (slices and maps non-nil, sized integers in range) -/
def HasType (Δ : Decls) (v : GoVal) (t : GoType) : Prop := hasTypeB Δ t v = true
instance : Decidable (HasType Δ v t) := by unfold HasType; exact inferInstance

mutual
def encode (Δ : Decls) : GoType → GoVal → J
  | _, .b x => .bool x
  | _, .i n => .num n 0
  | _, .f m e => .num m e
  | _, .s x => .str x
  | _, .bytes x => .str x
  | _, .time x => .str x
  | _, .nil => .null
  | t, .ref v => encode Δ (elemOf t) v
  | t, .slice vs => .arr (encodeL Δ (elemOf t) vs)
  | t, .map kvs => .obj (encodeKV Δ (elemOf t) kvs)
  | t, .struct vs => .obj (encodeFs Δ (domPaths (flat (fieldsOf Δ t))) [] 0 (fieldsOf Δ t) vs)
def encodeL (Δ : Decls) : GoType → List GoVal → List J
  | _, [] => []
  | t, v :: vs => encode Δ t v :: encodeL Δ t vs
def encodeKV (Δ : Decls) : GoType → List (String × GoVal) → List (String × J)
  | _, [] => []
  | t, (k, v) :: r => (k, encode Δ t v) :: encodeKV Δ t r
def encodeFs (Δ : Decls) (dom : List (List Nat)) (path : List Nat) (idx : Nat) : Fields → List GoVal → List (String × J)
  | (m, t) :: fs, v :: vs =>
    (if m.skip then []
     else if m.embedded && !m.hasTag then
       (if isStructish t then encodeEmb Δ dom (path ++ [idx]) true t v
        else if m.exported && dom.contains (path ++ [idx]) then [(m.goName, encode Δ t v)]
        else [])
     else if !m.exported then []
     else if dom.contains (path ++ [idx]) && !(m.omitempty && isEmptyVal v) then
       [(m.jsonName, if m.quoted && quotable t then quoteJ (encode Δ t v) else encode Δ t v)]
     else []) ++ encodeFs Δ dom path (idx + 1) fs vs
  | _, _ => []
def encodeEmb (Δ : Decls) (dom : List (List Nat)) (path : List Nat) (allowPtr : Bool) : GoType → GoVal → List (String × J)
  | t, .struct vs => (match t with | .struct fs => encodeFs Δ dom path 0 fs vs | _ => [])
  | t, .ref v => (match t with | .ptr t' => if allowPtr then encodeEmb Δ dom path false t' v else [] | _ => [])
  | _, _ => []   -- nil embedded pointer: its fields are absent
end


/-- the struct tags as `appendFields` / the struct loop read them: json "" = no tag, "-" = skip, otherwise name and
    options; yaml: present and not "-" -/
def parseTag (goName tag : String) (embedded exported lowerFirst : Bool) (yaml : Option String) : FMeta :=
  let y := match yaml with | some "-" => none | y => y
  if tag = "" then { goName := goName, embedded := embedded, exported := exported, lowerFirst := lowerFirst, yaml := y }
  else if tag = "-" then { goName := goName, skip := true, embedded := embedded, exported := exported, lowerFirst := lowerFirst, yaml := y }
  else
    let parts := tag.splitOn ","
    let opts := parts.drop 1
    { goName := goName, hasTag := true, tagName := parts.headD "", omitempty := opts.contains "omitempty",
      quoted := opts.contains "string", embedded := embedded, exported := exported, lowerFirst := lowerFirst, yaml := y }

/-! ## The generator -/

/-- `CreateTypeNameGenerator`: a table of exceptions over "prefix ++ Go name" -/
structure Tng where
  pfx : String
  tbl : List (String × String)

/-- the generator options (`generatorOpt`); a SchemaCustomizer is modelled by the two ways it can end other than
    `nil`: `ExcludeSchemaSentinel` for the names in `custExcl`, another error for the names in `custFail` -/
structure Opts where
  all : Bool := false              -- UseAllExportedFields
  throwCycle : Bool := false       -- ThrowErrorOnCycle
  cust : Bool := false             -- a SchemaCustomizer is installed (the type table is then never consulted)
  custExcl : List String := []
  custFail : List String := []
  exp : Bool := false              -- ExportComponentSchemas
  expTop : Bool := false           -- ExportTopLevelSchema
  expGenerics : Bool := false      -- ExportGenerics
  tng : Option Tng := none

/-- `g.generateTypeName(t)` for a type whose `Name()` is `n` -/
def typeName (o : Opts) (n : String) : String :=
  match o.tng with
  | none => n
  | some g => (lookup n g.tbl).getD (g.pfx ++ n)

/-- "`^.*\[.*\]$`": the name of an instantiated generic type -/
def isGenericName (n : String) : Bool :=
  match n.toList.reverse with
  | ']' :: r => r.contains '['
  | _ => false

def kindFmt : IntKind → String
  | .int32 => "int32" | .int64 => "int64" | _ => ""
def kindLo : IntKind → Option Int
  | .int8 => some (-128) | .int16 => some (-32768)
  | .uint | .uint8 | .uint16 | .uint32 | .uint64 => some 0
  | _ => none
def kindHi : IntKind → Option Int
  | .int8 => some 127 | .int16 => some 32767 | .uint8 => some 255 | .uint16 => some 65535
  | .uint32 => some 4294967295
  | .uint64 => some 18446744073709551616     -- float64(math.MaxUint64) is 2^64
  | _ => none

/-- the kind switch as a table: (type, `reflect.Kind` name, `type`, `format`, `minimum`, `maximum`); compared with the
    table read off the source (`Gen.genKinds`) in Props/C18.lean -/
def reflectKind : IntKind → String
  | .int => "Int" | .int8 => "Int8" | .int16 => "Int16" | .int32 => "Int32" | .int64 => "Int64" | .uint => "Uint"
  | .uint8 => "Uint8" | .uint16 => "Uint16" | .uint32 => "Uint32" | .uint64 => "Uint64"
def allIntKinds : List IntKind := [.int, .int8, .int16, .int32, .int64, .uint, .uint8, .uint16, .uint32, .uint64]
def modelKindsT : List (GoType × String × String × String × Option Int × Option Int) :=
  [(.bool, "Bool", "boolean", "", none, none)] ++
  allIntKinds.map (fun k => (.int k, reflectKind k, "integer", kindFmt k, kindLo k, kindHi k)) ++
  [(.float true, "Float32", "number", "float", none, none), (.float false, "Float64", "number", "double", none, none),
   (.string, "String", "string", "", none, none)]
def modelKinds : List (String × String × String × Option Int × Option Int) := modelKindsT.map (·.2)
/-- what the model covers of the source: the kinds with their own code, the tag keys and options, the option set -/
def modelKindsOther : List String := ["Func", "Chan", "Slice", "Map", "Struct", "default"]
def modelTagKeys : List String := ["json", "json", "yaml"]
def modelTagOptions : List String := ["omitempty", "string"]
def modelOptFields : List String :=
  ["ExportComponentSchemasOptions.ExportComponentSchemas", "ExportComponentSchemasOptions.ExportTopLevelSchema",
   "ExportComponentSchemasOptions.ExportGenerics", "generatorOpt.useAllExportedFields", "generatorOpt.throwErrorOnCycle",
   "generatorOpt.schemaCustomizer", "generatorOpt.exportComponentSchemas", "generatorOpt.typeNameGenerator"]

def leaf (ty : String) (nl : Bool) (fmt : String) (lo hi : Option Int) : Sch :=
  .node ty nl fmt lo hi none [] none false

/-- outcome of generateSchemaRefFor: a schema, `CycleError`, the customizer's `ExcludeSchemaSentinel` (nil, nil),
    another error, or out of fuel (`gen_finite`: never with enough fuel) -/
inductive R where
  | ok (s : Sch) | cycle | nofuel | excluded | err

/-- generator state: `g.Types`; the entries of `g.SchemaRefs` that can fill a component, as (reference name after
    the trimming done by the export loop, `Name()` of the Go type whose schema it is, the `Value`);
    `componentSchemaRefs` -/
structure St where
  cache : List (GoType × Sch) := []
  refs : List (String × String × Sch) := []
  comps : List String := []
  trace : List String := []     -- ghost: which non-default branches were taken (coverage report only)
  anon : Bool := false          -- ghost: a component name was registered for a type that is not a declared struct

def note (x : String) (σ : St) : St := { σ with trace := x :: σ.trace }

def cacheLookup (t : GoType) : List (GoType × Sch) → Option Sch
  | [] => none
  | (t', s) :: r => if GoType.beq t t' then some s else cacheLookup t r

def inParents (b : GoType) (ps : List GoType) : Bool := ps.any (GoType.beq b)

/-- `t.Kind()` is Slice or Map (the wrapper cases of generateCycleSchemaRef) -/
def kindContainer : GoType → Bool
  | .slice _ | .map _ | .bytes | .recs _ => true
  | .defd _ t => kindContainer t
  | _ => false

def arrWrap (r : Sch) : Sch := .node "array" false "" none none (some r) [] none true
def mapWrap (r : Sch) : Sch := .node "object" false "" none none none [] (some r) true

/-- `openapi3.NewSchema()`: no keyword -/
def emptySch : Sch := .node "" false "" none none none [] none false

/-- generateCycleSchemaRef (0916db1: it carries the types it has seen; a container met again below itself —
    `t.Elem()` of `type L []L` is `L` again — gets an unconstrained schema) -/
def cycleSch (o : Opts) : GoType → Sch
  | .ptr t => cycleSch o t
  | .slice t => arrWrap (cycleSch o t)
  | .map t => mapWrap (cycleSch o t)
  | .bytes => arrWrap (.ref (typeName o "uint8"))
  | .recs m => if m then mapWrap emptySch else arrWrap emptySch
  | .defd n t => if kindContainer t then cycleSch o t else .ref (typeName o n)
  | t => .ref (typeName o (goName t))
/-- the spine ends in a self-recursive container: generateCycleSchemaRef returns before it names a component -/
def spineRecs : GoType → Bool
  | .ptr t => spineRecs t
  | .slice t => spineRecs t
  | .map t => spineRecs t
  | .defd _ t => kindContainer t && spineRecs t
  | .recs _ => true
  | _ => false
def cycleName (o : Opts) : GoType → String
  | .ptr t => cycleName o t
  | .slice t => cycleName o t
  | .map t => cycleName o t
  | .bytes => typeName o "uint8"
  | .defd n t => if kindContainer t then cycleName o t else typeName o n
  | t => typeName o (goName t)
/-- pointer/slice/map spine ending in a declared struct: the types `generateCycleSchemaRef` names properly -/
def spineNamed : GoType → Bool
  | .ptr t => spineNamed t
  | .slice t => spineNamed t
  | .map t => spineNamed t
  | .named _ => true
  | .defd _ t => kindContainer t && spineNamed t
  | _ => false
/-- the reference returned by generateCycleSchemaRef is the `#/components/schemas/…` reference itself (it is then
    entered into `g.SchemaRefs` with the enclosing schema as its `Value`) -/
def directCut (e : GoType) : Bool := !kindContainer (stripPtr e)

def addComp (n : String) (σ : St) : St :=
  { σ with comps := if σ.comps.contains n then σ.comps else n :: σ.comps }

/-- the ways a generation fails -/
inductive Fail where
  | cycle | nofuel | err
def Fail.toR : Fail → R
  | .cycle => .cycle | .nofuel => .nofuel | .err => .err

/-- what a caller of generateSchemaRefFor does with the result -/
inductive Child where
  | some (s : Sch) | skip | fail (r : Fail)

/-- a child position: the generated schema; the cycle reference when the child reported `CycleError` (unless
    ThrowErrorOnCycle); nothing when the customizer excluded it; otherwise the error is handed up -/
def childOf (o : Opts) (e : GoType) : R × St → Child × St
  | (.ok s, σ) => (.some s, σ)
  | (.excluded, σ) => (.skip, σ)
  | (.cycle, σ) =>
    if o.throwCycle then (.fail .cycle, σ)
    else if spineRecs e then (.some (cycleSch o e), note "cycle.cut" σ)
    else (.some (cycleSch o e), note "cycle.cut" (addComp (cycleName o e) { σ with anon := σ.anon || !spineNamed e }))
  | (.nofuel, σ) => (.fail .nofuel, σ)
  | (.err, σ) => (.fail .err, σ)

def sliceOf (nl : Bool) : Child × St → R × St
  | (.some it, σ) => (.ok (.node "array" nl "" none none (some it) [] none false), σ)
  | (.skip, σ) => (.ok (.node "array" nl "" none none none [] none false), σ)
  | (.fail r, σ) => (r.toR, σ)
def mapOf (nl : Bool) : Child × St → R × St
  | (.some ad, σ) => (.ok (.node "object" nl "" none none none [] (some ad) false), σ)
  | (.skip, σ) => (.ok (.node "object" nl "" none none none [] none false), σ)
  | (.fail r, σ) => (r.toR, σ)

inductive CustOut | pass | excluded | err
def custOut (o : Opts) (nm : String) : CustOut :=
  if !o.cust then .pass
  else if o.custExcl.contains nm then .excluded
  else if o.custFail.contains nm then .err
  else .pass
/-- `g.opts.schemaCustomizer(name, t, tag, schema)` at the end of generateWithoutSaving -/
def custom (o : Opts) (nm : String) : R × St → R × St
  | (.ok s, σ) => (match custOut o nm with
      | .pass => (.ok s, σ)
      | .excluded => (.excluded, note "cust.excluded" σ)
      | .err => (.err, σ))
  | r => r

/-- schema.WithPropertyRef: a later property of the same name replaces the earlier one -/
def setProp (k : String) (s : Sch) : List (String × Sch) → List (String × Sch)
  | [] => [(k, s)]
  | (k', s') :: r => if k = k' then (k, s) :: r else (k', s') :: setProp k s r

structure FAcc where
  props : List (String × Sch)
  σ : St
  fail : Option Fail := none    -- the first error met in the field loop (Go returns it at once)
  cuts : List String := []      -- component names of the cycle references created directly in this loop

/-- the property name of a discovered field: its JSON name, or the whole `yaml` tag for an untagged top-level
    field under UseAllExportedFields -/
def propName (all : Bool) (c : Cand) : String :=
  if !c.tagged && all && c.depth == 0 then c.yaml.getD c.name else c.name

def isCycleR : R → Bool
  | .cycle => true
  | _ => false

def stepField (o : Opts) (c : Cand) (a : FAcc) (r : R × St) : FAcc :=
  match childOf o c.ty r with
  | (.some s, σ) => { props := setProp (propName o.all c) s a.props, σ := σ, fail := a.fail,
                      cuts := if isCycleR r.1 && directCut c.ty then cycleName o c.ty :: a.cuts else a.cuts }
  | (.skip, σ) => { props := a.props, σ := σ, fail := a.fail, cuts := a.cuts }
  | (.fail x, σ) => { props := a.props, σ := σ, fail := (match a.fail with | some y => some y | none => some x), cuts := a.cuts }

/-- "Object only if it has properties" -/
def structSch (nl : Bool) (props : List (String × Sch)) : Sch :=
  .node (if props.isEmpty then "" else "object") nl "" none none none props none false
/-- the cycle references created directly in this field loop carry the struct's schema as their `Value`: under
    ExportComponentSchemas the export loop sees them under the name of the type they refer to -/
def withCuts (o : Opts) (n : String) (s : Sch) (a : FAcc) : St :=
  if o.exp then { a.σ with refs := a.cuts.map (fun m => (m, n, s)) ++ a.σ.refs } else a.σ
/-- the struct becomes a component: ExportComponentSchemas, not a generic unless ExportGenerics, and below the top
    level unless ExportTopLevelSchema -/
def exported (o : Opts) (top : Bool) (n : String) : Bool :=
  o.exp && !(isGenericName n && !o.expGenerics) && (!top || o.expTop)
def structOut (o : Opts) (top : Bool) (n : String) (s : Sch) (σ1 : St) : R × St :=
  if exported o top n then
    (.ok (.ref (typeName o n)),
      note "export.component" (addComp (typeName o n)
        { σ1 with refs := (typeName o n, n, s) :: σ1.refs, anon := σ1.anon || n == "" }))
  else (.ok s, { σ1 with refs := (n, n, s) :: σ1.refs })
/-- the end of the struct case: the customizer and the export decision.
    `n` is the type's `Name()` ("" for an anonymous struct), `top`: `len(parents) == 1`. -/
def structEnd (o : Opts) (top : Bool) (nm : String) (nl : Bool) (n : String) (a : FAcc) : R × St :=
  match a.fail with
  | some r => (r.toR, a.σ)
  | none =>
    match custOut o nm with
    | .excluded => (.excluded, note "cust.excluded" (withCuts o n (structSch nl a.props) a))
    | .err => (.err, withCuts o n (structSch nl a.props) a)
    | .pass => structOut o top n (structSch nl a.props) (withCuts o n (structSch nl a.props) a)

/-- sort.Sort(sortableFieldInfos) — insertion sort for ≤ 12 elements, which is stable -/
def insertCand (c : Cand) : List Cand → List Cand
  | [] => [c]
  | x :: xs => if c.name < x.name then c :: x :: xs else x :: insertCand c xs
def sortCands (cs : List Cand) : List Cand := cs.foldl (fun acc c => insertCand c acc) []

/-- the fields the struct loop visits: tagged ones, or all with UseAllExportedFields -/
def gcands (all : Bool) (fs : Fields) : List Cand :=
  sortCands ((flat fs).filter (fun c => c.disc && (c.tagged || all)))

/-- generateSchemaRefFor after a successful generateWithoutSaving: `g.Types[t] = ref; g.SchemaRefs[ref]++`
    (`finishR`: not for a pointer at the root) -/
def finish (t : GoType) : R × St → R × St
  | (.ok s, σ) => (.ok s, { σ with cache := (t, s) :: σ.cache })
  | r => r

/-- repair of F-C18-7: the schema of a POINTER at the root (not nullable) is not entered into the type table -/
def finishR (root : Bool) (t : GoType) (p : R × St) : R × St :=
  if root && isPtr t then p else finish t p

mutual
def genRef (Δ : Decls) (o : Opts) : Nat → List GoType → String → GoType → St → R × St
  | 0, _, _, _, σ => (.nofuel, σ)
  | f + 1, ps, nm, t, σ =>
    match (if o.cust then none else cacheLookup t σ.cache) with
    | some s => (.ok s, note "cache.hit" σ)
    | none =>
      if inParents (stripPtr t) ps then (.cycle, σ)
      else finishR ps.isEmpty t (genBody Δ o f (ps ++ [stripPtr t]) ps.isEmpty nm (isPtr t && !ps.isEmpty) (stripPtr t) σ)
def genBody (Δ : Decls) (o : Opts) : Nat → List GoType → Bool → String → Bool → GoType → St → R × St
  | 0, _, _, _, _, _, σ => (.nofuel, σ)
  | _ + 1, _, _, nm, nl, .bool, σ => custom o nm (.ok (leaf "boolean" nl "" none none), σ)
  | _ + 1, _, _, nm, nl, .int k, σ => custom o nm (.ok (leaf "integer" nl (kindFmt k) (kindLo k) (kindHi k)), σ)
  | _ + 1, _, _, nm, nl, .float b, σ => custom o nm (.ok (leaf "number" nl (if b then "float" else "double") none none), σ)
  | _ + 1, _, _, nm, nl, .string, σ => custom o nm (.ok (leaf "string" nl "" none none), σ)
  | _ + 1, _, _, nm, nl, .bytes, σ => custom o nm (.ok (leaf "string" nl "byte" none none), σ)
  | _ + 1, _, _, nm, nl, .time, σ => custom o nm (.ok (leaf "string" nl "date-time" none none), σ)
  | _ + 1, _, _, nm, nl, .array _ _, σ => custom o nm (.ok (leaf "" nl "" none none), σ)   -- `default:` an empty schema
  | _ + 1, _, _, _, nl, .ptr _, σ => (.ok (leaf "" nl "" none none), σ)     -- not reached: the type is pointer-stripped
  | f + 1, ps, top, nm, nl, .defd _ t, σ =>
    -- the kind switch looks at the underlying type (declared structs are `.named`: a struct below `.defd` is not reached)
    if isStructKind t then (.ok (leaf "" nl "" none none), σ) else genBody Δ o f ps top nm nl t σ
  | f + 1, ps, _, nm, nl, .slice e, σ =>
    if isU8 e then custom o nm (.ok (leaf "string" nl "byte" none none), σ)
    else custom o nm (sliceOf nl (childOf o e (genRef Δ o f ps nm e σ)))
  | f + 1, ps, _, nm, nl, .map e, σ => custom o nm (mapOf nl (childOf o e (genRef Δ o f ps nm e σ)))
  | f + 1, ps, _, nm, nl, .recs m, σ =>
    custom o nm ((if m then mapOf nl else sliceOf nl) (childOf o (.recs m) (genRef Δ o f ps nm (.recs m) σ)))
  | f + 1, ps, top, nm, nl, .struct fs, σ =>
    if o.exp && σ.comps.contains (typeName o "") then
      (.ok (.ref (typeName o "")), { note "export.seen" σ with anon := true })   -- an anonymous struct replaced by the component ""
    else structEnd o top nm nl "" (genFields Δ o f ps (gcands o.all fs) { props := [], σ := σ })
  | f + 1, ps, top, nm, nl, .named n, σ =>
    if o.exp && σ.comps.contains (typeName o n) then (.ok (.ref (typeName o n)), note "export.seen" σ)
    else structEnd o top nm nl n (genFields Δ o f ps (gcands o.all ((lookup n Δ).getD [])) { props := [], σ := σ })
def genFields (Δ : Decls) (o : Opts) : Nat → List GoType → List Cand → FAcc → FAcc
  | _, _, [], a => a
  | 0, _, _ :: _, a => { props := a.props, σ := a.σ, fail := some .nofuel, cuts := a.cuts }
  | f + 1, ps, c :: cs, a =>
    genFields Δ o f ps cs (stepField o c a (genRef Δ o f ps (propName o.all c) c.ty a.σ))
end

/-- Generator.GenerateSchemaRef -/
def genRoot (Δ : Decls) (o : Opts) (fuel : Nat) (t : GoType) : R × St := genRef Δ o fuel [] "_root" t {}

/-! ### reuse: several `GenerateSchemaRef` calls on ONE `Generator` (the type table `g.Types`, `g.SchemaRefs` and
    `componentSchemaRefs` are kept between the calls) -/
/-- the generator state after generating for the types `pre`, in this order, starting from state `σ` -/
def genSeq (Δ : Decls) (o : Opts) (fuel : Nat) : List GoType → St → St
  | [], σ => σ
  | t :: ts, σ => genSeq Δ o fuel ts (genRef Δ o fuel [] "_root" t σ).2
/-- `g := NewGenerator(opts…); for p in pre { g.GenerateSchemaRef(p) }; g.GenerateSchemaRef(t)` -/
def genAfter (Δ : Decls) (o : Opts) (fuel : Nat) (pre : List GoType) (t : GoType) : R × St :=
  genRef Δ o fuel [] "_root" t (genSeq Δ o fuel pre {})
/-! ### fuel that suffices (`gen_finite`: with `enoughFuel Δ t` the generator never runs out) -/
mutual
def costB (K : Nat) : GoType → Nat
  | .ptr t => costB K t
  | .defd _ t => 1 + costB K t
  | .slice e => 2 + costB K e
  | .map e => 2 + costB K e
  | .recs _ => 5
  | .struct fs => 1 + costFs K fs
  | .named _ => K
  | _ => 1
def costFs (K : Nat) : Fields → Nat
  | [] => 0
  | (_, t) :: r => 2 + costB K t + costFs K r
end

/-- the bound for entering any declared struct at level k -/
def costΔ (K : Nat) : Decls → Nat
  | [] => 0
  | d :: r => max (costFs K d.2) (costΔ K r)
def lvlCost (Δ : Decls) : Nat → Nat
  | 0 => 2
  | k + 1 => 2 + costΔ (lvlCost Δ k) Δ

/-- the fuel that suffices for a type at the root -/
def enoughFuel (Δ : Decls) (t : GoType) : Nat := 1 + costB (lvlCost Δ Δ.length) t


/-! ### NewSchemaRefForValue: filling the component map -/

def hasProps : Sch → Bool
  | .node _ _ _ _ _ _ (_ :: _) _ _ => true
  | _ => false

/-- the generated schemas that `for ref := range g.SchemaRefs` may store under component name `n` -/
def candidatesFor (σ : St) (n : String) : List Sch :=
  (σ.refs.filter (fun p => p.1 == n && hasProps p.2.2)).map (·.2.2)

/-- Γ is one possible outcome of the loop: every entry is a candidate of a registered name … -/
def IsChoice (σ : St) (Γ : Comps) : Prop :=
  ∀ n s, lookup n Γ = some s → n ∈ σ.comps ∧ s ∈ candidatesFor σ n
/-- … every registered name that has a candidate is present … -/
def LoopResult (σ : St) (Γ : Comps) : Prop :=
  IsChoice σ Γ ∧ ∀ n, n ∈ σ.comps → candidatesFor σ n ≠ [] → ∃ s, lookup n Γ = some s
/-- … every registered name is present (references resolve within the map) -/
def Complete (σ : St) (Γ : Comps) : Prop := ∀ n, n ∈ σ.comps → ∃ s, lookup n Γ = some s ∧ hasProps s = true

-- the component names a schema refers to
mutual
def refNames : Sch → List String
  | .ref n => [n]
  | .node _ _ _ _ _ items props addl _ => refNamesO items ++ refNamesP props ++ refNamesO addl
def refNamesO : Option Sch → List String
  | none => []
  | some s => refNames s
def refNamesP : List (String × Sch) → List String
  | [] => []
  | (_, s) :: r => refNames s ++ refNamesP r
end

/-- "references resolve within the component map": in the schema and in every component -/
def Resolves (Γ : Comps) (s : Sch) : Prop :=
  (∀ n, n ∈ refNames s → (resolve Γ (.ref n)).isSome = true) ∧
  ∀ k c, lookup k Γ = some c → ∀ n, n ∈ refNames c → (resolve Γ (.ref n)).isSome = true

/-! ### exclusion classes -/

-- finding #19: `null` meets a position whose schema is a reference or was produced by cycle cutting
mutual
def nilAtCycB (Γ : Comps) : Sch → J → Bool
  | s, .null => (match s with | .ref _ => true | .node _ _ _ _ _ _ _ _ cyc => cyc)
  | s, .arr xs => (match resolve Γ s with
      | some (.node _ _ _ _ _ (some it) _ _ _) => nilAtCycItems Γ it xs
      | _ => false)
  | s, .obj kvs => (match resolve Γ s with
      | some (.node _ _ _ _ _ _ props addl _) => nilAtCycProps Γ props addl kvs
      | _ => false)
  | _, _ => false
def nilAtCycItems (Γ : Comps) : Sch → List J → Bool
  | _, [] => false
  | s, x :: xs => nilAtCycB Γ s x || nilAtCycItems Γ s xs
def nilAtCycProps (Γ : Comps) : List (String × Sch) → Option Sch → List (String × J) → Bool
  | _, _, [] => false
  | p, ad, (k, x) :: r =>
    (match lookup k p with
     | some s => nilAtCycB Γ s x
     | none => (match ad with | none => false | some s => nilAtCycB Γ s x)) || nilAtCycProps Γ p ad r
end
def NilAtCycle (Γ : Comps) (s : Sch) (j : J) : Prop := nilAtCycB Γ s j = true
instance : Decidable (NilAtCycle Γ s j) := by unfold NilAtCycle; exact inferInstance

def dupNames : List String → Bool
  | [] => false
  | k :: r => r.contains k || dupNames r

/-- finding #32 on one struct: a discovered field carries `,string` and is of a kind it applies to -/
def quotedIn (cs : List Cand) : Bool := cs.any (fun c => c.quoted && quotable c.ty)
/-- the names under which a field can appear: its JSON name, and its `yaml` tag (a property name under
    UseAllExportedFields) -/
def candNames : List Cand → List String
  | [] => []
  | c :: r => (match c.yaml with | some y => [c.name, y] | none => [c.name]) ++ candNames r
/-- finding on one struct: two discovered fields share a name (encoding/json resolves the conflict by depth and
    tags, the generator by "last one in name order wins") -/
def dupIn (cs : List Cand) : Bool := dupNames (candNames cs)

mutual
def hered (bad : List Cand → Bool) : GoType → Bool
  | .ptr t => hered bad t
  | .slice t => hered bad t
  | .map t => hered bad t
  | .defd _ t => hered bad t
  | .array _ t => hered bad t
  | .struct fs => bad (flat fs) || heredFs bad fs
  | _ => false
def heredFs (bad : List Cand → Bool) : Fields → Bool
  | [] => false
  | (_, t) :: r => hered bad t || heredFs bad r
end
def heredAll (bad : List Cand → Bool) (Δ : Decls) (t : GoType) : Bool :=
  hered bad t || Δ.any (fun d => bad (flat d.2) || heredFs bad d.2)

def HasQuoted (Δ : Decls) (t : GoType) : Prop := heredAll quotedIn Δ t = true
def DupNames (Δ : Decls) (t : GoType) : Prop := heredAll dupIn Δ t = true
instance : Decidable (HasQuoted Δ t) := by unfold HasQuoted; exact inferInstance
instance : Decidable (DupNames Δ t) := by unfold DupNames; exact inferInstance

/-- finding: a registered component name for which the export loop finds no schema with properties (custom type
    names whose struct is stored under its plain Go name; an exported struct without properties) -/
def danglingB (σ : St) : Bool := σ.comps.any (fun n => (candidatesFor σ n).isEmpty)
/-- finding: a registered component name may be filled with the schema of ANOTHER type (a cycle reference created in
    the field loop of a different struct under ExportComponentSchemas; anonymous structs, which all share the name "";
    custom names that collide with plain names) -/
def wrongCandB (o : Opts) (σ : St) : Bool :=
  σ.anon || σ.refs.any (fun p => σ.comps.contains p.1 && hasProps p.2.2 && (p.2.1 == "" || typeName o p.2.1 != p.1))
def Dangling (σ : St) : Prop := danglingB σ = true
def WrongComponent (o : Opts) (σ : St) : Prop := wrongCandB o σ = true
instance : Decidable (Dangling σ) := by unfold Dangling; exact inferInstance
instance : Decidable (WrongComponent o σ) := by unfold WrongComponent; exact inferInstance

end KinModel.Gen3
