/-
C05 — the parameter part of `openapi3filter.ValidateRequest` (validate_request.go): which declared parameters of a
route are decoded and checked for one request, in which order, under which options, and what a *sequence* of calls
on one loaded document does to that document (nothing).

Model side (`requestErrors`, `validateRequestParams`, `runCalls`): the two loops of ValidateRequest branch by branch —
loop 1 over `route.PathItem.Parameters` with its two `continue` guards (ExcludeRequestQueryParams ∧ in = query;
`operationParameters.GetByInAndName(parameter.In, parameter.Name) != nil`), loop 2 over `operation.Parameters` with its
one guard, the MultiError switch (first error returned / all errors collected) and the document threaded through a list
of calls as explicit state.

Specification side (`effective`, `specFailures`, `SpecAccepts`): OpenAPI 3.0.3 §4.7.9 / §4.7.10 — the parameters that
apply to an operation are the operation's own plus those of the path item that the operation does not redeclare (a
parameter is identified by location and name); a request is accepted exactly when every applicable parameter is
(`validateSpec`); a loaded document is a value: validating a request does not change it.
-/
import KinModel.Style

namespace KinModel.Style

/-- the whole request, all parameters at once (`Req` is the view of one parameter) -/
structure FullReq where
  /-- RequestValidationInput.PathParams -/
  pathParams : List (Str × Str) := []
  /-- the parsed query multimap, distinct keys -/
  query : List (Str × List Str) := []
  /-- request headers by canonical name -/
  headers : List (Str × List Str) := []
  /-- cookies by name (first one wins, `http.Request.Cookie`) -/
  cookies : List (Str × Str) := []
  deriving DecidableEq, Repr

/-- what the request carries for the parameter `p` -/
def reqFor (p : Param) (fr : FullReq) : Req :=
  { path := fr.pathParams.lookup p.name,
    query := fr.query,
    header := fr.headers.lookup p.name,
    cookie := fr.cookies.lookup p.name,
    pathOthers := !fr.pathParams.isEmpty }

/-- a route of a loaded document, as far as parameters go: `route.PathItem.Parameters`, `route.Operation.Parameters` -/
structure Doc where
  pathItem : List Param
  operation : List Param
  deriving DecidableEq, Repr

/-- the two fields of `openapi3filter.Options` the parameter loops read -/
structure CallOpts where
  excludeQuery : Bool
  multi : Bool
  deriving DecidableEq, Repr

/-- `Parameters.GetByInAndName(in, name) != nil` -/
def declares (ps : List Param) (loc : Loc) (name : Str) : Bool :=
  ps.any (fun q => q.cell.loc == loc && q.name == name)

/-- the ExcludeRequestQueryParams guard (both loops) -/
def excluded (o : CallOpts) (p : Param) : Bool := o.excludeQuery && p.cell.loc == .query

/-- loop 1 reaches ValidateParameter for `p` -/
def pathItemKept (o : CallOpts) (ops : List Param) (p : Param) : Bool :=
  !excluded o p && !declares ops p.cell.loc p.name

/-- loop 2 reaches ValidateParameter for `p` -/
def operationKept (o : CallOpts) (p : Param) : Bool := !excluded o p

/-- one failed parameter: location, name, error kind -/
abbrev PErr := Loc × Str × Verdict

def errOf (val : Param → Req → Verdict) (fr : FullReq) (p : Param) : Option PErr :=
  let v := val p (reqFor p fr)
  if v = .accept then none else some (p.cell.loc, p.name, v)

/-- the parameters ValidateParameter is called for, in the order of the code: loop 1 then loop 2 -/
def visited (d : Doc) (o : CallOpts) : List Param :=
  d.pathItem.filter (pathItemKept o d.operation) ++ d.operation.filter (operationKept o)

/-- the errors both loops produce when none of them returns early (`options.MultiError`) -/
def requestErrors (val : Param → Req → Verdict) (d : Doc) (o : CallOpts) (fr : FullReq) : List PErr :=
  (visited d o).filterMap (errOf val fr)

/-- result of the parameter part of one ValidateRequest call -/
inductive ROut
  | ok
  /-- `return err` of the first failing parameter -/
  | first (e : PErr)
  /-- the MultiError -/
  | multi (es : List PErr)
  deriving DecidableEq, Repr

def outOf (o : CallOpts) : List PErr → ROut
  | [] => .ok
  | e :: es => if o.multi then .multi (e :: es) else .first e

/-- **model of the code**: the parameter part of ValidateRequest -/
def validateRequestParams (d : Doc) (o : CallOpts) (fr : FullReq) : ROut :=
  outOf o (requestErrors validateParameter d o fr)

/-- one call on a loaded document: the document afterwards and the result. The code only reads
`route.PathItem.Parameters` and `operation.Parameters`. -/
def stepCall (d : Doc) (c : CallOpts × FullReq) : Doc × ROut := (d, validateRequestParams d c.1 c.2)

/-- a sequence of calls on one loaded document, the document threaded through -/
def runCalls : Doc → List (CallOpts × FullReq) → Doc × List ROut
  | d, [] => (d, [])
  | d, c :: cs => ((runCalls (stepCall d c).1 cs).1, (stepCall d c).2 :: (runCalls (stepCall d c).1 cs).2)

/-! ## specification -/

/-- the parameters that apply to the operation: its own, plus the path item's that it does not redeclare -/
def effective (d : Doc) : List Param :=
  d.operation ++ d.pathItem.filter (fun p => !declares d.operation p.cell.loc p.name)

/-- the applicable parameters the request fails (ExcludeRequestQueryParams takes the query parameters out) -/
def specFailures (d : Doc) (o : CallOpts) (fr : FullReq) : List PErr :=
  ((effective d).filter (fun p => !excluded o p)).filterMap (errOf validateSpec fr)

/-- the request is acceptable: every applicable parameter that is not excluded is -/
def SpecAccepts (d : Doc) (o : CallOpts) (fr : FullReq) : Prop :=
  ∀ p ∈ effective d, excluded o p = true ∨ validateSpec p (reqFor p fr) = .accept

def specAcceptsB (d : Doc) (o : CallOpts) (fr : FullReq) : Bool :=
  (effective d).all (fun p => excluded o p || validateSpec p (reqFor p fr) == .accept)

theorem specAcceptsB_iff (d : Doc) (o : CallOpts) (fr : FullReq) : specAcceptsB d o fr = true ↔ SpecAccepts d o fr := by
  simp [specAcceptsB, SpecAccepts]

/-- a sequence of calls, by the specification: every call sees the document as loaded -/
def specCalls (d : Doc) (cs : List (CallOpts × FullReq)) : List (List PErr) :=
  cs.map (fun c => specFailures d c.1 c.2)

end KinModel.Style
