/-
The body-decoder registry of openapi3filter as the source builds it (regenerated table BodyDecoders), in the shape
the model of ValidateResponse takes it: media type ↦ name of the registered decoder function.
-/
import KinModel.Response
import KinModel.Gen.BodyDecoders
namespace KinModel.Response

def regOfRows : List KinModel.Gen.BodyDecoderRow → List (String × String)
  | [] => []
  | .reg k d :: r => (k, d) :: regOfRows r
  | .unrecognised _ :: r => regOfRows r

/-- the registry after the package's `init` (a later registration of the same media type replaces an earlier one:
the rows are looked up last to first) -/
def genReg : List (String × String) := (regOfRows KinModel.Gen.bodyDecoders).reverse

end KinModel.Response
