/-
C10 — two small regenerated tables about `openapi3/schema.go` (written by `go/cmd/extract/c10schema.go`):

* `SubSchemaFields`: the field paths `Schema.hasSubSchemas` tests, the field paths through which `Schema.IsEmpty`
  calls itself, and every other caller of `IsEmpty` with whether it stands behind `!x.hasSubSchemas() &&`.
  `IsEmpty` has no visited set: on a reference cycle through any of its fields it does not terminate
  (`Recursion.isEmpty_diverges`, `isEmpty_addl_diverges`). The model's `visit` never evaluates it on a schema with
  sub-schemas; that is true of the code iff every field `IsEmpty` descends through is tested by `hasSubSchemas`
  and every caller is guarded.
* `SchemaErrorSites`: every composite literal of `SchemaError` with its `SchemaField` and whether it sets `Schema`.
  `convertSchemaError` dereferences `innerErr.Schema` of an error whose field is "enum".
-/
namespace KinModel.SchemaSites

inductive FieldRow
  | field (fn path : String)
  | caller (fn : String) (guarded : Bool)
  | unrecognised (what : String)
  deriving Repr

def pathsOf (fn : String) (rows : List FieldRow) : List String :=
  rows.filterMap fun | .field f p => if f == fn then some p else none | _ => none

/-- every field `IsEmpty` recurses through makes `hasSubSchemas` true, every other caller of `IsEmpty` is behind
    `!hasSubSchemas() &&`, both functions were found and read -/
def isEmptyGuarded (rows : List FieldRow) : Bool :=
  rows.all (fun | .unrecognised _ => false | .caller _ g => g | .field .. => true) &&
  (pathsOf "IsEmpty" rows).all (fun p => (pathsOf "hasSubSchemas" rows).contains p) &&
  !(pathsOf "IsEmpty" rows).isEmpty && !(pathsOf "hasSubSchemas" rows).isEmpty &&
  rows.any (fun | .caller .. => true | _ => false)

inductive ErrRow
  | lit (file fn field : String) (schemaSet : Bool)
  deriving Repr

/-- a literal that `convertSchemaError` may take for an enum error: its field is "enum" or could not be read -/
def ErrRow.enumLike : ErrRow → Bool
  | .lit _ _ f _ => f == "enum" || f == "?"

def ErrRow.schemaSet : ErrRow → Bool
  | .lit _ _ _ s => s

def enumErrorsCarrySchema (rows : List ErrRow) : Bool :=
  rows.all (fun r => !r.enumLike || r.schemaSet) && rows.any (·.enumLike)

end KinModel.SchemaSites
