/-
Model of request-body validation (property C06).

Code modelled, branch by branch:
  * openapi3/content.go            `Content.Get`                         → `contentGet` (= `runSteps contentGetProgram`,
                                                                            the step program regenerated from the source)
  * openapi3filter/internal.go     `parseMediaType`                      → `base`
  * openapi3filter/req_resp_decoder.go
        `init` (decoder registry)                                        → `registry` (tied to the source by the
                                                                            generated table `Gen.bodyDecoders`)
        `decodeBody`, `JSONBodyDecoder`, `PlainBodyDecoder`, `FileBodyDecoder`, `YamlBodyDecoder`, `CsvBodyDecoder`
                                                                         → `decodeBody`, `decodeSimple`
        `UrlencodedBodyDecoder`, `decodeSchemaConstructs`, `decodeProperty`, `decodeValue`,
        `urlValuesDecoder.DecodePrimitive/DecodeArray/parseArray`, `parsePrimitive(Case)` → `decodeForm` …
        `MultipartBodyDecoder`                                           → `decodeMultipart`
  * openapi3filter/validate_request.go `ValidateRequestBody`             → `validateRequestBody` (defaults skipped) and
        `validateRequestBodyD` (with the option SkipSettingDefaults: `DefaultsSet`; the re-encoding of the body
        when a default was set no longer influences the verdict, repair 4a27f6e)
  * openapi3/schema.go `visitJSON` / `visitJSONObject` … with `VisitAsRequest()` on the schema fragment `RS`
        (type, nullable, readOnly, writeOnly, minLength, maximum, properties, required,
         additionalProperties: true|false, items, not, oneOf, anyOf, allOf, minProperties, maxProperties, default)
         → `visit` = `visitV` (own keywords, recursion over the value) over `comp` (visitNotOperation /
         visitXOFOperations, recursion over the schema): the validator WITHOUT `DefaultsSet`;
         → `visD` (recursion over the schema, the value is threaded): the validator WITH `DefaultsSet` — injection
         loop of `visitJSONObject` (`inject`, the `reqRO` guard `dfltFor`), deep copy per oneOf/anyOf member and
         re-run of the matched one, allOf members in sequence; `firesD`: whether `defaultsSet` is called
  * property declarations inside allOf/anyOf/oneOf members of a form schema (`decodeSchemaConstructs`)
        → `flatDecls`, `mergeKV`; composition keywords inside a property schema (`decodeValue`) → `decodePropC`
  * `MultipartBodyDecoder` against schemas with `allOf`                    → `partDecl`, `assemblyProps`

Specification side (written from the property text, not from the control flow): `candidates`/`firstSome`
(precedence list), `SatReq` (+ executable `satReqB`), `specFormProp(s)`/`encodeForm` (what form fields encode,
what a client writes), `specDecode`, `Accept` (+ executable `acceptB`).
Exclusion classes (known findings): `formUnparsable` (FormFieldUnparsable, #20), lifted to whole cases by
`exclFormUnparsable` (the former classes ReadOnlyNull, FormNullForMissing, NoBodyEncoder were repaired in the
repository: e80060c, 2621864, 4a27f6e; the model follows the repaired code). Where a default decides the verdict
(`defaultsNeutral` false) the request-side reading of the property text does not apply (`caseNeutral`). (The former classes ReadOnlyNull and FormNullForMissing were repaired in the repository:
e80060c, 2621864; the model follows the repaired code.)

What is abstracted (inputs of the model, produced by the trusted parsers in the correspondence run):
  `BodyIn.json`  – what `encoding/json` makes of the whole body text (none = not exactly one JSON value),
  `BodyIn.form`  – what `net/url.ParseQuery` makes of it,
  `BodyIn.parts` – what `mime`/`mime/multipart` make of it under the request's Content-Type header,
  `BodyIn.yaml`, `BodyIn.csv` – what yaml3 / `encoding/csv` make of it (likewise per multipart part),
  number texts are modelled on the decimal subset of `strconv` ([+-]digits, [+-]digits.5) – generators stay inside.
-/
namespace KinModel.Body

abbrev Str := List Char

def lookup {α : Type} (k : Str) : List (Str × α) → Option α
  | [] => none
  | (k', v) :: r => if k = k' then some v else lookup k r

def keys {α : Type} (l : List (Str × α)) : List Str := l.map (·.1)

/-! ### Media-type selection (`Content.Get`) -/

/-- text before the first ';' (`strings.IndexByte(mime, ';')`, `parseMediaType`) -/
def base (mime : Str) : Str := mime.takeWhile (· ≠ ';')

/-- text before the first '/', if there is one -/
def majorType : Str → Option Str
  | [] => none
  | c :: cs => if c = '/' then some [] else (majorType cs).map (c :: ·)

def star : Str := "*/*".toList
def slashStar : Str := "/*".toList

/-- openapi3.Content.Get, branch by branch -/
def contentGet {α : Type} (c : List (Str × α)) (mime : Str) : Option α :=
  if mime = [] then lookup star c else
  match lookup mime c with
  | some v => some v
  | none =>
    match lookup (base mime) c with
    | some v => some v
    | none =>
      match majorType (base mime) with
      | none => none
      | some t =>
        match lookup (t ++ slashStar) c with
        | some v => some v
        | none => lookup star c

/-! #### the matching code as a step program (tied to the source by the regenerated table `Gen.MediaTypeMatch`) -/

/-- the statement shapes of `Content.Get` / `parseMediaType` (see go/cmd/extract/mediatypematch.go) -/
inductive Step
  | emptyRet (key : Str)                    -- if mime == "" { return content[key] }
  | tryMime                                 -- if v := content[mime]; v != nil { return v }
  | cutFirst (c : Char)                     -- i := IndexByte(mime, c); if i < 0 { i = len(mime) }; mime = mime[:i]
  | cutFirstOrNil (c : Char) (suffix : Str) -- i = IndexByte(mime, c); if i < 0 { return nil }; mime = mime[:i] + suffix
  | retKey (key : Str)                      -- return content[key]
  | prefixBefore (c : Char)                 -- (parseMediaType) the text before the first c, all of it if there is none
  deriving DecidableEq, Repr

/-- `m[:strings.IndexByte(m, c)]`, all of `m` when `c` does not occur -/
def cutAt (c : Char) (m : Str) : Str := m.takeWhile (· ≠ c)

/-- the interpreter of the step program of `Content.Get` -/
def runSteps {α : Type} (cnt : List (Str × α)) : List Step → Str → Option α
  | [], _ => none
  | .emptyRet k :: r, m => if m = [] then lookup k cnt else runSteps cnt r m
  | .tryMime :: r, m => (match lookup m cnt with | some v => some v | none => runSteps cnt r m)
  | .cutFirst c :: r, m => runSteps cnt r (cutAt c m)
  | .cutFirstOrNil c sfx :: r, m => if m.contains c then runSteps cnt r (cutAt c m ++ sfx) else none
  | .retKey k :: _, _ => lookup k cnt
  | .prefixBefore _ :: r, m => runSteps cnt r m

/-- the program `contentGet` was written from; `Props/C06.lean` proves it equal to the regenerated table and
`runSteps … contentGetProgram = contentGet` for every content map and header -/
def contentGetProgram : List Step :=
  [.emptyRet star, .tryMime, .cutFirst ';', .tryMime, .cutFirstOrNil '/' slashStar, .tryMime, .retKey star]

/-- `parseMediaType` as a program: `base` is its meaning -/
def parseMediaTypeProgram : List Step := [.prefixBefore ';']

/-- the documented precedence as a candidate list (spec) -/
def candidates (mime : Str) : List Str :=
  if mime = [] then [star] else
  match majorType (base mime) with
  | none => [mime, base mime]
  | some t => [mime, base mime, t ++ slashStar, star]

/-- the documented precedence, key by key (independent of any search order): how specifically a declared key `k`
matches the header text — 0 the exact text, 1 the text without parameters, 2 `type/*`, 3 `*/*`; `none`: no match.
An empty header is matched by `*/*` only; a text without '/' is not matched by wildcards. -/
def rank (mime k : Str) : Option Nat :=
  if mime = [] then (if k = star then some 3 else none)
  else if k = mime then some 0
  else if k = base mime then some 1
  else match majorType (base mime) with
    | none => none
    | some t => if k = t ++ slashStar then some 2 else if k = star then some 3 else none

def firstSome {α : Type} (c : List (Str × α)) : List Str → Option α
  | [] => none
  | k :: ks => match lookup k c with | some v => some v | none => firstSome c ks

/-! ### Values and the schema fragment -/

inductive Ty | string | integer | number | boolean | object | array
  deriving DecidableEq, Repr

/-- JSON values; numbers are integers `int n` or `half n` = n + 1/2 (one non-integral family is enough to
separate `integer` from `number`). Object keys are distinct (Go map). -/
inductive V
  | null
  | bool (b : Bool)
  | int (n : Int)
  | half (n : Int)
  | str (s : Str)
  | arr (xs : List V)
  | obj (kvs : List (Str × V))
  deriving Repr

/-- further keywords of a schema, kept in one record: `default` (none: no default, or `default: null`, which Go
reads as a nil `Default`), `minProperties` (0 = absent), `maxProperties` -/
structure Extra where
  dflt : Option V := none
  minProps : Nat := 0
  maxProps : Option Nat := none
  deriving Repr

/-- the schema fragment: own keywords plus the composition keywords `not`, `oneOf`, `anyOf`, `allOf`, and the
`default` keyword (a value; it plays no role in satisfaction, only in `visD` below) -/
inductive RS
  | mk (ty : Option Ty) (nullable ro wo : Bool) (minLen : Nat) (max : Option Int)
       (props : List (Str × RS)) (required : List Str) (addl : Option Bool) (items : Option RS)
       (nt : Option RS) (oneOf anyOf allOf : List RS) (dflt : Extra)
  deriving Repr

namespace RS
def ty : RS → Option Ty | mk t _ _ _ _ _ _ _ _ _ _ _ _ _ _ => t
def nullable : RS → Bool | mk _ n _ _ _ _ _ _ _ _ _ _ _ _ _ => n
def ro : RS → Bool | mk _ _ r _ _ _ _ _ _ _ _ _ _ _ _ => r
def wo : RS → Bool | mk _ _ _ w _ _ _ _ _ _ _ _ _ _ _ => w
def minLen : RS → Nat | mk _ _ _ _ m _ _ _ _ _ _ _ _ _ _ => m
def max : RS → Option Int | mk _ _ _ _ _ m _ _ _ _ _ _ _ _ _ => m
def props : RS → List (Str × RS) | mk _ _ _ _ _ _ p _ _ _ _ _ _ _ _ => p
def required : RS → List Str | mk _ _ _ _ _ _ _ r _ _ _ _ _ _ _ => r
def addl : RS → Option Bool | mk _ _ _ _ _ _ _ _ a _ _ _ _ _ _ => a
def items : RS → Option RS | mk _ _ _ _ _ _ _ _ _ i _ _ _ _ _ => i
def nt : RS → Option RS | mk _ _ _ _ _ _ _ _ _ _ n _ _ _ _ => n
def oneOf : RS → List RS | mk _ _ _ _ _ _ _ _ _ _ _ o _ _ _ => o
def anyOf : RS → List RS | mk _ _ _ _ _ _ _ _ _ _ _ _ a _ _ => a
def allOf : RS → List RS | mk _ _ _ _ _ _ _ _ _ _ _ _ _ a _ => a
def extra : RS → Extra | mk _ _ _ _ _ _ _ _ _ _ _ _ _ _ d => d
/-- the `default` keyword (`none`: no default or `default: null`, which Go reads as a nil `Default`) -/
def dflt (s : RS) : Option V := s.extra.dflt
def minProps (s : RS) : Nat := s.extra.minProps
def maxProps (s : RS) : Option Nat := s.extra.maxProps
/-- a schema without composition keywords -/
def leaf (ty : Option Ty) (nullable ro wo : Bool) (minLen : Nat) (max : Option Int)
    (props : List (Str × RS)) (required : List Str) (addl : Option Bool) (items : Option RS) : RS :=
  mk ty nullable ro wo minLen max props required addl items none [] [] [] {}
end RS

instance : Inhabited V := ⟨.null⟩
instance : Inhabited RS := ⟨RS.leaf none false false false 0 none [] [] none none⟩

def V.isNull : V → Bool | .null => true | _ => false

/-- `Types.Permits(t)`: no type ⇒ everything -/
def permits (ty : Option Ty) (t : Ty) : Bool :=
  match ty with | none => true | some t' => t' == t

/-- `Types.Is(t)` -/
def tyIs (ty : Option Ty) (t : Ty) : Bool :=
  match ty with | none => false | some t' => t' == t

/-- the type part of `visitJSONNumber`: `integer` alone demands an integral value, `number` takes all -/
def numTypeOK (ty : Option Ty) (integral : Bool) : Bool :=
  if permits ty .integer && !permits ty .number then integral
  else permits ty .integer || permits ty .number

/-- `maximum` on `int n` / `half n` (n + 1/2 ≤ m ⇔ n < m) -/
def maxOK (mx : Option Int) (n : Int) (isHalf : Bool) : Bool :=
  match mx with
  | none => true
  | some m => if isHalf then decide (n < m) else decide (n ≤ m)

def isRO (p : Option RS) : Bool := match p with | some s => s.ro | none => false

/-- the request-side pre-loop of `visitJSONObject`: a readOnly property whose key is **present** in the value
(`_, present := value[propName]`; since repair e80060c also when its value is null) is an error unless
read-only validation is disabled. `ks` = the keys of the value. -/
def roLoopOK (exro : Bool) (props : List (Str × RS)) (ks : List Str) : Bool :=
  (keys props).all fun k =>      -- `for _, propName := range sortedNames { propSchema := schema.Properties[propName] …`
    !(isRO (lookup k props) && !exro) || !ks.contains k

/-- the `required` loop: a missing key is an error unless the property is declared readOnly *in this schema*
(request side; this exemption does not look at the exclusion option) -/
def requiredOK (s : RS) (ks : List Str) : Bool :=
  s.required.all fun k => ks.contains k || isRO (lookup k s.props)

/-- one of `oneOf` / `anyOf` / `allOf` is present (`visitedOneOf || visitedAnyOf || visitedAllOf`) -/
def hasComp (s : RS) : Bool := !(s.oneOf.isEmpty && s.anyOf.isEmpty && s.allOf.isEmpty)

/-- `!hasSubSchemas() && IsEmpty()` on the fragment -/
def isEmptyLeaf (s : RS) : Bool :=
  s.ty.isNone && !s.nullable && !s.ro && !s.wo && s.minLen == 0 && s.max.isNone &&
  s.required.isEmpty && s.addl != some false && s.props.isEmpty && s.items.isNone &&
  s.nt.isNone && s.oneOf.isEmpty && s.anyOf.isEmpty && s.allOf.isEmpty && s.minProps == 0 && s.maxProps.isNone

/-! #### `visitJSON`: composition layer (recursion over the schema) and own keywords (recursion over the value)

`visitJSON` of one schema on one value: null pre-check → shortcut for empty schemas → `not` → `oneOf` (exactly
one member accepts) → `anyOf` (some member accepts) → `allOf` (every member accepts) → "null after a
composition needs no own keywords" → own keywords (type-specific visitor). Members are visited with the same
settings (request mode, exclusion option): that is why `own` is one function for the whole layer. -/

mutual
/-- `visitJSON` of schema and sub-schemas on ONE value: `isNull` tells whether the value is null, `own s` is the
verdict of the type-specific visitor of `s` on the value (`visitJSONNull` for null: `s.nullable`) -/
def comp (isNull : Bool) (own : RS → Bool) : RS → Bool
  | .mk ty nullable ro wo ml mx props req addl items nt oneOf anyOf allOf dflt =>
    if isNull && nullable then true
    else if isEmptyLeaf (.mk ty nullable ro wo ml mx props req addl items nt oneOf anyOf allOf dflt) then !isNull
    else compNot isNull own nt &&
         (oneOf.isEmpty || compCount isNull own oneOf == 1) &&
         (anyOf.isEmpty || compAny isNull own anyOf) &&
         compAll isNull own allOf &&
         (if isNull && !(oneOf.isEmpty && anyOf.isEmpty && allOf.isEmpty) then true
          else own (.mk ty nullable ro wo ml mx props req addl items nt oneOf anyOf allOf dflt))
/-- `visitNotOperation` -/
def compNot (isNull : Bool) (own : RS → Bool) : Option RS → Bool
  | none => true
  | some n => !comp isNull own n
/-- number of accepting `oneOf` members -/
def compCount (isNull : Bool) (own : RS → Bool) : List RS → Nat
  | [] => 0
  | x :: r => (if comp isNull own x then 1 else 0) + compCount isNull own r
def compAny (isNull : Bool) (own : RS → Bool) : List RS → Bool
  | [] => false
  | x :: r => comp isNull own x || compAny isNull own r
def compAll (isNull : Bool) (own : RS → Bool) : List RS → Bool
  | [] => true
  | x :: r => comp isNull own x && compAll isNull own r
end

/-! own keywords per kind of value; `fs` are the visitors of the value's children (functions of the schema
they are visited with) -/
def ownBool (s : RS) : Bool := permits s.ty .boolean
def ownInt (n : Int) (s : RS) : Bool := numTypeOK s.ty true && maxOK s.max n false
def ownHalf (n : Int) (s : RS) : Bool := numTypeOK s.ty false && maxOK s.max n true
def ownStr (t : Str) (s : RS) : Bool := permits s.ty .string && (s.minLen == 0 || decide (s.minLen ≤ t.length))
def ownArr (fs : List (RS → Bool)) (s : RS) : Bool :=
  permits s.ty .array && (match s.items with | none => true | some it => fs.all fun f => f it)
/-- the loop over the value's keys: declared property → its schema; else additionalProperties -/
def fieldsOK (s : RS) (fs : List (Str × (RS → Bool))) : Bool :=
  fs.all fun kf => match lookup kf.1 s.props with | some p => kf.2 p | none => s.addl != some false
/-- `minProperties` / `maxProperties` against the number of members (`v != 0 && len < v`, `v != nil && len > *v`) -/
def countOK (s : RS) (n : Nat) : Bool :=
  decide (s.minProps ≤ n) && (match s.maxProps with | none => true | some m => decide (n ≤ m))
def ownObj (exro : Bool) (fs : List (Str × (RS → Bool))) (s : RS) : Bool :=
  permits s.ty .object && roLoopOK exro s.props (keys fs) && countOK s fs.length && fieldsOK s fs &&
  requiredOK s (keys fs)

mutual
/-- `Schema.visitJSON` with `VisitAsRequest()`; `exro` = `DisableReadOnlyValidation()`. `true` = nil error. -/
def visitV (exro : Bool) : V → RS → Bool
  | .null => fun s => comp true (fun s' => s'.nullable) s
  | .bool _ => fun s => comp false ownBool s
  | .int n => fun s => comp false (ownInt n) s
  | .half n => fun s => comp false (ownHalf n) s
  | .str t => fun s => comp false (ownStr t) s
  | .arr xs => fun s => comp false (ownArr (visitItems exro xs)) s
  | .obj kvs => fun s => comp false (ownObj exro (visitFields exro kvs)) s
def visitItems (exro : Bool) : List V → List (RS → Bool)
  | [] => []
  | v :: r => visitV exro v :: visitItems exro r
def visitFields (exro : Bool) : List (Str × V) → List (Str × (RS → Bool))
  | [] => []
  | (k, v) :: r => (k, visitV exro v) :: visitFields exro r
end

def visit (exro : Bool) (s : RS) (v : V) : Bool := visitV exro v s

mutual
/-- the schema with every `writeOnly` flag cleared (used to state that write-only plays no role in requests) -/
def RS.clearWO : RS → RS
  | .mk t n r _ ml mx props req a items nt oneOf anyOf allOf dflt =>
    .mk t n r false ml mx (clearWOProps props) req a (clearWOOpt items) (clearWOOpt nt)
      (clearWOList oneOf) (clearWOList anyOf) (clearWOList allOf) dflt
def clearWOProps : List (Str × RS) → List (Str × RS)
  | [] => []
  | (k, p) :: r => (k, p.clearWO) :: clearWOProps r
def clearWOOpt : Option RS → Option RS
  | none => none
  | some s => some s.clearWO
def clearWOList : List RS → List RS
  | [] => []
  | s :: r => s.clearWO :: clearWOList r
end

/-! ### Request-side satisfaction (spec; written from the property text) -/

mutual
/-- composition clauses of the spec on ONE value: `Own s` = the value satisfies the own keywords of `s`.
A non-null value satisfies `s` iff it satisfies the own keywords, is rejected by `not`, is accepted by exactly
one `oneOf` member, some `anyOf` member and every `allOf` member. `null` is admitted where the schema is
nullable, or (the library's documented reading of OAS 3.0) where compositions are present and admit it. -/
def SatC (isNull : Bool) (Own : RS → Prop) : RS → Prop
  | .mk ty nullable ro wo ml mx props req addl items nt oneOf anyOf allOf dflt =>
    if isNull then
      nullable = true ∨
        ((oneOf ≠ [] ∨ anyOf ≠ [] ∨ allOf ≠ []) ∧
          SatNot isNull Own nt ∧ (oneOf = [] ∨ SatOne isNull Own oneOf) ∧ (anyOf = [] ∨ SatAny isNull Own anyOf) ∧
          SatAll isNull Own allOf)
    else
      SatNot isNull Own nt ∧ (oneOf = [] ∨ SatOne isNull Own oneOf) ∧ (anyOf = [] ∨ SatAny isNull Own anyOf) ∧
      SatAll isNull Own allOf ∧ Own (.mk ty nullable ro wo ml mx props req addl items nt oneOf anyOf allOf dflt)
def SatNot (isNull : Bool) (Own : RS → Prop) : Option RS → Prop
  | none => True
  | some n => ¬ SatC isNull Own n
def SatNone (isNull : Bool) (Own : RS → Prop) : List RS → Prop
  | [] => True
  | x :: r => ¬ SatC isNull Own x ∧ SatNone isNull Own r
/-- exactly one member is satisfied -/
def SatOne (isNull : Bool) (Own : RS → Prop) : List RS → Prop
  | [] => False
  | x :: r => (SatC isNull Own x ∧ SatNone isNull Own r) ∨ (¬ SatC isNull Own x ∧ SatOne isNull Own r)
def SatAny (isNull : Bool) (Own : RS → Prop) : List RS → Prop
  | [] => False
  | x :: r => SatC isNull Own x ∨ SatAny isNull Own r
def SatAll (isNull : Bool) (Own : RS → Prop) : List RS → Prop
  | [] => True
  | x :: r => SatC isNull Own x ∧ SatAll isNull Own r
end

def OwnBool (s : RS) : Prop := s.ty = none ∨ s.ty = some .boolean
def OwnInt (n : Int) (s : RS) : Prop :=
  (s.ty = none ∨ s.ty = some .integer ∨ s.ty = some .number) ∧ (∀ m, s.max = some m → n ≤ m)
def OwnHalf (n : Int) (s : RS) : Prop := (s.ty = none ∨ s.ty = some .number) ∧ (∀ m, s.max = some m → n < m)
def OwnStr (t : Str) (s : RS) : Prop := (s.ty = none ∨ s.ty = some .string) ∧ s.minLen ≤ t.length
def OwnArr (Fs : List (RS → Prop)) (s : RS) : Prop :=
  (s.ty = none ∨ s.ty = some .array) ∧ (∀ it, s.items = some it → ∀ F ∈ Fs, F it)
def FieldsSat (s : RS) (Fs : List (Str × (RS → Prop))) : Prop :=
  ∀ kF ∈ Fs, match lookup kF.1 s.props with | some p => kF.2 p | none => s.addl ≠ some false
/-- own keywords of an object schema read as a request: read-only properties must be absent (unless the
exclusion option `exro` is set) and need not be present even if required; write-only properties are ordinary -/
def OwnObj (exro : Bool) (Fs : List (Str × (RS → Prop))) (s : RS) : Prop :=
  (s.ty = none ∨ s.ty = some .object) ∧ FieldsSat s Fs ∧
  s.minProps ≤ Fs.length ∧ (∀ m, s.maxProps = some m → Fs.length ≤ m) ∧
  (∀ k ∈ s.required, k ∈ keys Fs ∨ isRO (lookup k s.props) = true) ∧
  (exro = false → ∀ k, isRO (lookup k s.props) = true → k ∉ keys Fs)

mutual
/-- `SatV exro v s`: value `v` satisfies schema `s` read as a request -/
def SatV (exro : Bool) : V → RS → Prop
  | .null => fun s => SatC true (fun _ => False) s
  | .bool _ => fun s => SatC false OwnBool s
  | .int n => fun s => SatC false (OwnInt n) s
  | .half n => fun s => SatC false (OwnHalf n) s
  | .str t => fun s => SatC false (OwnStr t) s
  | .arr xs => fun s => SatC false (OwnArr (SatItems exro xs)) s
  | .obj kvs => fun s => SatC false (OwnObj exro (SatFields exro kvs)) s
def SatItems (exro : Bool) : List V → List (RS → Prop)
  | [] => []
  | v :: r => SatV exro v :: SatItems exro r
def SatFields (exro : Bool) : List (Str × V) → List (Str × (RS → Prop))
  | [] => []
  | (k, v) :: r => (k, SatV exro v) :: SatFields exro r
end

def SatReq (exro : Bool) (s : RS) (v : V) : Prop := SatV exro v s

mutual
/-- executable twin of `SatC` (no shortcuts, clause by clause) -/
def satCB (isNull : Bool) (own : RS → Bool) : RS → Bool
  | .mk ty nullable ro wo ml mx props req addl items nt oneOf anyOf allOf dflt =>
    if isNull then
      nullable ||
        (!(oneOf.isEmpty && anyOf.isEmpty && allOf.isEmpty) &&
          satNotB isNull own nt && (oneOf.isEmpty || satCountB isNull own oneOf == 1) &&
          (anyOf.isEmpty || satAnyB isNull own anyOf) && satAllB isNull own allOf)
    else
      satNotB isNull own nt && (oneOf.isEmpty || satCountB isNull own oneOf == 1) &&
      (anyOf.isEmpty || satAnyB isNull own anyOf) && satAllB isNull own allOf &&
      own (.mk ty nullable ro wo ml mx props req addl items nt oneOf anyOf allOf dflt)
def satNotB (isNull : Bool) (own : RS → Bool) : Option RS → Bool
  | none => true
  | some n => !satCB isNull own n
def satCountB (isNull : Bool) (own : RS → Bool) : List RS → Nat
  | [] => 0
  | x :: r => (if satCB isNull own x then 1 else 0) + satCountB isNull own r
def satAnyB (isNull : Bool) (own : RS → Bool) : List RS → Bool
  | [] => false
  | x :: r => satCB isNull own x || satAnyB isNull own r
def satAllB (isNull : Bool) (own : RS → Bool) : List RS → Bool
  | [] => true
  | x :: r => satCB isNull own x && satAllB isNull own r
end

mutual
/-- executable twin of `SatV` (the oracle of the correspondence run) -/
def satVB (exro : Bool) : V → RS → Bool
  | .null => fun s => satCB true (fun _ => false) s
  | .bool _ => fun s => satCB false ownBool s
  | .int n => fun s => satCB false (ownInt n) s
  | .half n => fun s => satCB false (ownHalf n) s
  | .str t => fun s => satCB false (ownStr t) s
  | .arr xs => fun s => satCB false (ownArr (satItemsB exro xs)) s
  | .obj kvs => fun s => satCB false (ownObj exro (satFieldsB exro kvs)) s
def satItemsB (exro : Bool) : List V → List (RS → Bool)
  | [] => []
  | v :: r => satVB exro v :: satItemsB exro r
def satFieldsB (exro : Bool) : List (Str × V) → List (Str × (RS → Bool))
  | [] => []
  | (k, v) :: r => (k, satVB exro v) :: satFieldsB exro r
end

def satReqB (exro : Bool) (s : RS) (v : V) : Bool := satVB exro v s

mutual
/-- a structural measure over the composition keywords; its generated induction principle is the induction
over "schema and composition members" used by the lemmas -/
def cdepth : RS → Nat
  | .mk _ _ _ _ _ _ _ _ _ _ nt oneOf anyOf allOf _ => 1 + cdepthO nt + cdepthL oneOf + cdepthL anyOf + cdepthL allOf
def cdepthO : Option RS → Nat
  | none => 0
  | some s => cdepth s
def cdepthL : List RS → Nat
  | [] => 0
  | s :: r => cdepth s + cdepthL r
end

/-! ### `visitJSON` with `DefaultsSet` installed (`Options.SkipSettingDefaults = false`, the default of openapi3filter)

With `DefaultsSet` the validator **mutates** the decoded value while it validates it: at the head of
`visitJSONObject` every declared property whose key is absent and whose schema has a (non-nil) `default` receives a
deep copy of that default — unless the property is read-only in a request (`reqRO`); the injected value is then
visited like any other member (so a default is itself validated, and completed by its own nested defaults).
`allOf` members run on the value one after the other (each sees what the earlier ones injected, and so do the
schema's own keywords, which come last); every `oneOf` / `anyOf` member runs on its own deep copy, and the matched
member (the only one / the first one) is run again on the value itself.

`visD ds exro s v = none` — rejected; `some v'` — accepted, `v'` is the value afterwards. Structural recursion
over the schema (an injected default comes out of the schema, not out of the value). The partial mutations of a
*failing* visit are never seen: oneOf/anyOf candidates and — since repair 197d46a — the schema below `not` are
tried on a private deep copy. -/

def guardV (b : Bool) (v : V) : Option V := if b then some v else none

def setKey (k : Str) (v : V) : List (Str × V) → List (Str × V)
  | [] => [(k, v)]
  | (k', v') :: r => if k = k' then (k, v) :: r else (k', v') :: setKey k v r

/-- `reqRO := settings.asreq && propSchema.Value.ReadOnly && !settings.readOnlyValidationDisabled` -/
def reqRO (exro : Bool) (p : RS) : Bool := p.ro && !exro

/-- the default an absent property receives: none for a property that is read-only in a request
(`dflt != nil && !reqRO && !repWO`; `repWO` is false in a request) -/
def dfltFor (exro : Bool) (p : RS) : Option V := if reqRO exro p then none else p.dflt

/-- the injection loop at the head of `visitJSONObject` (`_, present := value[propName]; !present`: since repair
c740938 a key that is present with the value null is left alone) -/
def inject (exro : Bool) : List (Str × RS) → List (Str × V) → List (Str × V)
  | [], kvs => kvs
  | (k, p) :: r, kvs =>
    inject exro r (match lookup k kvs, dfltFor exro p with
                   | none, some d => kvs ++ [(k, d)]
                   | _, _ => kvs)

/-- some property receives its default (`settings.onceSettingDefaults.Do(settings.defaultsSet)` fires) -/
def injects (exro : Bool) (props : List (Str × RS)) (kvs : List (Str × V)) : Bool :=
  props.any fun kp => (lookup kp.1 kvs).isNone && (dfltFor exro kp.2).isSome

/-- the members `visitJSONObject` works on: after the injection loop when `DefaultsSet` is installed -/
def injD (ds exro : Bool) (props : List (Str × RS)) (kvs : List (Str × V)) : List (Str × V) :=
  if ds then inject exro props kvs else kvs

/-- undeclared keys need `additionalProperties` -/
def addlOKD (s : RS) (kvs : List (Str × V)) : Bool :=
  kvs.all fun kv => (lookup kv.1 s.props).isSome || s.addl != some false

/-- one declared property: visited when its key is present; the visit may complete the member -/
def propStep (k : Str) (f : V → Option V) (kvs : List (Str × V)) : Option (List (Str × V)) :=
  match lookup k kvs with
  | none => some kvs
  | some x => (f x).map fun x' => setKey k x' kvs

def mapOpt (f : V → Option V) : List V → Option (List V)
  | [] => some []
  | x :: xs => (f x).bind fun y => (mapOpt f xs).map fun ys => y :: ys

/-- `ok == 1` -/
def pickOne : List V → Option V
  | [x] => some x
  | _ => none

/-- the type-specific visitors; `fProps` / `fItems` visit the (declared, present) members / the items -/
def ownK (ds exro : Bool) (s : RS) (fProps : List (Str × V) → Option (List (Str × V)))
    (fItems : List V → Option (List V)) : V → Option V
  | .null => guardV s.nullable .null
  | .bool b => guardV (ownBool s) (.bool b)
  | .int n => guardV (ownInt n s) (.int n)
  | .half n => guardV (ownHalf n s) (.half n)
  | .str t => guardV (ownStr t s) (.str t)
  | .arr xs => if permits s.ty .array then (fItems xs).map .arr else none
  | .obj kvs =>
    if permits s.ty .object && roLoopOK exro s.props (keys (injD ds exro s.props kvs)) &&
       countOK s (injD ds exro s.props kvs).length &&
       addlOKD s (injD ds exro s.props kvs) && requiredOK s (keys (injD ds exro s.props kvs))
    then (fProps (injD ds exro s.props kvs)).map .obj else none

/-- `visitJSON` of one schema, given the visitors of its parts (same order as `comp`) -/
def compK (s : RS) (v : V) (fNot : V → Bool) (fOne fAny : V → List V) (fAll : V → Option V)
    (fOwn : V → Option V) : Option V :=
  if v.isNull && s.nullable then some v
  else if isEmptyLeaf s then (if v.isNull then none else some v)
  else if !fNot v then none
  else (if s.oneOf.isEmpty then some v else pickOne (fOne v)).bind fun v1 =>
       (if s.anyOf.isEmpty then some v1 else (fAny v1).head?).bind fun v2 =>
       (fAll v2).bind fun v3 =>
       if v3.isNull && hasComp s then some v3 else fOwn v3

mutual
def visD (ds exro : Bool) : RS → V → Option V
  | .mk ty n r w ml mx props req a items nt oneOf anyOf allOf dflt => fun v =>
    compK (.mk ty n r w ml mx props req a items nt oneOf anyOf allOf dflt) v
      (visNot ds exro nt) (visMatches ds exro oneOf) (visMatches ds exro anyOf) (visAll ds exro allOf)
      (ownK ds exro (.mk ty n r w ml mx props req a items nt oneOf anyOf allOf dflt)
        (visProps ds exro props) (visItems ds exro items))
/-- `visitNotOperation`: passes iff the schema under `not` rejects -/
def visNot (ds exro : Bool) : Option RS → V → Bool
  | none => fun _ => true
  | some x => fun v => (visD ds exro x v).isNone
/-- the results of the members that accept, each on its own deep copy -/
def visMatches (ds exro : Bool) : List RS → V → List V
  | [] => fun _ => []
  | x :: r => fun v => (visD ds exro x v).toList ++ visMatches ds exro r v
/-- `allOf`: the members run on the value one after the other -/
def visAll (ds exro : Bool) : List RS → V → Option V
  | [] => fun v => some v
  | x :: r => fun v => (visD ds exro x v).bind (visAll ds exro r)
/-- the declared properties that are present, each visited with its schema -/
def visProps (ds exro : Bool) : List (Str × RS) → List (Str × V) → Option (List (Str × V))
  | [] => fun kvs => some kvs
  | (k, p) :: r => fun kvs => (propStep k (visD ds exro p) kvs).bind (visProps ds exro r)
def visItems (ds exro : Bool) : Option RS → List V → Option (List V)
  | none => fun xs => some xs
  | some it => fun xs => mapOpt (visD ds exro it) xs
end

/-! #### does a default fire? (some injection happens on the way — on the value or on a candidate's private copy)

Used to state where `DefaultsSet` cannot matter (`no_fire_no_change`). Over-approximation by full traversal: every member of `oneOf`, the members of `anyOf` up to the first match, the
members of `allOf` as long as they pass, every declared present property and every item — whether the visit
passes or not (the deep copies are thrown away, the flag is not). -/

def firesOwn (exro : Bool) (s : RS) (fProps : List (Str × V) → Bool) (fItems : List V → Bool) : V → Bool
  | .obj kvs => permits s.ty .object && (injects exro s.props kvs || fProps (inject exro s.props kvs))
  | .arr xs => permits s.ty .array && fItems xs
  | _ => false

def firesPropStep (k : Str) (fF : V → Bool) (fV : V → Option V) (kvs : List (Str × V))
    (rest : List (Str × V) → Bool) : Bool :=
  match lookup k kvs with
  | none => rest kvs
  | some x => fF x || rest (match fV x with | some x' => setKey k x' kvs | none => kvs)

def firesAllStep (fired : Bool) (res : Option V) (rest : V → Bool) : Bool :=
  fired || (match res with | some v' => rest v' | none => false)

def firesK (s : RS) (v : V) (fNot : V → Bool) (fOne fAny : V → List V) (fAll : V → Option V)
    (gNot gOne gAny gAll gOwn : V → Bool) : Bool :=
  if v.isNull && s.nullable then false
  else if isEmptyLeaf s then false
  else gNot v || (fNot v &&
    (gOne v ||
      match (if s.oneOf.isEmpty then some v else pickOne (fOne v)) with
      | none => false
      | some v1 => gAny v1 ||
        match (if s.anyOf.isEmpty then some v1 else (fAny v1).head?) with
        | none => false
        | some v2 => gAll v2 ||
          match fAll v2 with
          | none => false
          | some v3 => if v3.isNull && hasComp s then false else gOwn v3))

mutual
def firesD (exro : Bool) : RS → V → Bool
  | .mk ty n r w ml mx props req a items nt oneOf anyOf allOf dflt => fun v =>
    firesK (.mk ty n r w ml mx props req a items nt oneOf anyOf allOf dflt) v
      (visNot true exro nt) (visMatches true exro oneOf) (visMatches true exro anyOf) (visAll true exro allOf)
      (firesNot exro nt) (firesAny exro oneOf) (firesUpto exro anyOf) (firesAll exro allOf)
      (firesOwn exro (.mk ty n r w ml mx props req a items nt oneOf anyOf allOf dflt)
        (firesProps exro props) (firesItems exro items))
def firesNot (exro : Bool) : Option RS → V → Bool
  | none => fun _ => false
  | some x => fun v => firesD exro x v
def firesAny (exro : Bool) : List RS → V → Bool
  | [] => fun _ => false
  | x :: r => fun v => firesD exro x v || firesAny exro r v
def firesUpto (exro : Bool) : List RS → V → Bool
  | [] => fun _ => false
  | x :: r => fun v => firesD exro x v || ((visD true exro x v).isNone && firesUpto exro r v)
def firesAll (exro : Bool) : List RS → V → Bool
  | [] => fun _ => false
  | x :: r => fun v => firesAllStep (firesD exro x v) (visD true exro x v) (firesAll exro r)
def firesProps (exro : Bool) : List (Str × RS) → List (Str × V) → Bool
  | [] => fun _ => false
  | (k, p) :: r => fun kvs => firesPropStep k (firesD exro p) (visD true exro p) kvs (firesProps exro r)
def firesItems (exro : Bool) : Option RS → List V → Bool
  | none => fun _ => false
  | some it => fun xs => xs.any (firesD exro it)
end

/-! #### well-formedness (keys of Go maps are distinct) and syntactic classes of schemas -/

def nodupKeys : List Str → Bool
  | [] => true
  | k :: r => !r.contains k && nodupKeys r

mutual
/-- object keys are distinct at every depth -/
def V.wf : V → Bool
  | .arr xs => V.wfL xs
  | .obj kvs => nodupKeys (keys kvs) && V.wfKV kvs
  | _ => true
def V.wfL : List V → Bool
  | [] => true
  | x :: r => x.wf && V.wfL r
def V.wfKV : List (Str × V) → Bool
  | [] => true
  | (_, x) :: r => x.wf && V.wfKV r
end

def wfDflt : Option V → Bool
  | none => true
  | some d => d.wf

mutual
/-- property names are distinct in every `properties` map, defaults are well-formed values -/
def RS.wf : RS → Bool
  | .mk _ _ _ _ _ _ props _ _ items nt oneOf anyOf allOf dflt =>
    nodupKeys (keys props) && wfProps props && wfOpt items && wfOpt nt && wfList oneOf && wfList anyOf &&
    wfList allOf && wfDflt dflt.dflt
def wfProps : List (Str × RS) → Bool
  | [] => true
  | (_, p) :: r => p.wf && wfProps r
def wfOpt : Option RS → Bool
  | none => true
  | some s => s.wf
def wfList : List RS → Bool
  | [] => true
  | s :: r => s.wf && wfList r
end

mutual
/-- a `default` occurs somewhere in the schema -/
def hasDflt : RS → Bool
  | .mk _ _ _ _ _ _ props _ _ items nt oneOf anyOf allOf dflt =>
    dflt.dflt.isSome || hasDfltP props || hasDfltO items || hasDfltO nt || hasDfltL oneOf || hasDfltL anyOf || hasDfltL allOf
def hasDfltP : List (Str × RS) → Bool
  | [] => false
  | (_, p) :: r => hasDflt p || hasDfltP r
def hasDfltO : Option RS → Bool
  | none => false
  | some s => hasDflt s
def hasDfltL : List RS → Bool
  | [] => false
  | s :: r => hasDflt s || hasDfltL r
end

mutual
/-- no composition keyword anywhere in the schema -/
def compFree : RS → Bool
  | .mk _ _ _ _ _ _ props _ _ items nt oneOf anyOf allOf _ =>
    nt.isNone && oneOf.isEmpty && anyOf.isEmpty && allOf.isEmpty && compFreeP props && compFreeO items
def compFreeP : List (Str × RS) → Bool
  | [] => true
  | (_, p) :: r => compFree p && compFreeP r
def compFreeO : Option RS → Bool
  | none => true
  | some s => compFree s
end

/-- the properties of one object schema that can receive a default: the default is accepted by the property's own
schema (read as a request, itself completed), the property is not listed in `required`, and the object schema does
not count its members (`counted`: minProperties / maxProperties present) -/
def dfltsHarmlessHere (exro : Bool) (props : List (Str × RS)) (required : List Str) (counted : Bool)
    (accepts : RS → V → Bool) : Bool :=
  props.all fun kp =>
    match dfltFor exro kp.2 with
    | none => true
    | some d => accepts kp.2 d && !required.contains kp.1 && !counted

mutual
/-- **defaults cannot change the verdict** (composition-free schemas): every default that can be injected, at any
depth, conforms to its own schema and belongs to a property that is not required -/
def dfltsHarmless (exro : Bool) : RS → Bool
  | .mk _ _ _ _ _ _ props req _ items _ _ _ _ dflt =>
    dfltsHarmlessHere exro props req (dflt.minProps != 0 || dflt.maxProps.isSome)
      (fun p d => (visD true exro p d).isSome) &&
    dfltsHarmlessP exro props && dfltsHarmlessO exro items
def dfltsHarmlessP (exro : Bool) : List (Str × RS) → Bool
  | [] => true
  | (_, p) :: r => dfltsHarmless exro p && dfltsHarmlessP exro r
def dfltsHarmlessO (exro : Bool) : Option RS → Bool
  | none => true
  | some s => dfltsHarmless exro s
end

/-! #### the completed value (two-phase reading of default-setting: first complete, then validate) -/

/-- one declared property of an object under completion: a present member is completed with its schema -/
def completeStep (k : Str) (f : V → V) (kvs : List (Str × V)) : List (Str × V) :=
  match lookup k kvs with
  | none => kvs
  | some x => setKey k (f x) kvs

def completeK (inj fP : List (Str × V) → List (Str × V)) (fI : List V → List V) : V → V
  | .obj kvs => .obj (fP (inj kvs))
  | .arr xs => .arr (fI xs)
  | v => v

mutual
/-- `complete exro s v`: every absent property that has a default (and is not read-only in a request) receives it,
at every depth of properties and items — including inside the injected defaults themselves. Composition keywords
are not looked at (the two-phase reading is stated for composition-free schemas). -/
def complete (exro : Bool) : RS → V → V
  | .mk _ _ _ _ _ _ props _ _ items _ _ _ _ _ => fun v =>
    completeK (inject exro props) (completeProps exro props) (completeItems exro items) v
def completeProps (exro : Bool) : List (Str × RS) → List (Str × V) → List (Str × V)
  | [] => fun kvs => kvs
  | (k, p) :: r => fun kvs => completeProps exro r (completeStep k (complete exro p) kvs)
def completeItems (exro : Bool) : Option RS → List V → List V
  | none => fun xs => xs
  | some it => fun xs => xs.map (complete exro it)
end

/-- `allOf` under default-setting, declaratively: every member is judged on the value completed by ITSELF and by
all EARLIER members (never by later ones), and hands the completed value on -/
def chainComplete (exro : Bool) : List RS → V → Option V
  | [], v => some v
  | m :: r, v => if satReqB exro m (complete exro m v) then chainComplete exro r (complete exro m v) else none

/-- where the request-side reading of the property text decides the verdict also under default-setting: no
default fires on this value, or the schema is composition-free with harmless defaults -/
def defaultsNeutral (exro : Bool) (s : RS) (v : V) : Bool :=
  !firesD exro s v || (compFree s && dfltsHarmless exro s)

/-! ### Decoders -/

/-- decoder kinds of the registry (`init` of req_resp_decoder.go) -/
inductive DecK | json | plain | file | urlencoded | multipart | yaml | csv
  deriving DecidableEq, Repr

/-- the registry: media type ↦ decoder; `Props/C06.lean` proves it equal to the table regenerated from the source -/
def registrySrc : List (String × String) := [
  ("application/json", "JSONBodyDecoder"),
  ("application/json-patch+json", "JSONBodyDecoder"),
  ("application/ld+json", "JSONBodyDecoder"),
  ("application/hal+json", "JSONBodyDecoder"),
  ("application/vnd.api+json", "JSONBodyDecoder"),
  ("application/octet-stream", "FileBodyDecoder"),
  ("application/problem+json", "JSONBodyDecoder"),
  ("application/x-www-form-urlencoded", "UrlencodedBodyDecoder"),
  ("application/x-yaml", "YamlBodyDecoder"),
  ("application/yaml", "YamlBodyDecoder"),
  ("multipart/form-data", "MultipartBodyDecoder"),
  ("text/csv", "CsvBodyDecoder"),
  ("text/plain", "PlainBodyDecoder")]

def decKOfName (n : String) : Option DecK :=
  if n = "JSONBodyDecoder" then some .json
  else if n = "PlainBodyDecoder" then some .plain
  else if n = "FileBodyDecoder" then some .file
  else if n = "UrlencodedBodyDecoder" then some .urlencoded
  else if n = "MultipartBodyDecoder" then some .multipart
  else if n = "YamlBodyDecoder" then some .yaml
  else if n = "CsvBodyDecoder" then some .csv
  else none

def registryOf (src : List (String × String)) : List (Str × DecK) :=
  src.filterMap fun (k, n) => (decKOfName n).map fun d => (k.toList, d)

def registry : List (Str × DecK) := registryOf registrySrc

/-- per-property encoding object: `style` ("" = not given) and `explode` (none = not given) -/
structure Enc where
  style : Str
  explode : Option Bool
  deriving Repr

structure Part where
  name : Str            -- `part.FormName()`
  ct : Str              -- the part's Content-Type header ("" = none)
  text : Str            -- the part's content
  json : Option V       -- what `encoding/json` makes of `text`
  yaml : Option V := none                   -- what yaml3 makes of `text`
  csv : Option (List (List Str)) := none    -- what `encoding/csv` makes of `text`
  deriving Repr

structure BodyIn where
  text : Str
  json : Option V
  form : Option (List (Str × List Str))
  parts : Option (List Part)
  /-- what `yaml3.NewDecoder(body).Decode` makes of the text (first document; none = error) -/
  yaml : Option V := none
  /-- what `encoding/csv` makes of the text: the records (none = error) -/
  csv : Option (List (List Str)) := none
  deriving Repr

/-- outcome of a decoder -/
inductive Dec
  | err                 -- a ParseError / error
  | val (v : V)
  | panic               -- nil dereference (array property without `items` in the urlencoded pre-check)
  | unmodelled          -- YAML / CSV / form decoders nested inside multipart parts: outside this model (never generated)
  deriving Repr

/-- `CsvBodyDecoder`: every record joined with "," and terminated by a newline, as one string -/
def csvLine : List Str → Str
  | [] => []
  | [x] => x
  | x :: y :: r => x ++ ',' :: csvLine (y :: r)

def csvJoin : List (List Str) → Str
  | [] => []
  | r :: rs => csvLine r ++ '\n' :: csvJoin rs

/-- `JSONBodyDecoder`, `PlainBodyDecoder`, `FileBodyDecoder`, `YamlBodyDecoder`, `CsvBodyDecoder` on one piece of
text (the whole body or one multipart part), given what the trusted parsers make of it -/
def decodeSimple (k : DecK) (text : Str) (json : Option V) (yaml : Option V := none)
    (csv : Option (List (List Str)) := none) : Dec :=
  match k with
  | .json => (match json with | some v => .val v | none => .err)
  | .plain => .val (.str text)
  | .file => .val (.str text)
  | .yaml => (match yaml with | some v => .val v | none => .err)
  | .csv => (match csv with | some recs => .val (.str (csvJoin recs)) | none => .err)
  | _ => .unmodelled

/-! #### number / boolean texts (`strconv` on the decimal subset) -/

def digitVal (c : Char) : Option Nat :=
  if 48 ≤ c.toNat ∧ c.toNat ≤ 57 then some (c.toNat - 48) else none

def readNatAux : List Char → Nat → Option Nat
  | [], acc => some acc
  | c :: cs, acc => match digitVal c with
    | none => none
    | some d => readNatAux cs (acc * 10 + d)

/-- non-empty string of decimal digits -/
def readNat : List Char → Option Nat
  | [] => none
  | cs => readNatAux cs 0

/-- `strconv.ParseInt(raw, 0, 64)` on `[+-]?digits` -/
def readInt : Str → Option Int
  | '-' :: cs => (readNat cs).map fun n => -(n : Int)
  | '+' :: cs => (readNat cs).map fun n => (n : Int)
  | cs => (readNat cs).map fun n => (n : Int)

def dotFive : Str := ".5".toList

/-- split `xs` as `ys ++ ".5"` -/
def stripDotFive (xs : Str) : Option Str :=
  if xs.length ≥ 2 ∧ xs.drop (xs.length - 2) = dotFive then some (xs.take (xs.length - 2)) else none

/-- the integral part of `digits.5` with its sign: n + 1/2 for "n", -(n + 1/2) = (-n - 1) + 1/2 for "-n" -/
def readHalf : Str → Option V
  | '-' :: cs => (readNat cs).map fun n => .half (-(n : Int) - 1)
  | '+' :: cs => (readNat cs).map fun n => .half (n : Int)
  | cs => (readNat cs).map fun n => .half (n : Int)

/-- `strconv.ParseFloat(raw, 64)` on `[+-]?digits` and `[+-]?digits.5` -/
def readNum (raw : Str) : Option V :=
  match readInt raw with
  | some n => some (.int n)
  | none =>
    match stripDotFive raw with
    | none => none
    | some ip => readHalf ip

/-- `strconv.ParseBool` -/
def readBool (raw : Str) : Option Bool :=
  if raw ∈ ["1", "t", "T", "TRUE", "true", "True"].map String.toList then some true
  else if raw ∈ ["0", "f", "F", "FALSE", "false", "False"].map String.toList then some false
  else none

/-- result of `parsePrimitive`: error, or a value (`null` for the empty text / a schema without type) -/
def parsePrimitive (raw : Str) (ty : Option Ty) : Option V :=
  if raw = [] then some .null else
  match ty with
  | none => some .null                      -- the loop over `Type.Slice()` does not run: (nil, nil)
  | some .integer => (readInt raw).map .int
  | some .number => readNum raw
  | some .boolean => (readBool raw).map .bool
  | some .string => some (.str raw)
  | some _ => none                          -- "schema has non primitive type"

/-- `strings.Split(s, sep)` for a one-character separator -/
def splitOn (sep : Char) : Str → List Str
  | [] => [[]]
  | c :: cs =>
    if c = sep then [] :: splitOn sep cs
    else match splitOn sep cs with
      | [] => [[c]]
      | w :: ws => (c :: w) :: ws

/-- `SerializationMethod()` of an encoding: defaults `form`, explode `true` -/
def smStyle (e : Option Enc) : Str :=
  match e with | some e => if e.style = [] then "form".toList else e.style | none => "form".toList
def smExplode (e : Option Enc) : Bool :=
  match e with | some e => e.explode.getD true | none => true

/-- `urlValuesDecoder.parseArray`: error (none), or a value: `null` as soon as one item is empty/untyped -/
def parseItems (ity : Option Ty) : List Str → Option (Option (List V))
  | [] => some (some [])
  | t :: r =>
    match parsePrimitive t ity with
    | none => none
    | some .null => some none
    | some v =>
      match parseItems ity r with
      | none => none
      | some none => some none
      | some (some vs) => some (some (v :: vs))

/-- the delimiter of a non-exploded array under a style (`DecodeArray`: form ",", spaceDelimited " ",
pipeDelimited "|"; anything else would be `strings.Split(s, "")`: not modelled, not generated) -/
def styleDelim (e : Option Enc) : Option Char :=
  if smStyle e = "form".toList then some ','
  else if smStyle e = "spaceDelimited".toList then some ' '
  else if smStyle e = "pipeDelimited".toList then some '|'
  else none

/-- the raw item texts of an array property: all values when exploded, else the first value split at the
style's delimiter (`urlValuesDecoder.DecodeArray`) -/
def arrayRaw (e : Option Enc) (v0 : Str) (rest : List Str) : Option (List Str) :=
  if smExplode e then some (v0 :: rest)
  else match styleDelim e with
    | some d => some (splitOn d v0)
    | none => none

def itemTy (p : RS) : Option Ty := (p.items.map (·.ty)).getD none

/-- `decodeProperty` → `decodeValue` for one property of a form body. `none` = error (the caller `continue`s:
the property is dropped); `some v` = value stored (`null` when there is nothing to store). -/
def decodeFormProp (fields : List (Str × List Str)) (name : Str) (p : RS) (e : Option Enc) : Option V :=
  match p.ty with
  | none => some .null
  | some .array =>
    if smStyle e = "deepObject".toList then none else
    match (lookup name fields).getD [] with
    | [] => some .null
    | v0 :: rest =>
      match arrayRaw e v0 rest with
      | none => none
      | some raw =>
        match parseItems (itemTy p) raw with
        | none => none
        | some none => some .null
        | some (some []) => some .null
        | some (some (v :: vs)) => some (.arr (v :: vs))
  | some .object => none
  | some t =>
    if smStyle e ≠ "form".toList then none else
    match (lookup name fields).getD [] with
    | [] => some .null
    | v0 :: _ => parsePrimitive v0 (some t)

def primTy (t : Option Ty) : Bool :=
  t == some .string || t == some .integer || t == some .number || t == some .boolean

/-- the property schema itself carries a composition keyword -/
def hasCompP (p : RS) : Bool := !(p.allOf.isEmpty && p.anyOf.isEmpty && p.oneOf.isEmpty && p.nt.isNone)

mutual
/-- `decodeValue` with its composition branches (in the code's order: allOf, anyOf, oneOf, not, type):
`none` = error, `some .null` = nil value -/
def decodePropC (fields : List (Str × List Str)) (name : Str) (e : Option Enc) : RS → Option V
  | .mk ty n r w ml mx props req a items nt oneOf anyOf allOf dflt =>
    if !allOf.isEmpty then decAll fields name e allOf .null
    else if !anyOf.isEmpty then some (decAny fields name e anyOf)
    else if !oneOf.isEmpty then some (decOne fields name e oneOf .null)
    else if nt.isSome then none          -- "not implemented: decoding 'not'"
    else decodeFormProp fields name (.mk ty n r w ml mx props req a items nt oneOf anyOf allOf dflt) e
/-- allOf: every member decodes the same field; the loop stops at a nil value or an error; the LAST value counts -/
def decAll (fields : List (Str × List Str)) (name : Str) (e : Option Enc) : List RS → V → Option V
  | [], acc => some acc
  | x :: r, _ =>
    match decodePropC fields name e x with
    | none => none
    | some .null => some .null
    | some v => decAll fields name e r v
/-- anyOf: the first member with a non-nil value (errors are ignored) -/
def decAny (fields : List (Str × List Str)) (name : Str) (e : Option Enc) : List RS → V
  | [] => .null
  | x :: r =>
    match decodePropC fields name e x with
    | none => decAny fields name e r
    | some .null => decAny fields name e r
    | some v => v
/-- oneOf: the last member with a non-nil value (errors are ignored; one match is enough) -/
def decOne (fields : List (Str × List Str)) (name : Str) (e : Option Enc) : List RS → V → V
  | [], acc => acc
  | x :: r, acc =>
    match decodePropC fields name e x with
    | none => decOne fields name e r acc
    | some .null => decOne fields name e r acc
    | some v => decOne fields name e r v
end

/-- the schema pre-check of `UrlencodedBodyDecoder` over the properties (any order: only the class of the
outcome is observed) -/
inductive Pre | ok | err | panic
  deriving DecidableEq, Repr

def formPre : List (Str × RS) → Pre
  | [] => .ok
  | (_, p) :: r =>
    if tyIs p.ty .object then .err
    else if tyIs p.ty .array then
      match p.items with
      | none => .panic
      | some it => if primTy it.ty then formPre r else .err
    else formPre r

/-- the property loop of `decodeSchemaConstructs`: a property is skipped on error **and** (since repair
2621864) when there is no value to store (`err != nil || value == nil`) -/
def decodeFormProps (fields : List (Str × List Str)) (encs : List (Str × Enc)) : List (Str × RS) → List (Str × V)
  | [] => []
  | (k, p) :: r =>
    match decodePropC fields k (lookup k encs) p with
    | none => decodeFormProps fields encs r
    | some .null => decodeFormProps fields encs r
    | some v => (k, v) :: decodeFormProps fields encs r

mutual
/-- the property declarations in the order `decodeSchemaConstructs` meets them: the members of `allOf`, `anyOf`,
`oneOf` first (recursively), then the schema's own properties; all with the same `encFn` -/
def flatDecls : RS → List (Str × RS)
  | .mk _ _ _ _ _ _ props _ _ _ _ oneOf anyOf allOf _ =>
    flatDeclsL allOf ++ flatDeclsL anyOf ++ flatDeclsL oneOf ++ props
def flatDeclsL : List RS → List (Str × RS)
  | [] => []
  | s :: r => flatDecls s ++ flatDeclsL r
end

mutual
def V.beq : V → V → Bool
  | .null, .null => true
  | .bool a, .bool b => a == b
  | .int a, .int b => a == b
  | .half a, .half b => a == b
  | .str a, .str b => a == b
  | .arr xs, .arr ys => V.beqL xs ys
  | .obj xs, .obj ys => V.beqKV xs ys
  | _, _ => false
def V.beqL : List V → List V → Bool
  | [], [] => true
  | x :: xs, y :: ys => V.beq x y && V.beqL xs ys
  | _, _ => false
def V.beqKV : List (Str × V) → List (Str × V) → Bool
  | [], [] => true
  | (k, x) :: xs, (k', y) :: ys => k == k' && V.beq x y && V.beqKV xs ys
  | _, _ => false
end

/-- the object under construction: a name decoded twice must get the same value, else
"conflicting values for property" (`none`) -/
def mergeKV : List (Str × V) → Option (List (Str × V))
  | [] => some []
  | (k, v) :: r =>
    match mergeKV r with
    | none => none
    | some m =>
      match lookup k m with
      | none => some ((k, v) :: m)
      | some v' => if V.beq v v' then some m else none

/-- a declaration without composition keywords that the model of `decodeValue` covers: not an object, an array
only of primitives -/
def declOK (p : RS) : Bool :=
  !hasCompP p &&
  !tyIs p.ty .object && (!tyIs p.ty .array || (match p.items with | some it => primTy it.ty | none => false))

mutual
/-- … or a composition of such declarations (property-level allOf / anyOf / oneOf / not, any depth) -/
def declOKC : RS → Bool
  | .mk ty n r w ml mx props req a items nt oneOf anyOf allOf dflt =>
    if !(allOf.isEmpty && anyOf.isEmpty && oneOf.isEmpty && nt.isNone) then
      declOKL allOf && declOKL anyOf && declOKL oneOf
    else declOK (.mk ty n r w ml mx props req a items nt oneOf anyOf allOf dflt)
def declOKL : List RS → Bool
  | [] => true
  | x :: r => declOKC x && declOKL r
end

/-- two declarations of one name whose Go values could differ although the model's values agree
(`int64` from `integer` vs `float64` from `number`): outside the model -/
def numClash (decls : List (Str × RS)) : Bool :=
  decls.any fun (k, p) => decls.any fun (k', p') =>
    k == k' && ((p.ty == some .integer && p'.ty == some .number) ||
                (itemTy p == some .integer && itemTy p' == some .number))

/-- `UrlencodedBodyDecoder` -/
def decodeForm (s : RS) (encs : List (Str × Enc)) (form : Option (List (Str × List Str))) : Dec :=
  if !tyIs s.ty .object then .err else
  match formPre s.props with
  | .err => .err
  | .panic => .panic
  | .ok =>
    match form with
    | none => .err
    | some fields =>
      if !(flatDecls s).all (fun kp => declOKC kp.2) || numClash (flatDecls s) then .unmodelled else
      match mergeKV (decodeFormProps fields encs (flatDecls s)) with
      | none => .err
      | some o => .val (.obj o)

/-- decoding of one part: `decodeBody(part, part.Header, …)`; a part without Content-Type is text/plain -/
def decodePart (reg : List (Str × DecK)) (p : Part) : Dec :=
  let ct := if p.ct = [] then "text/plain".toList else p.ct
  match lookup (base ct) reg with
  | none => .err
  | some k => decodeSimple k p.text p.json p.yaml p.csv

/-- is a part name declared? `MultipartBodyDecoder`: with `allOf` the members' own properties are searched and
a miss is an error; without, the schema's properties, then additionalProperties (true → skip the part) -/
inductive PartDecl | found | skip | undefined
  deriving DecidableEq, Repr

def partDecl (s : RS) (name : Str) : PartDecl :=
  if !s.allOf.isEmpty then
    (if s.allOf.any (fun m => (lookup name m.props).isSome) then .found else .undefined)
  else
    match lookup name s.props with
    | some _ => .found
    | none => (match s.addl with | some true => .skip | _ => .undefined)

/-- first loop of `MultipartBodyDecoder`: every part is looked up and decoded; `none` = error -/
def collectParts (reg : List (Str × DecK)) (s : RS) : List Part → Option (List (Str × V)) ⊕ Unit
  | [] => .inl (some [])
  | p :: r =>
    match partDecl s p.name with
    | .skip => collectParts reg s r
    | .undefined => .inl none
    | .found =>
      match decodePart reg p with
      | .val v =>
        (match collectParts reg s r with
         | .inl (some l) => .inl (some ((p.name, v) :: l))
         | o => o)
      | .err => .inl none
      | _ => .inr ()

/-- a Go map built by successive assignment: the last declaration of a name wins -/
def dedupLast : List (Str × RS) → List (Str × RS)
  | [] => []
  | (k, p) :: r => if (keys r).contains k then dedupLast r else (k, p) :: dedupLast r

/-- `allTheProperties`: with `allOf` the members' properties, else the schema's own -/
def assemblyProps (s : RS) : List (Str × RS) :=
  if !s.allOf.isEmpty then dedupLast (s.allOf.flatMap fun m => m.props) else s.props

/-- all collected values of one name, in order -/
def valuesOf (name : Str) (l : List (Str × V)) : List V :=
  (l.filter (fun kv => kv.1 = name)).map (·.2)

/-- second loop: array property ⇒ all parts, else the first one; properties without a part are absent -/
def assemble (vals : List (Str × V)) : List (Str × RS) → List (Str × V)
  | [] => []
  | (k, p) :: r =>
    match valuesOf k vals with
    | [] => assemble vals r
    | v :: vs => (k, if tyIs p.ty .array then .arr (v :: vs) else v) :: assemble vals r

/-- `MultipartBodyDecoder` (schemas without an additionalProperties *schema*) -/
def decodeMultipart (reg : List (Str × DecK)) (s : RS) (parts : Option (List Part)) : Dec :=
  if !tyIs s.ty .object then .err else
  match parts with
  | none => .err
  | some ps =>
    match collectParts reg s ps with
    | .inl none => .err
    | .inl (some vals) => .val (.obj (assemble vals (assemblyProps s)))
    | .inr _ => .unmodelled

/-- `decodeBody`: the decoder is chosen by the *request's* Content-Type without parameters -/
def decodeBody (reg : List (Str × DecK)) (ct : Str) (s : RS) (encs : List (Str × Enc)) (b : BodyIn) : Dec :=
  match lookup (base ct) reg with
  | none => .err                               -- "unsupported content type"
  | some .urlencoded => decodeForm s encs b.form
  | some .multipart => decodeMultipart reg s b.parts
  | some k => decodeSimple k b.text b.json b.yaml b.csv

/-! ### `ValidateRequestBody` -/

structure MediaType where
  schema : Option RS
  encs : List (Str × Enc)
  deriving Repr

structure ReqBody where
  required : Bool
  content : List (Str × MediaType)
  deriving Repr

inductive Outcome
  | ok
  | missing        -- ErrInvalidRequired
  | badCT          -- "header Content-Type has unexpected value"
  | decodeErr      -- "failed to decode request body"
  | schemaErr      -- "doesn't match schema"
  | panic
  | unmodelled
  deriving DecidableEq, Repr

def Outcome.isOk : Outcome → Bool | .ok => true | _ => false

def validateRequestBody (reg : List (Str × DecK)) (rb : ReqBody) (ct : Str) (b : BodyIn) (exro : Bool) : Outcome :=
  if b.text = [] then (if rb.required then .missing else .ok)
  else if rb.content = [] then .ok
  else match contentGet rb.content ct with
    | none => .badCT
    | some mt =>
      match mt.schema with
      | none => .ok
      | some s =>
        match decodeBody reg ct s mt.encs b with
        | .err => .decodeErr
        | .panic => .panic
        | .unmodelled => .unmodelled
        | .val v => if visit exro s v then .ok else .schemaErr

/-- the last part of `ValidateRequestBody`: `VisitJSON(value, VisitAsRequest(), DefaultsSet(..)?, …)`.
`ds` = `!Options.SkipSettingDefaults`. Without `DefaultsSet` the validator is the one of `visit`. When a default was
set the body is re-encoded for the next handler — only if an encoder is registered for the media type (since repair
4a27f6e a missing encoder leaves the body as received; `json.Marshal` / `yaml.Marshal` of a decoded value do not
fail): the verdict does not depend on it any more. -/
def validateValue (exro ds : Bool) (s : RS) (v : V) : Outcome :=
  if !ds then (if visit exro s v then .ok else .schemaErr)
  else match visD true exro s v with
    | none => .schemaErr
    | some _ => .ok

/-- `ValidateRequestBody` with the option `SkipSettingDefaults` (`ds = false` ⇔ defaults are skipped) -/
def validateRequestBodyD (reg : List (Str × DecK)) (rb : ReqBody) (ct : Str) (b : BodyIn) (exro ds : Bool) : Outcome :=
  if b.text = [] then (if rb.required then .missing else .ok)
  else if rb.content = [] then .ok
  else match contentGet rb.content ct with
    | none => .badCT
    | some mt =>
      match mt.schema with
      | none => .ok
      | some s =>
        match decodeBody reg ct s mt.encs b with
        | .err => .decodeErr
        | .panic => .panic
        | .unmodelled => .unmodelled
        | .val v => validateValue exro ds s v

/-! ### Specification of the whole decision (from the property text) -/

/-- the text of a field encodes a value of the declared primitive type -/
def encodesPrim (t : Ty) (raw : Str) : Option V :=
  match t with
  | .string => some (.str raw)
  | .integer => (readInt raw).map .int
  | .number => readNum raw
  | .boolean => (readBool raw).map .bool
  | _ => none

def encodesAll (t : Ty) : List Str → Option (List V)
  | [] => some []
  | r :: rs =>
    match encodesPrim t r, encodesAll t rs with
    | some v, some vs => some (v :: vs)
    | _, _ => none

/-- what the form fields encode for one declared property: `none` = not a valid encoding,
`some none` = the property is absent, `some (some v)` = its value -/
def specFormProp (fields : List (Str × List Str)) (name : Str) (p : RS) (e : Option Enc) : Option (Option V) :=
  match lookup name fields with
  | none => some none
  | some [] => some none
  | some (v0 :: vs) =>
    match p.ty with
    | none => some none      -- no declared type: the field is not decodable, it is ignored like an undeclared field
    | some .array =>
      (match arrayRaw e v0 vs with
       | none => none
       | some raw =>
         -- an empty text is "no value" (the library's documented convention, `parsePrimitive` / `parseArray`:
         -- "if the items are nil, then the array is nil")
         if raw.any (fun t => t.isEmpty) then some none
         else (encodesAll ((itemTy p).getD .string) raw).map fun l => some (.arr l))
    | some .object => none
    | some t => if v0 = [] then some none else (encodesPrim t v0).map some
      -- an empty text is "no value": the library's documented convention (`parsePrimitive` returns nil for "")

/-- a declaration whose property schema is itself a composition (a union / intersection of types) has no
type-directed reading in the property text: there the specification takes the decoder's own value (this part
of the urlencoded decoder is tied to the code by the differential run only) -/
def specDecl (fields : List (Str × List Str)) (name : Str) (p : RS) (e : Option Enc) : Option (Option V) :=
  if hasCompP p then
    (match decodePropC fields name e p with
     | none => some none
     | some .null => some none
     | some v => some (some v))
  else specFormProp fields name p e

def specFormProps (fields : List (Str × List Str)) (encs : List (Str × Enc)) : List (Str × RS) → Option (List (Str × V))
  | [] => some []
  | (k, p) :: r =>
    match specDecl fields k p (lookup k encs), specFormProps fields encs r with
    | some none, some l => some l
    | some (some v), some l => some ((k, v) :: l)
    | _, _ => none

/-! #### the encoder side (what a client writes), used to state the round trip -/

def digitChar (d : Nat) : Char := Char.ofNat (48 + d)

def showNatAux : Nat → Nat → List Char → List Char
  | 0, _, acc => acc
  | fuel + 1, n, acc =>
    if n < 10 then digitChar n :: acc
    else showNatAux fuel (n / 10) (digitChar (n % 10) :: acc)

/-- decimal digits of a natural number (`strconv.FormatInt` for n ≥ 0) -/
def showNat (n : Nat) : List Char := showNatAux (n + 1) n []

def showInt (n : Int) : Str := if n < 0 then '-' :: showNat (-n).toNat else showNat n.toNat

/-- the text of a primitive value -/
def showPrim : V → Option Str
  | .int n => some (showInt n)
  | .half n => some (if n < 0 then '-' :: (showNat (-(n + 1)).toNat ++ dotFive) else showNat n.toNat ++ dotFive)
  | .bool b => some (if b then "true".toList else "false".toList)
  | .str s => some s
  | _ => none

def showAll : List V → Option (List Str)
  | [] => some []
  | v :: r =>
    match showPrim v, showAll r with
    | some t, some ts => some (t :: ts)
    | _, _ => none

def joinWith (sep : Char) : List Str → Str
  | [] => []
  | [x] => x
  | x :: y :: r => x ++ sep :: joinWith sep (y :: r)

/-- the values written for one property: one per item when exploded, one joined text otherwise -/
def encodeField (e : Option Enc) : V → Option (List Str)
  | .arr vs =>
    (match showAll vs with
     | none => none
     | some ts =>
       if smExplode e then some ts
       else match styleDelim e with
         | some d => some [joinWith d ts]
         | none => none)
  | v => (showPrim v).map fun t => [t]

/-- the form a client sends for the property values `val` -/
def encodeForm (encs : List (Str × Enc)) (val : Str → Option V) : List (Str × RS) → List (Str × List Str)
  | [] => []
  | (k, _) :: r =>
    match (val k).bind (encodeField (lookup k encs)) with
    | some ts => (k, ts) :: encodeForm encs val r
    | none => encodeForm encs val r

/-- the object a client means when it gives `val k` for the declared properties (in declaration order) -/
def objOf (val : Str → Option V) (props : List (Str × RS)) : List (Str × V) :=
  props.filterMap fun kp => (val kp.1).map fun v => (kp.1, v)

/-- a value is of a primitive type (what a form can carry) -/
def hasTy (t : Ty) : V → Bool
  | .int _ => t == .integer || t == .number
  | .half _ => t == .number
  | .bool _ => t == .boolean
  | .str _ => t == .string
  | _ => false

/-- `v` can be written for property `p` under encoding `e`: typed like the property, non-empty text, and —
for a non-exploded array — no item text contains the delimiter (the `Encodable` side condition) -/
def FormEncodable (p : RS) (e : Option Enc) (v : V) : Prop :=
  hasCompP p = false ∧
  match p.ty with
  | some .array =>
    ∃ it t vs ts, p.items = some it ∧ it.ty = some t ∧ primTy (some t) = true ∧ v = .arr vs ∧ vs ≠ [] ∧
      (∀ x ∈ vs, hasTy t x = true) ∧ showAll vs = some ts ∧ (∀ x ∈ ts, x ≠ []) ∧
      (smExplode e = true ∨ ∃ d, styleDelim e = some d ∧ ∀ x ∈ ts, d ∉ x)
  | some .object => False
  | some t => hasTy t v = true ∧ ∀ txt, showPrim v = some txt → txt ≠ []
  | none => False

/-! #### what a multipart body encodes (written from RFC 7578 / the OAS text, not from the decoder's loops) -/

/-- what one part's content encodes under its own Content-Type (a part without one is text/plain, RFC 7578 §4.4);
`none`: nothing (undecodable content, or a media type without simple decoder) -/
def specPart (reg : List (Str × DecK)) (p : Part) : Option V :=
  match lookup (base (if p.ct = [] then "text/plain".toList else p.ct)) reg with
  | some .json => p.json
  | some .plain => some (.str p.text)
  | some .file => some (.str p.text)
  | some .yaml => p.yaml
  | some .csv => p.csv.map fun recs => .str (csvJoin recs)
  | _ => none

/-- the object a list of parts encodes for an object schema: every part must be declared (or ignorable:
`additionalProperties: true`) and every declared part decodable — in any order; a property declared as array
collects the values of all its parts in order, any other property takes its first part; properties without a part
are absent -/
def specMultipart (reg : List (Str × DecK)) (s : RS) (ps : List Part) : Option V :=
  if ps.any (fun p => partDecl s p.name == .undefined) then none
  else if (ps.filter fun p => partDecl s p.name == .found).any (fun p => (specPart reg p).isNone) then none
  else some (.obj ((assemblyProps s).filterMap fun kp =>
    match ((ps.filter fun p => partDecl s p.name == .found).filter fun p => p.name = kp.1).filterMap (specPart reg) with
    | [] => none
    | v :: vs => some (kp.1, if tyIs kp.2.ty .array then .arr (v :: vs) else v)))

/-- the value a body encodes under the decoder registered for the request's media type (`none`: nothing) -/
def specDecode (reg : List (Str × DecK)) (ct : Str) (s : RS) (encs : List (Str × Enc)) (b : BodyIn) : Option V :=
  match lookup (base ct) reg with
  | some .json => b.json
  | some .plain => some (.str b.text)
  | some .file => some (.str b.text)
  | some .urlencoded =>
    if tyIs s.ty .object && formPre s.props == .ok then
      match b.form with
      | some fields => ((specFormProps fields encs (flatDecls s)).bind mergeKV).map .obj
      | none => none
    else none
  | some .multipart => if tyIs s.ty .object then b.parts.bind (specMultipart reg s) else none
  | some .yaml => b.yaml                                    -- the (first) YAML document
  | some .csv => b.csv.map fun recs => .str (csvJoin recs)  -- the library's reading: the normalised records as text
  | none => none

/-- **the property**: a request body is accepted iff … -/
def Accept (reg : List (Str × DecK)) (rb : ReqBody) (ct : Str) (b : BodyIn) (exro : Bool) : Prop :=
  (b.text = [] ∧ rb.required = false) ∨
  (b.text ≠ [] ∧ (rb.content = [] ∨
    ∃ mt, firstSome rb.content (candidates ct) = some mt ∧
      (mt.schema = none ∨ ∃ s v, mt.schema = some s ∧ specDecode reg ct s mt.encs b = some v ∧ SatReq exro s v)))

def acceptB (reg : List (Str × DecK)) (rb : ReqBody) (ct : Str) (b : BodyIn) (exro : Bool) : Bool :=
  if b.text = [] then !rb.required
  else if rb.content = [] then true
  else match firstSome rb.content (candidates ct) with
    | none => false
    | some mt =>
      match mt.schema with
      | none => true
      | some s =>
        match specDecode reg ct s mt.encs b with
        | none => false
        | some v => satReqB exro s v

/-! ### Exclusion classes of the urlencoded decoder -/

/-- class `FormFieldUnparsable` (finding #20 / F-C06-1): a declared property has a field whose text is not a
value of the declared type; the decoder drops the property (`continue` on error) -/
def formUnparsable (fields : List (Str × List Str)) (encs : List (Str × Enc)) (props : List (Str × RS)) : Bool :=
  props.any fun (k, p) => (specDecl fields k p (lookup k encs)).isNone

/-- well-formed per-property encodings: a style other than `form` only on array properties and only
`spaceDelimited` / `pipeDelimited` (what `Encoding.Validate` admits for arrays besides deepObject) -/
def encsWF (encs : List (Str × Enc)) (props : List (Str × RS)) : Bool :=
  props.all fun (k, p) =>
    smStyle (lookup k encs) = "form".toList ||
    (tyIs p.ty .array && (smStyle (lookup k encs) = "spaceDelimited".toList || smStyle (lookup k encs) = "pipeDelimited".toList))

/-- the situation in which the urlencoded decoder really runs over the properties: returns what it runs on -/
def formRun (reg : List (Str × DecK)) (rb : ReqBody) (ct : Str) (b : BodyIn) :
    Option (RS × List (Str × Enc) × List (Str × List Str)) :=
  if b.text = [] || rb.content.isEmpty then none else
  match contentGet rb.content ct with
  | none => none
  | some mt =>
    match mt.schema, lookup (base ct) reg, b.form with
    | some s, some .urlencoded, some fields =>
      if tyIs s.ty .object && formPre s.props == .ok then some (s, mt.encs, fields) else none
    | _, _, _ => none

def exclFormUnparsable (reg : List (Str × DecK)) (rb : ReqBody) (ct : Str) (b : BodyIn) : Bool :=
  match formRun reg rb ct b with
  | some (s, encs, fields) => formUnparsable fields encs (flatDecls s)
  | none => false

def formEncsWF (reg : List (Str × DecK)) (rb : ReqBody) (ct : Str) (b : BodyIn) : Bool :=
  match formRun reg rb ct b with
  | some (s, encs, _) => encsWF encs (flatDecls s)
  | none => true

/-- the value handed to the schema validator, when validation gets that far -/
def decodedValue (reg : List (Str × DecK)) (rb : ReqBody) (ct : Str) (b : BodyIn) : Option (RS × V) :=
  if b.text = [] || rb.content.isEmpty then none else
  match contentGet rb.content ct with
  | none => none
  | some mt =>
    match mt.schema with
    | none => none
    | some s => match decodeBody reg ct s mt.encs b with | .val v => some (s, v) | _ => none

/-- the request-side reading decides the verdict of this case also under default-setting -/
def caseNeutral (reg : List (Str × DecK)) (rb : ReqBody) (ct : Str) (b : BodyIn) (exro ds : Bool) : Bool :=
  !ds ||
  (match decodedValue reg rb ct b with
   | some (s, v) => defaultsNeutral exro s v
   | none => true)

/-- the selected schema has no composition keyword (or validation does not get that far) -/
def caseCompFree (reg : List (Str × DecK)) (rb : ReqBody) (ct : Str) (b : BodyIn) : Bool :=
  match decodedValue reg rb ct b with
  | some (s, _) => compFree s
  | none => true

/-- **the property under default-setting, two-phase reading** (C13: "the resulting request validates"): as
`Accept`, but with default-setting on the value that must satisfy the schema read as a request is the value the
body encodes COMPLETED by the declared defaults. Stated for composition-free schemas (`complete` does not look at
composition keywords). -/
def AcceptD (reg : List (Str × DecK)) (rb : ReqBody) (ct : Str) (b : BodyIn) (exro ds : Bool) : Prop :=
  (b.text = [] ∧ rb.required = false) ∨
  (b.text ≠ [] ∧ (rb.content = [] ∨
    ∃ mt, firstSome rb.content (candidates ct) = some mt ∧
      (mt.schema = none ∨ ∃ s v, mt.schema = some s ∧ specDecode reg ct s mt.encs b = some v ∧
        SatReq exro s (if ds then complete exro s v else v))))

def acceptDB (reg : List (Str × DecK)) (rb : ReqBody) (ct : Str) (b : BodyIn) (exro ds : Bool) : Bool :=
  if b.text = [] then !rb.required
  else if rb.content = [] then true
  else match firstSome rb.content (candidates ct) with
    | none => false
    | some mt =>
      match mt.schema with
      | none => true
      | some s =>
        match specDecode reg ct s mt.encs b with
        | none => false
        | some v => satReqB exro s (if ds then complete exro s v else v)

/-- schema and decoded value are well-formed (distinct keys) -/
def caseWF (reg : List (Str × DecK)) (rb : ReqBody) (ct : Str) (b : BodyIn) : Bool :=
  match decodedValue reg rb ct b with
  | some (s, v) => s.wf && v.wf
  | none => true

end KinModel.Body
