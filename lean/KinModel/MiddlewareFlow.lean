/-
C14 — the closure of `Validator.Middleware` as a *program read off the source* and an interpreter for it.

The translator table `MiddlewareFlow` (go/cmd/extract/c14middleware.go) lists the statements of the serving code one
row per statement: nesting depth, kind (assign / call / decl / return / if / else) and the printed source text.
`parseStmt` gives each statement text of `Validator.Middleware` its meaning as an `Instr` of a small instruction set
(a text it does not know is `none`: an obligation forbids that); `exec` runs such a program — `if` / `else` blocks by
nesting depth, `return`, the unwinding of a handler panic — on the same `Cfg` / `Env` / handler call list the model
`middleware` (KinModel/Middleware.lean) takes. Props/C14Src proves
  * `middleware_source_program`: the statements in the source parse to exactly `middlewareProgram` (a `decide` over the
    regenerated table), and
  * `middleware_program_is_model`: `exec middlewareProgram cfg env ops = middleware cfg env ops` for ALL cfg, env, ops,
so that the hand-written function `middleware` is the meaning of the statement list in the source, not a transcription
to be trusted. What stays trusted is the meaning given to each single statement (the table in `Instr`'s comments).
-/
import KinModel.Middleware
import KinModel.MiddlewareSrc
namespace KinModel.Middleware

/-- one statement of the closure of `Validator.Middleware`, by what it does to the state the model keeps -/
inductive Instr
  | nop               -- `ctx := r.Context()`, building the RequestValidationInput, `var wr responseWrapper`
  | findRoute         -- `route, pathParams, err := v.router.FindRoute(r)`        err := route not found
  | validateRequest   -- `err = ValidateRequest(ctx, requestValidationInput)`      err := request invalid
  | validateResponse  -- `err = ValidateResponse(ctx, &ResponseValidationInput{…, Status: status, Header: wr.Header(),
                      --   Body: …wr.bodyContents()…})`                            err := ¬ respOK status hdr body
  | flush             -- `err = wr.flushBodyContents()`                            (its error: a failed client write, not modelled)
  | log (k : LogKind) -- `v.logFunc(ctx, "<message>", err)`
  | logWrite          -- `v.logFunc(ctx, "failed to write response", err)`        (only under the error of `flush`)
  | err (e : ErrCode) -- `v.errFunc(ctx, w, <status>, <code>, err)`               on the RAW writer `w`
  | ret               -- `return`
  | newStrict         -- `wr = &strictResponseWrapper{w: w}`
  | newWarn           -- `wr = newWarnResponseWrapper(w)`
  | serve             -- `h.ServeHTTP(wr, r)`
  | readStatus        -- `status := wr.statusCode()`
  | status200         -- `status = http.StatusOK`
  | ifErr             -- `if err != nil {`
  | ifStrict          -- `if v.strict {`
  | ifStatus0         -- `if status == 0 {`
  | els               -- `} else {`
  deriving DecidableEq, Repr

/-- the meaning of a statement of `Validator.Middleware`, by kind and printed text -/
def stmtMeaning : List ((String × String) × Instr) :=
  [(("assign", "ctx := r.Context()"), .nop),
   (("assign", "route, pathParams, err := v.router.FindRoute(r)"), .findRoute),
   (("if", "err != nil"), .ifErr),
   (("call", "v.logFunc(ctx, \"validation error: failed to find route for \"+r.URL.String(), err)"), .log .route),
   (("call", "v.errFunc(ctx, w, http.StatusNotFound, ErrCodeCannotFindRoute, err)"), .err .cannotFindRoute),
   (("return", "return"), .ret),
   (("assign", "requestValidationInput := &RequestValidationInput{Request: r, PathParams: pathParams, Route: route, Options: &v.options}"), .nop),
   (("assign", "err = ValidateRequest(ctx, requestValidationInput)"), .validateRequest),
   (("call", "v.logFunc(ctx, \"invalid request\", err)"), .log .request),
   (("call", "v.errFunc(ctx, w, http.StatusBadRequest, ErrCodeRequestInvalid, err)"), .err .requestInvalid),
   (("decl", "var wr responseWrapper"), .nop),
   (("if", "v.strict"), .ifStrict),
   (("assign", "wr = &strictResponseWrapper{w: w}"), .newStrict),
   (("else", ""), .els),
   (("assign", "wr = newWarnResponseWrapper(w)"), .newWarn),
   (("call", "h.ServeHTTP(wr, r)"), .serve),
   (("assign", "status := wr.statusCode()"), .readStatus),
   (("if", "status == 0"), .ifStatus0),
   (("assign", "status = http.StatusOK"), .status200),
   (("assign", "err = ValidateResponse(ctx, &ResponseValidationInput{RequestValidationInput: requestValidationInput, Status: status, Header: wr.Header(), Body: io.NopCloser(bytes.NewBuffer(wr.bodyContents())), Options: &v.options})"), .validateResponse),
   (("call", "v.logFunc(ctx, \"invalid response\", err)"), .log .response),
   (("call", "v.errFunc(ctx, w, http.StatusInternalServerError, ErrCodeResponseInvalid, err)"), .err .responseInvalid),
   (("assign", "err = wr.flushBodyContents()"), .flush),
   (("call", "v.logFunc(ctx, \"failed to write response\", err)"), .logWrite)]

def parseStmt (r : Nat × String × String) : Option (Nat × Instr) :=
  (stmtMeaning.lookup (r.2.1, r.2.2)).map (fun i => (r.1, i))

/-- the program the source's statement list must parse to -/
def middlewareProgram : List (Nat × Instr) :=
  [(0, .nop), (0, .findRoute), (0, .ifErr), (1, .log .route), (1, .err .cannotFindRoute), (1, .ret),
   (0, .nop), (0, .validateRequest), (0, .ifErr), (1, .log .request), (1, .err .requestInvalid), (1, .ret),
   (0, .nop), (0, .ifStrict), (1, .newStrict), (0, .els), (1, .newWarn),
   (0, .serve), (0, .readStatus), (0, .ifStatus0), (1, .status200),
   (0, .validateResponse), (0, .ifErr), (1, .log .response), (1, .ifStrict), (2, .err .responseInvalid), (1, .ret),
   (0, .flush), (0, .ifErr), (1, .logWrite)]

/-- the value of the variable `wr`: not assigned yet (only the raw writer `w` exists), or one of the two wrappers
around `w`. The raw writer is the `client` component in each case (the wrappers hold it, they do not copy it). -/
inductive Wr
  | raw (c : Client)
  | strict (w : Strict)
  | warn (w : Warn)
  deriving DecidableEq, Repr

def Wr.client : Wr → Client
  | .raw c => c | .strict w => w.client | .warn w => w.client

/-- a call on the raw writer `w` while `wr` may already wrap it -/
def Wr.onRaw (f : Client → Client) : Wr → Wr
  | .raw c => .raw (f c) | .strict w => .strict { w with client := f w.client } | .warn w => .warn { w with client := f w.client }

def Wr.status : Wr → Nat
  | .raw _ => 0 | .strict w => w.status | .warn w => w.status

def Wr.buf : Wr → Bytes
  | .raw _ => [] | .strict w => w.buf | .warn w => w.buf

structure FState where
  wr : Wr
  returned : Bool := false         -- `return` was executed, or the handler's panic unwound the closure
  skip : Option Nat := none        -- inside a block that is not executed: rows deeper than this depth are passed over
  err : Bool := false              -- `err != nil`
  status : Nat := 0                -- the local variable `status`
  handlerRan : Bool := false
  errCalls : List ErrCode := []
  logs : List LogKind := []
  stuck : Bool := false            -- a statement was reached that the model gives no meaning to
  deriving DecidableEq, Repr

/-- one executed statement -/
def runInstr (cfg : Cfg) (env : Env) (ops : List Op) (st : FState) (d : Nat) : Instr → FState
  | .nop => st
  | .findRoute => { st with err := !env.routeFound }
  | .validateRequest => { st with err := !env.reqOK }
  | .validateResponse => { st with err := !env.respOK st.status st.wr.client.hdr st.wr.buf }
  | .flush =>
    match st.wr with
    | .strict w => { st with wr := .raw w.flushOut, err := false }
    | _ => { st with err := false }
  | .log k => { st with logs := st.logs ++ [k] }
  | .logWrite => { st with stuck := true }
  | .err e => { st with wr := st.wr.onRaw (fun c => runDirect c (cfg.errOps e)), errCalls := st.errCalls ++ [e] }
  | .ret => { st with returned := true }
  | .newStrict => { st with wr := .strict { client := st.wr.client } }
  | .newWarn => { st with wr := .warn { client := st.wr.client } }
  | .serve =>
    let wr' := match st.wr with
      | .strict w => Wr.strict (Strict.run w ops)
      | .warn w => Wr.warn (Warn.run w ops)
      | .raw c => Wr.raw (runDirect c ops)
    -- a panic of the handler unwinds the closure (it has no recover): nothing after this statement runs
    { st with wr := wr', handlerRan := true, returned := wr'.client.panicked }
  | .readStatus => { st with status := st.wr.status }
  | .status200 => { st with status := 200 }
  | .ifErr => if st.err then st else { st with skip := some d }
  | .ifStrict => if cfg.strict then st else { st with skip := some d }
  | .ifStatus0 => if st.status == 0 then st else { st with skip := some d }
  | .els => { st with skip := some d }     -- reached after an executed then-block: pass over the else block

/-- one row of the program: passed over after `return` and inside a block that is not executed; a skipped
then-block ends at the first row that is not deeper — when that row is the block's `else`, the else block is entered -/
def stepRow (cfg : Cfg) (env : Env) (ops : List Op) (st : FState) (row : Nat × Instr) : FState :=
  if st.returned then st else
  match st.skip with
  | some k =>
    if k < row.1 then st
    else if row.2 = .els ∧ row.1 = k then { st with skip := none }
    else runInstr cfg env ops { st with skip := none } row.1 row.2
  | none => runInstr cfg env ops st row.1 row.2

def execRows (cfg : Cfg) (env : Env) (ops : List Op) (prog : List (Nat × Instr)) : FState :=
  prog.foldl (stepRow cfg env ops) { wr := .raw (Client.init env.server) }

def FState.outcome (st : FState) : Outcome :=
  { handlerRan := st.handlerRan, client := st.wr.client, errCalls := st.errCalls, logs := st.logs }

/-- the client-visible outcome of running a program -/
def exec (cfg : Cfg) (env : Env) (ops : List Op) (prog : List (Nat × Instr)) : Outcome :=
  (execRows cfg env ops prog).outcome

/-- run the statement list of a source table: `none` when a statement has no meaning in the model -/
def execSource (cfg : Cfg) (env : Env) (ops : List Op) (stmts : List (Nat × String × String)) : Option Outcome :=
  (stmts.mapM parseStmt).map (exec cfg env ops)

/-! ### the methods of the two response wrappers as programs read off the source

Same table, same reading: each statement of a wrapper method has a meaning as a `WInstr` acting on the wrapper's
fields (`headerWritten`, `status`, `body`) and on the underlying writer `w`; `wexec` runs a method's statement list.
Props/C14Flow proves that the statement lists of the source run to exactly `Strict.step` / `Strict.flushOut` /
`Warn.step` — the wrapper state machines of KinModel/Middleware.lean. -/

inductive WInstr
  | ifNotHWInfo          -- `if !wr.headerWritten && isInformational(status) {`
  | ifNotHW              -- `if !wr.headerWritten {`
  | ifHW                 -- `if wr.headerWritten {`
  | ifOk                 -- `if ok {` after `fl, ok := wr.w.(http.Flusher)`: both transports' writers are Flushers
  | ret                  -- `return`, `return err`, `return nil`
  | setStatus            -- `wr.status = status`
  | setHW                -- `wr.headerWritten = true`
  | selfWriteHeader200   -- `wr.WriteHeader(http.StatusOK)`: the wrapper's own WriteHeader program
  | bufWrite             -- `return wr.body.Write(b)`
  | teeWrite             -- `return wr.tee.Write(b)`, tee = io.MultiWriter(w, &wr.body) (table WrapperMethods)
  | rawWriteHeaderArg    -- `wr.w.WriteHeader(status)`
  | rawWriteHeaderRec    -- `wr.w.WriteHeader(wr.status)`
  | rawWriteBuf          -- `_, err := wr.w.Write(wr.body.Bytes())`
  | assertFlusher        -- `fl, ok := wr.w.(http.Flusher)`
  | flFlush              -- `fl.Flush()`
  deriving DecidableEq, Repr

def wMeaning : List ((String × String) × WInstr) :=
  [(("if", "!wr.headerWritten && isInformational(status)"), .ifNotHWInfo),
   (("return", "return"), .ret),
   (("if", "!wr.headerWritten"), .ifNotHW),
   (("assign", "wr.status = status"), .setStatus),
   (("assign", "wr.headerWritten = true"), .setHW),
   (("call", "wr.WriteHeader(http.StatusOK)"), .selfWriteHeader200),
   (("return", "return wr.body.Write(b)"), .bufWrite),
   (("return", "return wr.tee.Write(b)"), .teeWrite),
   (("if", "wr.headerWritten"), .ifHW),
   (("call", "wr.w.WriteHeader(wr.status)"), .rawWriteHeaderRec),
   (("call", "wr.w.WriteHeader(status)"), .rawWriteHeaderArg),
   (("assign", "_, err := wr.w.Write(wr.body.Bytes())"), .rawWriteBuf),
   (("return", "return err"), .ret),
   (("return", "return nil"), .ret),
   (("assign", "fl, ok := wr.w.(http.Flusher)"), .assertFlusher),
   (("if", "ok"), .ifOk),
   (("call", "fl.Flush()"), .flFlush)]

def parseW (r : Nat × String × String) : Option (Nat × WInstr) :=
  (wMeaning.lookup (r.2.1, r.2.2)).map (fun i => (r.1, i))

/-- the fields of a wrapper (both wrapper types have the same three plus the underlying writer), the method's
parameters (`status` / `b`) and the control state of the interpreter -/
structure WSt where
  hw : Bool
  status : Nat
  buf : Bytes
  client : Client
  arg : Nat := 0
  bs : Bytes := []
  returned : Bool := false
  skip : Option Nat := none
  stuck : Bool := false
  deriving DecidableEq, Repr

def WSt.ofStrict (w : Strict) : WSt := { hw := w.headerWritten, status := w.status, buf := w.buf, client := w.client }
def WSt.toStrict (s : WSt) : Strict := { headerWritten := s.hw, status := s.status, buf := s.buf, client := s.client }
def WSt.ofWarn (w : Warn) : WSt := { hw := w.headerWritten, status := w.status, buf := w.buf, client := w.client }
def WSt.toWarn (s : WSt) : Warn := { headerWritten := s.hw, status := s.status, buf := s.buf, client := s.client }

/-- one executed statement; `wh` is what a call of the wrapper's own WriteHeader does -/
def wrun (wh : WSt → Nat → WSt) (st : WSt) (d : Nat) : WInstr → WSt
  | .ifNotHWInfo => if !st.hw && isInfo st.arg then st else { st with skip := some d }
  | .ifNotHW => if !st.hw then st else { st with skip := some d }
  | .ifHW => if st.hw then st else { st with skip := some d }
  | .ifOk => st
  | .ret => { st with returned := true }
  | .setStatus => { st with status := st.arg }
  | .setHW => { st with hw := true }
  | .selfWriteHeader200 => wh st 200
  | .bufWrite => { st with buf := st.buf ++ st.bs, returned := true }
  | .teeWrite => { st with client := st.client.write st.bs, buf := st.buf ++ st.bs, returned := true }
  | .rawWriteHeaderArg => { st with client := st.client.writeHeader st.arg }
  | .rawWriteHeaderRec => { st with client := st.client.writeHeader st.status }
  | .rawWriteBuf => { st with client := st.client.write st.buf }
  | .assertFlusher => st
  | .flFlush => { st with client := st.client.flush }

def wstep (wh : WSt → Nat → WSt) (st : WSt) (row : Nat × WInstr) : WSt :=
  if st.returned then st else
  match st.skip with
  | some k => if k < row.1 then st else wrun wh { st with skip := none } row.1 row.2
  | none => wrun wh st row.1 row.2

def wexec (wh : WSt → Nat → WSt) (prog : List (Nat × WInstr)) (st : WSt) : WSt :=
  let r := prog.foldl (wstep wh) st
  { r with returned := false, skip := none, arg := 0, bs := [] }

/-- a WriteHeader program does not call WriteHeader -/
def noSelf (st : WSt) (_ : Nat) : WSt := { st with stuck := true }

/-- `wr.WriteHeader(n)` by the given WriteHeader program, inside another method of the wrapper -/
def selfCall (whProg : List (Nat × WInstr)) (st : WSt) (n : Nat) : WSt :=
  let r := wexec noSelf whProg { st with arg := n, returned := false, skip := none }
  { r with arg := st.arg, bs := st.bs }

/-- the method programs of a wrapper type in a source table, `none` when a statement has no meaning -/
def wProg (stmts : List (Nat × String × String)) : Option (List (Nat × WInstr)) := stmts.mapM parseW

/-! ### ValidationHandler: ServeHTTP / Middleware → before → validateRequest as programs read off the source -/

inductive VInstr
  | callSub      -- `handled := h.before(w, r)` in ServeHTTP / Middleware; `err := h.validateRequest(r)` in before
  | ifHandled    -- `if handled {`
  | ifErr        -- `if err != nil {`
  | ret          -- `return`, `return err` (err stays what it is)
  | retNil       -- `return nil`
  | retTrue      -- `return true`
  | retFalse     -- `return false`
  | serveRaw     -- `h.Handler.ServeHTTP(w, r)` / `next.ServeHTTP(w, r)`: the wrapped handler on the RAW writer
  | encode       -- `h.ErrorEncoder(r.Context(), err, w)`: on the raw writer
  | findRoute    -- `route, pathParams, err := h.router.FindRoute(r)`
  | validateReq  -- `err = ValidateRequest(r.Context(), requestValidationInput)`
  | nop          -- building Options{AuthenticationFunc} and the RequestValidationInput
  deriving DecidableEq, Repr

def vMeaning : List ((String × String) × VInstr) :=
  [(("assign", "handled := h.before(w, r)"), .callSub),
   (("if", "handled"), .ifHandled),
   (("return", "return"), .ret),
   (("call", "h.Handler.ServeHTTP(w, r)"), .serveRaw),
   (("call", "next.ServeHTTP(w, r)"), .serveRaw),
   (("assign", "err := h.validateRequest(r)"), .callSub),
   (("if", "err != nil"), .ifErr),
   (("call", "h.ErrorEncoder(r.Context(), err, w)"), .encode),
   (("return", "return true"), .retTrue),
   (("return", "return false"), .retFalse),
   (("assign", "route, pathParams, err := h.router.FindRoute(r)"), .findRoute),
   (("return", "return err"), .ret),
   (("assign", "options := &Options{AuthenticationFunc: h.AuthenticationFunc}"), .nop),
   (("assign", "requestValidationInput := &RequestValidationInput{Request: r, PathParams: pathParams, Route: route, Options: options}"), .nop),
   (("assign", "err = ValidateRequest(r.Context(), requestValidationInput)"), .validateReq),
   (("return", "return nil"), .retNil)]

def parseV (r : Nat × String × String) : Option (Nat × VInstr) :=
  (vMeaning.lookup (r.2.1, r.2.2)).map (fun i => (r.1, i))

def vProg (stmts : List (Nat × String × String)) : Option (List (Nat × VInstr)) := stmts.mapM parseV

structure VSt where
  client : Client
  err : Option ReqFail := none     -- the error value in flight (`none` = nil)
  handled : Bool := false
  handlerRan : Bool := false
  encCalls : List ReqFail := []
  returned : Bool := false
  skip : Option Nat := none
  stuck : Bool := false
  deriving DecidableEq, Repr

/-- the error FindRoute returns for this request -/
def routeErr : ReqFail → Option ReqFail
  | .noPath => some .noPath | .noMethod => some .noMethod | _ => none

/-- the error ValidateRequest returns for this request (reached only when a route was found) -/
def requestErr : ReqFail → Option ReqFail
  | .none => none | f => some f

def vrun (encOps : ReqFail → List Op) (fail : ReqFail) (ops : List Op) (sub : VSt → VSt) (st : VSt) (d : Nat) : VInstr → VSt
  | .callSub => let r := sub { st with returned := false, skip := none }; { r with returned := false, skip := none }
  | .ifHandled => if st.handled then st else { st with skip := some d }
  | .ifErr => if st.err.isSome then st else { st with skip := some d }
  | .ret => { st with returned := true }
  | .retNil => { st with err := none, returned := true }
  | .retTrue => { st with handled := true, returned := true }
  | .retFalse => { st with handled := false, returned := true }
  | .serveRaw => { st with client := runDirect st.client ops, handlerRan := true }
  | .encode =>
    match st.err with
    | some f => { st with client := runDirect st.client (encOps f), encCalls := st.encCalls ++ [f] }
    | none => { st with stuck := true }
  | .findRoute => { st with err := routeErr fail }
  | .validateReq => { st with err := requestErr fail }
  | .nop => st

def vstep (encOps : ReqFail → List Op) (fail : ReqFail) (ops : List Op) (sub : VSt → VSt) (st : VSt) (row : Nat × VInstr) : VSt :=
  if st.returned then st else
  match st.skip with
  | some k => if k < row.1 then st else vrun encOps fail ops sub { st with skip := none } row.1 row.2
  | none => vrun encOps fail ops sub st row.1 row.2

def vexecRows (encOps : ReqFail → List Op) (fail : ReqFail) (ops : List Op) (sub : VSt → VSt) (prog : List (Nat × VInstr))
    (st : VSt) : VSt := prog.foldl (vstep encOps fail ops sub) st

/-- the entry program (ServeHTTP or the closure of Middleware) with `before` and `validateRequest` as given -/
def vexec (encOps : ReqFail → List Op) (fail : ReqFail) (ops : List Op) (server : Bool)
    (entry before validate : List (Nat × VInstr)) : VOutcome :=
  let noSub : VSt → VSt := fun st => { st with stuck := true }
  let runValidate := vexecRows encOps fail ops noSub validate
  let runBefore := vexecRows encOps fail ops runValidate before
  let r := vexecRows encOps fail ops runBefore entry { client := Client.init server }
  { handlerRan := r.handlerRan, client := r.client, encCalls := r.encCalls }

def vServeProg : List (Nat × VInstr) := [(0, .callSub), (0, .ifHandled), (1, .ret), (0, .serveRaw)]
def vBeforeProg : List (Nat × VInstr) := [(0, .callSub), (0, .ifErr), (1, .encode), (1, .retTrue), (0, .retFalse)]
def vValidateProg : List (Nat × VInstr) :=
  [(0, .findRoute), (0, .ifErr), (1, .ret), (0, .nop), (0, .nop), (0, .validateReq), (0, .ifErr), (1, .ret), (0, .retNil)]

/-! the programs the wrapper methods of the source must parse to -/
def strictWH : List (Nat × WInstr) := [(0, .ifNotHWInfo), (1, .ret), (0, .ifNotHW), (1, .setStatus), (1, .setHW)]
def strictW : List (Nat × WInstr) := [(0, .ifNotHW), (1, .selfWriteHeader200), (0, .bufWrite)]
def strictFl : List (Nat × WInstr) := [(0, .ifHW), (1, .rawWriteHeaderRec), (0, .rawWriteBuf), (0, .ret)]
def warnWH : List (Nat × WInstr) :=
  [(0, .ifNotHWInfo), (1, .rawWriteHeaderArg), (1, .ret), (0, .ifNotHW), (1, .setStatus), (1, .setHW), (0, .rawWriteHeaderRec)]
def warnW : List (Nat × WInstr) := [(0, .ifNotHW), (1, .selfWriteHeader200), (0, .teeWrite)]
def warnF : List (Nat × WInstr) := [(0, .assertFlusher), (0, .ifOk), (1, .flFlush)]

/-- one handler call served by the *source programs* of the strict wrapper: WriteHeader and Write by their statement
lists; Header() hands out the underlying writer's map (`return wr.w.Header()`), there is no Flush method, a panic
unwinds — those as in `Strict.step` -/
def Strict.srcStep (w : Strict) : Op → Strict
  | .writeHeader n => (wexec noSelf strictWH { WSt.ofStrict w with arg := n }).toStrict
  | .write bs => (wexec (selfCall strictWH) strictW { WSt.ofStrict w with bs := bs }).toStrict
  | op => w.step op

def Warn.srcStep (w : Warn) : Op → Warn
  | .writeHeader n => (wexec noSelf warnWH { WSt.ofWarn w with arg := n }).toWarn
  | .write bs => (wexec (selfCall warnWH) warnW { WSt.ofWarn w with bs := bs }).toWarn
  | .flush => (wexec noSelf warnF (WSt.ofWarn w)).toWarn
  | op => w.step op

/-! concrete inputs of the witness theorems in Props/C14Flow -/
def envBadReq : Env := { routeFound := true, reqOK := false, respOK := fun _ _ _ => true }
def envBadResp : Env := { routeFound := true, reqOK := true, respOK := fun _ _ _ => false }
def cfgS : Cfg := { strict := true, errOps := defaultErrOps }

end KinModel.Middleware
