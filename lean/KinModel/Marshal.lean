/-
C03 — generic model of the hand-written marshallers / unmarshallers of openapi3 and openapi2.

One object kind is described by a `Desc` (MarshalDesc.lean; the table of all kinds is regenerated from
the source). The model follows the code of one kind statement by statement:

  UnmarshalJSON   decode the tagged fields (absent key or JSON null ↦ the Go zero value of the field's
                  type class), decode the whole object again into `Extensions`, delete every key of the
                  delete list, assign back.
  MarshalYAML     `$ref` early return (kinds that have it); start from the extension map; for every
                  `m["k"] = recv.F` statement write key k when the guard holds of the value of F.

Values are JSON values; a Go value is represented by the JSON it encodes to (`null` = nil pointer, nil
slice, nil map, nil interface), which is what both the guards and `encoding/json` look at.
`rt` is the deep round trip (unmarshal then marshal) of a whole document: the flat step at every object
plus the special shapes (reference wrappers, map-like containers, `Types`, `AdditionalProperties`).
Spec side: `isDefault`, `NormalObj`, `normalB` — written from the property text ("no redundant defaults,
no siblings next to $ref"), independent of the guards.
-/
import KinModel.MarshalDesc
namespace KinModel.Marshal

inductive JV
  | null
  | bool (b : Bool)
  | num (mantissa : Int) (exponent : Nat)
  | str (s : String)
  | arr (xs : List JV)
  | obj (kvs : List (String × JV))
  deriving Repr, Inhabited

abbrev Obj := List (String × JV)

def lookup (k : String) : Obj → Option JV
  | [] => none
  | (k', v) :: r => if k = k' then some v else lookup k r

def hasKey (k : String) (o : Obj) : Bool := (lookup k o).isSome

/-! ### classification of values (pattern matches only: no equality on the nested type is needed) -/

def JV.isNull : JV → Bool | .null => true | _ => false
def JV.isEmptyStr : JV → Bool | .str s => s == "" | _ => false
def JV.isFalse : JV → Bool | .bool false => true | _ => false
def JV.isZeroNum : JV → Bool | .num m _ => m == 0 | _ => false
def JV.isEmptyColl : JV → Bool | .arr [] => true | .obj [] => true | _ => false
def JV.isEmptyObj : JV → Bool | .obj [] => true | _ => false

/-- the Go zero value of a field of the class, as the JSON it encodes to -/
def zero : TC → JV
  | .str => .str ""
  | .bool => .bool false
  | .uint => .num 0 0
  | .value => .obj []
  | _ => .null

/-- what `encoding/json` leaves in a field: absent key and JSON null keep the zero value -/
def decode (tc : TC) : Option JV → JV
  | none => zero tc
  | some .null => (match tc with
                   | .nmap => .obj []   -- named map types: their UnmarshalJSON turns null into an empty map
                   | _ => zero tc)
  | some v => v

/-- the guard of one `m["k"] = x` statement, evaluated on the field's value -/
def guard (tc : TC) : Guard → JV → Bool
  | .always, _ => true
  | .neEmptyStr, v => !v.isEmptyStr
  | .isTrue, v => !v.isFalse
  | .neZero, v => !v.isZeroNum
  | .neNil, v => !v.isNull
  | .lenNe0, v => (match tc with
                   | .str => !v.isEmptyStr                    -- len of a string
                   | _ => !(v.isNull || v.isEmptyColl))        -- len of a slice or map (nil has length 0)
  | .neNilLenNe0, v => !(v.isNull || v.isEmptyColl)      -- x != nil && len(*x) != 0
  | .orEmpty, _ => true                                    -- both branches write the key
  | .addProps, v => !v.isNull
  | .unknown _, _ => false

/-- the value one `m["k"] = …` statement writes for a field holding `v`: the field itself, except in the
    `else` branch of `if x != nil { m[k] = x } else { m[k] = T{} }`, which writes an empty map -/
def written : Guard → JV → JV
  | .orEmpty, .null => .obj []
  | _, v => v

/-- guards under which the key is written whatever the field holds -/
def Guard.uncond : Guard → Bool
  | .always => true
  | .orEmpty => true
  | _ => false

/-! ### one kind, flat -/

structure Rec where
  fld : String → JV      -- by Go field name
  ext : Obj

def fieldByGo (d : Desc) (g : String) : Option Field := d.fields.find? (fun f => f.goName == g)
def fieldByKey (d : Desc) (k : String) : Option Field := d.fields.find? (fun f => f.key == k)

def unmarshal (d : Desc) (o : Obj) : Rec :=
  if d.assignBack then
    { fld := fun g => match fieldByGo d g with
        | some f => decode f.tc (lookup f.key o)
        | none => .null
      ext := if d.unmExt then o.filter (fun kv => !(d.dels.contains kv.1)) else [] }
  else
    { fld := fun g => match fieldByGo d g with | some f => zero f.tc | none => .null, ext := [] }

def tcOfGo (d : Desc) (g : String) : TC :=
  match fieldByGo d g with | some f => f.tc | none => .unknown

def emit (child : String → JV → JV) (d : Desc) (r : Rec) (m : MField) : Option (String × JV) :=
  if guard (tcOfGo d m.goName) m.guard (r.fld m.goName)
  then some (m.key, child m.goName (written m.guard (r.fld m.goName))) else none

/-- `MarshalYAML`; `child` is what marshalling does to the value of a Go field (identity in the flat model) -/
def marshalWith (child : String → JV → JV) (d : Desc) (r : Rec) : Obj :=
  if d.refEarly && !(r.fld "Ref").isEmptyStr then [("$ref", r.fld "Ref")]
  else d.marsh.filterMap (emit child d r) ++ (if d.extCopy then r.ext else [])

def marshal (d : Desc) (r : Rec) : Obj := marshalWith (fun _ v => v) d r

def flatRT (d : Desc) (o : Obj) : Obj := marshal d (unmarshal d o)

/-! ### agreement of the three hand-maintained lists of one kind (decidable; `by decide` over the table) -/

/-- guard class fits the type class: the guard omits exactly default values of that class -/
def compat : TC → Guard → Bool
  | .str, .neEmptyStr => true
  | .str, .lenNe0 => true
  | .str, .always => true
  | .bool, .isTrue => true
  | .bool, .always => true
  | .uint, .neZero => true
  | .ptr, .neNil => true
  | .ptr, .always => true
  | .ptypes, .neNilLenNe0 => true    -- (`.ptypes, .neNil` is NOT compatible: the empty list, a default, would be written)
  | .slice, .lenNe0 => true
  | .slice, .neNil => true
  | .map, .lenNe0 => true
  | .map, .neNil => true
  | .map, .always => true
  | .nmap, .lenNe0 => true
  | .nmap, .neNil => true
  | .nmap, .orEmpty => true          -- (`.nmap, .always` is NOT compatible: nil ↦ null ↦ empty map ↦ {} is not stable)
  | .iface, .neNil => true
  | .value, .always => true
  | .addProps, .addProps => true
  | _, _ => false

def shapeKnown : Shape → Bool
  | .unknown _ => false
  | .list s => shapeKnown s
  | .map s => shapeKnown s
  | .pmap s => shapeKnown s
  | _ => true

/-- every marshal statement reads the field whose tag is the key it writes, under a fitting guard -/
def marshFieldOK (c : TC → Guard → Bool) (d : Desc) (m : MField) : Bool :=
  match fieldByGo d m.goName with
  | some f => f.key == m.key && c f.tc m.guard
  | none => false

def tagKeys (d : Desc) : List String := d.fields.map (·.key)
def marshKeys (d : Desc) : List String := d.marsh.map (·.key)

/-- keys the marshaller writes unconditionally -/
def alwaysKeys (d : Desc) : List String := (d.marsh.filter (fun m => m.guard.uncond)).map (·.key)

/-- Fields that the OpenAPI specifications (3.0.3 / 2.0) mark REQUIRED and that the Go types serialise
    even when empty. Written from the specification text, not from the marshallers; `structAgree` demands
    that the unconditional writes of a marshaller are exactly these. -/
def specRequired : String → List String
  | "openapi3.T" => ["info", "openapi", "paths"]
  | "openapi3.Info" => ["title", "version"]
  | "openapi3.Operation" => ["responses"]
  | "openapi3.RequestBody" => ["content"]
  | "openapi3.License" => ["name"]
  | "openapi3.Server" => ["url"]
  | "openapi3.Discriminator" => ["propertyName"]
  | "openapi3.OAuthFlow" => ["scopes"]
  | "openapi2.T" => ["info", "swagger"]
  | "openapi2.Operation" => ["responses"]
  | _ => []

def requiredKeys (d : Desc) : List String := specRequired d.name

/-- keys the marshaller must write: all tags, except `$ref` for kinds that emit it by the early return -/
def expectedMarshKeys (d : Desc) : List String :=
  if d.refEarly then (tagKeys d).filter (· != "$ref") else tagKeys d

/-- the part of the agreement the lookup characterisation needs (no guard/type fit) -/
def structWF (d : Desc) : Bool :=
  marshKeys d == expectedMarshKeys d && d.dels == tagKeys d &&
  (tagKeys d).Nodup && (d.fields.map (·.goName)).Nodup &&
  d.marsh.all (marshFieldOK (fun _ _ => true) d) &&
  (d.refEarly == (tagKeys d).contains "$ref") &&
  (!d.refEarly || (fieldByGo d "Ref").any (fun f => f.key == "$ref" && f.tc == .str)) &&
  d.extCopy && d.unmExt && d.assignBack

def structAgreeWith (c : TC → Guard → Bool) (d : Desc) : Bool :=
  structWF d &&
  d.marsh.all (marshFieldOK c d) && d.fields.all (fun f => shapeKnown f.shape && f.tc != .unknown) &&
  alwaysKeys d == specRequired d.name

def structAgree (d : Desc) : Bool := structAgreeWith compat d

def Desc.agreeWith (c : TC → Guard → Bool) (d : Desc) : Bool :=
  d.unrecognised.isEmpty &&
  (match d.template with
   | .struct => d.hasMarsh && d.hasUnm && d.delegates && structAgreeWith c d
   | .alias => d.uniform && shapeKnown d.valueShape
   | .namedMap => d.hasUnm && d.uniform && shapeKnown d.valueShape
   | .special => d.uniform
   | _ => d.hasMarsh && d.hasUnm && d.delegates && d.uniform && shapeKnown d.valueShape)

/-- agreement: the round trip of the kind loses nothing, invents nothing and is stable -/
def Desc.agree (d : Desc) : Bool := d.agreeWith compat

/-- a shape whose null entries are decoded into pointers to zero wrappers that cannot be marshalled
    (wrapper `w` neither checks `Value` itself nor has a nil-tolerant value marshaller) -/
def entryPanics (T : List Desc) : Shape → Bool
  | .ref w => (T.find? (fun d => d.name == w)).any (fun d => !d.valueNilSafe)
  | _ => false

def shapePanics (T : List Desc) : Shape → Bool
  | .pmap s => entryPanics T s || shapePanics T s
  | .map s => shapePanics T s
  | .list s => shapePanics T s
  | _ => false

/-- some position of some kind turns a null entry into a panic of the marshaller (finding F-C03-2, repaired:
    `no_null_entry_panic` proves this false of the table) -/
def nullEntryPanicReachable (T : List Desc) : Bool :=
  T.any (fun d => match d.template with
    | .struct => d.fields.any (fun f => shapePanics T f.shape)
    | .maplike => entryPanics T (match d.valueShape with | .map s => s | s => s)
    | _ => false)

/-! ### spec side: normal form, written from the property text -/

/-- "redundant default": a value that says nothing more than the absence of the key -/
def isDefault (tc : TC) (v : JV) : Bool :=
  v.isNull ||
  (match tc with
   | .str => v.isEmptyStr
   | .bool => v.isFalse
   | .uint => v.isZeroNum
   | .ptypes => v.isEmptyColl
   | .slice => v.isEmptyColl
   | .map => v.isEmptyColl
   | .nmap => v.isEmptyColl
   | _ => false)


/-- flat normal form of an input object of kind `d`: distinct keys, no redundant default, required
    fields present (with a non-null value), no sibling next to a non-empty `$ref` -/
def normalObjB (d : Desc) (o : Obj) : Bool :=
  (o.map (·.1)).Nodup &&
  o.all (fun kv => match fieldByKey d kv.1 with
                   | some f => !isDefault f.tc kv.2
                   | none => true) &&
  (requiredKeys d).all (fun k => hasKey k o) &&
  (!(d.refEarly && hasKey "$ref" o) || o.length == 1)

/-! ### deep round trip -/

def findDesc (T : List Desc) (n : String) : Option Desc := T.find? (fun d => d.name == n)

def shapeOfGo (d : Desc) (g : String) : Shape :=
  match fieldByGo d g with | some f => f.shape | none => .leaf

def refString (o : Obj) : Option String :=
  match lookup "$ref" o with
  | some (.str s) => if s == "" then none else some s
  | _ => none

def isExtKey (k : String) : Bool := "x-".toList.isPrefixOf k.toList

/-- why the deep model has no value: the real code panics (nil dereference in a value-receiver
    `MarshalYAML`), the fuel of the model ran out (never with the fuel the driver passes), or the real
    decoder refuses the input (modelled for `Types` only: elsewhere the model is silent about typing) -/
inductive Err | panic | fuel | unparsed
  deriving DecidableEq, Repr

abbrev Res := Except Err

/-- `List.mapM` for `Res`, written out (structural: reduces under `decide`, easy induction) -/
def mapR {α β : Type} (f : α → Res β) : List α → Res (List β)
  | [] => .ok []
  | x :: xs =>
    match f x with
    | .error e => .error e
    | .ok y =>
      match mapR f xs with
      | .error e => .error e
      | .ok ys => .ok (y :: ys)

def Res.wrap {α β : Type} (c : α → β) : Res α → Res β
  | .ok a => .ok (c a)
  | .error e => .error e

/-- key-preserving map over the members of an object -/
def mapKV (g : String → JV → Res JV) (kvs : Obj) : Res Obj :=
  mapR (fun (kv : String × JV) => (g kv.1 kv.2).wrap (fun v' => (kv.1, v'))) kvs

/-- one element of a `[]string`: null is decoded as the empty string -/
def typeElem : JV → Res JV
  | .null => .ok (.str "")
  | .str s => .ok (.str s)
  | _ => .error .unparsed

/-- `Types.UnmarshalJSON` then `Types.MarshalYAML`: a string becomes a one-element list and is written back
    as a string; a one-element list is written as a string; the empty list is written as null (the three
    marshallers that hold a `*Types` no longer reach this with an empty list: guard `neNilLenNe0`); anything
    that is neither a string nor a list of strings is refused by the decoder -/
def rtTypes : JV → Res JV
  | .null => .ok .null
  | .str s => .ok (.str s)
  | .arr xs =>
    match mapR typeElem xs with
    | .error e => .error e
    | .ok [] => .ok .null
    | .ok [x] => .ok x
    | .ok ys => .ok (.arr ys)
  | _ => .error .unparsed

/-- the `Schema.UnmarshalJSON` post-processing: `format: date` trims a `T00:00:00Z` suffix of a string example -/
def hasDateSuffix (s : String) : Bool := "T00:00:00Z".toList.isSuffixOf s.toList

def trimDate (s : String) : String :=
  if hasDateSuffix s then String.ofList (s.toList.take (s.toList.length - 10)) else s

def JV.isStrEq (t : String) : JV → Bool | .str s => s == t | _ => false
def JV.endsDate : JV → Bool | .str e => hasDateSuffix e | _ => false
def JV.trimDate : JV → JV | .str e => .str (KinModel.Marshal.trimDate e) | v => v

/-- the object has `format: "date"` and a string `example` ending in `T00:00:00Z` -/
def trimmable (o : Obj) : Bool :=
  (lookup "format" o).any (JV.isStrEq "date") && (lookup "example" o).any JV.endsDate

/-- the input reaches the date-trimming statement and is changed by it (exclusion class `DateExampleTrim`) -/
def dateTrimHit (d : Desc) (o : Obj) : Bool := d.post.contains "dateExampleTrim" && trimmable o

def applyPost (d : Desc) (o : Obj) : Obj :=
  if dateTrimHit d o then o.map (fun kv => if kv.1 == "example" then (kv.1, kv.2.trimDate) else kv) else o

/-- `MarshalYAML` where the value of every written field is marshalled by its own marshaller `f` -/
def marshalDeep (f : Shape → JV → Res JV) (d : Desc) (r : Rec) : Res Obj :=
  if d.refEarly && !(r.fld "Ref").isEmptyStr then .ok [("$ref", r.fld "Ref")]
  else
    (mapR (fun (m : MField) =>
              (f (shapeOfGo d m.goName) (written m.guard (r.fld m.goName))).wrap (fun v' => (m.key, v')))
          (d.marsh.filter (fun m => guard (tcOfGo d m.goName) m.guard (r.fld m.goName)))).wrap
      (fun fs => fs ++ (if d.extCopy then r.ext else []))

/-- what the decoder of the element type makes of a null element of a slice / a null entry of a plain map:
    a named map type turns it into an empty map, a string into "" -/
def nullFix : Shape → JV → JV
  | .pmap _, .null => .obj []
  | .strLeaf, .null => .str ""
  | _, v => v

/-- a null entry of a map of reference wrappers is decoded into a pointer to a zero wrapper: its marshaller
    writes null when it checks `Value` (or the value's marshaller tolerates nil), and panics otherwise -/
def nilEntry (T : List Desc) (w : String) : Res JV :=
  match findDesc T w with
  | some d => if d.valueNilSafe then .ok .null else .error .panic
  | none => .ok .null

/-- an entry of a named map type / of a map-like container (decoded by `unmarshalStringMapP`: a null entry
    becomes a pointer to the zero value of the entry type) -/
def entryStep (T : List Desc) (f : Shape → JV → Res JV) (s : Shape) (v : JV) : Res JV :=
  match v with
  | .null =>
    (match s with
     | .ref w => nilEntry T w
     | .kind k => f (.kind k) (.obj [])
     | .strLeaf => f .strLeaf (.str "")
     | _ => .ok .null)
  | v => f s v

def entryShapeOf (d : Desc) : Shape := match d.valueShape with | .map s => s | s => s

def stepAddProps (f : Shape → JV → Res JV) : JV → Res JV
  | .obj [] => .ok (.obj [])
  | .obj (kv :: kvs) => f (.ref "openapi3.SchemaRef") (.obj (kv :: kvs))
  | v => .ok v

def stepList (f : Shape → JV → Res JV) (s : Shape) : JV → Res JV
  | .arr xs => (mapR (fun x => f s (nullFix s x)) xs).wrap .arr
  | v => .ok v

def stepMap (f : Shape → JV → Res JV) (s : Shape) : JV → Res JV
  | .obj kvs => (mapKV (fun _ x => f s (nullFix s x)) kvs).wrap .obj
  | v => .ok v

def stepPMap (T : List Desc) (f : Shape → JV → Res JV) (s : Shape) : JV → Res JV
  | .obj kvs => (mapKV (fun _ x => entryStep T f s x) kvs).wrap .obj
  | v => .ok v

/-- reference wrapper: `$ref` (a non-empty string) wins and everything next to it is dropped; otherwise the
    object is the value -/
def stepRef (T : List Desc) (f : Shape → JV → Res JV) (w : String) : JV → Res JV
  | .obj kvs =>
    (match findDesc T w with
     | none => .ok (.obj kvs)
     | some d =>
       match refString kvs with
       | some r => .ok (.obj [("$ref", .str r)])
       | none => f d.valueShape (.obj kvs))
  | v => .ok v

/-- map-like container (Paths / Responses / Callback): `x-` keys are extensions, `__origin__` is dropped,
    every other key is an entry -/
def stepMaplike (T : List Desc) (f : Shape → JV → Res JV) (w : String) : JV → Res JV
  | .obj kvs =>
    (match findDesc T w with
     | none => .ok (.obj kvs)
     | some d =>
       (mapKV (fun k x => if isExtKey k then .ok x else entryStep T f (entryShapeOf d) x)
          (kvs.filter (fun kv => kv.1 != "__origin__"))).wrap .obj)
  | v => .ok v

def stepKind (T : List Desc) (f : Shape → JV → Res JV) (k : String) (v : JV) : Res JV :=
  match findDesc T k with
  | none => .ok v
  | some d =>
    match d.template with
    | .alias => f d.valueShape v
    | .struct =>
      (match v with
       | .obj kvs => (marshalDeep f d (unmarshal d (applyPost d kvs))).wrap .obj
       | v => .ok v)
    | _ => .ok v

/-- one level of the deep round trip (unmarshal then marshal): the flat step at an object of a struct kind,
    the special shapes, and `f` for everything one level down -/
def rtStep (T : List Desc) (f : Shape → JV → Res JV) : Shape → JV → Res JV
  | .leaf, v => .ok v
  | .strLeaf, v => .ok v
  | .unknown _, v => .ok v
  | .types, v => rtTypes v
  | .addProps, v => stepAddProps f v
  | .list s, v => stepList f s v
  | .map s, v => stepMap f s v
  | .pmap s, v => stepPMap T f s v
  | .ref w, v => stepRef T f w v
  | .maplike w, v => stepMaplike T f w v
  | .kind k, v => stepKind T f k v

/-- deep round trip with fuel (`.error .fuel` = out of fuel; the driver passes more than the depth needs). -/
def rt (T : List Desc) : Nat → Shape → JV → Res JV
  | 0, _, _ => .error .fuel
  | n + 1, s, v => rtStep T (rt T n) s v

/-! ### the Loader route: what resolving a reference does to the Go value, and what the marshaller prints

`Loader.resolve*Ref` fills `Value` next to `Ref` in a reference wrapper; `resolvePathItemRef` copies the target's
fields into the path item and puts the reference text back. The JSON-valued model above does not see that state
(a Go value is represented by the JSON it encodes to), so the two facts the Loader route rests on are stated on
the Go state itself. -/

/-- Go state of a reference wrapper `XRef{Ref, Value}`; `value` is the JSON `Value.MarshalYAML` writes
    (`none` = nil pointer) -/
structure Wrapper where
  ref : String
  value : Option JV

/-- the one `MarshalYAML` template of the ten wrappers (flag `uniform` of their table rows): a non-empty `Ref`
    is printed alone; otherwise the value; a wrapper with neither is null -/
def Wrapper.marshal (w : Wrapper) : JV :=
  if w.ref != "" then .obj [("$ref", .str w.ref)] else w.value.getD .null

/-- `resolve*Ref`: `component.Value = resolved.Value`, `Ref` untouched -/
def Wrapper.resolved (w : Wrapper) (target : JV) : Wrapper := { w with value := some target }

/-- `resolvePathItemRef`: `*pathItem = resolved; pathItem.Ref = ref` — every field and the extensions come from
    the target, the reference text is the path item's own -/
def Rec.resolvedFrom (r target : Rec) : Rec :=
  { fld := fun g => if g == "Ref" then r.fld "Ref" else target.fld g, ext := target.ext }

/-! ### the loaded document as a tree of Go values

A whole document after `json.Unmarshal`, as the Go state the marshallers walk: plain values, reference wrappers
(`Ref`, `Value`), struct kinds (their own `Ref` — "" for the kinds that have none —, the function that assembles
the written object from the marshalled children: guards, key order, extension copy, all opaque here), slices and
maps. Lists are spelled with the constructors `nilL`/`consL`, `nilM`/`consM` so that the type is not nested. -/

inductive GoV
  | leaf (v : JV)
  | wrapper (ref : String) (hasValue : Bool) (value : GoV)
  | struct (ref : String) (asm : List (String × JV) → JV) (fields : GoV)
  | nilL
  | consL (x : GoV) (rest : GoV)
  | nilM
  | consM (k : String) (x : GoV) (rest : GoV)

def JV.elems : JV → List JV | .arr xs => xs | _ => []
def JV.members : JV → Obj | .obj kvs => kvs | _ => []

/-- the marshallers: a non-empty `Ref` is printed alone (wrapper template; `$ref` early return of a struct kind),
    otherwise the value / the assembled object; slices and maps element by element -/
def marshalG : GoV → JV
  | .leaf v => v
  | .wrapper ref hasValue value =>
    if ref != "" then .obj [("$ref", .str ref)] else if hasValue then marshalG value else .null
  | .struct ref asm fields =>
    if ref != "" then .obj [("$ref", .str ref)] else asm (marshalG fields).members
  | .nilL => .arr []
  | .consL x rest => .arr (marshalG x :: (marshalG rest).elems)
  | .nilM => .obj []
  | .consM k x rest => .obj ((k, marshalG x) :: (marshalG rest).members)

/-- The loader (`ResolveRefsIn`): it walks the document; at a wrapper with a reference it sets `Value` to whatever
    the reference resolves to (`ρ`, arbitrary: which target, resolved how deep, from which file — all of that is
    C02's business), at a struct kind with its own reference (path item) it copies the target's fields and
    assembling function (`σ`, arbitrary) and keeps `Ref`; everywhere else it descends. -/
def resolveG (ρ : String → GoV) (σ : String → (List (String × JV) → JV) × GoV) : GoV → GoV
  | .leaf v => .leaf v
  | .wrapper ref hasValue value =>
    if ref != "" then .wrapper ref true (ρ ref) else .wrapper ref hasValue (resolveG ρ σ value)
  | .struct ref asm fields =>
    if ref != "" then .struct ref (σ ref).1 (σ ref).2 else .struct ref asm (resolveG ρ σ fields)
  | .nilL => .nilL
  | .consL x rest => .consL (resolveG ρ σ x) (resolveG ρ σ rest)
  | .nilM => .nilM
  | .consM k x rest => .consM k (resolveG ρ σ x) (resolveG ρ σ rest)

/-- does the tree hold a reference anywhere (non-vacuity of the theorem) -/
def GoV.hasRef : GoV → Bool
  | .leaf _ => false
  | .wrapper ref _ value => ref != "" || value.hasRef
  | .struct ref _ fields => ref != "" || fields.hasRef
  | .nilL => false
  | .consL x rest => x.hasRef || rest.hasRef
  | .nilM => false
  | .consM _ x rest => x.hasRef || rest.hasRef

/-! ### exclusion and side conditions of the deep stability theorem -/

mutual
/-- No object anywhere in the document is changed by the date-trimming statement: the exclusion class
    DateExampleTrim, applied at every depth (and whatever kind the object is read as). -/
def JV.clean : JV → Bool
  | .arr xs => cleanL xs
  | .obj kvs => !trimmable kvs && cleanO kvs
  | _ => true
def cleanL : List JV → Bool
  | [] => true
  | x :: r => x.clean && cleanL r
def cleanO : List (String × JV) → Bool
  | [] => true
  | (_, v) :: r => v.clean && cleanO r
end

/-- neither null nor an empty list / object -/
def JV.nonEmpty (v : JV) : Bool := !(v.isNull || v.isEmptyColl)

/-- shapes whose values are collections (or plain JSON): a non-empty one stays non-empty in the round trip -/
def collShape : Shape → Bool
  | .leaf => true
  | .list _ => true
  | .map _ => true
  | .pmap _ => true
  | .types => true
  | _ => false

/-- the child shape fits the Go type class of the field (what the guards of the marshaller rely on) -/
def tcShapeOK : TC → Shape → Bool
  | .str, s => s == .leaf
  | .bool, s => s == .leaf
  | .uint, s => s == .leaf
  | .iface, s => s == .leaf
  | .ptypes, s => s == .types
  | .slice, .leaf => true
  | .slice, .list _ => true
  | .map, .leaf => true
  | .map, .map _ => true
  | .nmap, .pmap _ => true
  | .ptr, s => s != .types
  | .value, s => s != .types
  | .addProps, s => s == .addProps
  | _, _ => false

/-- side conditions of the deep stability theorem on one row of the table (decidable; `by decide` over the
    regenerated table): struct kinds agree, child shapes fit the type classes, the post-processing reads plain
    fields; wrappers and aliases do not stand for a bare type list -/
def refSafe : Shape → Bool
  | .map s => s != .types
  | .pmap s => s != .types
  | _ => true

def Desc.deepOK (d : Desc) : Bool :=
  d.valueShape != .types && refSafe d.valueShape &&
  match d.template with
  | .struct =>
    structAgree d && d.fields.all (fun f => tcShapeOK f.tc f.shape) &&
    (d.post.isEmpty || d.fields.all (fun f => !(f.key == "format" || f.key == "example") || f.shape == .leaf))
  | _ => true

/-! ### deep normal form (spec side): follows the shape grammar, not the marshallers -/

def allStr : List JV → Bool
  | [] => true
  | .str _ :: r => allStr r
  | _ :: _ => false

def JV.isStr : JV → Bool | .str _ => true | _ => false

/-- a type list in normal form: one string, or a list of at least two strings -/
def normTypes : JV → Bool
  | .str _ => true
  | .arr (x :: y :: r) => allStr (x :: y :: r)
  | _ => false

def normAddProps (g : Shape → JV → Bool) : JV → Bool
  | .bool _ => true
  | .obj kvs => g (.ref "openapi3.SchemaRef") (.obj kvs)
  | _ => false

def normList (g : Shape → JV → Bool) (s : Shape) : JV → Bool
  | .arr xs => xs.all (g s)
  | _ => false

/-- a map: distinct keys, no null entry, every entry in normal form -/
def normEntries (g : Shape → JV → Bool) (s : Shape) : JV → Bool
  | .obj kvs => (kvs.map (·.1)).Nodup && kvs.all (fun kv => !kv.2.isNull && g s kv.2)
  | _ => false

/-- a reference wrapper: either `$ref` (a non-empty string) alone, or the value -/
def normRef (T : List Desc) (g : Shape → JV → Bool) (w : String) : JV → Bool
  | .obj kvs =>
    (match findDesc T w with
     | none => false
     | some d =>
       if hasKey "$ref" kvs then (match kvs with | [(_, .str r)] => r != "" | _ => false)
       else g d.valueShape (.obj kvs))
  | _ => false

def normMaplike (T : List Desc) (g : Shape → JV → Bool) (w : String) : JV → Bool
  | .obj kvs =>
    (match findDesc T w with
     | none => false
     | some d =>
       (kvs.map (·.1)).Nodup && !hasKey "__origin__" kvs &&
       kvs.all (fun kv => isExtKey kv.1 || (!kv.2.isNull && g (entryShapeOf d) kv.2)))
  | _ => false

def normKind (T : List Desc) (g : Shape → JV → Bool) (k : String) : JV → Bool
  | .obj kvs =>
    (match findDesc T k with
     | none => false
     | some d =>
       match d.template with
       | .alias => g d.valueShape (.obj kvs)
       | .struct =>
         normalObjB d kvs && !hasKey "__origin__" kvs &&
         kvs.all (fun kv => match fieldByKey d kv.1 with
                            | some f => g f.shape kv.2
                            | none => true)
       | _ => false)
  | _ => false

/-- one level of the deep normal form; `g` is the normal form one level down -/
def normStep (T : List Desc) (g : Shape → JV → Bool) : Shape → JV → Bool
  | .leaf, _ => true
  | .strLeaf, v => v.isStr
  | .unknown _, _ => false
  | .types, v => normTypes v
  | .addProps, v => normAddProps g v
  | .list s, v => normList g s v
  | .map s, v => normEntries g s v
  | .pmap s, v => normEntries g s v
  | .ref w, v => normRef T g w v
  | .maplike w, v => normMaplike T g w v
  | .kind k, v => normKind T g k v

/-- deep normal form of a document of shape `s`: no redundant default, no sibling next to `$ref`, no null
    entry, no duplicate key, required fields present — at every object the shape grammar reaches -/
def normalB (T : List Desc) : Nat → Shape → JV → Bool
  | 0, _, _ => false
  | n + 1, s, v => normStep T (normalB T n) s v

/-! ### "the same JSON": equality up to the order of object members, at every depth -/

mutual
def JV.same : JV → JV → Prop
  | .null, v1 => v1 = .null
  | .bool b, v1 => v1 = .bool b
  | .num m e, v1 => v1 = .num m e
  | .str s, v1 => v1 = .str s
  | .arr xs, v1 => v1 = .arr xs ∨ ∃ ys, v1 = .arr ys ∧ sameL xs ys
  | .obj a, v1 => v1 = .obj a ∨
      ∃ b, v1 = .obj b ∧ sameO a b ∧ (∀ k, (lookup k b).isSome = true → (lookup k a).isSome = true) ∧
        (b.map (·.1)).Nodup
/-- element by element -/
def sameL : List JV → List JV → Prop
  | [], ys => ys = []
  | x :: xs, ys => ∃ y ys', ys = y :: ys' ∧ x.same y ∧ sameL xs ys'
/-- every member of the first object is found in the second under its key, with the same value -/
def sameO : List (String × JV) → Obj → Prop
  | [], _ => True
  | (k, x) :: r, b => (∃ y, lookup k b = some y ∧ x.same y) ∧ sameO r b
end

/-! ### canonical form for comparison (objects are Go maps: order is immaterial) -/

def insertKV (kv : String × JV) : Obj → Obj
  | [] => [kv]
  | x :: xs => if kv.1 < x.1 then kv :: x :: xs else if kv.1 == x.1 then kv :: xs else x :: insertKV kv xs

def sortObj (o : Obj) : Obj := o.foldr insertKV []

end KinModel.Marshal
