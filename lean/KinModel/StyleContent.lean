/-
Content-described parameters (`content: {application/json: {schema: …}}` instead of `schema` + `style`): model of
decodeContentParameter and defaultContentParameterDecoder (req_resp_decoder.go) and of the branch of ValidateParameter
that uses them. Part of property C05.

json.Unmarshal is not modelled: every definition takes the reader of one text as a parameter
`unm : Str → Option Val` (`none` = not JSON); the driver instantiates it with Lean's JSON parser, restricted to the
values `Val` can hold (scalars, arrays of scalars, flat objects of scalars; JSON numbers are float64, i.e. `PV.num`).
-/
import KinModel.Style
namespace KinModel.Style

structure CParam where
  loc : Loc
  name : Str
  required : Bool
  allowEmpty : Bool
  /-- the keys of the parameter's `content` map -/
  media : List Str
  /-- the media type's schema (`none`: a media type without schema) -/
  schema : Option Sch

/-- the raw values: path `PathParams[name]`, query `GetQueryParams()[name]`, header `Header[Canonical(name)]`, cookie -/
def contentValues (loc : Loc) (name : Str) (r : Req) : Option (List Str) :=
  match loc with
  | .path => r.path.map (fun s => [s])
  | .query => qLookup name r.query
  | .header => r.header
  | .cookie => r.cookie.map (fun s => [s])

/-- `content.Get("application/json")` on a map with this single key: exact, `application/*`, `*/*` -/
def mediaIsJSON (k : Str) : Bool :=
  k = "application/json".toList || k = "application/*".toList || k = "*/*".toList

/-- `paramSchema.Value.Type.Is("object")` -/
def schIsObject : Sch → Bool
  | .leaf (.obj _ _ _) => true
  | .leaf (.deep _ _) => true
  | _ => false

/-- unmarshal of one text: JSON, or — when a schema is given and it is not an object schema — the text itself -/
def unmarshalC (unm : Str → Option Val) (s : Option Sch) (t : Str) : Option Val :=
  match unm t with
  | some v => some v
  | none => match s with
    | some sch => if schIsObject sch then none else some (.prim (.str t))
    | none => none

/-- `outSchema.Items` -/
def itemSchema : Option Sch → Option Sch
  | some (.leaf (.arr items _ _ _)) => some (.leaf (.prim items))
  | _ => none

/-- the scalars of several query values; `none`: an item that is not JSON, or not a scalar (outside `Val`) -/
def scalarItems (unm : Str → Option Val) (s : Option Sch) : List Str → Option (List PV)
  | [] => some []
  | t :: rest => match unmarshalC unm s t with
    | some (.prim v) => (scalarItems unm s rest).map (v :: ·)
    | _ => none

inductive COut
  | absent                 -- not found, no error
  | err                    -- any error of the decoder (ValidateParameter wraps it into a RequestError)
  | val (v : Val)          -- found
  deriving DecidableEq, Repr

/-- decodeContentParameter + defaultContentParameterDecoder. An absent parameter is plain absence in every location
(the cookie branch clears `http.ErrNoCookie`, commit c3da93a); whether it is required is ValidateParameter's business
(commit ea25ec8) -/
def decodeContent (unm : Str → Option Val) (p : CParam) (r : Req) : COut :=
  match contentValues p.loc p.name r with
  | none => .absent
  | some values =>
    if values.length > 1 && p.loc ≠ .query then .err        -- "cannot have multiple values"
    else if p.media.length ≠ 1 then .err                     -- "multiple content types"
    else if !p.media.all mediaIsJSON then .err               -- "has no content schema"
    else match values with
      | [t] => (match unmarshalC unm p.schema t with
        | none => .err
        | some v => .val v)
      | ts => (match scalarItems unm (itemSchema p.schema) ts with
        | none => .err
        | some vs => .val (.arr vs))

/-- ValidateParameter for a content-described parameter: an absent required parameter is `missing`
(ErrInvalidRequired), an absent optional one is accepted -/
def validateContent (unm : Str → Option Val) (visit : Sch → Val → Bool) (p : CParam) (r : Req) : Verdict :=
  match decodeContent unm p r with
  | .absent => if p.required then .missing else .accept
  | .err => .other
  | .val v =>
    if v.isNilValue then (if !p.allowEmpty then .empty else .accept)
    else match p.schema with
      | none => .accept
      | some s => if visit s v then .accept else .schema

end KinModel.Style
