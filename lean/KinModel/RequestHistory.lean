/-
Histories of `openapi3filter.ValidateRequest`: several calls, one after the other, for the same operation and the same
request facts — the same `RequestValidationInput`, a new input around the same `*http.Request`, or a new request against
the same loaded document / route / router — each with its own value of `RequestValidationInput.Options`.

`Options` is modelled as what it is in Go, a pointer to a struct that also carries the callback: `none` = nil pointer
(`options := input.Options; if options == nil { options = &Options{} }`, step `.optionsDefault` of the programs in
`KinModel/RequestFlow.lean`: the zero struct — no exclusion, fail-first, `AuthenticationFunc == nil`).

The model of one call is `RequestFlow.validateRequest` / `authLog` (the interpreter of the programs read from the
source). `ValidateRequest` declares its accumulator (`var me openapi3.MultiError`) and its view of the options locally
and writes to nothing but the request's body stream (read and restored: property C13), so the model of a history is the
list of the models of its calls: nothing is carried from one call to the next. That the code really carries nothing is
tied by the differential run, which executes every generated history against the real code and compares every call.
-/
import KinModel.RequestFlow
namespace KinModel.RequestHistory
open KinModel.Request (In Param Opts Part)
open KinModel.RequestFlow

/-- the struct `openapi3filter.Options` as far as `ValidateRequest` reads it -/
structure OptionsVal where
  opts : Opts
  /-- `AuthenticationFunc`; `none` = nil -/
  auth : Option (String → List String → Bool)

/-- one call: the value of `input.Options` (`none` = nil pointer) -/
structure Call where
  options : Option OptionsVal

/-- `if options == nil { options = &Options{} }` -/
def Call.opts (c : Call) : Opts :=
  match c.options with
  | some v => v.opts
  | none => {}

def Call.auth (c : Call) : Option (String → List String → Bool) :=
  match c.options with
  | some v => v.auth
  | none => none

def Call.env (declared : String → Bool) (c : Call) : Env := ⟨declared, c.auth⟩

/-- result and callback log of one call -/
def validateCall (op : Op) (declared : String → Bool) (c : Call) : Res × List AuthCall :=
  (validateRequest c.opts op (c.env declared), authLog c.opts op (c.env declared))

/-- **a history**: the results (and callback logs) of the calls, in order -/
def validateHistory (op : Op) (declared : String → Bool) : List Call → List (Res × List AuthCall)
  | [] => []
  | c :: cs => validateCall op declared c :: validateHistory op declared cs

/-- the specification of a history, from the property text: every call is judged on its own options -/
def acceptHistoryB (op : Op) (declared : String → Bool) (cs : List Call) : List Bool :=
  cs.map (fun c => acceptB c.opts op (c.env declared))

/-! ### Calls for two operations of the same path item

The document is shared state too: the path-level parameter list belongs to the path item, not to the operation. A step
of a history is made either for the operation of the case or for its *sibling*: another operation of the same path item
(same security) that declares no parameters and no body of its own, so that every path-level parameter is in effect for
it, whatever the first operation overrides. -/

def sibling (op : Op) : Op := { op with opParams := none, hasBody := false }

structure Step where
  onSibling : Bool
  call      : Call

def Step.op (op : Op) (s : Step) : Op := if s.onSibling then sibling op else op

def validateSteps (op : Op) (declared : String → Bool) : List Step → List (Res × List AuthCall)
  | [] => []
  | s :: r => validateCall (s.op op) declared s.call :: validateSteps op declared r

end KinModel.RequestHistory
