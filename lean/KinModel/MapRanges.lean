/-
C10 — the map-range table: shape of the regenerated rows (`KinModel/Gen/MapRanges.lean`, written by
`go/cmd/extract/mapranges.go` on every run from the same call graph as `PanicSites`), the hand-written
expectations for the loops the extractor could not discharge syntactically, and the decision procedure.

Go's map iteration order is random. A `range` over a map whose effect depends on that order makes one and the same
exchange behave differently from run to run (DESIGN §7 #35: a panic in 80 % of the runs). Every such loop on the
traffic path must therefore be sorted first, be of a shape whose effect is order-free, or be explained here.
-/
namespace KinModel.MapRanges

/-- what the extractor read syntactically -/
inductive Class
  | sortedKeys     -- the body only collects keys/values into a slice which the function sorts afterwards
  | mapCopy        -- the body is `m2[k] = v` with the range's own key and value
  | noVars         -- `for range m`
  | unsorted       -- anything else
  deriving DecidableEq, Repr

inductive Row
  | range (file fn : String) (cls : Class) (count : Nat) (exprs : List String)
  | unrecognised (what : String)
  deriving Repr

/-- how an unsorted loop is discharged by hand -/
inductive Why
  | orderFree (reason : String)     -- the loop's effect is the same for every order (distinct keys written, an
                                    -- existential search, a maximum, a set that is sorted afterwards)
  | panicFree (reason : String)     -- the order can change WHICH error or value results, but no potentially
                                    -- panicking operation (table PanicSites) depends on it; the order dependence
                                    -- itself belongs to another property and is named in `reason`
  | knownFinding (id : String)      -- the order decides between a panic and a normal return: an open finding
  deriving DecidableEq, Repr

structure Expect where
  file  : String
  fn    : String
  count : Nat
  why   : Why
  deriving Repr

def Expect.covers (e : Expect) (file fn : String) (count : Nat) : Bool :=
  e.count == count && e.fn == fn && e.file == file

def Row.discharged (exp : List Expect) : Row → Bool
  | .unrecognised _ => false
  | .range file fn cls count _ =>
    match cls with
    | .unsorted => exp.any (fun e => e.covers file fn count)
    | _ => true

def allDischarged (exp : List Expect) (rows : List Row) : Bool := rows.all (·.discharged exp)

/-- rows whose order dependence is an open finding -/
def openFindingRows (exp : List Expect) (rows : List Row) : List (String × String) :=
  rows.filterMap fun
    | .range file fn .unsorted count _ =>
      (exp.find? (fun e => e.covers file fn count)).bind fun e =>
        match e.why with | .knownFinding id => some (fn, id) | _ => none
    | _ => none

/-- rows discharged only as far as panics go (their order dependence is visible in the verdict or the route) -/
def panicFreeRows (exp : List Expect) (rows : List Row) : List String :=
  rows.filterMap fun
    | .range file fn .unsorted count _ =>
      (exp.find? (fun e => e.covers file fn count)).bind fun e =>
        match e.why with | .panicFree _ => some fn | _ => none
    | _ => none

def Expect.used (e : Expect) (rows : List Row) : Bool :=
  rows.any fun
    | .range file fn .unsorted count _ => e.covers file fn count
    | _ => false

def allUsed (exp : List Expect) (rows : List Row) : Bool := exp.all (·.used rows)

theorem discharged_of_all {exp : List Expect} {rows : List Row} (h : allDischarged exp rows = true) :
    ∀ r ∈ rows, r.discharged exp = true := by
  intro r hr
  exact (List.all_eq_true.mp h) r hr

def recognised : Row → Bool
  | .unrecognised _ => false
  | .range .. => true

theorem recognised_of_discharged {exp : List Expect} {r : Row} (h : r.discharged exp = true) :
    recognised r = true := by
  cases r with
  | unrecognised w => simp [Row.discharged] at h
  | range => rfl

/-! ## The hand-written expectations (one per unsorted group of the table on the current tree) -/

def expectations : List Expect := [
  ⟨"gorillamux/router.go", "permutePart", 3,
     .panicFree "srv.Variables: fills a map by name and a maximum (order-free); m: the values of one variable are appended unsorted, so WHICH value meets which in mas.s[i%len(mas.s)] varies, but len(mas.s) ≥ 1 in every order (PanicSites: permutePart intDiv); var2val: successive strings.Replace of distinct {name} tokens; the resulting set is sorted before it is returned"⟩,
  ⟨"legacy/router.go", "NewRouter", 2,
     .panicFree "root.Add per (path, method): an error for a malformed template is returned in every order; two templates that strip to the same trie key (/a and /a/) overwrite each other, so WHICH operation a request reaches depends on the order — a routing defect (C09: GET /a reaches /a in 13 and /a/ in 37 of 50 constructions), not a panic: the node reached is non-nil either way"⟩,
  ⟨"openapi3/paths.go", "Paths.InMatchingOrder", 1,
     .orderFree "buckets by number of variables; every bucket is sorted (sort.Reverse(sort.StringSlice)) before it is appended"⟩,
  ⟨"openapi3/schema.go", "Schema.IsEmpty", 1,
     .orderFree "existential search (return false at the first non-empty property); only evaluated by visitJSON on schemas without sub-schemas (08457da), where the map is empty"⟩,
  ⟨"openapi3/schema.go", "Schema.visitJSON", 1,
     .orderFree "copies the string-keyed entries of a YAML mapping into a map[string]any (distinct keys) behind a checked assertion; the count decides afterwards"⟩,
  ⟨"openapi3filter/req_resp_decoder.go", "MultipartBodyDecoder", 1,
     .orderFree "obj[name] is written once per property name (distinct keys); no early exit"⟩,
  ⟨"openapi3filter/req_resp_decoder.go", "UrlencodedBodyDecoder", 1,
     .panicFree "schema check before any byte is read: returns 'unsupported schema' at the first offending property; WHICH property the message names varies, an error is returned in every order (document-dependent only)"⟩,
  ⟨"openapi3filter/req_resp_decoder.go", "buildResObj", 2,
     .panicFree "per declared property / per request key: recursive decoding into resultMap[k] (distinct keys); the first error ends the loop, so WHICH parse error is reported varies; no entry of PanicSites in buildResObj depends on the order (deepGet is comma-ok)"⟩,
  ⟨"openapi3filter/req_resp_decoder.go", "decodeSchemaConstructs", 1,
     .orderFree "each property name is decoded once; a conflict is detected against values written by earlier (slice-ordered) schemas only; obj[name] distinct keys"⟩,
  ⟨"openapi3filter/req_resp_decoder.go", "makeObject", 1,
     .panicFree "deepSet reports 'set both as a value and as an object' in either order since a583555 (DESIGN #35, fixed; regression case in corpus/C10); WHICH of two errors is reported varies"⟩,
  ⟨"openapi3filter/req_resp_decoder.go", "sliceMapToSlice", 1,
     .orderFree "collects integer keys, then takes their maximum; a non-integer key is an error in every order; the maximum is bounded by len(m)+1024 before elements are built (ab8c63f)"⟩,
  ⟨"openapi3filter/req_resp_decoder.go", "urlValuesDecoder.DecodeObject", 4,
     .orderFree "form/explode: props[key] = values[0], distinct keys, url.Values entries are non-empty (PanicSites); deepObject: a key is taken only when it consists of the parameter name and bracket groups exactly (f73e4f9: p[a]zz is ignored), so distinct keys write distinct props keys; the two searches for `found` are existential"⟩,
  ⟨"openapi3filter/req_resp_decoder.go", "notJSONData", 3,
     .panicFree "searches a decoded YAML value for a non-string key (checked assertion) or a non-finite number and returns at the first one found: WHICH of the two reasons a body with both gets varies, a format error is returned in every order"⟩,
  ⟨"openapi3filter/validation_kit.go", "DefaultErrorEncoder", 1,
     .orderFree "w.Header().Add(k, v) per header name (distinct keys)"⟩ ]

end KinModel.MapRanges
