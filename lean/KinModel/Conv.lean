/-
C17 — model of openapi2conv (ToV3 / FromV3) and the abstract `Api` a document describes.

Core-only. The model is polymorphic in the type `V` of opaque scalar values (enum lists, defaults,
numeric bounds, …): the converter only copies them, so every theorem holds for every `V`; the driver
instantiates `V := Lean.Json`.

Layout
  §1  records, copy tables (pinned copies of the tables the translator regenerates from the source)
  §2  references (prefix algebra of ToV3Ref / FromV3Ref)
  §3  schema trees: ToV3SchemaRef, convertRefsInV3SchemaRef, FromV3SchemaRef; abstraction abs2S / abs3S
  §4  parameters, headers, form-data fields, bodies, responses
  §5  security schemes, servers
  §6  documents: toV3, fromV3, api2, api3
-/
namespace KinModel.Conv

/-! ## §1 records and copy tables -/

abbrev Rec (V : Type) := List (String × V)

def rlookup {V : Type} (k : String) : Rec V → Option V
  | [] => none
  | (k', v) :: r => if k = k' then some v else rlookup k r

def lookupSrc (d : String) : List (String × String) → Option String
  | [] => none
  | (d', s) :: r => if d = d' then some s else lookupSrc d r

/-- the record a composite literal `T{dst: src.f, …}` builds: one entry per row whose source is present -/
def conv {V : Type} (table : List (String × String)) (r : Rec V) : Rec V :=
  table.filterMap (fun row => (rlookup row.2 r).map (fun v => (row.1, v)))

/-- canonical view of a record: its restriction to an ordered list of field names -/
def normRec {V : Type} (fields : List String) (r : Rec V) : Rec V :=
  fields.filterMap (fun f => (rlookup f r).map (fun v => (f, v)))

/-- every listed field is copied from the field of the same name, and that row is the first one for it -/
def Complete (fields : List String) (table : List (String × String)) : Bool :=
  fields.all (fun f => lookupSrc f table == some f)

/-- opaque (copy-only) constraint keywords of a schema / parameter, by JSON key.
`additionalProperties` here is the boolean form (`Has`). Typed separately: type, format, required,
discriminator, nullable / x-nullable and the sub-schemas. -/
def constraintFields : List String :=
  ["enum", "default", "uniqueItems", "exclusiveMinimum", "exclusiveMaximum", "minimum", "maximum",
   "multipleOf", "minLength", "maxLength", "pattern", "minItems", "maxItems", "minProperties",
   "maxProperties", "additionalProperties", "readOnly", "writeOnly"]

/-- constraint keywords a v2 non-body parameter / header / form field can carry -/
def paramConstraintFields : List String :=
  ["enum", "default", "uniqueItems", "exclusiveMinimum", "exclusiveMaximum", "minimum", "maximum",
   "multipleOf", "minLength", "maxLength", "pattern", "minItems", "maxItems"]

/-- pinned: ToV3SchemaRef `&openapi3.Schema{…}` (JSON keys; typed fields included as rows) -/
def toV3SchemaTable : List (String × String) :=
  [("type", "type"), ("title", "title"), ("format", "format"), ("description", "description"),
   ("enum", "enum"), ("default", "default"), ("example", "example"), ("externalDocs", "externalDocs"),
   ("uniqueItems", "uniqueItems"), ("exclusiveMinimum", "exclusiveMinimum"), ("exclusiveMaximum", "exclusiveMaximum"), ("readOnly", "readOnly"),
   ("writeOnly", "writeOnly"), ("allowEmptyValue", "allowEmptyValue"), ("deprecated", "deprecated"), ("xml", "xml"),
   ("minimum", "minimum"), ("maximum", "maximum"), ("multipleOf", "multipleOf"), ("minLength", "minLength"),
   ("maxLength", "maxLength"), ("pattern", "pattern"), ("minItems", "minItems"), ("maxItems", "maxItems"),
   ("required", "required"), ("minProperties", "minProperties"), ("maxProperties", "maxProperties"), ("allOf", "<make>"),
   ("properties", "<make>"), ("additionalProperties", "additionalProperties")]

/-- pinned: FromV3SchemaRef `&openapi2.Schema{…}` (the discriminator is copied by a statement after the
    literal, in both directions: `toV3SchemaAssigned` / `fromV3SchemaAssigned` below) -/
def fromV3SchemaTable : List (String × String) :=
  [("type", "type"), ("title", "title"), ("format", "format"), ("description", "description"),
   ("enum", "enum"), ("default", "default"), ("example", "example"), ("externalDocs", "externalDocs"),
   ("uniqueItems", "uniqueItems"), ("exclusiveMinimum", "exclusiveMinimum"), ("exclusiveMaximum", "exclusiveMaximum"), ("readOnly", "readOnly"),
   ("writeOnly", "writeOnly"), ("allowEmptyValue", "allowEmptyValue"), ("deprecated", "deprecated"), ("xml", "xml"),
   ("minimum", "minimum"), ("maximum", "maximum"), ("multipleOf", "multipleOf"), ("minLength", "minLength"),
   ("maxLength", "maxLength"), ("pattern", "pattern"), ("minItems", "minItems"), ("maxItems", "maxItems"),
   ("required", "required"), ("minProperties", "minProperties"), ("maxProperties", "maxProperties"), ("properties", "<make>"),
   ("allOf", "<make>"), ("additionalProperties", "additionalProperties")]

/-- pinned: ToV3Parameter, default case, inner `&openapi2.Schema{…}` built from the parameter -/
def toV3ParamTable : List (String × String) :=
  [("type", "type"), ("format", "format"), ("enum", "enum"), ("minimum", "minimum"),
   ("maximum", "maximum"), ("exclusiveMinimum", "exclusiveMinimum"), ("exclusiveMaximum", "exclusiveMaximum"), ("minLength", "minLength"),
   ("maxLength", "maxLength"), ("default", "default"), ("items", "items"), ("minItems", "minItems"),
   ("maxItems", "maxItems"), ("pattern", "pattern"), ("allowEmptyValue", "allowEmptyValue"), ("uniqueItems", "uniqueItems"),
   ("multipleOf", "multipleOf")]

/-- pinned: ToV3Parameter, formData case, `&openapi3.Schema{…}` -/
def toV3FormTable : List (String × String) :=
  [("description", "description"), ("type", "<local>"), ("format", "<local>"), ("enum", "enum"),
   ("minimum", "minimum"), ("maximum", "maximum"), ("exclusiveMinimum", "exclusiveMinimum"), ("exclusiveMaximum", "exclusiveMaximum"),
   ("minLength", "minLength"), ("maxLength", "maxLength"), ("default", "default"), ("minItems", "minItems"),
   ("maxItems", "maxItems"), ("pattern", "pattern"), ("allowEmptyValue", "allowEmptyValue"), ("uniqueItems", "uniqueItems"),
   ("multipleOf", "multipleOf"), ("required", "<local>")]

/-- pinned: FromV3Parameter, the `result.X = schema.Y` assignments -/
def fromV3ParamTable : List (String × String) :=
  [("type", "type"), ("format", "format"), ("enum", "enum"), ("minimum", "minimum"),
   ("maximum", "maximum"), ("exclusiveMinimum", "exclusiveMinimum"), ("exclusiveMaximum", "exclusiveMaximum"), ("minLength", "minLength"),
   ("maxLength", "maxLength"), ("pattern", "pattern"), ("default", "default"), ("items", "items"),
   ("minItems", "minItems"), ("maxItems", "maxItems"), ("allowEmptyValue", "allowEmptyValue"), ("uniqueItems", "uniqueItems"),
   ("multipleOf", "multipleOf")]

/-- pinned: FromV3RequestBodyFormData `&openapi2.Parameter{…}` (format: the local that is "" for binary, ddd71cc) -/
def fromV3FormTable : List (String × String) :=
  [("name", "<local>"), ("description", "description"), ("type", "<local>"), ("in", "<const>"),
   ("enum", "enum"), ("exclusiveMinimum", "exclusiveMinimum"), ("exclusiveMaximum", "exclusiveMaximum"), ("minLength", "minLength"),
   ("maxLength", "maxLength"), ("default", "default"), ("items", "<local>"), ("minItems", "minItems"),
   ("maxItems", "maxItems"), ("maximum", "maximum"), ("minimum", "minimum"), ("pattern", "pattern"),
   ("format", "<local>"), ("allowEmptyValue", "allowEmptyValue"), ("required", "<local>"), ("uniqueItems", "uniqueItems"),
   ("multipleOf", "multipleOf")]

/-- pinned: FromV3SchemaRef, binary branch, `&openapi2.Parameter{…}` (shared file parameter) — no `pattern` row -/
def fromV3FileTable : List (String × String) :=
  [("in", "<const>"), ("name", "<local>"), ("description", "description"), ("type", "<local>"),
   ("enum", "enum"), ("minimum", "minimum"), ("maximum", "maximum"), ("exclusiveMinimum", "exclusiveMinimum"),
   ("exclusiveMaximum", "exclusiveMaximum"), ("minLength", "minLength"), ("maxLength", "maxLength"), ("default", "default"),
   ("minItems", "minItems"), ("maxItems", "maxItems"), ("allowEmptyValue", "allowEmptyValue"), ("uniqueItems", "uniqueItems"),
   ("multipleOf", "multipleOf"), ("required", "<local>")]

/-- pinned copy of the generated table `toV3FlowTable` -/
def toV3FlowTable : List (String × String) :=
  [("authorizationUrl", "authorizationUrl"), ("tokenUrl", "tokenUrl"), ("scopes", "<local>")]

/-- pinned copy of the generated table `fromV3SecTable` -/
def fromV3SecTable : List (String × String) :=
  [("implicit.flow", "=implicit"), ("implicit.authorizationUrl", "authorizationUrl"), ("authorizationCode.flow", "=accessCode"), ("authorizationCode.authorizationUrl", "authorizationUrl"),
   ("authorizationCode.tokenUrl", "tokenUrl"), ("password.flow", "=password"), ("password.tokenUrl", "tokenUrl"), ("clientCredentials.flow", "=application"),
   ("clientCredentials.tokenUrl", "tokenUrl")]

/-- what an operation object says beyond its id, parameters and responses (opaque, copy-only) -/
def opMetaFields : List String := ["summary", "description", "deprecated", "tags"]

/-- pinned: ToV3Operation `&openapi3.Operation{…}` -/
def toV3OpTable : List (String × String) :=
  [("operationId", "operationId"), ("summary", "summary"), ("description", "description"), ("deprecated", "deprecated"),
   ("tags", "tags")]

/-- pinned: FromV3Operation `&openapi2.Operation{…}` -/
def fromV3OpTable : List (String × String) :=
  [("operationId", "operationId"), ("summary", "summary"), ("description", "description"), ("deprecated", "deprecated"),
   ("tags", "tags")]

/-- pinned: the fields of the operation ToV3Operation / FromV3Operation set by statements after the literal -/
def toV3OpAssigned : List String := ["security", "parameters", "requestBody", "responses"]
def fromV3OpAssigned : List String := ["security", "parameters", "consumes", "responses"]

/-! ## §2 references -/

/-- pinned: `var ref2To3` — the prefixes ToV3Ref rewrites (and FromV3Ref rewrites back) -/
def ref2To3 : List (String × String) :=
  [("#/definitions/", "#/components/schemas/"), ("#/responses/", "#/components/responses/"),
   ("#/parameters/", "#/components/parameters/")]

/-- pinned: `var attemptedBodyParameterNames` — the names FromV3Operation tries for the body parameter -/
def bodyParamNames : List String := ["body", "requestBody"]

/-- the prefix of a `$ref`; `other` carries everything the converter leaves alone -/
inductive RK where
  | def2 | par2 | resp2          -- #/definitions/ #/parameters/ #/responses/
  | def3 | par3 | resp3 | rb3    -- #/components/{schemas,parameters,responses,requestBodies}/
  | other
  deriving DecidableEq, Repr, Inhabited

/-- ToV3Ref: the three `ref2To3` prefixes are replaced -/
def toV3RK : RK → RK
  | .def2 => .def3 | .par2 => .par3 | .resp2 => .resp3 | k => k

/-- FromV3Ref: the three prefixes back, and requestBodies ↦ parameters -/
def fromV3RK : RK → RK
  | .def3 => .def2 | .par3 => .par2 | .resp3 => .resp2 | .rb3 => .par2 | k => k

def RK.isV2 : RK → Bool
  | .def2 | .par2 | .resp2 => true | _ => false

/-- abstract target of a reference: what it designates, independent of the document version -/
inductive AK where | schema | param | resp | v2only (k : RK) | v3only (k : RK)
  deriving DecidableEq, Repr

/-- reading of a reference found in a v2 document -/
def absRK2 : RK → AK
  | .def2 => .schema | .par2 => .param | .resp2 => .resp | k => .v3only k
/-- reading of a reference found in a v3 document -/
def absRK3 : RK → AK
  | .def3 => .schema | .par3 => .param | .rb3 => .param | .resp3 => .resp | k => .v2only k

/-! ## §3 schema trees -/

inductive Slot where
  | items | prop (k : String) | allOf (i : Nat) | addl
  deriving DecidableEq, Repr

/-- scalar part of a schema object -/
structure Hd (V : Type) where
  ty : Option String := none
  fmt : Option String := none
  nullable : Bool := false      -- the v3 keyword
  xnull : Bool := false         -- the extension `x-nullable: true`
  disc : Option String := none  -- discriminator (v2: the string; v3: propertyName)
  req : List String := []
  sc : Rec V := []

/-- a schema or a reference, of either document version (they have the same shape) -/
inductive Sch (V : Type) where
  | ref (k : RK) (name : String)
  | node (h : Hd V) (kids : List (Slot × Sch V))

instance {V : Type} : Inhabited (Sch V) := ⟨.ref .other ""⟩

def fileToBinary (ty fmt : Option String) : Option String × Option String :=
  if ty = some "file" then (some "string", some "binary") else (ty, fmt)

/-- ToV3SchemaRef, scalar part: field copies by the table; `file` ↦ string/binary; `x-nullable` ↦ nullable;
    discriminator string ↦ object -/
def toV3Hd {V : Type} (h : Hd V) : Hd V :=
  { ty := (fileToBinary h.ty h.fmt).1, fmt := (fileToBinary h.ty h.fmt).2,
    nullable := h.xnull, xnull := false, disc := h.disc, req := h.req, sc := conv toV3SchemaTable h.sc }

/-- FromV3SchemaRef, scalar part (non-binary branch): field copies by the table; the discriminator object's
    `propertyName` ↦ the v2 string (e0e4b64); `PermitsNull` ↦ `x-nullable: true` -/
def fromV3Hd {V : Type} (h : Hd V) : Hd V :=
  { ty := h.ty, fmt := h.fmt, nullable := false, xnull := h.nullable || h.xnull, disc := h.disc,
    req := h.req, sc := conv fromV3SchemaTable h.sc }

/-- pinned: where nullability comes from — ToV3SchemaRef assigns `Nullable` the boolean VALUE of the extension
    `x-nullable` (an explicit `false` and non-boolean values are not nullability: `Hd.xnull` is "x-nullable is the
    boolean true"); FromV3SchemaRef writes `x-nullable: true` when the schema permits null -/
def nullableTable : List (String × String) :=
  [("nullable", "ext[x-nullable].(bool)"), ("x-nullable", "=true if PermitsNull")]

/-- pinned: the typed fields ToV3SchemaRef / FromV3SchemaRef set by statements after the composite literal
    (JSON keys of the destination fields, in source order) -/
def toV3SchemaAssigned : List String := ["discriminator", "items", "format", "type", "properties", "allOf", "nullable"]
def fromV3SchemaAssigned : List String := ["discriminator", "items", "properties", "allOf"]

mutual
/-- convertRefsInV2SchemaRef (dfc5235, 00eb646): the additionalProperties schema of a v3 schema on the way back —
    its own `$ref` is rewritten to the v2 form and the conversion stops there (the resolved value of a
    reference is not entered); otherwise every sub-schema (additionalProperties, items, properties, allOf) is
    treated the same way. The scalar part is not touched (`nullable` stays). -/
def addlFromV3 {V : Type} : Sch V → Sch V
  | .ref k n => .ref (fromV3RK k) n
  | .node h kids => .node h (addlBackKids kids)
def addlBackKids {V : Type} : List (Slot × Sch V) → List (Slot × Sch V)
  | [] => []
  | (sl, c) :: rest => (sl, addlFromV3 c) :: addlBackKids rest
end

mutual
/-- convertRefsInV3SchemaRef: the additionalProperties schema of a v2 schema is parsed as an
    `openapi3.SchemaRef`; its own `$ref` is rewritten, and so are — since 00eb646, convertSubschemas — the
    references below its additionalProperties, items, properties and allOf. The scalar part is NOT converted
    (`x-nullable`, `type: file` stay as they are: what is left of F-C17-8). -/
def addlToV3 {V : Type} : Sch V → Sch V
  | .ref k n => .ref (toV3RK k) n
  | .node h kids => .node h (addlKids kids)
def addlKids {V : Type} : List (Slot × Sch V) → List (Slot × Sch V)
  | [] => []
  | (sl, c) :: rest => (sl, addlToV3 c) :: addlKids rest
end

mutual
/-- ToV3SchemaRef -/
def toV3S {V : Type} : Sch V → Sch V
  | .ref k n => .ref (toV3RK k) n
  | .node h kids => .node (toV3Hd h) (toV3Kids kids)
def toV3Kids {V : Type} : List (Slot × Sch V) → List (Slot × Sch V)
  | [] => []
  | (sl, c) :: rest => (sl, if sl = Slot.addl then addlToV3 c else toV3S c) :: toV3Kids rest
end

mutual
/-- FromV3SchemaRef (schemas that are not string/binary): `AdditionalProperties` goes through
    fromV3AdditionalProperties -/
def fromV3S {V : Type} : Sch V → Sch V
  | .ref k n => .ref (fromV3RK k) n
  | .node h kids => .node (fromV3Hd h) (fromV3Kids kids)
def fromV3Kids {V : Type} : List (Slot × Sch V) → List (Slot × Sch V)
  | [] => []
  | (sl, c) :: rest => (sl, if sl = Slot.addl then addlFromV3 c else fromV3S c) :: fromV3Kids rest
end

/-- FromV3SchemaRef returns no schema (but a form-data *parameter*) for a string/binary schema and for a
    reference to a component schema whose format is binary; the caller then drops the property / items /
    allOf entry, loses the response or body schema, or — in FromV3Parameter — dereferences nil. -/
def consO {V : Type} (sl : Slot) (o : Option (Sch V)) (rest : List (Slot × Sch V)) : List (Slot × Sch V) :=
  match o with | some c => (sl, c) :: rest | none => rest

mutual
/-- FromV3SchemaRef, first component of its result (`none` = nil); `bin` = names of the component schemas
    whose format is binary -/
def fromV3SO {V : Type} (bin : List String) : Sch V → Option (Sch V)
  | .ref k n => if k = RK.def3 ∧ bin.contains n then none else some (.ref (fromV3RK k) n)
  | .node h kids =>
    if h.ty = some "string" ∧ h.fmt = some "binary" then none
    else some (.node (fromV3Hd h) (fromV3KidsO bin kids))
def fromV3KidsO {V : Type} (bin : List String) : List (Slot × Sch V) → List (Slot × Sch V)
  | [] => []
  | (sl, c) :: rest =>
    if sl = Slot.addl then (sl, addlFromV3 c) :: fromV3KidsO bin rest
    else consO sl (fromV3SO bin c) (fromV3KidsO bin rest)
end

mutual
/-- no string/binary schema and no reference to a binary component outside additionalProperties sub-schemas -/
def noBinary3 {V : Type} (bin : List String) : Sch V → Bool
  | .ref k n => !(k = RK.def3 ∧ bin.contains n)
  | .node h kids => !(h.ty = some "string" ∧ h.fmt = some "binary") && noBinary3Kids bin kids
def noBinary3Kids {V : Type} (bin : List String) : List (Slot × Sch V) → Bool
  | [] => true
  | (sl, c) :: rest => (if sl = Slot.addl then true else noBinary3 bin c) && noBinary3Kids bin rest
end

mutual
/-- a v2 schema without `type: file` and without `format: binary` strings (outside additionalProperties) -/
def noBinary2 {V : Type} : Sch V → Bool
  | .ref _ _ => true
  | .node h kids => !(h.ty == some "file") && !(h.ty == some "string" && h.fmt == some "binary") && noBinary2Kids kids
def noBinary2Kids {V : Type} : List (Slot × Sch V) → Bool
  | [] => true
  | (sl, c) :: rest => (if sl = Slot.addl then true else noBinary2 c) && noBinary2Kids rest
end

mutual
/-- the side effect of one FromV3SchemaRef pass on its *input*: `schema.Value.Nullable = false` on every
    schema it visits (additionalProperties sub-schemas are not visited) -/
def dropNullable {V : Type} : Sch V → Sch V
  | .ref k n => .ref k n
  | .node h kids => .node { h with nullable := false } (dropNullableKids kids)
def dropNullableKids {V : Type} : List (Slot × Sch V) → List (Slot × Sch V)
  | [] => []
  | (sl, c) :: rest => (sl, if sl = Slot.addl then c else dropNullable c) :: dropNullableKids rest
end

mutual
/-- `x-nullable` somewhere outside additionalProperties sub-schemas -/
def hasXnull {V : Type} : Sch V → Bool
  | .ref _ _ => false
  | .node h kids => h.xnull || hasXnullKids kids
def hasXnullKids {V : Type} : List (Slot × Sch V) → Bool
  | [] => false
  | (sl, c) :: rest => (if sl = Slot.addl then false else hasXnull c) || hasXnullKids rest
end

/-- what a v2 schema object says (abstract head): `file` is a binary string, `x-nullable` is nullability -/
def abs2Hd {V : Type} (h : Hd V) : Hd V :=
  { ty := (fileToBinary h.ty h.fmt).1, fmt := (fileToBinary h.ty h.fmt).2,
    nullable := h.xnull, xnull := false, disc := h.disc, req := h.req, sc := normRec constraintFields h.sc }

/-- what a v3 schema object says: extensions (`x-nullable`) carry no meaning -/
def abs3Hd {V : Type} (h : Hd V) : Hd V :=
  { ty := h.ty, fmt := h.fmt, nullable := h.nullable, xnull := false, disc := h.disc, req := h.req,
    sc := normRec constraintFields h.sc }

/-- abstract schema: references are `other`-kinded with the abstract target encoded by `absRef` -/
inductive ASch (V : Type) where
  | ref (k : AK) (name : String)
  | node (h : Hd V) (kids : List (Slot × ASch V))

mutual
def abs2S {V : Type} : Sch V → ASch V
  | .ref k n => .ref (absRK2 k) n
  | .node h kids => .node (abs2Hd h) (abs2Kids kids)
def abs2Kids {V : Type} : List (Slot × Sch V) → List (Slot × ASch V)
  | [] => []
  | (sl, c) :: rest => (sl, abs2S c) :: abs2Kids rest
end

mutual
def abs3S {V : Type} : Sch V → ASch V
  | .ref k n => .ref (absRK3 k) n
  | .node h kids => .node (abs3Hd h) (abs3Kids kids)
def abs3Kids {V : Type} : List (Slot × Sch V) → List (Slot × ASch V)
  | [] => []
  | (sl, c) :: rest => (sl, abs3S c) :: abs3Kids rest
end

mutual
/-- an additionalProperties sub-schema that `convertRefsInV3SchemaRef` converts completely: no `x-nullable`, no
    `type: file` anywhere below it (references are rewritten everywhere since 00eb646) -/
def addlPure {V : Type} : Sch V → Bool
  | .ref _ _ => true
  | .node h kids => !h.xnull && !(h.ty == some "file") && addlPureKids kids
def addlPureKids {V : Type} : List (Slot × Sch V) → Bool
  | [] => true
  | (_, c) :: rest => addlPure c && addlPureKids rest
end

mutual
/-- exclusion (F-C17-8, what is left of it): some additionalProperties sub-schema carries `x-nullable` or `type: file` -/
def addlImpure {V : Type} : Sch V → Bool
  | .ref _ _ => false
  | .node _ kids => addlImpureKids kids
def addlImpureKids {V : Type} : List (Slot × Sch V) → Bool
  | [] => false
  | (sl, c) :: rest => (if sl = Slot.addl then !addlPure c else addlImpure c) || addlImpureKids rest
end

mutual
/-- all references of a schema tree (with their kinds) -/
def refsOf {V : Type} : Sch V → List RK
  | .ref k _ => [k]
  | .node _ kids => refsOfKids kids
def refsOfKids {V : Type} : List (Slot × Sch V) → List RK
  | [] => []
  | (_, c) :: rest => refsOf c ++ refsOfKids rest
end

mutual
/-- a v2 input schema of the convertible fragment: v2 references only, no v3 keyword `nullable` -/
def v2Refs {V : Type} : Sch V → Bool
  | .ref k _ => k.isV2
  | .node h kids => !h.nullable && v2RefsKids kids
def v2RefsKids {V : Type} : List (Slot × Sch V) → Bool
  | [] => true
  | (_, c) :: rest => v2Refs c && v2RefsKids rest
end

/-! ## §4 parameters, form fields, bodies, responses -/

/-- a v2 parameter object (also a header: `loc = ""`, `name = ""`) -/
structure Param2 (V : Type) where
  name : String
  loc : String                 -- query | header | path | formData | body
  required : Bool
  cons : Hd V                  -- type, format and the constraint fields of a non-body parameter
  items : Option (Sch V)       -- `items` of an array parameter
  schema : Option (Sch V)      -- body parameter

inductive PRef2 (V : Type) where
  | ref (k : RK) (name : String)
  | val (p : Param2 V)

structure Param3 (V : Type) where
  name : String
  loc : String
  required : Bool
  schema : Sch V

inductive PRef3 (V : Type) where
  | ref (k : RK) (name : String)
  | val (p : Param3 V)

/-- a v3 request body: `content` maps media types to schemas (all entries share one schema) -/
structure Body3 (V : Type) where
  required : Bool
  mimes : List String
  schema : Option (Sch V)
  origName : Bool := false      -- carries the extension `x-originalParamName` (a body parameter with a name)

inductive BRef3 (V : Type) where
  | ref (k : RK) (name : String)
  | val (b : Body3 V)

def itemsKids {V : Type} (items : Option (Sch V)) : List (Slot × Sch V) :=
  match items with | none => [] | some s => [(Slot.items, s)]

def kidItems {V : Type} : List (Slot × Sch V) → Option (Sch V)
  | [] => none
  | (sl, c) :: rest => if sl = Slot.items then some c else kidItems rest

/-- the v2 schema ToV3Parameter (default case) builds from a non-body parameter -/
def paramSchema2 {V : Type} (p : Param2 V) : Sch V :=
  .node { ty := p.cons.ty, fmt := p.cons.fmt, sc := conv toV3ParamTable p.cons.sc } (itemsKids p.items)

/-- ToV3Parameter, default case: path parameters are required -/
def toV3Param {V : Type} (p : Param2 V) : Param3 V :=
  { name := p.name, loc := p.loc, required := p.required || p.loc == "path",
    schema := toV3S (paramSchema2 p) }

/-- FromV3Parameter on an inline parameter whose schema is inline -/
def fromV3Param {V : Type} (p : Param3 V) : Param2 V :=
  match fromV3S p.schema with
  | .ref _ _ => { name := p.name, loc := p.loc, required := p.required, cons := {}, items := none,
                  schema := some (fromV3S p.schema) }
  | .node h kids =>
    { name := p.name, loc := p.loc, required := p.required,
      cons := { ty := h.ty, fmt := h.fmt, sc := conv fromV3ParamTable h.sc },
      items := kidItems kids, schema := none }

/-- ToV3Parameter, formData case: the property schema placed under the request body's object schema.
    `req` carries the parameter's own name when it is required (bookkeeping read by onlyOneReqBodyParam). -/
def toV3FormProp {V : Type} (p : Param2 V) : Sch V :=
  .node { ty := (fileToBinary p.cons.ty p.cons.fmt).1, fmt := (fileToBinary p.cons.ty p.cons.fmt).2,
          req := if p.required then [p.name] else [], sc := conv toV3FormTable p.cons.sc }
        (match p.items with | none => [] | some s => [(Slot.items, toV3S s)])

def clearReq {V : Type} : Sch V → Sch V
  | .ref k n => .ref k n
  | .node h kids => .node { h with req := [] } kids

def propRequired {V : Type} (name : String) : Sch V → Bool
  | .ref _ _ => false
  | .node h _ => h.req.contains name

/-- FromV3RequestBodyFormData, one inline property: `required` is read from the property's own `required` list
    (which formDataBody has cleared) and from the object schema's (`objReq`, 9a423cc); `format` is copied unless it
    is `binary`, which is `type: file` (ddd71cc) -/
def fromV3FormProp {V : Type} (objReq : List String) (name : String) (s : Sch V) : PRef2 V :=
  match s with
  | .ref k n => .ref (if k = RK.def3 then RK.par2 else k) n
  | .node h kids =>
    .val { name := name, loc := "formData", required := h.req.contains name || objReq.contains name,
           cons := { ty := if h.fmt = some "binary" then some "file" else h.ty,
                     fmt := if h.fmt = some "binary" then none else h.fmt,
                     sc := conv fromV3FormTable h.sc },
           items := (kidItems kids).map fromV3S, schema := none }

/-- abstract request input of an operation -/
inductive InputA (V : Type) where
  | ref (k : AK) (name : String)
  | param (name loc : String) (required : Bool) (cons : ASch V)
  | body (required : Bool) (schema : Option (ASch V))
  | form (name : String) (required : Bool) (cons : ASch V)

/-- constraints of a v2 non-body parameter, read as a schema -/
def paramCons2 {V : Type} (p : Param2 V) : ASch V :=
  abs2S (.node { ty := p.cons.ty, fmt := p.cons.fmt, sc := normRec paramConstraintFields p.cons.sc } (itemsKids p.items))

def inputA2 {V : Type} : PRef2 V → InputA V
  | .ref k n => .ref (absRK2 k) n
  | .val p =>
    if p.loc = "body" then .body p.required (p.schema.map abs2S)
    else if p.loc = "formData" then .form p.name p.required (paramCons2 p)
    else .param p.name p.loc (p.required || p.loc == "path") (paramCons2 p)

def paramA3 {V : Type} : PRef3 V → InputA V
  | .ref k n => .ref (absRK3 k) n
  | .val p => .param p.name p.loc p.required (abs3S p.schema)

/-- the form fields a v3 object schema describes -/
def formFieldsA3 {V : Type} (objReq : List String) : List (Slot × Sch V) → List (InputA V)
  | [] => []
  | (Slot.prop _, .ref k n) :: rest => .ref (match k with | .def3 => AK.param | k => absRK3 k) n :: formFieldsA3 objReq rest
  | (Slot.prop name, s) :: rest => .form name (objReq.contains name) (abs3S (clearReq s)) :: formFieldsA3 objReq rest
  | _ :: rest => formFieldsA3 objReq rest

def isFormMime (m : String) : Bool :=
  m == "application/x-www-form-urlencoded" || m == "multipart/form-data"

def bodyA3 {V : Type} : BRef3 V → List (InputA V)
  | .ref k n => [.ref (absRK3 k) n]
  | .val b =>
    if b.mimes.any isFormMime then
      match b.schema with
      | some (.node h kids) => formFieldsA3 h.req kids
      | _ => []
    else [.body b.required (b.schema.map abs3S)]

structure Resp2 (V : Type) where
  desc : String
  headers : List (String × Param2 V)
  schema : Option (Sch V)

inductive RRef2 (V : Type) where
  | ref (k : RK) (name : String)
  | val (r : Resp2 V)

structure Resp3 (V : Type) where
  desc : String
  headers : List (String × Param3 V)
  mimes : List String
  schema : Option (Sch V)       -- the one schema placed under every media type of `content`

inductive RRef3 (V : Type) where
  | ref (k : RK) (name : String)
  | val (r : Resp3 V)

def effProduces (produces : List String) : List String :=
  if produces.isEmpty then ["application/json"] else produces

/-- ToV3Response -/
def toV3Resp {V : Type} (produces : List String) : RRef2 V → RRef3 V
  | .ref k n => .ref (toV3RK k) n
  | .val r => .val { desc := r.desc,
                     headers := r.headers.map (fun (n, h) => (n, toV3Param { h with name := "", loc := "" })),
                     mimes := match r.schema with | none => [] | some _ => effProduces produces,
                     schema := r.schema.map toV3S }

/-- FromV3Response: the schema is read from `content["application/json"]`, else from the first media type in
    sorted order (bf34df1); every media type of a converted response carries the same schema -/
def fromV3Resp {V : Type} : RRef3 V → RRef2 V
  | .ref k n => .ref (fromV3RK k) n
  | .val r => .val { desc := r.desc,
                     headers := r.headers.map (fun (n, h) => (n, { fromV3Param h with name := "", loc := "" })),
                     schema := if r.mimes.isEmpty then none else r.schema.map fromV3S }

/-- FromV3Parameter as executed: `none` = nil dereference (`schemaRefV2.Ref` on the nil schema FromV3SchemaRef
    returns for a string/binary schema) -/
def fromV3ParamO {V : Type} (bin : List String) (p : Param3 V) : Option (Param2 V) :=
  match fromV3SO bin p.schema with
  | none => none
  | some (.ref k n) => some { name := p.name, loc := p.loc, required := p.required, cons := {}, items := none,
                              schema := some (.ref k n) }
  | some (.node h kids) =>
    some { name := p.name, loc := p.loc, required := p.required,
           cons := { ty := h.ty, fmt := h.fmt, sc := conv fromV3ParamTable h.sc },
           items := kidItems kids, schema := none }

def fromV3PRefO {V : Type} (bin : List String) : PRef3 V → Option (PRef2 V)
  | .ref k n => some (.ref (fromV3RK k) n)
  | .val p => (fromV3ParamO bin p).map PRef2.val

/-- FromV3Response as executed (`none` = panic in FromV3Headers) -/
def fromV3RespO {V : Type} (bin : List String) : RRef3 V → Option (RRef2 V)
  | .ref k n => some (.ref (fromV3RK k) n)
  | .val r =>
    match r.headers.mapM (fun (nh : String × Param3 V) =>
        (fromV3ParamO bin nh.2).map (fun h => (nh.1, { h with name := "", loc := "" }))) with
    | none => none
    | some hs => some (.val { desc := r.desc, headers := hs,
                              schema := if r.mimes.isEmpty then none else r.schema.bind (fromV3SO bin) })

structure RespA (V : Type) where
  desc : String
  headers : List (String × ASch V)
  schema : Option (ASch V)

inductive RespRA (V : Type) where
  | ref (k : AK) (name : String)
  | val (r : RespA V)

def respA2 {V : Type} : RRef2 V → RespRA V
  | .ref k n => .ref (absRK2 k) n
  | .val r => .val { desc := r.desc, headers := r.headers.map (fun (n, h) => (n, paramCons2 h)),
                     schema := r.schema.map abs2S }

def respA3 {V : Type} : RRef3 V → RespRA V
  | .ref k n => .ref (absRK3 k) n
  | .val r => .val { desc := r.desc, headers := r.headers.map (fun (n, h) => (n, abs3S h.schema)),
                     schema := if r.mimes.isEmpty then none else r.schema.map abs3S }

/-! ## §5 security schemes, servers -/

structure Sec2 where
  type : String                 -- basic | apiKey | oauth2
  loc : String := ""
  name : String := ""
  flow : String := ""           -- implicit | accessCode | password | application
  authUrl : String := ""
  tokenUrl : String := ""
  scopes : List (String × String) := []
  deriving DecidableEq, Repr

structure Flow3 where
  authUrl : String
  tokenUrl : String
  scopes : List (String × String)
  deriving DecidableEq, Repr

structure Sec3 where
  type : String                 -- http | apiKey | oauth2
  scheme : String := ""
  loc : String := ""
  name : String := ""
  implicit : Option Flow3 := none
  authorizationCode : Option Flow3 := none
  password : Option Flow3 := none
  clientCredentials : Option Flow3 := none
  hasFlows : Bool := false
  deriving DecidableEq, Repr

/-- ToV3SecurityScheme (`none` = error "unsupported flow") -/
def toV3Sec (s : Sec2) : Option Sec3 :=
  if s.type = "basic" then some { type := "http", scheme := "basic" }
  else if s.type = "apiKey" then some { type := "apiKey", loc := s.loc, name := s.name }
  else if s.type = "oauth2" then
    let flow : Flow3 := { authUrl := s.authUrl, tokenUrl := s.tokenUrl, scopes := s.scopes }
    if s.flow = "implicit" then some { type := "oauth2", hasFlows := true, implicit := some flow }
    else if s.flow = "accessCode" then some { type := "oauth2", hasFlows := true, authorizationCode := some flow }
    else if s.flow = "password" then some { type := "oauth2", hasFlows := true, password := some flow }
    else if s.flow = "application" then some { type := "oauth2", hasFlows := true, clientCredentials := some flow }
    else none
  else some { type := "" }

/-- outcome of FromV3SecurityScheme: a scheme, `nil` (no flow set), or an error -/
inductive SecBack where
  | ok (s : Sec2) | nil | error
  deriving DecidableEq, Repr

/-- FromV3SecurityScheme -/
def fromV3Sec (s : Sec3) : SecBack :=
  if s.type = "http" then
    if s.scheme = "basic" then .ok { type := "basic" }
    else .ok { type := "apiKey", loc := "header", name := "Authorization" }
  else if s.type = "apiKey" then .ok { type := "apiKey", loc := s.loc, name := s.name }
  else if s.type = "oauth2" then
    if !s.hasFlows then .ok { type := "oauth2" } else
    match s.implicit, s.authorizationCode, s.password, s.clientCredentials with
    | some f, _, _, _ => .ok { type := "oauth2", flow := "implicit", authUrl := f.authUrl, scopes := f.scopes }
    | none, some f, _, _ => .ok { type := "oauth2", flow := "accessCode", authUrl := f.authUrl, tokenUrl := f.tokenUrl, scopes := f.scopes }
    | none, none, some f, _ => .ok { type := "oauth2", flow := "password", tokenUrl := f.tokenUrl, scopes := f.scopes }
    | none, none, none, some f => .ok { type := "oauth2", flow := "application", tokenUrl := f.tokenUrl, scopes := f.scopes }
    | none, none, none, none => .nil
  else .error

/-- abstract security scheme: only the URLs the flow uses are part of it -/
inductive SecA where
  | basic
  | apiKey (loc name : String)
  | oauth2 (flow : String) (authUrl tokenUrl : String) (scopes : List (String × String))
  | other (what : String)
  deriving DecidableEq, Repr

def usesAuth (flow : String) : Bool := flow == "implicit" || flow == "accessCode"
def usesToken (flow : String) : Bool := flow == "accessCode" || flow == "password" || flow == "application"

def secA2 (s : Sec2) : SecA :=
  if s.type = "basic" then .basic
  else if s.type = "apiKey" then .apiKey s.loc s.name
  else if s.type = "oauth2" then
    .oauth2 s.flow (if usesAuth s.flow then s.authUrl else "") (if usesToken s.flow then s.tokenUrl else "") s.scopes
  else .other s.type

def secA3 (s : Sec3) : SecA :=
  if s.type = "http" then (if s.scheme = "basic" then .basic else .other ("http " ++ s.scheme))
  else if s.type = "apiKey" then .apiKey s.loc s.name
  else if s.type = "oauth2" then
    match s.implicit, s.authorizationCode, s.password, s.clientCredentials with
    | some f, none, none, none => .oauth2 "implicit" f.authUrl "" f.scopes
    | none, some f, none, none => .oauth2 "accessCode" f.authUrl f.tokenUrl f.scopes
    | none, none, some f, none => .oauth2 "password" "" f.tokenUrl f.scopes
    | none, none, none, some f => .oauth2 "application" "" f.tokenUrl f.scopes
    | _, _, _, _ => .other "oauth2 flows"
  else .other s.type

/-- where the API is served: scheme, host, base path -/
structure Server where
  scheme : String
  host : String
  base : String
  deriving DecidableEq, Repr

structure Loc2 where
  host : String
  basePath : String
  schemes : List String
  deriving DecidableEq, Repr

/-- ToV3: servers are produced only when a host is given -/
def toV3Servers (l : Loc2) : List Server :=
  if l.host = "" then [] else
    (if l.schemes.isEmpty then ["https"] else l.schemes).map
      (fun sch => { scheme := sch, host := l.host, base := if l.basePath = "" then "/" else l.basePath })

/-- the order in which FromV3 appends the schemes it found -/
def schemeOrder : List String := ["https", "http", "wss", "ws"]

/-- FromV3: host and base path of the first server; schemes https / http / wss / ws (in this order) when some
    server uses them (a84c8a2) -/
def fromV3Servers (ss : List Server) : Loc2 :=
  { host := match ss with | [] => "" | s :: _ => s.host,
    basePath := match ss with | [] => "" | s :: _ => s.base,
    schemes := schemeOrder.filter (fun c => ss.any (·.scheme == c)) }

/-- what a v2 document says about where it is served (conversion convention: no scheme = https,
    no base path = "/"); nothing is said when host, base path and schemes are all absent -/
def serversA2 (l : Loc2) : List Server :=
  if l.host = "" ∧ l.basePath = "" ∧ l.schemes = [] then [] else
    (if l.schemes.isEmpty then ["https"] else l.schemes).map
      (fun sch => { scheme := sch, host := l.host, base := if l.basePath = "" then "/" else l.basePath })

/-! ## §6 documents -/

structure Op2 (V : Type) where
  method : String
  opId : String
  consumes : List String
  produces : List String
  params : List (PRef2 V)
  responses : List (String × RRef2 V)
  info : Rec V := []              -- summary, description, deprecated, tags (opaque)
  security : Option V := none     -- the operation's own security requirements (`security: []` is `some`)

structure Path2 (V : Type) where
  path : String
  params : List (PRef2 V)
  ops : List (Op2 V)

structure Doc2 (V : Type) where
  loc : Loc2
  consumes : List String
  produces : List String
  params : List (String × PRef2 V)         -- shared parameters
  responses : List (String × RRef2 V)      -- shared responses
  defs : List (String × Sch V)
  secs : List (String × Sec2)
  paths : List (Path2 V)
  security : Option V := none              -- document-level security requirements (non-empty list)

structure Op3 (V : Type) where
  method : String
  opId : String
  params : List (PRef3 V)
  body : Option (BRef3 V)
  responses : List (String × RRef3 V)
  info : Rec V := []
  security : Option V := none

structure Path3 (V : Type) where
  path : String
  params : List (PRef3 V)
  ops : List (Op3 V)

/-- a component schema; `formName` is the bookkeeping extension `x-formData-name` of a shared form parameter -/
structure CSchema (V : Type) where
  formName : Option String
  schema : Sch V

structure Doc3 (V : Type) where
  servers : List Server
  cparams : List (String × PRef3 V)
  cbodies : List (String × BRef3 V)
  cschemas : List (String × CSchema V)
  cresponses : List (String × RRef3 V)
  secs : List (String × Sec3)
  paths : List (Path3 V)
  security : Option V := none

/-- outcome of converting one v2 parameter (ToV3Parameter) -/
inductive P3 (V : Type) where
  | param (p : PRef3 V)
  | body (b : BRef3 V)
  | form (name : String) (s : Sch V)

def alookup {α : Type} (k : String) : List (String × α) → Option α
  | [] => none
  | (k', v) :: r => if k = k' then some v else alookup k r

def ainsert {α : Type} (k : String) (v : α) : List (String × α) → List (String × α)
  | [] => [(k, v)]
  | (k', v') :: r => if k = k' then (k, v) :: r else (k', v') :: ainsert k v r

/-- a Go map filled by successive assignments: the last value of a key wins -/
def dedupLast {α : Type} (l : List (String × α)) : List (String × α) :=
  l.foldl (fun acc (kv : String × α) => ainsert kv.1 kv.2 acc) []

/-- the components a parameter reference is classified against -/
structure Env3 (V : Type) where
  cbodies : List (String × BRef3 V)
  cschemas : List (String × CSchema V)

/-- ToV3Parameter -/
def toV3P {V : Type} (env : Env3 V) (consumes : List String) : PRef2 V → P3 V
  | .ref k n =>
    if k = RK.par2 then
      if (alookup n env.cbodies).isSome then .body (.ref RK.rb3 n)
      else match alookup n env.cschemas with
        | some cs => .form (cs.formName.getD n) (.ref RK.def3 n)
        | none => .param (.ref (toV3RK k) n)
    else .param (.ref (toV3RK k) n)
  | .val p =>
    if p.loc = "body" then
      .body (.val { required := p.required,
                    mimes := match p.schema with
                      | none => []
                      | some _ => if consumes.isEmpty then ["*/*"] else consumes,
                    schema := p.schema.map toV3S, origName := p.name != "" })
    else if p.loc = "formData" then .form p.name (toV3FormProp p)
    else .param (.val (toV3Param p))

/-- outcome of a conversion that can fail -/
inductive Res (α : Type) where
  | ok (a : α) | error (why : String)

def splitP3 {V : Type} : List (P3 V) → List (PRef3 V) × List (BRef3 V) × List (String × Sch V)
  | [] => ([], [], [])
  | .param p :: r => let (a, b, c) := splitP3 r; (p :: a, b, c)
  | .body x :: r => let (a, b, c) := splitP3 r; (a, x :: b, c)
  | .form n s :: r => let (a, b, c) := splitP3 r; (a, b, (n, s) :: c)

/-- formDataSchemas is a Go map: a later parameter of the same name replaces an earlier one -/
def formMap {V : Type} (forms : List (String × Sch V)) : List (String × Sch V) :=
  forms.foldl (fun acc (e : String × Sch V) => ainsert e.1 e.2 acc) []

/-- onlyOneReqBodyParam, form branch: name and requiredness of every form schema -/
def formEntry {V : Type} (env : Env3 V) (name : String) (s : Sch V) : Option (String × Sch V × Bool) :=
  match s with
  | .ref _ n =>
    match alookup n env.cschemas with
    | some cs =>
      let nm := cs.formName.getD n
      some (nm, s, propRequired nm cs.schema)
    | none => none
  | .node _ _ => some (name, s, propRequired name s)

def insertSorted (x : String) : List String → List String
  | [] => [x]
  | y :: ys => if x ≤ y then x :: y :: ys else y :: insertSorted x ys
def sortStrs (l : List String) : List String := l.foldr insertSorted []

/-- formDataBody: object schema with the properties (own `required` lists cleared) and the sorted
    list of required names -/
def formBody {V : Type} (env : Env3 V) (consumes : List String) (forms : List (String × Sch V)) : Body3 V :=
  let entries := forms.filterMap (fun (n, s) => formEntry env n s)
  let props := entries.foldl (fun acc (e : String × Sch V × Bool) => ainsert e.1 (clearReq e.2.1) acc) ([] : List (String × Sch V))
  let reqs := entries.foldl (fun acc (e : String × Sch V × Bool) => ainsert e.1 e.2.2 acc) ([] : List (String × Bool))
  { required := false,
    mimes := if consumes.isEmpty then ["*/*"] else consumes,
    schema := some (.node { ty := some "object", req := sortStrs ((reqs.filter (·.2)).map (·.1)) }
                          (props.map (fun (n, s) => (Slot.prop n, s)))) }

/-- ToV3Operation -/
def toV3Op {V : Type} (env : Env3 V) (docConsumes : List String) (op : Op2 V) : Res (Op3 V) :=
  let consumes := if op.consumes.isEmpty then docConsumes else op.consumes
  let (ps, bodies, forms) := splitP3 (op.params.map (toV3P env consumes))
  if bodies.length > 1 then .error "multiple body parameters"
  else if bodies.length ≠ 0 ∧ forms.length ≠ 0 then .error "body and form parameters"
  else
    .ok { method := op.method, opId := op.opId, params := ps,
          body := match bodies with
            | b :: _ => some b
            | [] => if forms.isEmpty then none else some (.val (formBody env consumes (formMap forms))),
          responses := op.responses.map (fun (k, r) => (k, toV3Resp op.produces r)),
          info := conv toV3OpTable op.info, security := op.security }

def mapRes {α β : Type} (f : α → Res β) : List α → Res (List β)
  | [] => .ok []
  | a :: r => match f a with
    | .error e => .error e
    | .ok b => match mapRes f r with
      | .error e => .error e
      | .ok bs => .ok (b :: bs)

def pathParam3 {V : Type} (env : Env3 V) (consumes : List String) (p : PRef2 V) : Res (PRef3 V) :=
  match toV3P env consumes p with
  | .param q => .ok q
  | .body _ => .error "pathItem must not have a body parameter"
  | .form _ _ => .error "pathItem must not have a schema parameter"

def toV3Path {V : Type} (env : Env3 V) (docConsumes : List String) (p : Path2 V) : Res (Path3 V) :=
  match mapRes (toV3Op env docConsumes) p.ops with
  | .error e => .error e
  | .ok ops => match mapRes (pathParam3 env docConsumes) p.params with
    | .error e => .error e
    | .ok ps => .ok { path := p.path, params := ps, ops := ops }

/-- shared parameters: bodies → requestBodies, form parameters → schemas (with `x-formData-name`),
    the others → parameters. (References among shared parameters are outside the modelled fragment:
    the real code classifies them against the components built so far, in Go map order.) -/
def sharedP3 {V : Type} (docConsumes : List String) :
    List (String × PRef2 V) → List (String × PRef3 V) × List (String × BRef3 V) × List (String × CSchema V)
  | [] => ([], [], [])
  | (k, p) :: r =>
    let (a, b, c) := sharedP3 docConsumes r
    match toV3P { cbodies := [], cschemas := [] } docConsumes p with
    | .param q => ((k, q) :: a, b, c)
    | .body x => (a, (k, x) :: b, c)
    | .form n s => (a, b, (k, { formName := some n, schema := s }) :: c)

def mapSecs : List (String × Sec2) → Res (List (String × Sec3))
  | [] => .ok []
  | (k, s) :: r => match toV3Sec s with
    | none => .error "unsupported flow"
    | some t => match mapSecs r with
      | .error e => .error e
      | .ok ts => .ok ((k, t) :: ts)

/-- component schemas: form parameters first, then the definitions (same key: the definition wins) -/
def mergeSchemas {V : Type} (forms : List (String × CSchema V)) (defs : List (String × Sch V)) : List (String × CSchema V) :=
  defs.foldl (fun acc (d : String × Sch V) => ainsert d.1 { formName := none, schema := toV3S d.2 } acc) forms

mutual
def docRefs {V : Type} : Sch V → List (RK × String)
  | .ref k n => [(k, n)]
  | .node _ kids => docRefsKids kids
def docRefsKids {V : Type} : List (Slot × Sch V) → List (RK × String)
  | [] => []
  | (_, c) :: rest => docRefs c ++ docRefsKids rest
end

/-- ToV3 (before ResolveRefsIn) -/
def toV3Raw {V : Type} (d : Doc2 V) : Res (Doc3 V) :=
  let (cps, cbs, cfs) := sharedP3 d.consumes d.params
  let env : Env3 V := { cbodies := cbs, cschemas := cfs }
  match mapRes (toV3Path env d.consumes) d.paths with
  | .error e => .error e
  | .ok paths => match mapSecs d.secs with
    | .error e => .error e
    | .ok secs =>
      .ok { servers := toV3Servers d.loc, cparams := cps, cbodies := cbs,
            cschemas := mergeSchemas cfs d.defs,
            cresponses := d.responses.map (fun (k, r) => (k, toV3Resp d.produces r)),
            secs := secs, paths := paths, security := d.security }

/-- schema-position references of a parameter / request body / response / operation / path item -/
def prRefs3 {V : Type} : PRef3 V → List (RK × String)
  | .ref _ _ => []
  | .val q => docRefs q.schema
def brRefs3 {V : Type} : BRef3 V → List (RK × String)
  | .ref _ _ => []
  | .val q => (q.schema.map docRefs).getD []
def rrRefs3 {V : Type} : RRef3 V → List (RK × String)
  | .ref _ _ => []
  | .val q => (q.schema.map docRefs).getD [] ++ q.headers.flatMap (fun nh => docRefs nh.2.schema)
def opRefs3 {V : Type} (o : Op3 V) : List (RK × String) :=
  o.params.flatMap prRefs3 ++ (o.body.map brRefs3).getD [] ++ o.responses.flatMap (fun kr => rrRefs3 kr.2)
def pathRefs3 {V : Type} (p : Path3 V) : List (RK × String) := p.params.flatMap prRefs3 ++ p.ops.flatMap opRefs3

/-- all schema-position references of a v3 document -/
def schemaRefs3 {V : Type} (d : Doc3 V) : List (RK × String) :=
  d.cparams.flatMap (fun kp => prRefs3 kp.2) ++ d.cbodies.flatMap (fun kb => brRefs3 kb.2) ++
  d.cschemas.flatMap (fun kc => docRefs kc.2.schema) ++ d.cresponses.flatMap (fun kr => rrRefs3 kr.2) ++
  d.paths.flatMap pathRefs3

/-- ToV3: `ResolveRefsIn` fails on a reference the conversion left in v2 form -/
def toV3 {V : Type} (d : Doc2 V) : Res (Doc3 V) :=
  match toV3Raw d with
  | .error e => .error e
  | .ok d3 => if (schemaRefs3 d3).any (fun (k, _) => k.isV2) then .error "unresolved reference" else .ok d3

/-- the v3 identifier alphabet of component names -/
def identChar (c : Char) : Bool := c.isAlphanum || c == '.' || c == '_' || c == '-'
def identOK (s : String) : Bool := s.toList.all identChar && !s.isEmpty

/-- the part of `(*openapi3.T).Validate` the conversion can violate: component names (the rest of
    Validate is not modelled; the generator stays inside what it accepts) -/
def bodyHasContent {V : Type} : BRef3 V → Bool
  | .ref _ _ => true
  | .val b => !b.mimes.isEmpty

/-- the parts of `(*openapi3.T).Validate` the conversion can violate: component names (#38) and
    "content of the request body is required" (a v2 body parameter without a schema) -/
def validates3 {V : Type} (d : Doc3 V) : Bool :=
  d.cparams.all (identOK ·.1) && d.cbodies.all (identOK ·.1) && d.cschemas.all (identOK ·.1) &&
  d.cresponses.all (identOK ·.1) && d.secs.all (identOK ·.1) &&
  d.cbodies.all (fun kb => bodyHasContent kb.2) &&
  d.paths.all (fun p => p.ops.all (fun o => match o.body with | none => true | some b => bodyHasContent b))

/-! ### the way back -/

/-- FromV3SchemaRef on a component schema: string/binary ↦ a shared `formData` file parameter -/
def isBinary {V : Type} : Sch V → Bool
  | .ref _ _ => false
  | .node h _ => h.ty == some "string" && h.fmt == some "binary"

def fromV3FileParam {V : Type} (key : String) (cs : CSchema V) : PRef2 V :=
  match cs.schema with
  | .ref k n => .ref k n
  | .node h _ =>
    let nm := cs.formName.getD ""
    -- FromV3Schemas: a parameter without a name is named after the component
    .val { name := if nm = "" then key else nm, loc := "formData", required := h.req.contains nm,
           cons := { ty := some "file", sc := conv fromV3FileTable h.sc }, items := none, schema := none }

/-- FromV3Parameter -/
def fromV3PRef {V : Type} : PRef3 V → PRef2 V
  | .ref k n => .ref (fromV3RK k) n
  | .val p => .val (fromV3Param p)

/-- FromV3RequestBodyFormData, one inline property, as executed (items through FromV3SchemaRef) -/
def fromV3FormPropO {V : Type} (bin : List String) (objReq : List String) (name : String) (s : Sch V) : PRef2 V :=
  match s with
  | .ref k n => .ref (if k = RK.def3 then RK.par2 else k) n
  | .node h kids =>
    .val { name := name, loc := "formData", required := h.req.contains name || objReq.contains name,
           cons := { ty := if h.fmt = some "binary" then some "file" else h.ty,
                     fmt := if h.fmt = some "binary" then none else h.fmt,
                     sc := conv fromV3FormTable h.sc },
           items := (kidItems kids).bind (fromV3SO bin), schema := none }

/-- how fromV3RequestBodies updates its slice results, statement by statement in source order (regenerated from the
    code as `Gen.requestBodiesUpdates`): the reference branch appends the reference, the media-type loop assigns
    `formParameters` once (`if formParameters == nil`, F-C17-16 repaired) from FromV3RequestBodyFormData of the first
    form media type and appends one body parameter -/
def requestBodiesUpdates : List (String × String) :=
  [("bodyOrRefParameters", "append"), ("formParameters", "init:FromV3RequestBodyFormData"),
   ("bodyOrRefParameters", "append")]

/-- the statements that update a result -/
def updatesOf (tbl : List (String × String)) (result : String) : List String :=
  (tbl.filter (fun r => r.1 == result)).map (·.2)

/-- a slice result after the media-type loop, from what the passes would compute for it: assigned once (the first
    pass wins and the later ones do not run), replaced by every pass (the last pass wins) or appended to (every pass
    contributes) -/
def loopResult {α : Type} (kinds : List String) (passes : List (List α)) : List α :=
  if kinds == ["init:FromV3RequestBodyFormData"] then passes.head?.getD []
  else if kinds == ["replace:FromV3RequestBodyFormData"] then passes.foldl (fun _ r => r) []
  else passes.foldl (fun acc r => acc ++ r) []

/-- the request body has both form media types (one form schema object under both): before the repair of F-C17-16
    FromV3RequestBodyFormData ran once per form media type and the result of the second pass was kept -/
def formTwice (mimes : List String) : Bool := decide ((mimes.filter isFormMime).length ≥ 2)

/-- FromV3RequestBodyFormData, one inline property: on a second pass (`twice`) the items have been visited by
    FromV3SchemaRef before, which cleared `nullable` on them in place; fromV3RequestBodies keeps the first pass
    (`twice = false`) since the repair of F-C17-16 -/
def fromV3FormPropT {V : Type} (twice : Bool) (bin : List String) (objReq : List String) (name : String) (s : Sch V) : PRef2 V :=
  match s with
  | .ref k n => .ref (if k = RK.def3 then RK.par2 else k) n
  | .node h kids =>
    .val { name := name, loc := "formData", required := h.req.contains name || objReq.contains name,
           cons := { ty := if h.fmt = some "binary" then some "file" else h.ty,
                     fmt := if h.fmt = some "binary" then none else h.fmt,
                     sc := conv fromV3FormTable h.sc },
           items := (kidItems kids).bind (fun it => fromV3SO bin (if twice then dropNullable it else it)), schema := none }

/-- the form fields FromV3RequestBodyFormData reads from the form schema: one per property, each once -/
def fromV3FormFields {V : Type} (twice : Bool) (bin : List String) (objReq : List String) (kids : List (Slot × Sch V)) : List (PRef2 V) :=
  kids.filterMap (fun (sl, s) => match sl with
    | .prop name => some (fromV3FormPropT twice bin objReq name s) | _ => none)

/-- what one FromV3RequestBodyFormData pass leaves behind in a form field: FromV3SchemaRef has visited the items -/
def dropItemsNullable {V : Type} : Sch V → Sch V
  | .ref k n => .ref k n
  | .node h kids => .node h (kids.map (fun (sc : Slot × Sch V) => (sc.1, if sc.1 = Slot.items then dropNullable sc.2 else sc.2)))

/-- the passes of the media-type loop over `n` form media types, in order: each reads the form fields from the form
    schema as the earlier passes left it (the media types share one schema object) -/
def formPasses {V : Type} (bin : List String) (objReq : List String) : Nat → List (Slot × Sch V) → List (List (PRef2 V))
  | 0, _ => []
  | n + 1, kids => fromV3FormFields false bin objReq kids ::
      formPasses bin objReq n (kids.map (fun (sc : Slot × Sch V) => (sc.1, dropItemsNullable sc.2)))

/-- fromV3RequestBodies + FromV3RequestBody / FromV3RequestBodyFormData for an operation.
    The content map is ranged over in Go map order; with one media type (or all of one kind) the result
    is order-independent: that is the modelled fragment. -/
def fromV3Body {V : Type} (bin : List String) (shared : Bool) (origName : String) : BRef3 V → List (PRef2 V)
  | .ref k n => [.ref (fromV3RK k) n]
  | .val b =>
    if b.mimes.any isFormMime then
      match b.schema with
      | some (.node oh kids) => fromV3FormFields false bin oh.req kids
      | _ => []
    else if b.mimes.isEmpty then []
    else [.val { name := origName, loc := "body", required := b.required, cons := {}, items := none,
                 -- one FromV3SchemaRef pass per media type over the *same* schema object; an operation keeps
                 -- the first result, a shared body the last one — converted after the first pass has
                 -- cleared `nullable` in place
                 schema := b.schema.bind (fun s =>
                   if shared && (b.mimes.filter (fun m => !isFormMime m)).length ≥ 2 then fromV3SO bin (dropNullable s)
                   else fromV3SO bin s) }]

def fromV3Op {V : Type} (bin : List String) (op : Op3 V) : Option (Op2 V) :=
  match op.params.mapM (fromV3PRefO bin), op.responses.mapM (fun (kr : String × RRef3 V) =>
      (fromV3RespO bin kr.2).map (fun r => (kr.1, r))) with
  | some ps, some rs =>
    some { method := op.method, opId := op.opId,
           consumes := match op.body with | some (.val b) => sortStrs b.mimes | _ => [],
           produces := [],
           params := ps ++ (match op.body with | none => [] | some b => fromV3Body bin false "body" b),
           responses := rs, info := conv fromV3OpTable op.info, security := op.security }
  | _, _ => none

def fromV3Path {V : Type} (bin : List String) (p : Path3 V) : Option (Path2 V) :=
  match p.params.mapM (fromV3PRefO bin), p.ops.mapM (fromV3Op bin) with
  | some ps, some ops => some { path := p.path, params := ps, ops := ops }
  | _, _ => none

def isBinaryFmt {V : Type} : Sch V → Bool
  | .ref _ _ => false
  | .node h _ => h.fmt == some "binary"

/-- the key of `doc2.Parameters` under which FromV3 stores what comes back from a component request body -/
def backKey {V : Type} (k : String) (p : PRef2 V) : String × PRef2 V :=
  match p with
  | .val q => if q.loc = "formData" then (q.name, p) else (k, p)
  | _ => (k, p)

/-- FromV3 (`none` = panic) -/
def fromV3 {V : Type} (d : Doc3 V) : Option (Doc2 V) :=
  let bin := (d.cschemas.filter (fun (_, c) => isBinaryFmt c.schema)).map (·.1)
  match d.paths.mapM (fromV3Path bin), d.cparams.mapM (fun (kp : String × PRef3 V) => (fromV3PRefO bin kp.2).map (fun p => (kp.1, p))),
        d.cresponses.mapM (fun (kr : String × RRef3 V) => (fromV3RespO bin kr.2).map (fun r => (kr.1, r))) with
  | some paths, some cps, some crs =>
    some {
      loc := fromV3Servers d.servers, consumes := [], produces := [],
      -- doc2.Parameters is a Go map written in this order: a later entry replaces an earlier one of the same key
      params := dedupLast (
        (d.cschemas.filter (fun (_, c) => isBinary c.schema)).map (fun (k, c) => (k, fromV3FileParam k c)) ++
        cps ++
        d.cbodies.flatMap (fun kb => (fromV3Body bin true kb.1 kb.2).map (backKey kb.1))),
      responses := crs,
      defs := (d.cschemas.filter (fun (_, c) => !isBinary c.schema)).filterMap (fun (k, c) => (fromV3SO bin c.schema).map (fun s => (k, s))),
      secs := d.secs.filterMap (fun (k, s) => match fromV3Sec s with | .ok t => some (k, t) | _ => none),
      paths := paths, security := d.security }
  | _, _, _ => none

/-- findNameForRequestBody: the name of a parameter as FromV3Operation sees it (references are resolved) -/
def paramName3 {V : Type} (cparams : List (String × PRef3 V)) : PRef3 V → String
  | .val p => p.name
  | .ref _ n => match alookup n cparams with | some (.val q) => q.name | _ => ""

/-- needsBodyName (c26cd6a, bfa9f46): FromV3Operation needs the free name only for an inline request body that
    does not carry its original name and has a media type that is not a form media type -/
def needsBodyName {V : Type} : Option (BRef3 V) → Bool
  | some (.val b) => !b.origName && b.mimes.any (fun m => !isFormMime m)
  | _ => false

/-- FromV3Operation fails with "could not find a name for request body": the name is needed and the parameters
    are named `body` and `requestBody` -/
def opNameClash {V : Type} (cparams : List (String × PRef3 V)) (o : Op3 V) : Bool :=
  needsBodyName o.body && bodyParamNames.all (fun n => o.params.any (fun p => paramName3 cparams p == n))

/-- outcome of FromV3 -/
inductive BackRes (V : Type) where
  | ok (d : Doc2 V) | panic | error

/-- FromV3 with its error outcome. (A document with both an erroring and a panicking operation ends in the one
    Go's map order reaches first; such documents are not generated.) -/
def fromV3Full {V : Type} (d : Doc3 V) : BackRes V :=
  if d.paths.any (fun p => p.ops.any (opNameClash d.cparams)) then .error
  else match fromV3 d with | some d2 => .ok d2 | none => .panic

/-! ### the abstract API -/

structure OpA (V : Type) where
  path : String
  method : String
  opId : String
  inputs : List (InputA V)
  responses : List (String × RespRA V)
  info : Rec V                      -- summary, description, deprecated, tags
  security : Option V               -- the operation's own security requirements

structure Api (V : Type) where
  ops : List (OpA V)
  pathParams : List (String × List (InputA V))
  shared : List (String × InputA V)
  sharedResponses : List (String × RespRA V)
  defs : List (String × ASch V)
  servers : List Server
  security : List (String × SecA)
  securityReq : Option V            -- document-level security requirements

/-- what a v2 operation says -/
def opA2 {V : Type} (path : String) (o : Op2 V) : OpA V :=
  { path := path, method := o.method, opId := o.opId, inputs := o.params.map inputA2,
    responses := o.responses.map (fun kr => (kr.1, respA2 kr.2)),
    info := normRec opMetaFields o.info, security := o.security }

def api2 {V : Type} (d : Doc2 V) : Api V :=
  { ops := d.paths.flatMap (fun p => p.ops.map (opA2 p.path)),
    pathParams := (d.paths.filter (fun p => !p.params.isEmpty)).map (fun p => (p.path, p.params.map inputA2)),
    shared := d.params.map (fun (k, p) => (k, inputA2 p)),
    sharedResponses := d.responses.map (fun (k, r) => (k, respA2 r)),
    defs := d.defs.map (fun (k, s) => (k, abs2S s)),
    servers := serversA2 d.loc,
    security := d.secs.map (fun (k, s) => (k, secA2 s)),
    securityReq := d.security }

/-- a shared form parameter encoded as a component schema -/
def sharedForm3 {V : Type} (name : String) (c : CSchema V) : InputA V :=
  .form name (propRequired name c.schema) (abs3S (clearReq c.schema))

/-- what a v3 operation says -/
def opA3 {V : Type} (path : String) (o : Op3 V) : OpA V :=
  { path := path, method := o.method, opId := o.opId,
    inputs := o.params.map paramA3 ++ (match o.body with | none => [] | some b => bodyA3 b),
    responses := o.responses.map (fun kr => (kr.1, respA3 kr.2)),
    info := normRec opMetaFields o.info, security := o.security }

def api3 {V : Type} (d : Doc3 V) : Api V :=
  { ops := d.paths.flatMap (fun p => p.ops.map (opA3 p.path)),
    pathParams := (d.paths.filter (fun p => !p.params.isEmpty)).map (fun p => (p.path, p.params.map paramA3)),
    shared := d.cparams.map (fun (k, p) => (k, paramA3 p)) ++
              d.cbodies.flatMap (fun (k, b) => (bodyA3 b).map (fun i => (k, i))) ++
              d.cschemas.filterMap (fun (k, c) => c.formName.map (fun n => (k, sharedForm3 n c))),
    sharedResponses := d.cresponses.map (fun (k, r) => (k, respA3 r)),
    defs := d.cschemas.filterMap (fun (k, c) => match c.formName with | none => some (k, abs3S c.schema) | some _ => none),
    servers := d.servers,
    security := d.secs.map (fun (k, s) => (k, secA3 s)),
    securityReq := d.security }

/-! ## §7 fragment and exclusion predicates used by the theorems -/

/-- items of a parameter / header inside the fragment of `toV3S_preserves_partial` -/
def itemsOK3 {V : Type} (o : Option (Sch V)) : Bool := o.all (fun s => !addlImpure s && v2Refs s)

/-- … and of `roundtripS_partial` -/
def itemsOKBack {V : Type} (o : Option (Sch V)) : Bool := o.all v2Refs

/-- `format: binary` is a format of strings (a form field `type: integer, format: binary` is not a meaningful
    OpenAPI 2 parameter: the converter reads every binary format as a file upload) -/
def formFmtOK {V : Type} (p : Param2 V) : Bool :=
  p.cons.fmt != some "binary" || p.cons.ty == some "string" || p.cons.ty == some "file"

def headerOK3 {V : Type} (h : String × Param2 V) : Bool := itemsOK3 h.2.items

def headerOKBack {V : Type} (h : String × Param2 V) : Bool := itemsOKBack h.2.items

def schemaOK3 {V : Type} (o : Option (Sch V)) : Bool := o.all (fun s => !addlImpure s && v2Refs s)

def schemaOKBack {V : Type} (o : Option (Sch V)) : Bool := o.all v2Refs

/-- the schemes of the fragment: basic, apiKey, and oauth2 with one of the four flows -/
def secInFragment (s : Sec2) : Bool :=
  s.type == "basic" || s.type == "apiKey" ||
  (s.type == "oauth2" && (s.flow == "implicit" || s.flow == "accessCode" || s.flow == "password" || s.flow == "application"))

/-- the four schemes of OpenAPI 2 -/
def schemeOK (x : String) : Bool := x == "http" || x == "https" || x == "ws" || x == "wss"

/-- hypotheses of the response theorems, as one decidable predicate -/
def respOK3 {V : Type} : RRef2 V → Bool
  | .ref k _ => k.isV2
  | .val x => x.headers.all headerOK3 && schemaOK3 x.schema
def respOKBack {V : Type} : RRef2 V → Bool
  | .ref k _ => k.isV2
  | .val x => x.headers.all headerOKBack && schemaOKBack x.schema

/-- an inline query / header / path parameter inside the fragment -/
def paramSimple {V : Type} : PRef2 V → Bool
  | .ref k _ => k.isV2            -- a reference to a shared parameter (of the fragment: `sharedSimple`)
  | .val p => p.loc != "body" && p.loc != "formData" && itemsOK3 p.items

/-- a shared parameter of the fragment: an inline query / header / path parameter -/
def sharedSimple {V : Type} : PRef2 V → Bool
  | .ref _ _ => false
  | .val p => p.loc != "body" && p.loc != "formData" && itemsOK3 p.items

def opSimple {V : Type} (o : Op2 V) : Bool :=
  o.params.all paramSimple && o.responses.all (fun kr => respOK3 kr.2)

def pathSimple {V : Type} (p : Path2 V) : Bool := p.params.all paramSimple && p.ops.all opSimple

/-- what ToV3Parameter yields for a parameter of the simple fragment -/
def toV3PS {V : Type} : PRef2 V → PRef3 V
  | .ref k n => .ref (toV3RK k) n
  | .val p => .val (toV3Param p)

/-- the v3 operation ToV3Operation builds in the simple fragment -/
def toV3OpS {V : Type} (o : Op2 V) : Op3 V :=
  { method := o.method, opId := o.opId, params := o.params.map toV3PS, body := none,
    responses := o.responses.map (fun kr => (kr.1, toV3Resp o.produces kr.2)),
    info := conv toV3OpTable o.info, security := o.security }

def toV3PathS {V : Type} (p : Path2 V) : Path3 V :=
  { path := p.path, params := p.params.map toV3PS, ops := p.ops.map toV3OpS }

def nodupKeys {α : Type} : List (String × α) → Bool
  | [] => true
  | (k, _) :: r => (alookup k r).isNone && nodupKeys r

/-- every shared name of the document is a v3 component identifier (exclusion of finding #38 when false) -/
def namesOK {V : Type} (d : Doc2 V) : Bool :=
  d.params.all (fun kv => identOK kv.1) && d.responses.all (fun kv => identOK kv.1) &&
  d.defs.all (fun kv => identOK kv.1) && d.secs.all (fun kv => identOK kv.1)

/-- every inline body parameter (of an operation or shared) has a schema (exclusion of F-C17-14 when false) -/
def bodyParamOK {V : Type} : PRef2 V → Bool
  | .ref _ _ => true
  | .val p => p.loc != "body" || p.schema.isSome

def bodiesOK {V : Type} (d : Doc2 V) : Bool :=
  d.params.all (fun kp => bodyParamOK kp.2) && d.paths.all (fun p => p.ops.all (fun o => o.params.all bodyParamOK))

def locOK (l : Loc2) : Bool := l.host != "" || (l.basePath == "" && l.schemes.isEmpty)

/-- documents whose shared parameters are query / header / path parameters and whose operations and path items
    take such parameters inline or by reference; shared responses, definitions (distinct names), security
    schemes and the location are unrestricted inside the fragments of the component theorems.
    (References are taken to resolve: the loader's failure on a dangling parameter / response reference is
    not modelled.) -/
def docSimple {V : Type} (d : Doc2 V) : Bool :=
  d.params.all (fun kp => sharedSimple kp.2) && d.paths.all pathSimple && d.responses.all (fun kr => respOK3 kr.2) &&
  nodupKeys d.defs && d.defs.all (fun ks => !addlImpure ks.2 && v2Refs ks.2) &&
  d.secs.all (fun ks => secInFragment ks.2) && locOK d.loc

/-- fragment of the round-trip theorems (outside every exclusion), component by component -/
def paramSimpleBack {V : Type} : PRef2 V → Bool
  | .ref k _ => k.isV2
  | .val p => p.loc != "body" && p.loc != "formData" && itemsOKBack p.items && noBinary2 (paramSchema2 p)

def sharedSimpleBack {V : Type} : PRef2 V → Bool
  | .ref _ _ => false
  | .val p => p.loc != "body" && p.loc != "formData" && itemsOKBack p.items && noBinary2 (paramSchema2 p)

/-- the v2 parameter that comes back for a parameter of the simple fragment -/
def backPS {V : Type} : PRef2 V → PRef2 V
  | .ref k n => .ref (fromV3RK (toV3RK k)) n
  | .val p => .val (fromV3Param (toV3Param p))

def headerSimpleBack {V : Type} (h : String × Param2 V) : Bool :=
  itemsOKBack h.2.items && noBinary2 (paramSchema2 h.2)

def respSimpleBack {V : Type} (produces : List String) : RRef2 V → Bool
  | .ref k _ => k.isV2
  | .val x => x.headers.all headerSimpleBack && schemaOKBack x.schema && x.schema.all noBinary2

def opSimpleBack {V : Type} (o : Op2 V) : Bool :=
  o.params.all paramSimpleBack && o.responses.all (fun kr => respSimpleBack o.produces kr.2)

def pathSimpleBack {V : Type} (p : Path2 V) : Bool := p.params.all paramSimpleBack && p.ops.all opSimpleBack

def defSimpleBack {V : Type} (s : Sch V) : Bool :=
  noBinary2 s && v2Refs s && !addlImpure s &&
  (match s with | .ref _ _ => true | .node h _ => h.fmt != some "binary")

def docSimpleBack {V : Type} (d : Doc2 V) : Bool :=
  docSimple d && (d.params.all (fun kp => sharedSimpleBack kp.2) && nodupKeys d.params) && d.paths.all pathSimpleBack && d.responses.all (fun kr => respSimpleBack d.produces kr.2) &&
  nodupKeys d.defs && d.defs.all (fun ks => defSimpleBack ks.2) &&
  d.secs.all (fun ks => secInFragment ks.2) &&
  (d.loc.host != "" && d.loc.schemes.all schemeOK)

/-! ## §8 the fragment with body parameters (inline and shared) -/

def isBodyVal {V : Type} : PRef2 V → Bool
  | .ref _ _ => false
  | .val p => p.loc == "body"

/-- the keys of the shared parameters that are body parameters -/
def bodyKeys {V : Type} : List (String × PRef2 V) → List String
  | [] => []
  | (k, p) :: r => if isBodyVal p then k :: bodyKeys r else bodyKeys r

/-- an inline body parameter of the fragment: its schema is inside the fragment of `toV3S_preserves_partial`, and the
    media types it is consumed under are not form media types (a body under a form media type is read as form
    fields by `bodyA3`) -/
def bodyOK3 {V : Type} (cs : List String) : PRef2 V → Bool
  | .ref _ _ => false
  | .val p => p.loc == "body" && schemaOK3 p.schema && (p.schema.isNone || !cs.any isFormMime)

/-- a request input of an operation of the fragment: a query / header / path parameter (inline or by reference)
    or a body parameter (inline, or a reference to a shared body parameter — `paramSimple` admits every v2 reference) -/
def inputOK3 {V : Type} (cs : List String) (q : PRef2 V) : Bool := paramSimple q || bodyOK3 cs q

/-- does this parameter end up as the request body? (`bks` = keys of the shared body parameters) -/
def isBodyIn {V : Type} (bks : List String) : PRef2 V → Bool
  | .ref k n => k == RK.par2 && bks.contains n
  | .val p => p.loc == "body"

def effConsumes {V : Type} (dc : List String) (o : Op2 V) : List String := if o.consumes.isEmpty then dc else o.consumes

def opBodyOK {V : Type} (bks dc : List String) (o : Op2 V) : Bool :=
  o.params.all (inputOK3 (effConsumes dc o)) && decide ((o.params.filter (isBodyIn bks)).length ≤ 1) &&
  o.responses.all (fun kr => respOK3 kr.2)

/-- path-level parameters: no reference to a shared body parameter (ToV3PathItem fails on it) -/
def pathParamOK {V : Type} (bks : List String) (q : PRef2 V) : Bool := paramSimple q && !isBodyIn bks q

def pathBodyOK {V : Type} (bks dc : List String) (p : Path2 V) : Bool :=
  p.params.all (pathParamOK bks) && p.ops.all (opBodyOK bks dc)

/-- a shared parameter of the fragment: query / header / path or body -/
def sharedOK3 {V : Type} (dc : List String) (q : PRef2 V) : Bool := sharedSimple q || bodyOK3 dc q

/-- documents whose operations take query / header / path parameters and at most one body parameter, inline or by
    reference to a shared parameter (shared parameters: query / header / path / body) -/
def docBody {V : Type} (d : Doc2 V) : Bool :=
  d.params.all (fun kp => sharedOK3 d.consumes kp.2) && d.paths.all (pathBodyOK (bodyKeys d.params) d.consumes) &&
  d.responses.all (fun kr => respOK3 kr.2) &&
  nodupKeys d.defs && d.defs.all (fun ks => !addlImpure ks.2 && v2Refs ks.2) &&
  d.secs.all (fun ks => secInFragment ks.2) && locOK d.loc

/-- the v3 request body ToV3Parameter builds from an inline body parameter -/
def toV3BodyS {V : Type} (cs : List String) (p : Param2 V) : BRef3 V :=
  .val { required := p.required,
         mimes := match p.schema with
           | none => []
           | some _ => if cs.isEmpty then ["*/*"] else cs,
         schema := p.schema.map toV3S, origName := p.name != "" }

/-- two lists related position by position -/
def rel2 {α β : Type} (R : α → β → Prop) : List α → List β → Prop
  | [], [] => True
  | a :: as, b :: bs => R a b ∧ rel2 R as bs
  | _, _ => False

/-- the same API up to the order of the request inputs of an operation -/
def OpA.sim {V : Type} (a b : OpA V) : Prop :=
  a.path = b.path ∧ a.method = b.method ∧ a.opId = b.opId ∧ a.inputs.Perm b.inputs ∧ a.responses = b.responses ∧
  a.info = b.info ∧ a.security = b.security

/-- the same API up to the order of the request inputs of each operation and of the shared parameters -/
def Api.sim {V : Type} (a b : Api V) : Prop :=
  rel2 OpA.sim a.ops b.ops ∧ a.pathParams = b.pathParams ∧ a.shared.Perm b.shared ∧
  a.sharedResponses = b.sharedResponses ∧ a.defs = b.defs ∧ a.servers = b.servers ∧ a.security = b.security ∧
  a.securityReq = b.securityReq

/-- the round-trip fragment with bodies, component by component (outside every exclusion class) -/
def bodyOKBack {V : Type} (cs : List String) : PRef2 V → Bool
  | .ref _ _ => false
  | .val p => p.loc == "body" && !cs.any isFormMime &&
      (match p.schema with | none => false | some s => v2Refs s && noBinary2 s && !addlImpure s)

def inputOKBack {V : Type} (cs : List String) (q : PRef2 V) : Bool := paramSimpleBack q || bodyOKBack cs q

def opBodyBack {V : Type} (bks dc : List String) (o : Op2 V) : Bool :=
  o.params.all (inputOKBack (effConsumes dc o)) && decide ((o.params.filter (isBodyIn bks)).length ≤ 1) &&
  o.responses.all (fun kr => respSimpleBack o.produces kr.2)

def pathParamBack {V : Type} (bks : List String) (q : PRef2 V) : Bool := paramSimpleBack q && !isBodyIn bks q

def pathBodyBack {V : Type} (bks dc : List String) (p : Path2 V) : Bool :=
  p.params.all (pathParamBack bks) && p.ops.all (opBodyBack bks dc)

/-- a shared body parameter comes back from one FromV3SchemaRef pass per media type over the same schema object
    (F-C17-11): the fragment keeps to at most one media type -/
def sharedOKBack {V : Type} (dc : List String) (q : PRef2 V) : Bool :=
  sharedSimpleBack q || (bodyOKBack dc q && decide (dc.length ≤ 1))

def docBodyBack {V : Type} (d : Doc2 V) : Bool :=
  docBody d && d.params.all (fun kp => sharedOKBack d.consumes kp.2) && nodupKeys d.params &&
  d.paths.all (pathBodyBack (bodyKeys d.params) d.consumes) &&
  d.responses.all (fun kr => respSimpleBack d.produces kr.2) &&
  d.defs.all (fun ks => defSimpleBack ks.2) &&
  (d.loc.host != "" && d.loc.schemes.all schemeOK)

/-- what relates a converted path item to its source -/
def PathRel3 {V : Type} (p3 : Path3 V) (p : Path2 V) : Prop :=
  p3.path = p.path ∧ p3.params.map paramA3 = p.params.map inputA2 ∧
  rel2 OpA.sim (p3.ops.map (opA3 p3.path)) (p.ops.map (opA2 p.path))

/-- what relates a path item that came back to its source -/
def PathRelBack {V : Type} (p2 p : Path2 V) : Prop :=
  p2.path = p.path ∧ p2.params.map inputA2 = p.params.map inputA2 ∧
  rel2 OpA.sim (p2.ops.map (opA2 p2.path)) (p.ops.map (opA2 p.path))

/-! ## §9 the fragment with form parameters (ToV3) -/

/-- an inline form parameter of the fragment -/
def formOK3 {V : Type} : PRef2 V → Bool
  | .ref _ _ => false
  | .val p => p.loc == "formData" && itemsOK3 p.items

/-- a request input: query / header / path parameter, body parameter, or inline form parameter -/
def inputOKF {V : Type} (cs : List String) (q : PRef2 V) : Bool := inputOK3 cs q || formOK3 q

/-- the inline form parameters of a parameter list, in order -/
def formVals {V : Type} : List (PRef2 V) → List (Param2 V)
  | [] => []
  | .val p :: r => if p.loc = "formData" then p :: formVals r else formVals r
  | .ref _ _ :: r => formVals r

/-- an operation takes either at most one body parameter, or form parameters with distinct names under a form
    media type (never both: ToV3 rejects that) -/
def opInputsOK {V : Type} (bks dc : List String) (o : Op2 V) : Bool :=
  o.params.all (inputOKF (effConsumes dc o)) &&
  (((formVals o.params).isEmpty && decide ((o.params.filter (isBodyIn bks)).length ≤ 1)) ||
   ((o.params.filter (isBodyIn bks)).isEmpty &&
    nodupKeys ((formVals o.params).map (fun p => (p.name, toV3FormProp p))) && (effConsumes dc o).any isFormMime)) &&
  o.responses.all (fun kr => respOK3 kr.2)

def pathInputsOK {V : Type} (bks dc : List String) (p : Path2 V) : Bool :=
  p.params.all (pathParamOK bks) && p.ops.all (opInputsOK bks dc)

/-- documents whose operations take query / header / path parameters and a body parameter or form parameters;
    shared parameters: query / header / path / body -/
def docInputs {V : Type} (d : Doc2 V) : Bool :=
  d.params.all (fun kp => sharedOK3 d.consumes kp.2) && d.paths.all (pathInputsOK (bodyKeys d.params) d.consumes) &&
  d.responses.all (fun kr => respOK3 kr.2) &&
  nodupKeys d.defs && d.defs.all (fun ks => !addlImpure ks.2 && v2Refs ks.2) &&
  d.secs.all (fun ks => secInFragment ks.2) && locOK d.loc

/-- no reference of the list is in OpenAPI 2 form (what `toV3` requires of `schemaRefs3`) -/
def noV2 (l : List (RK × String)) : Prop := ∀ kn ∈ l, kn.1.isV2 = false

/-! ## §10 the round-trip fragment with form parameters -/

/-- an inline form parameter of the round-trip fragment (its items come back through FromV3SchemaRef, which
    returns nothing for binary strings: F-C17-12) -/
def formOKBack {V : Type} : PRef2 V → Bool
  | .ref _ _ => false
  | .val p => p.loc == "formData" && itemsOKBack p.items && p.items.all noBinary2 && formFmtOK p

/-- the former class of F-C17-16 (FormItemsNullableLost, repaired): under both form media types the items of an array
    form parameter came back from a second FromV3SchemaRef pass, after the first had cleared `nullable` in place.
    No theorem excludes it any more; it is kept for the regression theorem. -/
def formItemsTwice {V : Type} (cs : List String) : PRef2 V → Bool
  | .ref _ _ => false
  | .val p => p.loc == "formData" && formTwice cs && p.items.any hasXnull

def inputOKFBack {V : Type} (cs : List String) (q : PRef2 V) : Bool := inputOKBack cs q || formOKBack q

def opInputsBack {V : Type} (dc : List String) (o : Op2 V) : Bool :=
  o.params.all (inputOKFBack (effConsumes dc o)) && o.responses.all (fun kr => respSimpleBack o.produces kr.2)

def pathInputsBack {V : Type} (bks dc : List String) (p : Path2 V) : Bool :=
  p.params.all (pathParamBack bks) && p.ops.all (opInputsBack dc)

/-- the round-trip fragment with body and form parameters (outside every open finding class) -/
def docInputsBack {V : Type} (d : Doc2 V) : Bool :=
  docInputs d && d.params.all (fun kp => sharedOKBack d.consumes kp.2) && nodupKeys d.params &&
  d.paths.all (pathInputsBack (bodyKeys d.params) d.consumes) &&
  d.responses.all (fun kr => respSimpleBack d.produces kr.2) &&
  d.defs.all (fun ks => defSimpleBack ks.2) &&
  (d.loc.host != "" && d.loc.schemes.all schemeOK)

/-! ## §11 names of body parameters (FromV3Operation's error outcome) -/

/-- a body parameter has a name (required by OpenAPI 2) -/
def namedBody {V : Type} : PRef2 V → Bool
  | .ref _ _ => true
  | .val p => p.loc != "body" || p.name != ""

/-- body parameters have names, and an operation with form parameters consumes form media types only -/
def opNamed {V : Type} (dc : List String) (o : Op2 V) : Bool :=
  o.params.all namedBody && ((formVals o.params).isEmpty || (effConsumes dc o).all isFormMime)

def docNamed {V : Type} (d : Doc2 V) : Bool := d.paths.all (fun p => p.ops.all (opNamed d.consumes))

end KinModel.Conv
