/-
C19, second sentence — the text of ONE schema error (`SchemaError.Error()`, openapi3/schema.go), as a list of
provenance-typed parts, and the condition under which it is assembled from the reason alone.

Branch by branch:
  * a customizer is ATTACHED to the error (the literal that built it copied `settings.customizeMessageError`, and the
    settings that reached the site are the caller's) and returns a non-empty text → that text. The property speaks of
    the reason-only function `fun e => e.Reason` (README, ExampleOptions_WithCustomSchemaErrorFunc): the reason fragments;
  * otherwise: `Error at "/path": ` (property NAMES and indices), then the reason — or `Doesn't match schema "<field>"`
    when the reason is empty —, then, unless `SchemaErrorDetailsDisabled`, the schema dump and the VALUE dump.
Not modelled here: the `Origin != nil` branch of the default text (the text of the origin is used instead of the reason:
another error of the same visitor, or the validator's wrapped error); the differential run searches those texts.
-/
import KinModel.Schema.Events
namespace KinModel.Schema

inductive MsgPart
  | pathTok (t : Tok)          -- `Error at "/a/0": `
  | reason (f : Frag)
  | fieldName (s : String)     -- `Doesn't match schema "<field>"`
  | schemaDump
  | valueDump (v : Option J)   -- the rejected value itself

/-- the part is (or may contain) a string value of the rejected value -/
def MsgPart.fromValue : MsgPart → Bool
  | .reason (.valueStr _) => true
  | .valueDump _ => true
  | _ => false

/-- how an error site is reached: does its literal copy `settings.customizeMessageError`, and are the settings in scope
the caller's (no call of an exported wrapper that builds fresh ones on the way down) -/
structure SiteFlow where
  carries : Bool
  callerSettings : Bool

/-- the customizer the caller configured is attached to the error built at this site -/
def SiteFlow.attached (configured : Bool) (f : SiteFlow) : Bool := configured && f.carries && f.callerSettings

/-- `SchemaError.Error()` with the reason-only function as customizer -/
def errorMessage (attached detailsDisabled : Bool) (e : Err) : List MsgPart :=
  if attached && !e.reason.isEmpty then e.reason.map .reason
  else
    e.rpath.reverse.map .pathTok ++
    (if e.reason.isEmpty then [MsgPart.fieldName e.field] else e.reason.map .reason) ++
    (if detailsDisabled then [] else [.schemaDump, .valueDump e.value])

/-- `MultiError.Error()` (openapi3/errors.go, `spliceErr`): the members' texts in order, separated by the literal " | "
(the separator is a literal of the source: no part) -/
def multiMessage (attached detailsDisabled : Bool) (es : List Err) : List MsgPart :=
  es.flatMap (errorMessage attached detailsDisabled)

/-- the flow the regenerated table SettingsFlow establishes for every site of the visitor -/
def SiteFlow.sound : SiteFlow := { carries := true, callerSettings := true }

end KinModel.Schema
