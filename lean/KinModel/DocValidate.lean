/-
Model of document validation, `(*openapi3.T).Validate` and the `Validate` methods below it
(openapi3/openapi3.go, components.go, paths.go, path_item.go, operation.go, parameter.go, header.go,
media_type.go, content.go, request_body.go, response.go, schema.go `validate`, refs.go, security_scheme.go,
server.go, info.go, license.go, external_docs.go, example.go, link.go, tag.go, extension.go).

Shape of the model
  * a document is a tree `Doc.node kind attrs kids`; one `Kind` per Go type that has a `Validate` method;
    `kids` are grouped under named positions (the JSON key of the container: "parameters", "schema", …);
    a `$ref` wrapper (`*Ref` types) is a node of its own whose only kid sits at position "value"
    (absent when the reference is unresolved); map keys / template strings are kept in the kid's
    attribute "key";
  * `descend lok act` is the recursive descent: the verdicts of all kids are computed first, then the local
    rules of the node (which may look at those verdicts: `Encoding.Validate` answers nil as soon as one of
    its headers fails) and the verdict of every kid whose position is *active*.  For the code, `act` is read off the REGENERATED table `Gen.descent` (which child `Validate`
    calls a method makes, under which option flags) and `lok` is `localOK`, a hand-written transcription
    of the local checks of each method in the code's order, whose calls to `validateExtensions`,
    `ValidateIdentifier`, `VisitJSON(default)` and `validateExampleValue` are again looked up in the table;
  * the specification side (`violations`, `enabled`, `specEdges`) is written from the property text:
    a list of rule violations per node, which option switches which rule, and the containment relation.

Ties to the code
  * table `Gen.descent` (regenerated): edges, `validateExtensions` / `ValidateIdentifier` / `VisitJSON(default)` /
    `validateExampleValue` calls, their option guards and what the caller does with the callee's error
    (returned, or dropped by `return nil`) — consumed by `active`, `hasCheck`, `hasSwallow`, `checkExt`;
  * table `Gen.paramStyles` / `Gen.paramStyleDefaults` / `Gen.headerStyles` / `Gen.encodingStyles` (regenerated):
    compared with `smSupported` / `smOf` / `encSmOf` (the OpenAPI 3.0 style table) by `decide` in Props/C04.lean;
  * the structural conditions that dominate a call (`if schema != nil { … }`, the else branch of
    `if example != nil`, accepting early returns) are part of the table as well ("@…" literals): the ones that
    only test the call's own operand are dropped (`benign`), the others are read against the node's attributes;
  * everything hand-transcribed (the order and content of the local checks) is validated by the differential
    run against `(*openapi3.T).Validate`.

What is abstracted
  * `VisitJSON` of a default / example value is modelled on the fragment "scalar value against a schema
    that constrains it by `type` / `nullable` only" (`accepts`); outside that fragment the model says
    `unmodelled` and the differential run never goes there;
  * regular expressions: a pattern compiles unless it is one of a fixed family of uncompilable ones;
  * `url.Parse` is assumed to succeed; error *messages* and the order of errors are not modelled
    (the observable of the property is error / nil).
-/
import KinModel.Gen.Descent
import KinModel.Gen.OptionCtors
import KinModel.Gen.C04PatternCache
namespace KinModel.DocValidate

inductive Kind
  | root | components | info | contact | license | paths | pathItem | operation | parameters
  | parameterRef | parameter | requestBodyRef | requestBody | responses | responseRef | response
  | headerRef | header | content | mediaType | schemaRef | innerSchemaRef | schema
  | exampleRef | example | linkRef | link | callbackRef | callback
  | securitySchemeRef | securityScheme | oauthFlows | oauthFlow | securityReqs | securityReq
  | servers | server | serverVar | tags | tag | externalDocs | encoding | discriminator | xml
  deriving DecidableEq, Repr

/-- the fragment of JSON values used for defaults and examples -/
inductive Val | null | bool | int | num | str | other
  | obj (keys : List String)      -- a JSON object all of whose members are strings: the member names
  deriving DecidableEq, Repr

/-- how `validateExampleValue` reads an example: plainly, as part of a request (`VisitAsRequest`: a readOnly property
must not be there and need not be there) or as part of a response (`VisitAsResponse`: the same for writeOnly). The
reading is a field pair of the settings record (`examplesValidationAsReq` / `…AsRes`) that no option constructor
writes; `RequestBody.Validate` and `Response.Validate` do (table `C04OptionState`) -/
inductive Mode | plain | req | res
  deriving DecidableEq, Repr

structure Attrs where
  strs  : List (String × String) := []          -- string-valued fields that are present
  flags : List String := []                     -- boolean facts ("required", "resolved", "hasSchema", …)
  nums  : List (String × Nat) := []             -- counts ("content" = number of media types, …)
  exts  : List String := []                     -- keys of the `Extensions` map (every unknown key)
  sibs  : List String := []                     -- reference wrappers: keys next to `$ref`
  vals  : List (String × Val) := []             -- default / example values
  lists : List (String × List String) := []     -- string lists ("type", …)
  deriving DecidableEq, Repr

inductive Doc where
  | node (kind : Kind) (a : Attrs) (kids : List (String × Doc))

namespace Doc
def kind : Doc → Kind | .node k _ _ => k
def attrs : Doc → Attrs | .node _ a _ => a
def kids : Doc → List (String × Doc) | .node _ _ ks => ks
def kidsAt (d : Doc) (pos : String) : List Doc := (d.kids.filter (·.1 = pos)).map (·.2)
def hasKid (d : Doc) (pos : String) : Bool := d.kids.any (·.1 = pos)
end Doc

def Attrs.str (a : Attrs) (k : String) : String := (a.strs.lookup k).getD ""
def Attrs.flag (a : Attrs) (k : String) : Bool := a.flags.contains k
def Attrs.num (a : Attrs) (k : String) : Nat := (a.nums.lookup k).getD 0
def Attrs.list (a : Attrs) (k : String) : List String := (a.lists.lookup k).getD []

structure Opts where
  exDisabled    : Bool := false        -- DisableExamplesValidation
  defDisabled   : Bool := false        -- DisableSchemaDefaultsValidation
  fmtEnabled    : Bool := false        -- EnableSchemaFormatValidation
  patDisabled   : Bool := false        -- DisableSchemaPatternValidation
  extProhibited : Bool := false        -- ProhibitExtensionsWithRef
  allowed       : List String := []    -- AllowExtraSiblingFields
  customRegex   : Bool := false        -- SetRegexCompiler with an engine that compiles every pattern of the family
  deriving DecidableEq, Repr

/-! ## Option lists: `WithValidationOptions` folds the list left to right over the zero settings record -/

/-- one element of an option list: constructor name and its arguments -/
abbrev OptCall := String × List String

/-- write `value` to the field `field` of the settings record (the vocabulary of table `OptionCtors`) -/
def setField (o : Opts) (field value : String) (args : List String) : Opts :=
  match field, value with
  | "examplesValidationDisabled", "true" => { o with exDisabled := true }
  | "examplesValidationDisabled", "false" => { o with exDisabled := false }
  | "schemaDefaultsValidationDisabled", "true" => { o with defDisabled := true }
  | "schemaDefaultsValidationDisabled", "false" => { o with defDisabled := false }
  | "schemaFormatValidationEnabled", "true" => { o with fmtEnabled := true }
  | "schemaFormatValidationEnabled", "false" => { o with fmtEnabled := false }
  | "schemaPatternValidationDisabled", "true" => { o with patDisabled := true }
  | "schemaPatternValidationDisabled", "false" => { o with patDisabled := false }
  | "schemaExtensionsInRefProhibited", "true" => { o with extProhibited := true }
  | "schemaExtensionsInRefProhibited", "false" => { o with extProhibited := false }
  | "extraSiblingFieldsAllowed", "add-args" => { o with allowed := o.allowed ++ args }
  | "regexCompilerFunc", "arg" => { o with customRegex := args == ["permissive"] }
  | _, _ => o

/-- the (field, value) pair is one `setField` understands -/
def fieldKnown (field value : String) : Bool :=
  (["examplesValidationDisabled", "schemaDefaultsValidationDisabled", "schemaFormatValidationEnabled",
    "schemaPatternValidationDisabled", "schemaExtensionsInRefProhibited"].contains field && (value = "true" || value = "false")) ||
  (field = "extraSiblingFieldsAllowed" && value = "add-args") || (field = "regexCompilerFunc" && value = "arg")

/-- apply one option of the list: look the constructor up in the table, write its field -/
def stepWith (rows : List Gen.OptionCtorRow) (o : Opts) (c : OptCall) : Opts :=
  match rows.find? (fun r => r.name = c.1) with
  | some r => setField o r.field r.value c.2
  | none => o

/-- the settings a list of options produces -/
def optsOf (rows : List Gen.OptionCtorRow) (l : List OptCall) : Opts := l.foldl (stepWith rows) {}

/-- the constructors as their names and documentation say (specification side): `Disable<Check>` switches the
check off, `Enable<Check>` switches it on, `Prohibit…` / `Allow…WithRef` set / clear the `x-` sibling rule,
`AllowExtraSiblingFields` adds names to the allow-list, `SetRegexCompiler` replaces the regular-expression engine -/
def specOptionRows : List Gen.OptionCtorRow := [
  ⟨"AllowExtensionsWithRef", "schemaExtensionsInRefProhibited", "false"⟩,
  ⟨"AllowExtraSiblingFields", "extraSiblingFieldsAllowed", "add-args"⟩,
  ⟨"DisableExamplesValidation", "examplesValidationDisabled", "true"⟩,
  ⟨"DisableSchemaDefaultsValidation", "schemaDefaultsValidationDisabled", "true"⟩,
  ⟨"DisableSchemaFormatValidation", "schemaFormatValidationEnabled", "false"⟩,
  ⟨"DisableSchemaPatternValidation", "schemaPatternValidationDisabled", "true"⟩,
  ⟨"EnableExamplesValidation", "examplesValidationDisabled", "false"⟩,
  ⟨"EnableSchemaDefaultsValidation", "schemaDefaultsValidationDisabled", "false"⟩,
  ⟨"EnableSchemaFormatValidation", "schemaFormatValidationEnabled", "true"⟩,
  ⟨"EnableSchemaPatternValidation", "schemaPatternValidationDisabled", "false"⟩,
  ⟨"ProhibitExtensionsWithRef", "schemaExtensionsInRefProhibited", "true"⟩,
  ⟨"SetRegexCompiler", "regexCompilerFunc", "arg"⟩]

/-- the settings the property assigns to an option list (left fold, the last writer of a check wins) -/
def specOptsOf (l : List OptCall) : Opts := optsOf specOptionRows l

/-! ## The generic descent and its characterisation -/

abbrev Act := Kind → Attrs → String → Bool
/-- local rules of a node, given the verdicts of its kids (a list parallel to `kids`) -/
abbrev Lok := Doc → List Bool → Bool

/-- every kid at an active position passed -/
def kidsPass (act : Act) (k : Kind) (a : Attrs) : List (String × Doc) → List Bool → Bool
  | (pos, _) :: r, v :: vs => (if act k a pos then v else true) && kidsPass act k a r vs
  | _, _ => true

def nodePass (lok : Lok) (act : Act) (k : Kind) (a : Attrs) (kids : List (String × Doc)) (vs : List Bool) : Bool :=
  lok (.node k a kids) vs && kidsPass act k a kids vs

mutual
def descend (lok : Lok) (act : Act) : Doc → Bool
  | .node k a kids => nodePass lok act k a kids (verdicts lok act kids)
def verdicts (lok : Lok) (act : Act) : List (String × Doc) → List Bool
  | [] => []
  | (_, c) :: r => descend lok act c :: verdicts lok act r
end

/-- the local rules of a node, fed with the verdicts of its own kids -/
def lokV (lok : Lok) (act : Act) (d : Doc) : Bool := lok d (verdicts lok act d.kids)

/-- `Reach act d n`: node `n` is reached from `d` through active positions only -/
inductive Reach (act : Act) : Doc → Doc → Prop
  | self {d} : Reach act d d
  | step {k a kids pos c d} : (pos, c) ∈ kids → act k a pos = true → Reach act c d →
      Reach act (.node k a kids) d

mutual
theorem descend_sound (lok : Lok) (act : Act) :
    ∀ (d : Doc), descend lok act d = true → ∀ n, Reach act d n → lokV lok act n = true
  | .node k a kids, h, n, hr => by
    simp only [descend, nodePass, Bool.and_eq_true] at h
    cases hr with
    | self => exact h.1
    | step hm he hr' => exact verdicts_sound lok act k a kids h.2 _ _ hm he n hr'
theorem verdicts_sound (lok : Lok) (act : Act) (k : Kind) (a : Attrs) :
    ∀ (kids : List (String × Doc)), kidsPass act k a kids (verdicts lok act kids) = true →
    ∀ pos c, (pos, c) ∈ kids → act k a pos = true → ∀ n, Reach act c n → lokV lok act n = true
  | [], _, _, _, hm, _, _, _ => by simp at hm
  | (p, d) :: r, h, pos, c, hm, he, n, hr => by
    simp only [verdicts, kidsPass, Bool.and_eq_true] at h
    simp only [List.mem_cons, Prod.mk.injEq] at hm
    rcases hm with ⟨rfl, rfl⟩ | hm
    · simp only [he, if_true] at h
      exact descend_sound lok act c h.1 n hr
    · exact verdicts_sound lok act k a r h.2 pos c hm he n hr
end

mutual
theorem descend_complete (lok : Lok) (act : Act) :
    ∀ (d : Doc), (∀ n, Reach act d n → lokV lok act n = true) → descend lok act d = true
  | .node k a kids, h => by
    simp only [descend, nodePass, Bool.and_eq_true]
    exact ⟨h _ .self, verdicts_complete lok act k a kids (fun pos c hm he n hr => h n (.step hm he hr))⟩
theorem verdicts_complete (lok : Lok) (act : Act) (k : Kind) (a : Attrs) :
    ∀ (kids : List (String × Doc)),
    (∀ pos c, (pos, c) ∈ kids → act k a pos = true → ∀ n, Reach act c n → lokV lok act n = true) →
    kidsPass act k a kids (verdicts lok act kids) = true
  | [], _ => rfl
  | (p, d) :: r, h => by
    simp only [verdicts, kidsPass, Bool.and_eq_true]
    refine ⟨?_, verdicts_complete lok act k a r (fun pos c hm he => h pos c (by simp [hm]) he)⟩
    split
    · rename_i hc
      exact descend_complete lok act d (h p d (by simp) hc)
    · rfl
end

/-- the descent accepts exactly when every node reached through active positions is locally fine (its
local rules being fed with the verdicts of its own kids) -/
theorem descend_iff (lok : Lok) (act : Act) (d : Doc) :
    descend lok act d = true ↔ ∀ n, Reach act d n → lokV lok act n = true :=
  ⟨descend_sound lok act d, descend_complete lok act d⟩

/-- the verdict of a kid, read off the verdict list of its parent -/
theorem verdicts_zip (lok : Lok) (act : Act) :
    ∀ (kids : List (String × Doc)) (pc : String × Doc) (v : Bool), (pc, v) ∈ kids.zip (verdicts lok act kids) →
      v = descend lok act pc.2
  | [], _, _, h => by simp at h
  | (p, d) :: r, pc, v, h => by
    simp only [verdicts, List.zip_cons_cons, List.mem_cons, Prod.mk.injEq] at h
    rcases h with ⟨rfl, rfl⟩ | h
    · rfl
    · exact verdicts_zip lok act r pc v h

/-- local rules that do not look at the verdicts of the kids -/
def plain (f : Doc → Bool) : Lok := fun d _ => f d

theorem lokV_plain (f : Doc → Bool) (act : Act) (d : Doc) : lokV (plain f) act d = f d := rfl

theorem descend_plain_iff (f : Doc → Bool) (act : Act) (d : Doc) :
    descend (plain f) act d = true ↔ ∀ n, Reach act d n → f n = true := descend_iff _ _ d

theorem Reach.mono {act act' : Act} (h : ∀ k a p, act k a p = true → act' k a p = true) {d n : Doc}
    (hr : Reach act d n) : Reach act' d n := by
  induction hr with
  | self => exact .self
  | step hm he _ ih => exact .step hm (h _ _ _ he) ih

/-! ## The regenerated table and its interpretation -/

def isPrefix : List Char → List Char → Bool
  | [], _ => true
  | _ :: _, [] => false
  | a :: as, b :: bs => a = b && isPrefix as bs
def isInfix (p : List Char) : List Char → Bool
  | [] => p.isEmpty
  | c :: cs => isPrefix p (c :: cs) || isInfix p cs

/-- one interpreted fact of the table -/
inductive Item
  | edge (k : Kind) (pos : String) (guards : List String)
  | check (k : Kind) (name : String) (guards : List String)
  | swallow (k : Kind) (name : String) (guards : List String)   -- a child call / check whose error ends in `return nil`
  | ignored (k : Kind) (name : String) (guards : List String)   -- a child call / check whose error is dropped (`continue`)
  | skip                                       -- a recognised row that carries no edge (identity steps)
  deriving DecidableEq, Repr

def kindOfGo : String → Option Kind
  | "T" => some .root | "Components" => some .components | "Info" => some .info
  | "Contact" => some .contact | "License" => some .license | "Paths" => some .paths
  | "PathItem" => some .pathItem | "Operation" => some .operation | "Parameters" => some .parameters
  | "ParameterRef" => some .parameterRef | "Parameter" => some .parameter
  | "RequestBodyRef" => some .requestBodyRef | "RequestBody" => some .requestBody
  | "Responses" => some .responses | "ResponseRef" => some .responseRef | "Response" => some .response
  | "HeaderRef" => some .headerRef | "Header" => some .header | "Content" => some .content
  | "MediaType" => some .mediaType | "SchemaRef" => some .schemaRef | "Schema" => some .schema
  | "Schema.validate" => some .schema
  | "ExampleRef" => some .exampleRef | "Example" => some .example | "LinkRef" => some .linkRef
  | "Link" => some .link | "CallbackRef" => some .callbackRef | "Callback" => some .callback
  | "SecuritySchemeRef" => some .securitySchemeRef | "SecurityScheme" => some .securityScheme
  | "OAuthFlows" => some .oauthFlows | "OAuthFlow" => some .oauthFlow | "OAuthFlow.validate" => some .oauthFlow
  | "SecurityRequirements" => some .securityReqs | "SecurityRequirement" => some .securityReq
  | "Servers" => some .servers | "Server" => some .server | "ServerVariable" => some .serverVar
  | "Tags" => some .tags | "Tag" => some .tag | "ExternalDocs" => some .externalDocs
  | "Encoding" => some .encoding | "Discriminator" => some .discriminator | "XML" => some .xml
  | _ => none

/-- origin expression of the callee's receiver ↦ position name in the model tree -/
def posOfVia : String → Option String
  | "doc.Components" => some "components" | "doc.Info" => some "info" | "doc.Paths" => some "paths"
  | "doc.Security" => some "security" | "doc.Servers" => some "servers" | "doc.Tags" => some "tags"
  | "doc.ExternalDocs" => some "externalDocs"
  | "components.Schemas[]" => some "schemas" | "components.Parameters[]" => some "parameters"
  | "components.RequestBodies[]" => some "requestBodies" | "components.Responses[]" => some "responses"
  | "components.Headers[]" => some "headers" | "components.SecuritySchemes[]" => some "securitySchemes"
  | "components.Examples[]" => some "examples" | "components.Links[]" => some "links"
  | "components.Callbacks[]" => some "callbacks"
  | "info.Contact" => some "contact" | "info.License" => some "license"
  | "paths.Value()" => some "pathItems" | "pathItem.Operations()[]" => some "operations"
  | "pathItem.Parameters" => some "parameters" | "pathItem.Servers" => some "servers"
  | "operation.Servers" => some "servers"
  | "operation.Parameters" => some "parameters" | "operation.RequestBody" => some "requestBody"
  | "operation.Responses" => some "responses" | "operation.ExternalDocs" => some "externalDocs"
  | "parameters[]" => some "items"
  | "parameter.Content" => some "content" | "parameter.Schema" => some "schema"
  | "parameter.Examples[]" => some "examples"
  | "header.Schema" => some "schema" | "header.Content" => some "content"
  | "header.Examples[]" => some "examples"
  | "content[]" => some "mediaTypes"
  | "mediaType.Schema" => some "schema" | "mediaType.Examples[]" => some "examples"
  | "mediaType.Encoding[]" => some "encoding"
  | "requestBody.Content" => some "content"
  | "responses.Value()" => some "responses"
  | "response.Content" => some "content" | "response.Headers[]" => some "headers"
  | "response.Links[]" => some "links"
  | "x.Value" => some "value"
  | "schema.ExternalDocs" => some "externalDocs"
  | "callback.Value()" => some "pathItems"
  | "ss.Flows" => some "flows"
  | "flows.Implicit" => some "implicit" | "flows.Password" => some "password"
  | "flows.ClientCredentials" => some "clientCredentials" | "flows.AuthorizationCode" => some "authorizationCode"
  | "srs[]" => some "items" | "servers[]" => some "items" | "server.Variables[]" => some "variables"
  | "tags[]" => some "items" | "t.ExternalDocs" => some "externalDocs"
  | "encoding.Headers[]" => some "headers"
  | _ => none

/-- `Schema.validate` descends into `ref.Value.validate` directly (not through `SchemaRef.Validate`) -/
def innerPosOfVia : String → Option String
  | "schema.OneOf[].Value" => some "oneOf" | "schema.AnyOf[].Value" => some "anyOf"
  | "schema.AllOf[].Value" => some "allOf" | "schema.Not.Value" => some "not"
  | "schema.Items.Value" => some "items" | "schema.Properties[].Value" => some "properties"
  | "schema.AdditionalProperties.Schema.Value" => some "additionalProperties"
  | _ => none

def identPosOfVia : String → Option String
  | "key(components.Schemas)" => some "schemas" | "key(components.Parameters)" => some "parameters"
  | "key(components.RequestBodies)" => some "requestBodies" | "key(components.Responses)" => some "responses"
  | "key(components.Headers)" => some "headers" | "key(components.SecuritySchemes)" => some "securitySchemes"
  | "key(components.Examples)" => some "examples" | "key(components.Links)" => some "links"
  | "key(components.Callbacks)" => some "callbacks" | "key(encoding.Headers)" => some "headers"
  | _ => none

def exampleCheckOfVia : String → Option String
  | "mediaType.Schema.Value @ mediaType.Example" => some "example"
  | "mediaType.Schema.Value @ mediaType.Examples[].Value.Value" => some "examples"
  | "parameter.Schema.Value @ parameter.Example" => some "example"
  | "parameter.Schema.Value @ parameter.Examples[].Value.Value" => some "examples"
  | "header.Schema.Value @ header.Example" => some "example"
  | "header.Schema.Value @ header.Examples[].Value.Value" => some "examples"
  | "schema @ schema.Example" => some "example"
  | _ => none

/-- a structural literal of the table ("@…") that only tests the call's own operand, and therefore holds
whenever the corresponding kid / value exists in the model tree: `@nonnil:P` where `P` is part of the
operand path of the call (`header.Schema` for `header.Schema.Validate`, the receiver `mediaType` for everything
in `MediaType.Validate`, `x.Value` in the reference wrappers). Two more are dropped for a stated reason:
`@not:cond:existing == schema` (the cycle guard of `Schema.validate`: model trees are acyclic) and
`@cond:hasFlow` (`SecurityScheme.Validate` visits `flows` for type oauth2 only; for any other type the presence
of `flows` is rejected by the local check, so the verdict is the same). -/
def benign (via : String) (g : String) : Bool :=
  g = "@not:cond:existing == schema" || g = "@cond:hasFlow" ||
  (isPrefix "@nonnil:".toList g.toList && isInfix (g.toList.drop 8) via.toList)

/-- the literals the model can read: option flags, and the structural conditions on `schema` / `example` -/
def knownGuard : String → Bool
  | "+examplesValidationDisabled" | "-examplesValidationDisabled"
  | "+schemaDefaultsValidationDisabled" | "-schemaDefaultsValidationDisabled"
  | "@nonnil:parameter.Schema" | "@nonnil:mediaType.Schema" | "@nonnil:header.Schema"
  | "@isnil:parameter.Schema" | "@isnil:mediaType.Schema" | "@isnil:header.Schema"
  | "@nonnil:parameter.Example" | "@isnil:parameter.Example"
  | "@cond:h == header" | "@not:cond:h == header" => true
  | _ => false

open KinModel.Gen in
def interp (r0 : DescentRow) : Option (List Item) :=
  let r : DescentRow := { r0 with guards := r0.guards.filter (fun g => !benign r0.via g) }
  if !(r.guards.all knownGuard) then none else
  match kindOfGo r.src with
  | none => none
  | some k =>
    if r.onErr = "swallow" then
      -- the error of the callee is dropped (`return nil`): neither an edge nor a check of the descent
      (if r.dst = "<ValidateIdentifier>" then (identPosOfVia r.via).map (fun p => [.swallow k ("identifier:" ++ p) r.guards])
       else match kindOfGo r.dst, posOfVia r.via with
         | some _, some p => some [.swallow k p r.guards]
         | _, _ => none)
    else if r.onErr = "ignore" then
      -- the error of the callee is dropped and the method goes on: the call has no effect on the verdict
      (if r.dst = "<ValidateIdentifier>" then (identPosOfVia r.via).map (fun p => [.ignored k ("identifier:" ++ p) r.guards])
       else match kindOfGo r.dst, posOfVia r.via with
         | some _, some p => some [.ignored k p r.guards]
         | _, _ => none)
    else if r.onErr != "propagate" then none
    else if r.dst = "<validateExtensions>" then some [.check k "extensions" r.guards]
    else if r.dst = "<ValidateIdentifier>" then (identPosOfVia r.via).map (fun p => [.check k ("identifier:" ++ p) r.guards])
    else if r.dst = "<validateExampleValue>" then (exampleCheckOfVia r.via).map (fun n => [.check k n r.guards])
    else if r.dst = "<VisitJSON>" then
      (if r.via = "schema @ schema.Default" then some [.check k "default" r.guards] else none)
    else if r.src = "Schema" && r.dst = "Schema.validate" && r.via = "schema" then some [.skip]
    else if r.src = "OAuthFlow.validate" && r.dst = "OAuthFlow" && r.via = "flow" then some [.skip]
    else if r.src = "Schema.validate" && r.dst = "Schema.validate" then
      (innerPosOfVia r.via).map (fun p => [.edge .schema p r.guards, .edge .innerSchemaRef "value" r.guards])
    else match kindOfGo r.dst, posOfVia r.via with
      | some _, some p => some [.edge k p r.guards]
      | _, _ => none

structure Table where
  edges  : List (Kind × String × List String)
  checks : List (Kind × String × List String)
  swallows : List (Kind × String × List String)
  ignored : List (Kind × String × List String)
  cacheRead : Bool := false    -- document validation consults the process-wide cache of compiled patterns
  cacheWrite : Bool := false   -- … or puts entries into it
  deriving DecidableEq, Repr

def itemsOf (rows : List Gen.DescentRow) : List Item := (rows.filterMap interp).flatten

def tableOf (rows : List Gen.DescentRow) : Table :=
  { edges := (itemsOf rows).filterMap (fun | .edge k p g => some (k, p, g) | _ => none),
    checks := (itemsOf rows).filterMap (fun | .check k n g => some (k, n, g) | _ => none),
    swallows := (itemsOf rows).filterMap (fun | .swallow k n g => some (k, n, g) | _ => none),
    ignored := (itemsOf rows).filterMap (fun | .ignored k n g => some (k, n, g) | _ => none) }

/-- uses of the process-wide pattern cache (table `PatternCache`): a use outside `Schema.visitJSONString` (value
validation, C01) that can observe an entry; a use that can create one (`CompareAndSwap` with old = nil cannot) -/
def cacheOpKnown (op : String) : Bool :=
  ["Load", "Store", "LoadOrStore", "LoadAndDelete", "Delete", "Swap", "CompareAndSwap", "CompareAndDelete", "Range"].contains op
def cacheReads (rows : List Gen.C04PatternCacheRow) : Bool :=
  rows.any (fun r => r.fn != "Schema.visitJSONString" &&
    (!cacheOpKnown r.op || ["Load", "LoadOrStore", "LoadAndDelete", "Swap", "CompareAndDelete", "Range"].contains r.op))
def cacheWrites (rows : List Gen.C04PatternCacheRow) : Bool :=
  rows.any (fun r => !cacheOpKnown r.op || ["Store", "LoadOrStore", "Swap"].contains r.op ||
    (r.op = "CompareAndSwap" && r.detail != "old=nil"))

/-- the table of the code under test -/
def codeTable : Table :=
  { tableOf Gen.descent with cacheRead := cacheReads Gen.c04PatternCache, cacheWrite := cacheWrites Gen.c04PatternCache }

def litHolds (o : Opts) (a : Attrs) : String → Bool
  | "+examplesValidationDisabled" => o.exDisabled
  | "-examplesValidationDisabled" => !o.exDisabled
  | "+schemaDefaultsValidationDisabled" => o.defDisabled
  | "-schemaDefaultsValidationDisabled" => !o.defDisabled
  | "@nonnil:parameter.Schema" | "@nonnil:mediaType.Schema" | "@nonnil:header.Schema" => a.flag "hasSchema"
  | "@isnil:parameter.Schema" | "@isnil:mediaType.Schema" | "@isnil:header.Schema" => !a.flag "hasSchema"
  | "@nonnil:parameter.Example" => a.flag "hasExample"
  | "@isnil:parameter.Example" => !a.flag "hasExample"
  -- `Header.Validate` (4c7d612): the header is on the stack of the headers whose validation is in progress, i.e. it
  -- is met again below itself (through the encoding headers of its own content); the model tree marks such an
  -- occurrence with the flag "again"
  | "@cond:h == header" => a.flag "again"
  | "@not:cond:h == header" => !a.flag "again"
  | _ => false
def guardsHold (o : Opts) (a : Attrs) (gs : List String) : Bool := gs.all (litHolds o a)

/-- guard lists of all rows of the table for (kind, name) -/
def rowsFor (l : List (Kind × String × List String)) (k : Kind) (n : String) : List (List String) :=
  (l.filter (fun e => e.1 = k && e.2.1 = n)).map (·.2.2)

/-- some row for (kind, name) has all its guards satisfied (option flags, structural conditions on the node) -/
def anyHolds (o : Opts) (a : Attrs) (gss : List (List String)) : Bool := gss.any (guardsHold o a)

/-- the facts a literal can read: the two option flags, whether the node has a schema, an example, and whether it
is a header met again below itself -/
def mkO (e d : Bool) : Opts := { exDisabled := e, defDisabled := d }
def mkA (s x g : Bool) : Attrs :=
  { flags := (if s then ["hasSchema"] else []) ++ (if x then ["hasExample"] else []) ++ (if g then ["again"] else []) }

/-- the rows hold exactly when `f` says so, decided over the thirty-two valuations of the five facts (the two
option flags; the node has a schema, has an example, is a header met again below itself) -/
def holdsAs (gss : List (List String)) (f : Bool → Bool → Bool → Bool → Bool → Bool) : Bool :=
  [false, true].all fun e => [false, true].all fun d => [false, true].all fun s => [false, true].all fun x =>
    [false, true].all fun g => anyHolds (mkO e d) (mkA s x g) gss == f e d s x g

/-- under every option set and whatever the node has, some row has all its guards satisfied -/
def alwaysHolds (gss : List (List String)) : Bool := holdsAs gss (fun _ _ _ _ _ => true)

def active (T : Table) (o : Opts) : Act := fun k a pos => anyHolds o a (rowsFor T.edges k pos)

def hasCheck (T : Table) (o : Opts) (a : Attrs) (k : Kind) (n : String) : Bool := anyHolds o a (rowsFor T.checks k n)

/-- the method makes this child call / check but answers nil when it fails -/
def hasSwallow (T : Table) (o : Opts) (a : Attrs) (k : Kind) (n : String) : Bool := anyHolds o a (rowsFor T.swallows k n)

/-! ## Small string functions (on `List Char`, so that `decide` can evaluate witnesses) -/

def isExtKey (k : String) : Bool := match k.toList with | 'x' :: '-' :: _ => true | _ => false

def identChar (c : Char) : Bool :=
  ('a' ≤ c && c ≤ 'z') || ('A' ≤ c && c ≤ 'Z') || ('0' ≤ c && c ≤ '9') || c = '.' || c = '_' || c = '-'
/-- `IdentifierRegExp` = `^[a-zA-Z0-9._-]+$` -/
def identOK (s : String) : Bool := !s.toList.isEmpty && s.toList.all identChar

def countChar (c : Char) (s : List Char) : Nat := (s.filter (· = c)).length

/-- state of `normalizeTemplatedPath`'s loop: (template so far reversed, last appended char,
inside a variable, variable so far reversed, variables, count) -/
structure NormSt where
  tpl : List Char := []
  cc : Char := ' '
  inVar : Bool := false
  var : List Char := []
  vars : List String := []
  count : Nat := 0

def normStep (st : NormSt) (c : Char) : NormSt :=
  if st.inVar then
    if c = '}' then
      let tpl := if st.cc = '*' then st.cc :: st.tpl else st.tpl
      { st with inVar := false, vars := String.ofList st.var.reverse :: st.vars, var := [],
                tpl := c :: tpl, cc := c }
    else { st with var := c :: st.var }
  else if c = '{' then { st with inVar := true, count := st.count + 1, tpl := c :: st.tpl, cc := c }
  else { st with tpl := c :: st.tpl, cc := c }

/-- `normalizeTemplatedPath`: (normalised template, distinct variable names) -/
def normalizePath (p : String) : String × List String :=
  if !(p.toList.contains '{') then (p, []) else
  let st := p.toList.foldl normStep {}
  (String.ofList st.tpl.reverse, st.vars.eraseDups)

/-! ## Default / example values against a schema (fragment) -/

inductive Tri | yes | no | unmodelled
  deriving DecidableEq, Repr

/-- the schema constrains values by `type` / `nullable` only -/
def simpleSchema (a : Attrs) : Bool := a.flag "simple"

/-- an object value whose members are all strings against an object schema whose properties are all plain string
schemas (flag `objSimple`, lists `required` / `roProps` / `woProps`): `visitJSONObject` under the reading `m` -/
def acceptsObj (m : Mode) (a : Attrs) (keys : List String) : Tri :=
  if !a.flag "objSimple" then .unmodelled
  else
    let ro := a.list "roProps"
    let wo := a.list "woProps"
    let present := (m = .req && keys.any ro.contains) || (m = .res && keys.any wo.contains)
    let missing := (a.list "required").any (fun k =>
      !keys.contains k && !(m = .req && ro.contains k) && !(m = .res && wo.contains k))
    if present || missing then .no else .yes

/-- `schema.VisitJSON(v)` on the fragment: a type mismatch always rejects; a match accepts when the
schema has no other constraining keyword -/
def acceptsIn (m : Mode) (a : Attrs) (v : Val) : Tri :=
  let ts := a.list "type"
  match v with
  | .other => .unmodelled
  | .obj keys => acceptsObj m a keys
  | .null => if a.flag "nullable" then .yes else if simpleSchema a then .no else .unmodelled
  | v =>
    let tyOK := match v with
      | .bool => ts.contains "boolean" | .int => ts.contains "integer" || ts.contains "number"
      | .num => ts.contains "number" | .str => ts.contains "string" | _ => false
    if ts.isEmpty then (if simpleSchema a then .yes else .unmodelled)
    else if !tyOK then .no
    else if simpleSchema a then .yes else .unmodelled

/-- the reading inside document validation is the plain one: without options every settings access gets a record of
its own (theorem `optionless_examples_read_plainly` over table `C04OptionState`); calls WITH options on documents
with object examples are outside the modelled fragment (the driver reports them as unmodelled) -/
def accepts (a : Attrs) (v : Val) : Tri := acceptsIn .plain a v

/-- the attributes of the schema a `schema` position resolves to (`schema.Value`), if it is resolved -/
def schemaAttrsAt (d : Doc) : Option Attrs :=
  match d.kidsAt "schema" with
  | r :: _ => (match r.kidsAt "value" with | s :: _ => some s.attrs | [] => none)
  | [] => none

/-- the example objects of the `examples` map of a parameter / media type / header, through resolved
example references (`v.Value`) -/
def exampleEntries (d : Doc) : List Attrs :=
  if !d.attrs.flag "hasExamples" then [] else          -- `Examples == nil`: nothing to range over
  (d.kidsAt "examples").filterMap (fun r =>
    if r.kind = .exampleRef then
      (match r.kidsAt "value" with
       | e :: _ => if e.kind = .example then some e.attrs else none
       | [] => none)
    else none)

/-- the example object gives a `value` -/
def hasVal (a : Attrs) : Bool := (a.vals.lookup "value").isSome

/-- values of the `examples` map as the code reads them: an entry that gives `externalValue` is skipped
(`continue`), otherwise `v.Value.Value` is read (`nil` when there is no `value`) -/
def examplesVals (d : Doc) : List Val :=
  (exampleEntries d).filterMap (fun a =>
    if a.str "externalValue" != "" then none else some ((a.vals.lookup "value").getD .null))

/-- the values the examples actually give (specification side) -/
def examplesValsGiven (d : Doc) : List Val :=
  (exampleEntries d).filterMap (fun a => a.vals.lookup "value")

/-- an example object gives exactly one of `value` and `externalValue` -/
def exampleShapeOK (a : Attrs) : Bool := hasVal a != (a.str "externalValue" != "")

def valOK (sa : Option Attrs) (v : Val) : Bool :=
  match sa with | some a => accepts a v != .no | none => true

/-- does the evaluation of this node leave the fragment? (driver reports it; never compared) -/
def valsUnmodelled (d : Doc) : Bool :=
  match d.kind with
  | .schema => (d.attrs.vals.filter (fun kv => kv.1 = "default" || kv.1 = "example")).any (fun kv => accepts d.attrs kv.2 = .unmodelled)
  | .parameter | .mediaType | .header =>
    (match schemaAttrsAt d with
     | some a => ((d.attrs.vals.filter (·.1 = "example")).map (·.2) ++ examplesVals d).any (fun v => accepts a v = .unmodelled)
     | none => false)
  | _ => false

/-! ## Local checks of the code (model) -/

def extKeysOK (o : Opts) (exts : List String) : Bool := exts.all (fun k => isExtKey k || o.allowed.contains k)

/-- `validateExtensions(ctx, x.Extensions)` if the method calls it (table) under guards that hold -/
def checkExt (T : Table) (o : Opts) (d : Doc) : Bool :=
  if hasCheck T o d.attrs d.kind "extensions" then extKeysOK o d.attrs.exts else true

/-- `*Ref.Validate`: sibling keys of `$ref`, then resolved -/
def refSibsOK (o : Opts) (a : Attrs) : Bool :=
  a.sibs.all (fun k => o.allowed.contains k || (isExtKey k && !o.extProhibited))
def refOK (o : Opts) (a : Attrs) : Bool := refSibsOK o a && a.flag "resolved"

def keyOf (d : Doc) : String := d.attrs.str "key"

/-- path parameters (names) declared by a `Parameters` list, through resolved references -/
def pathParamNames (ps : List Doc) : List String :=
  (ps.flatMap (fun l => l.kidsAt "items")).flatMap (fun r => (r.kidsAt "value").filterMap (fun p =>
    if p.attrs.str "in" = "path" then some (p.attrs.str "name") else none))

/-- `Paths.Validate`: the template check of one operation (code: only when the counts differ) -/
def templateOKCode (vars common : List String) (op : Doc) : Bool :=
  if (pathParamNames (op.kidsAt "parameters")).length + common.length != vars.length then
    (pathParamNames (op.kidsAt "parameters") ++ common).all (vars.contains ·) &&
    vars.all ((pathParamNames (op.kidsAt "parameters") ++ common).contains ·)
  else true

def allOps (paths : Doc) : List (String × Doc) :=
  (paths.kidsAt "pathItems").flatMap (fun pi => (pi.kidsAt "operations").map (fun op => (keyOf pi, op)))

def opIds (paths : Doc) : List String :=
  (allOps paths).filterMap (fun x => let id := x.2.attrs.str "operationId"; if id = "" then none else some id)

/-- `path == "" || path[0] != '/'` negated -/
def hasSlash (p : String) : Bool := match p.toList with | '/' :: _ => true | _ => false

def pathItemOKCode (pi : Doc) : Bool :=
  hasSlash (keyOf pi) &&
  (pi.kidsAt "operations").all (templateOKCode (normalizePath (keyOf pi)).2 (pathParamNames (pi.kidsAt "parameters")))

def smSupported (loc style : String) (explode : Bool) : Bool :=
  match loc with
  | "path" => style = "simple" || style = "label" || style = "matrix"
  | "query" => style = "form" || style = "spaceDelimited" || style = "pipeDelimited" || (style = "deepObject" && explode)
  | "header" => style = "simple"
  | "cookie" => style = "form"
  | _ => false

/-- `Parameter.SerializationMethod` defaults -/
def smOf (a : Attrs) : String × Bool :=
  let loc := a.str "in"
  let dflStyle := if loc = "path" || loc = "header" then "simple" else "form"
  let dflExplode := !(loc = "path" || loc = "header")
  (if a.str "style" = "" then dflStyle else a.str "style",
   if a.str "explode" = "true" then true else if a.str "explode" = "false" then false else dflExplode)

/-- `(x.Schema == nil) == (len(x.Content) == 0)`: not exactly one of schema and content -/
def schemaXorContentBad (a : Attrs) : Bool := (!a.flag "hasSchema") == (a.num "content" == 0)

def validIn (s : String) : Bool := s = "path" || s = "query" || s = "header" || s = "cookie"

/-- the `example` of a parameter / media type is acceptable to `schema.Value` -/
def exampleOK (d : Doc) : Bool := (d.attrs.vals.filter (·.1 = "example")).all (fun kv => valOK (schemaAttrsAt d) kv.2)
/-- every entry of `examples`, as the code reads it, is acceptable to `schema.Value` -/
def examplesOK (d : Doc) : Bool := (examplesVals d).all (valOK (schemaAttrsAt d))
/-- every value actually given by an entry of `examples` is acceptable to `schema.Value` -/
def examplesGivenOK (d : Doc) : Bool := (examplesValsGiven d).all (valOK (schemaAttrsAt d))

/-- example / examples of a parameter or media type against `schema.Value` -/
def exampleValuesOK (T : Table) (o : Opts) (d : Doc) : Bool :=
  (if hasCheck T o d.attrs d.kind "example" then exampleOK d else true) &&
  (if hasCheck T o d.attrs d.kind "examples" then examplesOK d else true)

def parameterOKCode (T : Table) (o : Opts) (d : Doc) : Bool :=
  let a := d.attrs
  if a.str "name" = "" then false
  else if !validIn (a.str "in") then false
  else if a.str "in" = "path" && !a.flag "required" then false
  else if !smSupported (a.str "in") (smOf a).1 (smOf a).2 then false
  else if schemaXorContentBad a then false
  else if a.num "content" > 1 then false
  else if a.flag "hasSchema" then
    if a.flag "hasExample" && a.flag "hasExamples" then false
    else exampleValuesOK T o d && checkExt T o d
  else checkExt T o d

def headerOKCode (T : Table) (o : Opts) (d : Doc) : Bool :=
  let a := d.attrs
  if a.flag "again" then true          -- 4c7d612: a header whose validation is in progress is not validated again
  else if a.str "name" != "" then false
  else if a.str "in" != "" then false
  else if !((a.str "style" = "" || a.str "style" = "simple")) then false
  else if schemaXorContentBad a then false
  else if a.flag "hasSchema" && a.flag "hasExample" && a.flag "hasExamples" then false
  else if a.flag "hasSchema" && !exampleValuesOK T o d then false
  else if a.num "content" > 1 then false
  else checkExt T o d

def mediaTypeOKCode (T : Table) (o : Opts) (d : Doc) : Bool :=
  let a := d.attrs
  if a.flag "hasSchema" then
    if a.flag "hasExample" && a.flag "hasExamples" then false
    else exampleValuesOK T o d && checkExt T o d
  else checkExt T o d

/-- `Encoding.SerializationMethod` defaults: `form`, explode -/
def encSmOf (a : Attrs) : String × Bool :=
  (if a.str "style" = "" then "form" else a.str "style",
   if a.str "explode" = "false" then false else true)

/-- the style / explode combinations `Encoding.Validate` supports: those of a query parameter -/
def encodingStyleOK (a : Attrs) : Bool := smSupported "query" (encSmOf a).1 (encSmOf a).2

/-- `Encoding.Validate`, loop over the headers, for the rows the table marks as `swallow` (none since 7cd29a9:
the identifier error is returned, a failing header is skipped by `continue`): a header whose key is not an
identifier, or whose own validation fails, would make the method answer nil at once -/
def encHeadersBad (T : Table) (o : Opts) (d : Doc) (vs : List Bool) : Bool :=
  (d.kids.zip vs).any (fun pv => pv.1.1 = "headers" &&
    ((hasSwallow T o d.attrs .encoding "identifier:headers" && !identOK (keyOf pv.1.2)) ||
     (hasSwallow T o d.attrs .encoding "headers" && !pv.2)))

def encodingOKCode (T : Table) (o : Opts) (d : Doc) (vs : List Bool) : Bool :=
  if encHeadersBad T o d vs then true
  else if hasCheck T o d.attrs .encoding "identifier:headers" && !(d.kidsAt "headers").all (fun h => identOK (keyOf h)) then false
  else if !encodingStyleOK d.attrs then false
  else checkExt T o d

def knownTypes : List String := ["boolean", "number", "integer", "string", "array", "object"]
def stringFormats : List String :=
  ["byte", "binary", "date", "date-time", "password", "iri", "iri-reference", "uri-template", "idn-email",
   "idn-hostname", "json-pointer", "relative-json-pointer", "regex", "time", "duration", "uuid",
   "email", "hostname", "ipv4", "ipv6", "uri", "uri-reference"]
/-- format accepted for this type without consulting the (empty by default) custom registries -/
def formatKnown (ty fmt : String) : Bool :=
  fmt = "" || match ty with
    | "number" => fmt = "float" || fmt = "double"
    | "integer" => fmt = "int32" || fmt = "int64"
    | "string" => stringFormats.contains fmt
    | _ => true
/-- the fixed family of patterns that Go's engine does not compile (the regular-expression engine is a
parameter): one of five stems followed by lower-case letters and digits -/
def badPatterns : List String := ["(", "[a", "a{2,1}", "(?!a)", "*a"]
def lowerAlnum (c : Char) : Bool := ('a' ≤ c && c ≤ 'z') || ('0' ≤ c && c ≤ '9')
def uncompilable (p : String) : Bool :=
  badPatterns.any (fun b => isPrefix b.toList p.toList && (p.toList.drop b.toList.length).all lowerAlnum)

/-- does the pattern compile in this call? `cache`: the content of the process-wide cache of compiled patterns
when the call starts (the part of the process history the call could see) — consulted only if the table says
document validation reads it -/
def patCompiles (T : Table) (cache : List String) (o : Opts) (p : String) : Bool :=
  (T.cacheRead && cache.contains p) || o.customRegex || !uncompilable p

def schemaTypeOKCode (pc : String → Bool) (o : Opts) (a : Attrs) (hasItems : Bool) (ty : String) : Bool :=
  if !knownTypes.contains ty then false
  else if (ty = "number" || ty = "integer" || ty = "string") && o.fmtEnabled && !formatKnown ty (a.str "format") then false
  else if ty = "string" && !o.patDisabled && a.str "pattern" != "" && !pc (a.str "pattern") then false
  else if ty = "array" && !hasItems then false
  else true

def schemaDefaultsOK (a : Attrs) : Bool := (a.vals.filter (·.1 = "default")).all (fun kv => accepts a kv.2 != .no)
def schemaExamplesOK (a : Attrs) : Bool := (a.vals.filter (·.1 = "example")).all (fun kv => accepts a kv.2 != .no)

def innerPositions : List String := ["oneOf", "anyOf", "allOf", "not", "items", "properties", "additionalProperties"]

def schemaOKCode (pc : String → Bool) (T : Table) (o : Opts) (d : Doc) : Bool :=
  let a := d.attrs
  if a.flag "readOnly" && a.flag "writeOnly" then false
  else if !((a.list "type").all (schemaTypeOKCode pc o a (d.hasKid "items"))) then false
  else if hasCheck T o a .schema "default" && !schemaDefaultsOK a then false
  else if hasCheck T o a .schema "example" && !schemaExamplesOK a then false
  else checkExt T o d

/-- `SecurityScheme.Validate` up to its final `validateExtensions` -/
def securitySchemeShapeOK (d : Doc) : Bool :=
  let a := d.attrs
  let ty := a.str "type"
  if !(ty = "apiKey" || ty = "http" || ty = "oauth2" || ty = "openIdConnect") then false
  else if ty = "http" && !(["bearer", "basic", "negotiate", "digest"].contains (a.str "scheme")) then false
  else if ty = "openIdConnect" && a.str "openIdConnectUrl" = "" then false
  else if ty = "apiKey" && !(["query", "header", "cookie"].contains (a.str "in")) then false
  else if ty = "apiKey" && a.str "name" = "" then false
  else if ty != "apiKey" && a.str "in" != "" then false
  else if ty != "apiKey" && a.str "name" != "" then false
  else if !(ty = "http" && a.str "scheme" = "bearer") && a.str "bearerFormat" != "" then false
  else if ty = "oauth2" && !d.hasKid "flows" then false
  else if ty != "oauth2" && d.hasKid "flows" then false
  else true

def securitySchemeOKCode (T : Table) (o : Opts) (d : Doc) : Bool :=
  if !securitySchemeShapeOK d then false else checkExt T o d

/-- `OAuthFlow.validate` (per flow type) and `OAuthFlow.Validate` up to the final `validateExtensions` -/
def oauthFlowShapeOK (d : Doc) : Bool :=
  let a := d.attrs
  let ft := a.str "flowType"
  let needAuth := ft = "implicit" || ft = "authorizationCode"
  let needTok := ft = "password" || ft = "clientCredentials" || ft = "authorizationCode"
  if (a.str "authorizationUrl" = "") == needAuth then false
  else if (a.str "tokenUrl" = "") == needTok then false
  else if !a.flag "hasScopes" then false
  else true

def oauthFlowOKCode (T : Table) (o : Opts) (d : Doc) : Bool :=
  if !oauthFlowShapeOK d then false else checkExt T o d

/-- `Server.Validate` up to its final `validateExtensions` -/
def serverShapeOK (d : Doc) : Bool :=
  let url := (d.attrs.str "url").toList
  let vars := (d.kidsAt "variables").map keyOf
  if url.isEmpty then false
  else if countChar '{' url != countChar '}' url then false
  else if countChar '{' url != vars.length then false
  else if !(vars.all (fun n => isInfix (('{' :: n.toList) ++ ['}']) url)) then false
  else true

def serverOKCode (T : Table) (o : Opts) (d : Doc) : Bool :=
  if d.attrs.flag "null" then false          -- `Servers.Validate`: a null entry (6bd2b91)
  else if !serverShapeOK d then false else checkExt T o d

def componentPositions : List String :=
  ["schemas", "parameters", "requestBodies", "responses", "headers", "securitySchemes", "examples", "links", "callbacks"]

def componentsOKCode (T : Table) (o : Opts) (d : Doc) : Bool :=
  componentPositions.all (fun p =>
    if hasCheck T o d.attrs .components ("identifier:" ++ p) then (d.kidsAt p).all (fun c => identOK (keyOf c)) else true) &&
  checkExt T o d

/-- the local checks of each `Validate` method, in the code's order (`pc`: does a pattern compile) -/
def localOKp (pc : String → Bool) (T : Table) (o : Opts) (d : Doc) (vs : List Bool) : Bool :=
  let a := d.attrs
  match d.kind with
  | .root => if a.str "openapi" = "" then false else if !d.hasKid "info" then false
             else if !d.hasKid "paths" then false else checkExt T o d
  | .components => componentsOKCode T o d
  | .info => if a.str "version" = "" then false else if a.str "title" = "" then false else checkExt T o d
  | .license => if a.str "name" = "" then false else checkExt T o d
  | .paths =>
      (d.kidsAt "pathItems").all pathItemOKCode &&
      (((d.kidsAt "pathItems").map (fun pi => (normalizePath (keyOf pi)).1)).eraseDups.length
          == (d.kidsAt "pathItems").length) &&
      ((opIds d).eraseDups.length == (opIds d).length) && checkExt T o d
  | .operation => if !d.hasKid "responses" then false else checkExt T o d
  | .parameters =>
      let keys := (d.kidsAt "items").flatMap (fun r => (r.kidsAt "value").map (fun p => p.attrs.str "in" ++ ":" ++ p.attrs.str "name"))
      keys.eraseDups.length == keys.length
  | .parameterRef | .requestBodyRef | .responseRef | .headerRef | .schemaRef | .exampleRef | .linkRef
  | .callbackRef | .securitySchemeRef => refOK o a
  | .innerSchemaRef => a.flag "resolved"
  | .parameter => parameterOKCode T o d
  | .header => headerOKCode T o d
  | .mediaType => mediaTypeOKCode T o d
  | .requestBody => if !a.flag "hasContent" then false else checkExt T o d
  | .responses => if a.num "count" == 0 then false else checkExt T o d
  | .response => if !a.flag "hasDescription" then false else checkExt T o d
  | .schema => schemaOKCode pc T o d
  | .example => if hasVal a && a.str "externalValue" != "" then false
                else if !hasVal a && a.str "externalValue" = "" then false else checkExt T o d
  | .link => if a.str "operationId" = "" && a.str "operationRef" = "" then false
             else if a.str "operationId" != "" && a.str "operationRef" != "" then false else checkExt T o d
  | .securityScheme => securitySchemeOKCode T o d
  | .oauthFlow => oauthFlowOKCode T o d
  | .server => serverOKCode T o d
  | .serverVar => if a.flag "null" then false          -- `Server.Validate`: a null variable (6bd2b91)
                  else if a.str "default" = "" then false else checkExt T o d
  | .tag => if a.flag "null" then false else checkExt T o d          -- `Tags.Validate`: a null entry (6bd2b91)
  | .externalDocs => if a.str "url" = "" then false else checkExt T o d
  | .content | .securityReqs | .securityReq | .servers | .tags => true
  | .encoding => encodingOKCode T o d vs
  | .contact | .pathItem | .callback | .oauthFlows | .discriminator | .xml => checkExt T o d

/-- the local checks in a process whose pattern cache is empty -/
def localOK (T : Table) (o : Opts) (d : Doc) (vs : List Bool) : Bool := localOKp (patCompiles T [] o) T o d vs

/-- model of `(*T).Validate` with the given options -/
def validate (T : Table) (o : Opts) (d : Doc) : Bool := descend (localOK T o) (active T o) d

/-- model of `(*T).Validate` called in a process whose pattern cache holds `cache` -/
def validateIn (T : Table) (cache : List String) (o : Opts) (d : Doc) : Bool :=
  descend (localOKp (patCompiles T cache o) T o) (active T o) d

mutual
/-- the patterns of the string schemas of a document -/
def docPatterns : Doc → List String
  | .node k a kids =>
    (if k = .schema && (a.list "type").contains "string" && a.str "pattern" != "" then [a.str "pattern"] else []) ++ kidsPatterns kids
def kidsPatterns : List (String × Doc) → List String
  | [] => []
  | (_, c) :: r => docPatterns c ++ kidsPatterns r
end

/-- the cache after the call (only if the table says document validation writes it) -/
def cacheAfter (T : Table) (cache : List String) (o : Opts) (d : Doc) : List String :=
  if T.cacheWrite && !o.patDisabled then cache ++ (docPatterns d).filter (patCompiles T cache o) else cache

/-- a sequence of `Validate` calls in one process, starting from `cache`: their verdicts -/
def runSeq (T : Table) : List (Opts × Doc) → List String → List Bool
  | [], _ => []
  | (o, d) :: r, cache => validateIn T cache o d :: runSeq T r (cacheAfter T cache o d)

/-- the local checks of a node, fed with the model's verdicts of its kids -/
def localOKV (T : Table) (o : Opts) (d : Doc) : Bool := lokV (localOK T o) (active T o) d

/-! ## Specification: rule violations per node, which option governs which rule, containment -/

structure Viol where
  rule : String
  key : String := ""
  deriving DecidableEq, Repr

/-- is the rule in force under these options? "Each validation option switches off only the check it names." -/
def enabled (o : Opts) (v : Viol) : Bool :=
  match v.rule with
  | "extraField" => !o.allowed.contains v.key
  | "refSibling" => !o.allowed.contains v.key
  | "refExtension" => o.extProhibited && !o.allowed.contains v.key
  | "exampleMismatch" => !o.exDisabled
  | "defaultMismatch" => !o.defDisabled
  | "unknownFormat" => o.fmtEnabled
  | "badPattern" => !o.patDisabled && !o.customRegex
  | _ => true

def when (b : Bool) (r : String) (key : String := "") : List Viol := if b then [⟨r, key⟩] else []

def extraViols (a : Attrs) : List Viol := (a.exts.filter (fun k => !isExtKey k)).map (fun k => ⟨"extraField", k⟩)

def refViols (a : Attrs) : List Viol :=
  a.sibs.map (fun k => if isExtKey k then ⟨"refExtension", k⟩ else ⟨"refSibling", k⟩) ++
  when (!a.flag "resolved") "unresolvedRef"

/-- the template rule of the property: the variables of the template and the declared path parameters
are the same set -/
def templateOKSpec (vars common : List String) (op : Doc) : Bool :=
  (pathParamNames (op.kidsAt "parameters") ++ common).all (vars.contains ·) &&
  vars.all ((pathParamNames (op.kidsAt "parameters") ++ common).contains ·)

def pathItemViols (pi : Doc) : List Viol :=
  let p := keyOf pi
  when (!hasSlash p) "pathNoSlash" p ++
  when (!(pi.kidsAt "operations").all (templateOKSpec (normalizePath p).2 (pathParamNames (pi.kidsAt "parameters"))))
    "templateParams" p

def exampleViols (d : Doc) : List Viol :=
  when (d.attrs.flag "hasSchema" && !(exampleOK d && examplesGivenOK d)) "exampleMismatch"

def schemaTypeViols (a : Attrs) (hasItems : Bool) (ty : String) : List Viol :=
  when (!knownTypes.contains ty) "unknownType" ty ++
  when (knownTypes.contains ty && (ty = "number" || ty = "integer" || ty = "string") && !formatKnown ty (a.str "format")) "unknownFormat" ++
  when (ty = "string" && a.str "pattern" != "" && uncompilable (a.str "pattern")) "badPattern" ++
  when (ty = "array" && !hasItems) "arrayNoItems"

/-- Security Scheme Object (OpenAPI 3.0.3 §4.7.27): `type` is one of four; `name` and `in` are required for
apiKey and apply to apiKey only; `scheme` is required for http (the library knows four schemes) and
`bearerFormat` applies to http bearer only; `flows` is required for oauth2 and applies to it only;
`openIdConnectUrl` is required for openIdConnect -/
def securitySchemeViols (d : Doc) : List Viol :=
  let a := d.attrs
  let ty := a.str "type"
  when (!(ty = "apiKey" || ty = "http" || ty = "oauth2" || ty = "openIdConnect")) "secType" ty ++
  when (ty = "http" && !(["bearer", "basic", "negotiate", "digest"].contains (a.str "scheme"))) "secHttpScheme" ++
  when (ty = "openIdConnect" && a.str "openIdConnectUrl" = "") "secOidcUrlMissing" ++
  when (ty = "apiKey" && !(["query", "header", "cookie"].contains (a.str "in"))) "secApiKeyIn" ++
  when (ty = "apiKey" && a.str "name" = "") "secApiKeyNameMissing" ++
  when (ty != "apiKey" && a.str "in" != "") "secInMisplaced" ++
  when (ty != "apiKey" && a.str "name" != "") "secNameMisplaced" ++
  when (!(ty = "http" && a.str "scheme" = "bearer") && a.str "bearerFormat" != "") "secBearerFormatMisplaced" ++
  when (ty = "oauth2" && !d.hasKid "flows") "secFlowsMissing" ++
  when (ty != "oauth2" && d.hasKid "flows") "secFlowsMisplaced"

/-- OAuth Flow Object (§4.7.29): `authorizationUrl` is required for (and applies only to) the implicit and
authorizationCode flows, `tokenUrl` for password, clientCredentials and authorizationCode; `scopes` is required -/
def oauthFlowViols (d : Doc) : List Viol :=
  let a := d.attrs
  let ft := a.str "flowType"
  let needAuth := ft = "implicit" || ft = "authorizationCode"
  let needTok := ft = "password" || ft = "clientCredentials" || ft = "authorizationCode"
  when (needAuth && a.str "authorizationUrl" = "") "flowAuthorizationUrlMissing" ++
  when (!needAuth && a.str "authorizationUrl" != "") "flowAuthorizationUrlMisplaced" ++
  when (needTok && a.str "tokenUrl" = "") "flowTokenUrlMissing" ++
  when (!needTok && a.str "tokenUrl" != "") "flowTokenUrlMisplaced" ++
  when (!a.flag "hasScopes") "flowScopesMissing"

/-- Server Object (§4.7.5): `url` is required; its braces pair up; every `{variable}` of the template is
declared under `variables` and every declared variable occurs in the template -/
def serverViols (d : Doc) : List Viol :=
  let url := (d.attrs.str "url").toList
  let vars := (d.kidsAt "variables").map keyOf
  when url.isEmpty "serverUrlMissing" ++
  when (countChar '{' url != countChar '}' url) "serverUrlBraces" ++
  when (countChar '{' url != vars.length) "serverVariablesCount" ++
  when (!(vars.all (fun n => isInfix (('{' :: n.toList) ++ ['}']) url))) "serverVariableUnused"

/-- rule violations at a node (option-independent; `enabled` says which are in force) -/
def violations (d : Doc) : List Viol :=
  let a := d.attrs
  match d.kind with
  | .root => when (a.str "openapi" = "") "missingOpenapi" ++ when (!d.hasKid "info") "missingInfo" ++
             when (!d.hasKid "paths") "missingPaths" ++ extraViols a
  | .components =>
      (componentPositions.flatMap (fun p => (d.kidsAt p).flatMap (fun c => when (!identOK (keyOf c)) "badComponentName" (keyOf c)))) ++ extraViols a
  | .info => when (a.str "version" = "") "missingVersion" ++ when (a.str "title" = "") "missingTitle" ++ extraViols a
  | .license => when (a.str "name" = "") "missingLicenseName" ++ extraViols a
  | .paths =>
      (d.kidsAt "pathItems").flatMap pathItemViols ++
      when (((d.kidsAt "pathItems").map (fun pi => (normalizePath (keyOf pi)).1)).eraseDups.length
          != (d.kidsAt "pathItems").length) "conflictingPaths" ++
      when ((opIds d).eraseDups.length != (opIds d).length) "duplicateOperationId" ++ extraViols a
  | .operation => when (!d.hasKid "responses") "missingResponses" ++ extraViols a
  | .parameters =>
      let keys := (d.kidsAt "items").flatMap (fun r => (r.kidsAt "value").map (fun p => p.attrs.str "in" ++ ":" ++ p.attrs.str "name"))
      when (keys.eraseDups.length != keys.length) "duplicateParameter"
  | .parameterRef | .requestBodyRef | .responseRef | .headerRef | .schemaRef | .exampleRef | .linkRef
  | .callbackRef | .securitySchemeRef | .innerSchemaRef => refViols a
  | .parameter =>
      when (a.str "name" = "") "missingName" ++ when (!validIn (a.str "in")) "badIn" ++
      when (a.str "in" = "path" && !a.flag "required") "pathNotRequired" ++
      when (validIn (a.str "in") && !smSupported (a.str "in") (smOf a).1 (smOf a).2) "badStyle" ++
      when (schemaXorContentBad a) "schemaXorContent" ++
      when (a.num "content" > 1) "contentMany" ++
      when (a.flag "hasSchema" && a.flag "hasExample" && a.flag "hasExamples") "exampleAndExamples" ++
      exampleViols d ++ extraViols a
  | .header =>
      -- a header met again below itself is the same object as an ancestor on the path: its violations are
      -- those of that ancestor, where they are counted
      if a.flag "again" then [] else
      when (a.str "name" != "") "headerName" ++ when (a.str "in" != "") "headerIn" ++
      when (!(a.str "style" = "" || a.str "style" = "simple")) "badStyle" ++
      when (schemaXorContentBad a) "schemaXorContent" ++
      when (a.num "content" > 1) "contentMany" ++
      when (a.flag "hasSchema" && a.flag "hasExample" && a.flag "hasExamples") "exampleAndExamples" ++
      exampleViols d ++ extraViols a
  | .mediaType =>
      when (a.flag "hasSchema" && a.flag "hasExample" && a.flag "hasExamples") "exampleAndExamples" ++
      exampleViols d ++ extraViols a
  | .requestBody => when (!a.flag "hasContent") "missingContent" ++ extraViols a
  | .responses => when (a.num "count" == 0) "noResponses" ++ extraViols a
  | .response => when (!a.flag "hasDescription") "missingDescription" ++ extraViols a
  | .schema =>
      when (a.flag "readOnly" && a.flag "writeOnly") "readWriteOnly" ++
      (a.list "type").flatMap (schemaTypeViols a (d.hasKid "items")) ++
      when (!schemaDefaultsOK a) "defaultMismatch" ++
      when (!schemaExamplesOK a) "exampleMismatch" ++
      extraViols a
  | .example => when (hasVal a && a.str "externalValue" != "") "valueAndExternal" ++
      when (!hasVal a && a.str "externalValue" = "") "noValue" ++ extraViols a
  | .link => when (a.str "operationId" = "" && a.str "operationRef" = "") "linkNoTarget" ++
      when (a.str "operationId" != "" && a.str "operationRef" != "") "linkBothTargets" ++ extraViols a
  | .securityScheme => securitySchemeViols d ++ extraViols a
  | .oauthFlow => oauthFlowViols d ++ extraViols a
  | .server => when (a.flag "null") "nullEntry" ++ serverViols d ++ extraViols a
  | .serverVar => when (a.flag "null") "nullEntry" ++ when (a.str "default" = "") "missingDefault" ++ extraViols a
  | .tag => when (a.flag "null") "nullEntry" ++ extraViols a
  | .externalDocs => when (a.str "url" = "") "missingUrl" ++ extraViols a
  | .content | .securityReqs | .securityReq | .servers | .tags => []
  | .encoding => when (!(d.kidsAt "headers").all (fun h => identOK (keyOf h))) "badHeaderName" ++
      when (!encodingStyleOK a) "badStyle" ++ extraViols a
  | .contact | .pathItem | .callback | .oauthFlows | .discriminator | .xml => extraViols a

/-- the node satisfies every rule that is in force -/
def rulesOK (o : Opts) (d : Doc) : Bool := (violations d).all (fun v => !enabled o v)

/-- containment edges named by the property: "reachable through components, path items, operations,
parameters, request bodies, responses, headers, media types and schemas" (plus security schemes and
servers, whose well-formedness the property lists: "an ill-formed security scheme or server is rejected, at
whichever place reachable through … path items, operations …" — hence the `servers` of a path item and of an
operation) -/
def specEdges : List (Kind × String) := [
  (.root, "components"), (.root, "paths"), (.root, "info"), (.root, "servers"),
  (.components, "schemas"), (.components, "parameters"), (.components, "requestBodies"),
  (.components, "responses"), (.components, "headers"), (.components, "securitySchemes"),
  (.paths, "pathItems"), (.pathItem, "operations"), (.pathItem, "parameters"),
  (.operation, "parameters"), (.operation, "requestBody"), (.operation, "responses"),
  (.pathItem, "servers"), (.operation, "servers"),
  (.parameters, "items"), (.parameterRef, "value"), (.parameter, "schema"), (.parameter, "content"),
  (.requestBodyRef, "value"), (.requestBody, "content"),
  (.responses, "responses"), (.responseRef, "value"), (.response, "content"), (.response, "headers"),
  (.headerRef, "value"), (.header, "schema"), (.header, "content"),
  (.content, "mediaTypes"), (.mediaType, "schema"), (.mediaType, "encoding"), (.encoding, "headers"),
  (.schemaRef, "value"), (.innerSchemaRef, "value"),
  (.schema, "oneOf"), (.schema, "anyOf"), (.schema, "allOf"), (.schema, "not"), (.schema, "items"),
  (.schema, "properties"), (.schema, "additionalProperties"), (.schema, "xml"), (.schema, "discriminator"),
  (.securitySchemeRef, "value"), (.securityScheme, "flows"), (.oauthFlows, "implicit"), (.oauthFlows, "password"),
  (.oauthFlows, "clientCredentials"), (.oauthFlows, "authorizationCode"),
  (.servers, "items"), (.server, "variables")]

/-- the containment relation of the property on the model tree; nothing lies below the mark of a header met again
below itself (what it contains is reached through the ancestor it stands for) -/
def specAct : Act := fun k a pos => specEdges.contains (k, pos) && !(k = .header && a.flag "again")
def allAct : Act := fun _ _ _ => true

/-- conforming: every node of the document satisfies every rule in force -/
def conformingB (o : Opts) (d : Doc) : Bool := descend (plain (rulesOK o)) allAct d
/-- no violation at a place the property reaches -/
def specCleanB (o : Opts) (d : Doc) : Bool := descend (plain (rulesOK o)) specAct d

inductive SpecVerdict | accept | reject | unspecified
  deriving DecidableEq, Repr

/-- the property's verdict: conforming documents are accepted; a violation at a reachable place is
rejected; a document whose only violations sit at places the property does not reach is not constrained -/
def specVerdict (o : Opts) (d : Doc) : SpecVerdict :=
  if conformingB o d then .accept else if !specCleanB o d then .reject else .unspecified

/-! ## Exclusion predicates (known deviations of the code) -/

/-- #7: an operation whose declared path parameters and template variables have the same *count* but are
not the same set -/
def excl7Node (d : Doc) : Bool :=
  d.kind = .paths && (d.kidsAt "pathItems").any (fun pi =>
    let vars := (normalizePath (keyOf pi)).2
    let common := pathParamNames (pi.kidsAt "parameters")
    (pi.kidsAt "operations").any (fun op => templateOKCode vars common op && !templateOKSpec vars common op))

/-- sibling keys next to a `$ref` *inside* a schema (`oneOf`, `properties`, `items`, …): `Schema.validate`
follows `ref.Value` directly and never runs the reference wrapper's own check -/
def exclInnerNode (o : Opts) (d : Doc) : Bool := d.kind = .innerSchemaRef && !refSibsOK o d.attrs

/-- containment edges of the property for which the table has no unconditional edge (for a header: no edge whose
only condition is that the header is not met again below itself) -/
def uncovered (T : Table) : List (Kind × String) :=
  specEdges.filter (fun e => !((rowsFor T.edges e.1 e.2).contains [] ||
    (e.1 = .header && (rowsFor T.edges e.1 e.2).contains ["@not:cond:h == header"])))

/-- the containment edges along which the code is known not to report violations: the headers of an encoding
object (validated, but the error is dropped by `continue`), and #28: `xml`, `discriminator` objects are never
validated -/
def knownUncovered : List (Kind × String) := [(.encoding, "headers"), (.schema, "xml"), (.schema, "discriminator")]

/-- a violation sits below a containment edge in `unc` -/
def exclBelow (unc : List (Kind × String)) (o : Opts) (d : Doc) : Bool :=
  d.kids.any (fun pc => unc.contains (d.kind, pc.1) && !specCleanB o pc.2)

/-- local deviations: at such a node the code's local checks are weaker than the rules -/
def exclLocal (o : Opts) (d : Doc) : Bool := excl7Node d || exclInnerNode o d

def exclNode (unc : List (Kind × String)) (o : Opts) (d : Doc) : Bool := exclLocal o d || exclBelow unc o d

/-- some node of the document satisfies `f` -/
def anyNode (f : Doc → Bool) (d : Doc) : Bool := !descend (plain (fun n => !f n)) allAct d

end KinModel.DocValidate
