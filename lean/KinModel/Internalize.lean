/-
Model of (*openapi3.T).InternalizeRefs (openapi3/internalize_refs.go): isExternalRef, the nine add*ToSpec
routines (one generic `addToSpec`; the callback variant overwrites without an existence test, as the code does),
the deref* descent with its parent-is-external flag, the two visited sets of openapi3/visited.go, the
"always dereference the top level" resets and the inlining of path-item references.

Input: the abstraction of a LOADED document (`Heap`): ref cells (the *XRef structs: collection, $ref text,
RefPath(), resolved value id or -1 for nil), values (the pointed-to objects, with their child cells in the order
the code visits them), path items, the root components per collection in sorted order, the paths in sorted order.
Pointer sharing in the Go object graph is sharing of ids here.

Outcomes: `done` (final $ref text of every cell, final components), `panic` (nil dereference in derefHeaders on an
unresolved header reference; the resolver's panic on a reference without RefPath), `diverge` (no visited set stops
the recursion through callbacks: fuel runs out).

The spec side (`specB`) is the property read on the final state: every cell's $ref is empty or starts with
`#/components/`, resolves inside the final components (following chains) to content of the class it had when
loaded, and no component has an empty name.
-/
import KinModel.RefName
namespace KinModel.Internalize
open KinModel.RefName

structure Cell where
  k : String
  ref : String
  refPath : Option (String × String)
  val : Int
  deriving Repr, Inhabited

structure MT where
  schema : Int
  ex : List Nat
  enc : List (List Nat)
  deriving Repr, Inhabited

structure Op where
  rb : Int
  cbs : List Nat
  resps : List Nat
  params : List Nat
  deriving Repr, Inhabited

structure PI where
  ref : String
  params : List Nat
  ops : List Op
  deriving Repr, Inhabited

structure Val where
  t : String
  cc : String
  ch : List Nat
  schema : Int
  content : List MT
  headers : List Nat
  links : List Nat
  items : List Nat
  deriving Repr, Inhabited

structure Heap where
  root : Option String
  hasComp : Bool
  validBefore : Bool      -- verdict of (*T).Validate on the loaded document: an input of the model
  cells : Array Cell
  vals : Array Val
  pis : Array PI
  comps : List (String × List (String × Nat))   -- collection → (name, cell) sorted by name
  paths : List Nat
  deriving Repr, Inhabited

/-- a component entry of the evolving document: an original cell, or a fresh `&XRef{Value: v}` made by add*ToSpec -/
inductive Comp
  | cell (c : Nat)
  | fresh (v : Int)
  deriving Repr, DecidableEq, Inhabited

inductive Ev
  | added (c : Nat) (k name : String)       -- new component created
  | reused (c : Nat) (k name : String) (same : Bool)  -- a component of that name existed (same = same content class)
  | notExternal (c : Nat) (pext : Bool)
  deriving Repr

structure St where
  refs : Array String
  pirefs : Array String
  comps : List (String × List (String × Comp))
  visS : List Int
  visH : List Int
  steps : Nat
  log : List Ev
  ambiguous : Bool
  hasComp : Bool
  flags : List String      -- branch names reached
  deriving Repr, Inhabited

inductive Err | panic (site : String) | fuel
  deriving Repr

abbrev M := StateT St (Except Err)

def isExternalRef (ref : String) (parentIsExternal : Bool) : Bool :=
  ref != "" && (!ref.startsWith "#/components/" || parentIsExternal)

def wholeDocS (ref : String) : Bool := ref != "" && !ref.contains '#'

def flag (f : String) : M Unit := modify fun s => if s.flags.contains f then s else { s with flags := f :: s.flags }

def tick : M Unit := do
  let s ← get
  if s.steps == 0 then throw .fuel
  set { s with steps := s.steps - 1 }

def compsOf (s : St) (k : String) : List (String × Comp) :=
  match s.comps.find? (·.1 == k) with | some (_, l) => l | none => []

def setComp (s : St) (k name : String) (c : Comp) : St :=
  let l := compsOf s k
  let l' := if l.any (·.1 == name) then l.map (fun e => if e.1 == name then (name, c) else e) else l ++ [(name, c)]
  let cs := if s.comps.any (·.1 == k) then s.comps.map (fun e => if e.1 == k then (k, l') else e) else s.comps ++ [(k, l')]
  { s with comps := cs, hasComp := true }

variable (h : Heap)

def cellOf (c : Nat) : Cell := h.cells[c]!
def valOf (c : Nat) : Int := (cellOf h c).val
def getVal (v : Int) : Val := h.vals[v.toNat]!

/-- the view of the evolving root document the name resolver reads -/
def rootInfo (s : St) (k : String) : RootInfo :=
  { url := h.root.map String.toList, hasComponents := s.hasComp,
    comps := (compsOf s k).map fun (n, c) =>
      match c with
      | .cell i => (n.toList, s.refs[i]!.toList, (cellOf h i).refPath.map fun (a, b) => (a.toList, b.toList))
      | .fresh _ => (n.toList, [], none) }

def compVal (_s : St) (c : Comp) : Int := match c with | .cell i => valOf h i | .fresh v => v
def ccOf (v : Int) : String := if v < 0 then "nil" else (getVal h v).cc

/-- add<Kind>ToSpec. Returns isExternal. -/
def addToSpec (c : Nat) (pext : Bool) : M Bool := do
  let s ← get
  let cell := cellOf h c
  let cur := s.refs[c]!
  if !isExternalRef cur pext then
    modify fun s => { s with log := .notExternal c pext :: s.log }
    return false
  let info : RefInfo := { ref := cur.toList, refPath := cell.refPath.map fun (a, b) => (a.toList, b.toList), coll := cell.k.toList }
  match defaultName (rootInfo h s cell.k) info with
  | .panic => throw (.panic "DefaultRefNameResolver")
  | .fuel => throw .fuel
  | .name nm amb =>
    let name := String.ofList nm
    let early : M Unit := do
      if pext && cur.startsWith "#/components/" then flag "flag.parent_external_decides"
      if amb then flag "root.case2.ambiguous"
      if (referencesComponentInRoot (rootInfo h s cell.k) info).1.isSome then flag "root.component_match"
      if name == "" then flag "name.empty"
      if cell.refPath.map (·.1) == h.root then flag "name.same_file_as_root"
      if !(wholeDocS cur) && !cur.startsWith "#" then flag "ref.remote_element"
      if wholeDocS cur then flag "ref.whole_document"
    let newRef := "#/components/" ++ cell.k ++ "/" ++ name
    let existing := (compsOf s cell.k).find? (·.1 == name)
    if cell.k == "callbacks" then
      -- addCallbackToSpec has no existence test: it always (over)writes
      let same := match existing with | some (_, e) => ccOf h (compVal h s e) == ccOf h cell.val | none => true
      let s1 := setComp s cell.k name (.fresh cell.val)
      set { s1 with refs := s1.refs.set! c newRef, ambiguous := s1.ambiguous || amb,
                    log := (if existing.isSome then Ev.reused c cell.k name same else Ev.added c cell.k name) :: s1.log }
      early
      if existing.isSome then flag "add.callback_overwrite" else flag "add.new"
      return true
    match existing with
    | some (_, e) =>
      let same := ccOf h (compVal h s e) == ccOf h cell.val
      set { s with refs := s.refs.set! c newRef, ambiguous := s.ambiguous || amb, log := Ev.reused c cell.k name same :: s.log }
      early
      flag "add.name_exists"
      if !same then flag "add.name_exists_other_content"
      return true
    | none =>
      let s1 := setComp s cell.k name (.fresh cell.val)
      set { s1 with refs := s1.refs.set! c newRef, ambiguous := s1.ambiguous || amb, log := Ev.added c cell.k name :: s1.log }
      early
      flag "add.new"
      return true

def clearRef (c : Nat) : M Unit := modify fun s => { s with refs := s.refs.set! c "" }

def isVisitedSchema (v : Int) : M Bool := do
  let s ← get
  if s.visS.contains v then flag "visited.schema"; return true
  set { s with visS := v :: s.visS }
  return false

def isVisitedHeader (v : Int) : M Bool := do
  let s ← get
  if s.visH.contains v then flag "visited.header"; return true
  set { s with visH := v :: s.visH }
  return false

mutual
/-- derefSchema -/
def derefSchema : Nat → Int → Bool → M Unit
  | 0, _, _ => throw .fuel
  | n + 1, v, pext => do
    tick
    if v < 0 then return
    if (← isVisitedSchema v) then return
    derefSchemaCells n (getVal h v).ch pext

def derefSchemaCells : Nat → List Nat → Bool → M Unit
  | 0, _, _ => throw .fuel
  | _, [], _ => pure ()
  | n + 1, c :: cs, pext => do
    let isExt ← addToSpec h c pext
    derefSchema n (valOf h c) (isExt || pext)
    derefSchemaCells n cs pext

/-- derefHeaders -/
def derefHeaders : Nat → List Nat → Bool → M Unit
  | 0, _, _ => throw .fuel
  | _, [], _ => pure ()
  | n + 1, c :: cs, pext => do
    tick
    let isExt ← addToSpec h c pext
    let v := valOf h c
    if (← isVisitedHeader v) then
      derefHeaders n cs pext
    else
      if v < 0 then throw (.panic "derefHeaders: h.Value == nil")
      derefParameter n v (pext || isExt)
      derefHeaders n cs pext

/-- derefExamples / derefLinks: add only -/
def addAll : Nat → List Nat → Bool → M Unit
  | 0, _, _ => throw .fuel
  | _, [], _ => pure ()
  | n + 1, c :: cs, pext => do
    let _ ← addToSpec h c pext
    addAll n cs pext

/-- derefContent -/
def derefContent : Nat → List MT → Bool → M Unit
  | 0, _, _ => throw .fuel
  | _, [], _ => pure ()
  | n + 1, mt :: rest, pext => do
    tick
    if mt.schema ≥ 0 then
      let isExt ← addToSpec h mt.schema.toNat pext
      derefSchema n (valOf h mt.schema.toNat) (isExt || pext)
    addAll n mt.ex pext
    derefEnc n mt.enc pext
    derefContent n rest pext

def derefEnc : Nat → List (List Nat) → Bool → M Unit
  | 0, _, _ => throw .fuel
  | _, [], _ => pure ()
  | n + 1, hs :: rest, pext => do
    derefHeaders n hs pext
    derefEnc n rest pext

/-- derefParameter (value id of a Parameter or of a Header's embedded Parameter) -/
def derefParameter : Nat → Int → Bool → M Unit
  | 0, _, _ => throw .fuel
  | n + 1, v, pext => do
    tick
    let p := getVal h v
    let isExt ← if p.schema ≥ 0 then addToSpec h p.schema.toNat pext else pure false
    derefContent n p.content pext
    if p.schema ≥ 0 then derefSchema n (valOf h p.schema.toNat) (isExt || pext)

/-- derefResponse over a list (derefResponseBodies) -/
def derefResponses : Nat → List Nat → Bool → M Unit
  | 0, _, _ => throw .fuel
  | _, [], _ => pure ()
  | n + 1, c :: cs, pext => do
    tick
    let isExt ← addToSpec h c pext
    let v := valOf h c
    if v ≥ 0 then
      let r := getVal h v
      derefHeaders n r.headers (isExt || pext)
      derefContent n r.content (isExt || pext)
      addAll n r.links (isExt || pext)
    derefResponses n cs pext

/-- the parameter loops of derefPaths -/
def derefParams : Nat → List Nat → Bool → M Unit
  | 0, _, _ => throw .fuel
  | _, [], _ => pure ()
  | n + 1, c :: cs, pext => do
    let isExt ← addToSpec h c pext
    if valOf h c ≥ 0 then derefParameter n (valOf h c) (pext || isExt)
    derefParams n cs pext

def derefCallbacks : Nat → List Nat → Bool → M Unit
  | 0, _, _ => throw .fuel
  | _, [], _ => pure ()
  | n + 1, c :: cs, pext => do
    let isExt ← addToSpec h c pext
    if valOf h c ≥ 0 then derefPaths n (getVal h (valOf h c)).items (pext || isExt)
    derefCallbacks n cs pext

def derefOps : Nat → List Op → Bool → M Unit
  | 0, _, _ => throw .fuel
  | _, [], _ => pure ()
  | n + 1, op :: rest, pathIsExternal => do
    tick
    if op.rb ≥ 0 then
      let isExt ← addToSpec h op.rb.toNat pathIsExternal
      if valOf h op.rb.toNat ≥ 0 then
        derefContent n (getVal h (valOf h op.rb.toNat)).content (pathIsExternal || isExt)
    derefCallbacks n op.cbs pathIsExternal
    derefResponses n op.resps pathIsExternal
    derefParams n op.params pathIsExternal
    derefOps n rest pathIsExternal

/-- derefPaths -/
def derefPaths : Nat → List Nat → Bool → M Unit
  | 0, _, _ => throw .fuel
  | _, [], _ => pure ()
  | n + 1, p :: rest, pext => do
    tick
    let s ← get
    let pi := h.pis[p]!
    let pathIsExternal := isExternalRef s.pirefs[p]! pext
    set { s with pirefs := s.pirefs.set! p "" }
    if pext && !pathIsExternal then flag "paths.parent_flag_dropped"
    if pathIsExternal then flag "paths.external_path_item"
    derefParams n pi.params pathIsExternal
    derefOps n pi.ops pathIsExternal
    derefPaths n rest pext
end

def compCells (k : String) : List Nat := match h.comps.find? (·.1 == k) with | some (_, l) => l.map (·.2) | none => []

def topSchemas : Nat → List Nat → M Unit
  | _, [] => pure ()
  | n, c :: cs => do
    let isExt ← addToSpec h c false
    clearRef c
    derefSchema h n (valOf h c) isExt
    topSchemas n cs

def topParameters : Nat → List Nat → M Unit
  | _, [] => pure ()
  | n, c :: cs => do
    let isExt ← addToSpec h c false
    if valOf h c ≥ 0 then
      clearRef c
      derefParameter h n (valOf h c) isExt
    topParameters n cs

def topRequestBodies : Nat → List Nat → M Unit
  | _, [] => pure ()
  | n, c :: cs => do
    let isExt ← addToSpec h c false
    if valOf h c ≥ 0 then
      clearRef c
      derefContent h n (getVal h (valOf h c)).content isExt
    topRequestBodies n cs

def topCallbacks : Nat → List Nat → M Unit
  | _, [] => pure ()
  | n, c :: cs => do
    let isExt ← addToSpec h c false
    if valOf h c ≥ 0 then
      clearRef c
      derefPaths h n (getVal h (valOf h c)).items isExt
    topCallbacks n cs

/-- InternalizeRefs -/
def internalizeM (n : Nat) : M Unit := do
  if h.hasComp then
    topSchemas h n (compCells h "schemas")
    topParameters h n (compCells h "parameters")
    derefHeaders h n (compCells h "headers") false
    topRequestBodies h n (compCells h "requestBodies")
    derefResponses h n (compCells h "responses") false
    addAll h n (compCells h "securitySchemes") false
    addAll h n (compCells h "examples") false
    addAll h n (compCells h "links") false
    topCallbacks h n (compCells h "callbacks")
  derefPaths h n h.paths false

def budget : Nat := 200 + 16 * (h.cells.size + h.vals.size + h.pis.size)

def initSt : St :=
  { refs := h.cells.map (·.ref), pirefs := h.pis.map (·.ref),
    comps := h.comps.map fun (k, l) => (k, l.map fun (n, c) => (n, Comp.cell c)),
    visS := [], visH := [], steps := budget h, log := [], ambiguous := false, hasComp := h.hasComp, flags := [] }

inductive Outcome
  | done (s : St)
  | panic (site : String)
  | diverge
  deriving Repr

def internalize : Outcome :=
  match (internalizeM h (budget h)).run (initSt h) with
  | .ok (_, s) => .done s
  | .error (.panic site) => .panic site
  | .error .fuel => .diverge

-- ---------------------------------------------------------------- the property on the final state

/-- what a cell designates in the final document: follow `#/components/<k>/<name>` through the final components -/
def resolve (s : St) : Nat → String → Int → Option Int
  | 0, _, _ => none
  | n + 1, ref, own =>
    if ref == "" then some own
    else if !ref.startsWith "#/components/" then none
    else
      match splitSlash (ref.toList.drop 13) with
      | [k, name] =>
        (match (compsOf s (String.ofList k)).find? (·.1 == String.ofList name) with
         | some (_, .cell i) => resolve s n s.refs[i]! (valOf h i)
         | some (_, .fresh v) => some v
         | none => none)
      | _ => none

def cellOK (s : St) (c : Nat) : Bool :=
  let cell := cellOf h c
  let r := s.refs[c]!
  if cell.val < 0 then r == cell.ref      -- never resolved by the loader: must be left exactly as it was
  else
  (r == "" || r.startsWith "#/components/") &&
  (match resolve h s (s.comps.length * 0 + 64) r cell.val with
   | some v => ccOf h v == ccOf h cell.val
   | none => false)

def namesOK (s : St) : Bool := s.comps.all fun (_, l) => l.all fun (n, _) => n != ""

def specB (s : St) : Bool := (List.range h.cells.size).all (cellOK h s) && (namesOK s || !h.validBefore)

-- ---------------------------------------------------------------- exclusion predicates (known-finding classes)

def nonClearingKinds : List String := ["headers", "responses", "securitySchemes", "examples", "links"]
def wholeDoc (ref : String) : Bool := ref != "" && !ref.contains '#'

/-- #17 and its variants: an external reference is given a name under which a component with OTHER content exists -/
def NameCollision (s : St) : Bool :=
  s.log.any fun e => match e with | .reused _ _ _ same => !same | _ => false

/-- #41 / #13: a reference in a position the loader does not walk (no resolved value, no RefPath) -/
def UnwalkedRef : Bool := h.cells.any fun c => c.ref != "" && (c.val < 0 || c.refPath.isNone)

/-- a root component of a collection whose top level is not dereferenced, given as a whole-document reference:
    the resolver finds the component itself in the root and the reference becomes a reference to itself -/
def SelfRefComponent : Bool :=
  nonClearingKinds.any fun k => (compCells h k).any fun c => wholeDoc (cellOf h c).ref

/-- the loader records the REFERRING document as RefPath of a whole-document link/example/securityScheme reference -/
def WrongRefPath : Bool :=
  h.cells.any fun c => (c.k == "links" || c.k == "examples" || c.k == "securitySchemes") && wholeDoc c.ref

/-- a cell whose `#/components/…` text was never rewritten although in the root document that text designates
    nothing, or something else (the value lives in another document and was reached without the external flag) -/
def StaleInternalRef (s : St) : Bool :=
  (List.range h.cells.size).any fun c =>
    let r := s.refs[c]!
    r == (cellOf h c).ref && r.startsWith "#/components/" && !cellOK h s c

/-- path item → operation callback → callback value → path item cycle (the descent has no visited set for these) -/
def cbReach : Nat → List Nat → Nat → Bool
  | 0, _, _ => true
  | n + 1, stack, p =>
    if stack.contains p then true else
    (h.pis[p]!).ops.any fun op => op.cbs.any fun cb =>
      let v := valOf h cb
      v ≥ 0 && (getVal h v).items.any fun q => cbReach n (p :: stack) q

def CallbackCycle : Bool := (List.range h.pis.size).any fun p => cbReach h (h.pis.size + 1) [] p

end KinModel.Internalize
