/-
Model of (*openapi3.T).InternalizeRefs (openapi3/internalize_refs.go): isExternalRef, the nine add*ToSpec
routines (one generic `addCore`; the callback variant overwrites without an existence test, as the code does),
the deref* descent with its parent-is-external flag, the THREE visited sets of openapi3/visited.go (schemas,
headers, path items), the nil guards of derefHeaders / derefContent / derefPaths, the "always dereference the top
level" resets and the inlining of path-item references; a reference without value is left alone (05c5875).

Input: the abstraction of a LOADED document (`Heap`): ref cells (the *XRef structs: collection, $ref text,
RefPath(), resolved value id or -1 for nil), values (the pointed-to objects, with their child cells in the order
the code visits them; `pex` = the Examples of a Parameter / Header, which the loader resolves and InternalizeRefs
never visits; `dmap` = the discriminator mapping texts of a schema paired with the oneOf alternative they select,
which InternalizeRefs never rewrites), path items, the root components per collection in sorted order, the paths in sorted order.
Pointer sharing in the Go object graph is sharing of ids here. Texts are character lists (`RefName.Str`).

Outcomes: `done` (final $ref text of every cell, final components), `panic` (the resolver's panic on a reference
without RefPath), `diverge` (fuel ran out; not observed since derefPaths has a visited set).

The descent is written from five primitives — `addToSpec` (pure core `addCore`), `clearRef`, `enterPI`,
`isVisitedSchema`/`isVisitedHeader`, `tick` — so that `KinModel/Lemmas/C16Descent.lean` can show that every run is a
sequence of primitive steps and the document-level theorems of `Props/C16.lean` are invariants of those steps.

The spec side (`specB`) is the property read on the final state: every cell's $ref is empty or starts with
`#/components/`, resolves inside the final components (following chains) to content of the class it had when
loaded, every path item is inlined, and no component has an empty name.
-/
import KinModel.RefName
namespace KinModel.Internalize
open KinModel.RefName

structure Cell where
  k : Str
  ref : Str
  refPath : Option (Str × Str)
  val : Int
  deriving Repr, Inhabited, DecidableEq

structure MT where
  schema : Int
  ex : List Nat
  enc : List (List Nat)
  deriving Repr, Inhabited, DecidableEq

structure Op where
  rb : Int
  cbs : List Nat
  resps : List Nat
  params : List Nat
  deriving Repr, Inhabited, DecidableEq

structure PI where
  ref : Str
  params : List Nat
  ops : List Op
  deriving Repr, Inhabited, DecidableEq

structure Val where
  t : String
  cc : String
  ch : List Nat
  schema : Int
  content : List MT
  headers : List Nat
  links : List Nat
  items : List Nat
  pex : List Nat
  dmap : List (Str × Nat)   -- discriminator mapping entries (text, oneOf child cell whose $ref equalled the text when loaded)
  deriving Repr, Inhabited, DecidableEq

structure Heap where
  root : Option Str
  hasComp : Bool
  validBefore : Bool      -- verdict of (*T).Validate on the loaded document: an input of the model
  cells : Array Cell
  vals : Array Val
  pis : Array PI
  comps : List (Str × Str × Nat)   -- (collection, name, cell); within a collection sorted by name
  paths : List Nat
  deriving Repr, Inhabited, DecidableEq

/-- a component entry of the evolving document: an original cell, or a fresh `&XRef{Value: v}` made by add*ToSpec -/
inductive Comp
  | cell (c : Nat)
  | fresh (v : Int)
  deriving Repr, DecidableEq, Inhabited

/-- what one call of add<Kind>ToSpec did to cell `c` (`pext` = the parent-is-external flag it was called with) -/
inductive Ev
  | added (c : Nat) (name : Str) (pext : Bool)                 -- new component created
  | reused (c : Nat) (name : Str) (same : Bool) (pext : Bool)  -- a component of that name existed (same = same content class)
  | notExternal (c : Nat) (pext : Bool)                         -- returned early: no value, or the text is not external
  deriving Repr, DecidableEq

def Ev.cell : Ev → Nat
  | .added c _ _ => c
  | .reused c _ _ _ => c
  | .notExternal c _ => c

/-- the name the event handed out -/
def Ev.name? : Ev → Option Str
  | .added _ n _ => some n
  | .reused _ n _ _ => some n
  | .notExternal _ _ => none

def Ev.pext : Ev → Bool
  | .added _ _ p => p
  | .reused _ _ _ p => p
  | .notExternal _ p => p

structure St where
  refs : Array Str
  pirefs : Array Str
  comps : List (Str × Str × Comp)      -- (collection, name, entry) in insertion order
  visS : List Int
  visH : List Int
  visP : List Nat
  steps : Nat
  log : List Ev
  ambiguous : Bool
  hasComp : Bool
  flags : List String      -- branch names reached
  deriving Repr, Inhabited

inductive Err | panic (site : String) | fuel
  deriving Repr

abbrev M := StateT St (Except Err)

def compPre : Str := "#/components/".toList
def callbacksK : Str := "callbacks".toList

def hasCompPrefix (r : Str) : Bool := isPrefix compPre r

/-- isExternalRef -/
def isExternalRef (ref : Str) (parentIsExternal : Bool) : Bool :=
  !ref.isEmpty && (!hasCompPrefix ref || parentIsExternal)

/-- `"#/components/<k>/" + name` -/
def mkRef (k name : Str) : Str := compPre ++ (k ++ '/' :: name)

def addFlags (fs new : List String) : List String :=
  new.foldl (fun acc f => if acc.contains f then acc else f :: acc) fs

def flag (f : String) : M Unit := fun s => .ok ((), { s with flags := addFlags s.flags [f] })

def tick : M Unit := fun s =>
  if s.steps == 0 then .error .fuel else .ok ((), { s with steps := s.steps - 1 })

def keyIs (k name : Str) (e : Str × Str × Comp) : Bool := e.1 == k && e.2.1 == name

def compsOf (s : St) (k : Str) : List (Str × Comp) := (s.comps.filter (·.1 == k)).map (·.2)

def lookup (s : St) (k name : Str) : Option Comp := (s.comps.find? (keyIs k name)).map (·.2.2)

/-- `doc.Components.<K>[name] = entry`: replace the entry of that name, or append a new one (names are unique per collection) -/
def setCompL : List (Str × Str × Comp) → Str → Str → Comp → List (Str × Str × Comp)
  | [], k, name, c => [(k, name, c)]
  | e :: l, k, name, c => if keyIs k name e then (k, name, c) :: l else e :: setCompL l k name c

variable (h : Heap)

def cellOf (c : Nat) : Cell := h.cells[c]!
def valOf (c : Nat) : Int := (cellOf h c).val
def getVal (v : Int) : Val := h.vals[v.toNat]!

/-- the view of the evolving root document the name resolver reads -/
def rootInfo (s : St) (k : Str) : RootInfo :=
  { url := h.root, hasComponents := s.hasComp,
    comps := (compsOf s k).map fun (n, c) =>
      match c with
      | .cell i => (n, s.refs[i]!, (cellOf h i).refPath)
      | .fresh _ => (n, [], none) }

def compVal (c : Comp) : Int := match c with | .cell i => valOf h i | .fresh v => v
def ccOf (v : Int) : String := if v < 0 then "nil" else (getVal h v).cc

/-- the diagnostic branch names of one add<Kind>ToSpec call (no influence on the outcome) -/
def addBranches (s : St) (cell : Cell) (cur nm : Str) (amb pext : Bool) (info : RefInfo) : List String :=
  (if pext && hasCompPrefix cur then ["flag.parent_external_decides"] else []) ++
  (if amb then ["root.case2.ambiguous"] else []) ++
  (if (referencesComponentInRoot (rootInfo h s cell.k) info).1.isSome then ["root.component_match"] else []) ++
  (if nm.isEmpty then ["name.empty"] else []) ++
  (if cell.refPath.map (·.1) == h.root then ["name.same_file_as_root"] else []) ++
  (if !(isWholeDocumentReference cur) && !isPrefix ['#'] cur then ["ref.remote_element"] else []) ++
  (if isWholeDocumentReference cur then ["ref.whole_document"] else [])

/-- add<Kind>ToSpec on cell `c`, as a function of the state. Returns isExternal. -/
def addCore (s : St) (c : Nat) (pext : Bool) : Except Err (Bool × St) :=
  let cell := cellOf h c
  let cur := s.refs[c]!
  -- `x == nil || x.Value == nil || !isExternalRef(x.Ref, parentIsExternal)` (05c5875: a reference the loader left without
  -- value is left alone)
  if cell.val < 0 || !isExternalRef cur pext then
    .ok (false, { s with log := .notExternal c pext :: s.log })
  else
    let info : RefInfo := { ref := cur, refPath := cell.refPath, coll := cell.k }
    match defaultName (rootInfo h s cell.k) info with
    | .panic => .error (.panic "DefaultRefNameResolver")
    | .fuel => .error .fuel
    | .name nm amb =>
      let br := addBranches h s cell cur nm amb pext info
      match lookup s cell.k nm with
      | some e =>
        let same := ccOf h (compVal h e) == ccOf h cell.val
        if cell.k == callbacksK then
          -- addCallbackToSpec has no existence test: it always (over)writes
          .ok (true, { s with comps := setCompL s.comps cell.k nm (.fresh cell.val), hasComp := true,
                              refs := s.refs.set! c (mkRef cell.k nm), ambiguous := s.ambiguous || amb,
                              log := .reused c nm same pext :: s.log,
                              flags := addFlags s.flags (br ++ ["add.callback_overwrite"]) })
        else
          .ok (true, { s with refs := s.refs.set! c (mkRef cell.k nm), ambiguous := s.ambiguous || amb,
                              log := .reused c nm same pext :: s.log,
                              flags := addFlags s.flags (br ++ ["add.name_exists"] ++ (if same then [] else ["add.name_exists_other_content"])) })
      | none =>
        .ok (true, { s with comps := setCompL s.comps cell.k nm (.fresh cell.val), hasComp := true,
                            refs := s.refs.set! c (mkRef cell.k nm), ambiguous := s.ambiguous || amb,
                            log := .added c nm pext :: s.log,
                            flags := addFlags s.flags (br ++ ["add.new"]) })

def addToSpec (c : Nat) (pext : Bool) : M Bool := fun s => addCore h s c pext

/-- `x.Ref = ""` -/
def clearRef (c : Nat) : M Unit := fun s => .ok ((), { s with refs := s.refs.set! c [] })

def isVisitedSchema (v : Int) : M Bool := fun s =>
  if s.visS.contains v then .ok (true, { s with flags := addFlags s.flags ["visited.schema"] })
  else .ok (false, { s with visS := v :: s.visS })

def isVisitedHeader (v : Int) : M Bool := fun s =>
  if s.visH.contains v then .ok (true, { s with flags := addFlags s.flags ["visited.header"] })
  else .ok (false, { s with visH := v :: s.visH })

/-- the head of the loop body of derefPaths: `doc.isVisitedPathItem(ops)` → none (continue); otherwise the path item is
marked, `pathIsExternal := isExternalRef(ops.Ref, parentIsExternal)` is returned and `ops.Ref = ""` -/
def enterPI (p : Nat) (pext : Bool) : M (Option Bool) := fun s =>
  if s.visP.contains p then .ok (none, { s with flags := addFlags s.flags ["visited.path_item"] })
  else
    let pathIsExternal := isExternalRef s.pirefs[p]! pext
    .ok (some pathIsExternal,
      { s with visP := p :: s.visP, pirefs := s.pirefs.set! p [],
               flags := addFlags s.flags ((if pext && !pathIsExternal then ["paths.parent_flag_dropped"] else []) ++
                                         (if pathIsExternal then ["paths.external_path_item"] else [])) })

mutual
/-- derefSchema -/
def derefSchema : Nat → Int → Bool → M Unit
  | 0, _, _ => throw .fuel
  | n + 1, v, pext => do
    tick
    if v < 0 then pure ()
    else
      let vis ← isVisitedSchema v
      if vis then pure () else derefSchemaCells n (getVal h v).ch pext

def derefSchemaCells : Nat → List Nat → Bool → M Unit
  | 0, _, _ => throw .fuel
  | _, [], _ => pure ()
  | n + 1, c :: cs, pext => do
    let isExt ← addToSpec h c pext
    derefSchema n (valOf h c) (isExt || pext)
    derefSchemaCells n cs pext

/-- derefHeaders (a nil header or header value is skipped after addHeaderToSpec) -/
def derefHeaders : Nat → List Nat → Bool → M Unit
  | 0, _, _ => throw .fuel
  | _, [], _ => pure ()
  | n + 1, c :: cs, pext => do
    tick
    let isExt ← addToSpec h c pext
    if valOf h c < 0 then derefHeaders n cs pext
    else
      let vis ← isVisitedHeader (valOf h c)
      if vis then derefHeaders n cs pext
      else do
        derefParameter n (valOf h c) (pext || isExt)
        derefHeaders n cs pext

/-- derefExamples / derefLinks / the securitySchemes loop: add only -/
def addAll : Nat → List Nat → Bool → M Unit
  | 0, _, _ => throw .fuel
  | _, [], _ => pure ()
  | n + 1, c :: cs, pext => do
    let _ ← addToSpec h c pext
    addAll n cs pext

/-- derefContent (nil media types and nil encodings are not in the list) -/
def derefContent : Nat → List MT → Bool → M Unit
  | 0, _, _ => throw .fuel
  | _, [], _ => pure ()
  | n + 1, mt :: rest, pext => do
    tick
    if mt.schema ≥ 0 then do
      let isExt ← addToSpec h mt.schema.toNat pext
      derefSchema n (valOf h mt.schema.toNat) (isExt || pext)
      addAll n mt.ex pext
      derefEnc n mt.enc pext
      derefContent n rest pext
    else do
      addAll n mt.ex pext
      derefEnc n mt.enc pext
      derefContent n rest pext

def derefEnc : Nat → List (List Nat) → Bool → M Unit
  | 0, _, _ => throw .fuel
  | _, [], _ => pure ()
  | n + 1, hs :: rest, pext => do
    derefHeaders n hs pext
    derefEnc n rest pext

/-- derefParameter (value id of a Parameter or of a Header's embedded Parameter); `Examples` are not visited -/
def derefParameter : Nat → Int → Bool → M Unit
  | 0, _, _ => throw .fuel
  | n + 1, v, pext => do
    tick
    if (getVal h v).schema ≥ 0 then do
      let isExt ← addToSpec h (getVal h v).schema.toNat pext
      derefContent n (getVal h v).content pext
      derefSchema n (valOf h (getVal h v).schema.toNat) (isExt || pext)
    else
      derefContent n (getVal h v).content pext

/-- derefResponse over a list (derefResponseBodies) -/
def derefResponses : Nat → List Nat → Bool → M Unit
  | 0, _, _ => throw .fuel
  | _, [], _ => pure ()
  | n + 1, c :: cs, pext => do
    tick
    let isExt ← addToSpec h c pext
    if valOf h c ≥ 0 then do
      derefHeaders n (getVal h (valOf h c)).headers (isExt || pext)
      derefContent n (getVal h (valOf h c)).content (isExt || pext)
      addAll n (getVal h (valOf h c)).links (isExt || pext)
      derefResponses n cs pext
    else
      derefResponses n cs pext

/-- the parameter loops of derefPaths -/
def derefParams : Nat → List Nat → Bool → M Unit
  | 0, _, _ => throw .fuel
  | _, [], _ => pure ()
  | n + 1, c :: cs, pext => do
    let isExt ← addToSpec h c pext
    if valOf h c ≥ 0 then do
      derefParameter n (valOf h c) (pext || isExt)
      derefParams n cs pext
    else
      derefParams n cs pext

def derefCallbacks : Nat → List Nat → Bool → M Unit
  | 0, _, _ => throw .fuel
  | _, [], _ => pure ()
  | n + 1, c :: cs, pext => do
    let isExt ← addToSpec h c pext
    if valOf h c ≥ 0 then do
      derefPaths n (getVal h (valOf h c)).items (pext || isExt)
      derefCallbacks n cs pext
    else
      derefCallbacks n cs pext

def derefOps : Nat → List Op → Bool → M Unit
  | 0, _, _ => throw .fuel
  | _, [], _ => pure ()
  | n + 1, op :: rest, pathIsExternal => do
    tick
    if op.rb ≥ 0 then do
      let isExt ← addToSpec h op.rb.toNat pathIsExternal
      if valOf h op.rb.toNat ≥ 0 then
        derefContent n (getVal h (valOf h op.rb.toNat)).content (pathIsExternal || isExt)
      else pure ()
      derefCallbacks n op.cbs pathIsExternal
      derefResponses n op.resps pathIsExternal
      derefParams n op.params pathIsExternal
      derefOps n rest pathIsExternal
    else do
      derefCallbacks n op.cbs pathIsExternal
      derefResponses n op.resps pathIsExternal
      derefParams n op.params pathIsExternal
      derefOps n rest pathIsExternal

/-- derefPaths (nil path items are not in the list) -/
def derefPaths : Nat → List Nat → Bool → M Unit
  | 0, _, _ => throw .fuel
  | _, [], _ => pure ()
  | n + 1, p :: rest, pext => do
    tick
    let e ← enterPI p pext
    match e with
    | none => derefPaths n rest pext
    | some pathIsExternal => do
      derefParams n (h.pis[p]!).params pathIsExternal
      derefOps n (h.pis[p]!).ops pathIsExternal
      derefPaths n rest pext
end

def compCells (k : Str) : List Nat := (h.comps.filter (·.1 == k)).map (·.2.2)

def topSchemas (n : Nat) : List Nat → M Unit
  | [] => pure ()
  | c :: cs => do
    let isExt ← addToSpec h c false
    if valOf h c ≥ 0 then do
      clearRef c
      derefSchema h n (valOf h c) isExt
      topSchemas n cs
    else
      topSchemas n cs

def topParameters (n : Nat) : List Nat → M Unit
  | [] => pure ()
  | c :: cs => do
    let isExt ← addToSpec h c false
    if valOf h c ≥ 0 then do
      clearRef c
      derefParameter h n (valOf h c) isExt
      topParameters n cs
    else
      topParameters n cs

def topRequestBodies (n : Nat) : List Nat → M Unit
  | [] => pure ()
  | c :: cs => do
    let isExt ← addToSpec h c false
    if valOf h c ≥ 0 then do
      clearRef c
      derefContent h n (getVal h (valOf h c)).content isExt
      topRequestBodies n cs
    else
      topRequestBodies n cs

def topCallbacks (n : Nat) : List Nat → M Unit
  | [] => pure ()
  | c :: cs => do
    let isExt ← addToSpec h c false
    if valOf h c ≥ 0 then do
      clearRef c
      derefPaths h n (getVal h (valOf h c)).items isExt
      topCallbacks n cs
    else
      topCallbacks n cs

def topAll (n : Nat) : M Unit := do
  topSchemas h n (compCells h "schemas".toList)
  topParameters h n (compCells h "parameters".toList)
  derefHeaders h n (compCells h "headers".toList) false
  topRequestBodies h n (compCells h "requestBodies".toList)
  derefResponses h n (compCells h "responses".toList) false
  addAll h n (compCells h "securitySchemes".toList) false
  addAll h n (compCells h "examples".toList) false
  addAll h n (compCells h "links".toList) false
  topCallbacks h n (compCells h "callbacks".toList)

/-- InternalizeRefs -/
def internalizeM (n : Nat) : M Unit := do
  if h.hasComp then do
    topAll h n
    derefPaths h n h.paths false
  else
    derefPaths h n h.paths false

def budget : Nat := 200 + 16 * (h.cells.size + h.vals.size + h.pis.size)

def initSt : St :=
  { refs := (h.cells.toList.map (·.ref)).toArray, pirefs := (h.pis.toList.map (·.ref)).toArray,
    comps := h.comps.map fun (k, n, c) => (k, n, Comp.cell c),
    visS := [], visH := [], visP := [], steps := budget h, log := [], ambiguous := false, hasComp := h.hasComp, flags := [] }

inductive Outcome
  | done (s : St)
  | panic (site : String)
  | diverge
  deriving Repr

def internalize : Outcome :=
  match internalizeM h (budget h) (initSt h) with
  | .ok (_, s) => .done s
  | .error (.panic site) => .panic site
  | .error .fuel => .diverge

-- ---------------------------------------------------------------- the property on the final state

/-- the text a cell had when the document was loaded -/
def origRef (c : Nat) : Str := ((h.cells.toList.map (·.ref)).toArray)[c]!

/-- what a reference text designates in the final document: follow `#/components/<k>/<name>` through the final
components (`own` = the value a cell with an empty text holds itself) -/
def resolve (s : St) : Nat → Str → Int → Option Int
  | 0, _, _ => none
  | n + 1, ref, own =>
    if ref.isEmpty then some own
    else if !hasCompPrefix ref then none
    else
      match splitSlash (ref.drop 13) with
      | [k, name] =>
        (match lookup s k name with
         | some (.cell i) => resolve s n s.refs[i]! (valOf h i)
         | some (.fresh v) => some v
         | none => none)
      | _ => none

/-- the text `r` of a position that held value `v` designates content of the same class (chains of length < fuel) -/
def resolvesTo (s : St) (fuel : Nat) (r : Str) (v : Int) : Bool :=
  match resolve h s fuel r v with
  | some w => ccOf h w == ccOf h v
  | none => false

def intText (r : Str) : Bool := r.isEmpty || hasCompPrefix r

def cellOK (s : St) (c : Nat) : Bool :=
  -- never resolved by the loader: must be left exactly as it was, and must not point outside the document
  if (cellOf h c).val < 0 then s.refs[c]! == origRef h c && intText (origRef h c)
  else intText s.refs[c]! && resolvesTo h s 64 s.refs[c]! (cellOf h c).val

def namesOK (s : St) : Bool := s.comps.all fun e => !e.2.1.isEmpty

/-- every path item reference is inlined -/
def pisOK (s : St) : Bool := (List.range h.pis.size).all fun p => s.pirefs[p]!.isEmpty

/-- every discriminator mapping entry still names the alternative it named: `schema.visitXOFOperations` selects the
oneOf item whose `$ref` text EQUALS the mapping value -/
def mapOK (s : St) : Bool := h.vals.toList.all fun v => v.dmap.all fun e => s.refs[e.2]! == e.1

/-- in the final document path item `p` is written out in full and leads, through callbacks that are written out in
full, back to a path item on `stack`: the document is an infinite tree -/
def cycReach (s : St) : Nat → List Nat → Nat → Bool
  | 0, _, _ => true
  | n + 1, stack, p =>
    if stack.contains p then true
    else if !(s.pirefs[p]!).isEmpty then false
    else (h.pis[p]!).ops.any fun op => op.cbs.any fun cb =>
      (s.refs[cb]!).isEmpty && valOf h cb ≥ 0 && (getVal h (valOf h cb)).items.any fun q => cycReach s n (p :: stack) q

/-- the final document is a finite tree (it can be serialised) -/
def finiteB (s : St) : Bool := !(List.range h.pis.size).any fun p => cycReach h s (h.pis.size + 1) [] p

def specB (s : St) : Bool :=
  (List.range h.cells.size).all (cellOK h s) && pisOK h s && mapOK h s && finiteB h s && (namesOK s || !h.validBefore)

-- ---------------------------------------------------------------- exclusion predicates (known-finding classes)

/-- F-C16-1 (#17 and its variants): an external reference is given a name under which a component with OTHER content
exists -/
def NameCollision (s : St) : Bool :=
  s.log.any fun e => match e with | .reused _ _ same _ => !same | _ => false

/-- F-C16-3: a component entry of the final document that is an original ref cell of the root (not a value put there by
add*ToSpec) and whose own text does not lead to its own value — `X: {$ref: #/components/responses/X}` when the root
component was a whole-document reference of a collection whose top level is not dereferenced -/
def SelfRefComponent (s : St) : Bool :=
  s.comps.any fun e => match e.2.2 with
    | .cell i => !resolvesTo h s 63 s.refs[i]! (valOf h i)
    | .fresh _ => false

/-- the cells InternalizeRefs never visits: Examples of parameters and headers -/
def pexCells : List Nat := h.vals.toList.flatMap (·.pex)

/-- a cell with a non-empty text that internalisation left exactly as loaded and that is not right in the final document -/
def unchangedBad (s : St) (c : Nat) : Bool :=
  s.refs[c]! == origRef h c && !(origRef h c).isEmpty && !cellOK h s c

/-- F-C16-5: a `#/components/…` text of a VISITED position was never rewritten although in the root document that text
designates nothing, or something else (the value lives in another document and was reached without the external flag) -/
def StaleInternalRef (s : St) : Bool :=
  (List.range h.cells.size).any fun c => !(pexCells h).contains c && unchangedBad h s c

/-- F-C16-7: a reference under `examples` of a parameter or header (resolved by the loader since cbb0d05) is not visited by
derefParameter: an external one stays external, one inside an imported document keeps pointing into that document -/
def UnwalkedExample (s : St) : Bool :=
  (pexCells h).any fun c => unchangedBad h s c

/-- F-C16-8: a oneOf alternative named by a discriminator mapping was rewritten, the mapping text was not: validation
with that schema no longer finds the alternative -/
def DiscriminatorMapping (s : St) : Bool := !mapOK h s

/-- F-C16-9: every `$ref` of a path item is cleared ("inline full operations"), also one that points into the document's
own paths section and closes a cycle through a callback: the result is an infinite tree, MarshalJSON overflows the stack -/
def InlinedCycle (s : St) : Bool := !finiteB h s

/-- F-C16-10: a reference the loader left without value or without RefPath although the document loaded (no POSITION is
left unvisited since cbb0d05; what remains are the loader's backtrack callbacks registered on local copies, C02).
InternalizeRefs leaves such a reference alone (05c5875), so an external text stays -/
def Unresolved : Bool := h.cells.toList.any fun c => !c.ref.isEmpty && (c.val < 0 || c.refPath.isNone)

/-- a reachable path item the descent did not inline -/
def PathItemLeft (s : St) : Bool := !pisOK h s

def EmptyName (s : St) : Bool := !namesOK s && h.validBefore

/-- collection names contain no slash (they are the nine fixed names) -/
def kindsPlain : Bool := h.cells.toList.all fun c => !c.k.contains '/'

/-- the hypotheses of `spec_holds_partial` (Props/C16.lean): none of the exclusion predicates holds -/
def hypsB (s : St) : Bool :=
  kindsPlain h && !NameCollision s && !SelfRefComponent h s && !StaleInternalRef h s && !UnwalkedExample h s &&
  !DiscriminatorMapping h s && !InlinedCycle h s && !Unresolved h && !PathItemLeft h s && !EmptyName h s

/-- a predicate on the final state of a finished run (false when the run panics or runs out of fuel) -/
def doneB (p : St → Bool) : Bool := match internalize h with | .done s => p s | _ => false

end KinModel.Internalize
