/-
C10 — state kept between calls: the process-wide cache of compiled patterns (`openapi3.compiledPatterns`, a sync.Map)
that `Schema.visitJSONString` reads and `Schema.compilePattern` may write. One validation can leave a value there that
a LATER validation of the same pattern text uses without compiling again, so "no panic" is a statement about
sequences of calls in one process, not about one call.

Code (openapi3/schema.go "pattern" block of visitJSONString, openapi3/schema_pattern.go compilePattern):

    cpiface, _ := compiledPatterns.Load(schema.Pattern)
    cp, _ := cpiface.(RegexMatcher)
    if cp == nil { cp, err = schema.compilePattern(c); if err != nil { return / collect err; cp = nil } }
    if cp != nil && !cp.MatchString(value) { … "doesn't match" error … }

    compilePattern: cp, err = compile(pattern); if err != nil { err = &SchemaError{…}; return }; <store cp>; return

`regexp.Compile` returns a nil *regexp.Regexp with its error; assigned to the interface-typed result it is a non-nil
interface holding a nil pointer. If such a value ever reaches the cache, the next Load passes `cp != nil` and
`MatchString` dereferences nil. The invariant that excludes it: every cached entry is a usable matcher; it holds as long
as no storing call is reached after a failed compile. Which storing calls exist and whether each stands behind the
`if err != nil { …; return }` is read off the source on every run (table Gen/C10CacheSites, `go/cmd/extract/c10cache.go`);
the configuration of the model is computed from the rows.
-/
namespace KinModel.NoPanic.PatternCache

inductive Row
  | store (var fn method : String) (errGuarded effective : Bool)
  | load (var fn : String)
  | other (var fn method : String)
  | unrecognised (what : String)
  deriving Repr

/-- every storing call is reached only after a successful computation of the stored value; the code was found and read -/
def storesGuarded (rows : List Row) : Bool :=
  rows.all (fun | .unrecognised _ => false | .store _ _ _ g _ => g | _ => true) &&
  rows.any (fun | .store .. => true | _ => false) && rows.any (fun | .load .. => true | _ => false)

structure Cfg where
  /-- some storing call is reached also when the compile failed (or the rule could not read a use) -/
  storeOnErr : Bool
  /-- some storing call can really store (on the pinned tree none: `CompareAndSwap(k, nil, v)` never stores) -/
  effective : Bool
  deriving DecidableEq, Repr

def cfgOf (rows : List Row) : Cfg :=
  ⟨rows.any (fun | .store _ _ _ g _ => !g | .unrecognised _ => true | _ => false),
   rows.any (fun | .store _ _ _ _ e => e | .unrecognised _ => true | _ => false)⟩

theorem cfgOf_guarded (rows : List Row) (h : storesGuarded rows = true) : (cfgOf rows).storeOnErr = false := by
  simp only [storesGuarded, Bool.and_eq_true, List.all_eq_true] at h
  have hall := h.1.1
  simp only [cfgOf]
  rw [Bool.eq_false_iff]
  intro hany
  rw [List.any_eq_true] at hany
  obtain ⟨r, hr, hb⟩ := hany
  have := hall r hr
  cases r <;> simp_all

/-- pattern texts, abstractly -/
abbrev Pat := Nat

/-- what a cached interface value holds: a usable matcher, or a nil pointer wrapped in the (non-nil) interface -/
inductive Entry | matcher | nilMatcher
  deriving DecidableEq, Repr

/-- newest entry first: `lookup` finds what the last Store left -/
abbrev Cache := List (Pat × Entry)

inductive Out
  | normal      -- nil or a "doesn't match" SchemaError: the call returns
  | compileErr  -- "cannot compile pattern" SchemaError: the call returns
  | panic       -- MatchString on a nil *regexp.Regexp
  deriving DecidableEq, Repr

/-- `Schema.compilePattern`; `compiles` = this call's compiler (regexp.Compile or the caller's RegexCompilerFunc)
    accepts the text. Result: the matcher handed back (none = error) and the cache afterwards. -/
def compilePattern (cfg : Cfg) (c : Cache) (p : Pat) (compiles : Bool) : Option Entry × Cache :=
  if compiles then (some .matcher, if cfg.effective then (p, .matcher) :: c else c)
  else (none, if cfg.storeOnErr && cfg.effective then (p, .nilMatcher) :: c else c)

/-- the "pattern" block of `visitJSONString` -/
def visitPattern (cfg : Cfg) (c : Cache) (p : Pat) (compiles : Bool) : Out × Cache :=
  match c.lookup p with
  | some .matcher => (.normal, c)
  | some .nilMatcher => (.panic, c)
  | none =>
    match compilePattern cfg c p compiles with
    | (some _, c') => (.normal, c')
    | (none, c') => (.compileErr, c')

/-- one call that touches the cache: document validation compiling the pattern of a `type: string` schema
    (`Schema.validate`), or a string value validated against a schema with a pattern; each call has its own compiler -/
inductive Op
  | gate (p : Pat) (compiles : Bool)
  | visit (p : Pat) (compiles : Bool)
  deriving DecidableEq, Repr

def step (cfg : Cfg) (c : Cache) : Op → Out × Cache
  | .gate p ok => let r := compilePattern cfg c p ok; (if r.1.isSome then .normal else .compileErr, r.2)
  | .visit p ok => visitPattern cfg c p ok

/-- a history of calls in one process, from the cache `c` -/
def run (cfg : Cfg) : Cache → List Op → List Out
  | _, [] => []
  | c, op :: rest => let r := step cfg c op; r.1 :: run cfg r.2 rest

/-- the invariant: every cached entry is a usable matcher -/
def Inv (c : Cache) : Prop := ∀ e ∈ c, e.2 = Entry.matcher

theorem lookup_of_inv {c : Cache} (h : Inv c) (p : Pat) : c.lookup p ≠ some .nilMatcher := by
  induction c with
  | nil => simp [List.lookup]
  | cons e rest ih =>
    obtain ⟨q, x⟩ := e
    have hx : x = .matcher := h (q, x) (by simp)
    have hrest : Inv rest := fun e he => h e (by simp [he])
    simp only [List.lookup]
    cases hq : (p == q) with
    | true => simp [hx]
    | false => exact ih hrest

theorem compile_inv (cfg : Cfg) (hcfg : cfg.storeOnErr = false) {c : Cache} (h : Inv c) (p : Pat) (ok : Bool) :
    Inv (compilePattern cfg c p ok).2 := by
  unfold compilePattern
  cases ok <;> cases he : cfg.effective <;> simp [hcfg, h]
  intro e he'
  rcases List.mem_cons.mp he' with rfl | hm
  · rfl
  · exact h e hm

theorem step_inv (cfg : Cfg) (hcfg : cfg.storeOnErr = false) {c : Cache} (h : Inv c) (op : Op) :
    (step cfg c op).1 ≠ .panic ∧ Inv (step cfg c op).2 := by
  cases op with
  | gate p ok =>
    refine ⟨?_, compile_inv cfg hcfg h p ok⟩
    simp only [step]
    split <;> simp
  | visit p ok =>
    simp only [step, visitPattern]
    have hl := lookup_of_inv h p
    split
    · exact ⟨by simp, h⟩
    · rename_i heq; exact absurd heq hl
    · have hi := compile_inv cfg hcfg h p ok
      split <;> rename_i heq <;> (rw [heq] at hi; exact ⟨by simp, hi⟩)

/-- no history of calls panics, from any cache that satisfies the invariant (the empty one at process start) -/
theorem run_no_panic (cfg : Cfg) (hcfg : cfg.storeOnErr = false) (ops : List Op) :
    ∀ c : Cache, Inv c → Out.panic ∉ run cfg c ops := by
  induction ops with
  | nil => intro c _; simp [run]
  | cons op rest ih =>
    intro c h
    have hs := step_inv cfg hcfg h op
    simp only [run, List.mem_cons, not_or]
    exact ⟨fun heq => hs.1 heq.symm, ih _ hs.2⟩

end KinModel.NoPanic.PatternCache
