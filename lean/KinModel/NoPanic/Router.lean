/-
C10 — the two routers as far as panics are concerned.

* legacy (`routers/legacy/router.go`, `pathpattern/node.go`): tokenisation of `METHOD path` as
  `CreateNode` does it, matching of a request key against one template as `matchRemaining` does it along
  the trie path of that template (the trie backtracks over all suffixes, so "some node is returned" is
  "some template matches"), and `FindRoute` branch by branch, **including** the fall-back after a failed
  match: `doc.Paths.Value(remaining)` found and the method declared ⇒ the code goes on to
  `node.VariableNames` with `node == nil` — an explicit `panic` outcome (finding F-C10-2).
* gorillamux (`routers/gorillamux/router.go`): the port-variable branch of `makeServers`
  (`rest[:rhs]`, finding F-C10-3) and `FindRoute`'s call of `PathItem.GetOperation`, which panics on a
  method outside the nine known ones; gorilla/mux itself is a parameter (the index of the matched route)
  constrained by its `Methods(...)` contract.
-/
import KinModel.NoPanic.Server
namespace KinModel.NoPanic.Router
open KinModel.NoPanic

abbrev Str := List Char

/-! ## legacy: pathpattern -/

inductive Tok
  | const (p : Str)
  | var
  | every
  deriving DecidableEq, Repr

def stripSlashes (s : Str) : Str := (s.reverse.dropWhile (· = '/')).reverse

def splitConst : Str → Str × Str
  | [] => ([], [])
  | c :: cs => if c = '/' ∨ c = '{' then ([], c :: cs) else let (a, b) := splitConst cs; (c :: a, b)

def trimSpaces (s : Str) : Str := ((s.dropWhile (· = ' ')).reverse.dropWhile (· = ' ')).reverse

/-- `CreateNode`'s loop; `none` = "missing '}'" error (NewRouter fails, no router exists) -/
def toks : Nat → Str → Option (List Tok)
  | 0, _ => some []
  | _ + 1, [] => some []
  | fuel + 1, c :: cs =>
    if c = '/' then (toks fuel cs).map (Tok.const ['/'] :: ·)
    else if c = '{' then
      match Server.indexOf '}' (c :: cs) with
      | none => none
      | some i =>
        let name := trimSpaces ((c :: cs).take i |>.drop 1)
        let t := if name.getLast? = some '*' then Tok.every else Tok.var
        (toks fuel ((c :: cs).drop (i + 1))).map (t :: ·)
    else
      let (a, b) := splitConst (c :: cs)
      (toks fuel b).map (Tok.const a :: ·)

def tokenize (s : Str) : Option (List Tok) := let s' := stripSlashes s; toks (s'.length + 1) s'

/-- `matchRemaining` along the trie path of one template; the end of the template is a node with a Value -/
def matchToks : List Tok → Str → Bool
  | [], rem => rem.isEmpty
  | .const p :: ts, rem =>
    if p.isPrefixOf rem then matchToks ts (rem.drop p.length)
    else if rem.isEmpty ∧ p = ['/'] then matchToks ts rem
    else false
  | .var :: ts, rem => matchToks ts (rem.drop ((Server.indexOf '/' rem).getD rem.length))
  | .every :: ts, _ => ts.isEmpty

structure PathM where
  tpl : Str
  methods : List Str          -- upper-case names of the declared operations
  deriving Repr

inductive RouteRes
  | found
  | pathNotFound
  | methodNotAllowed
  | routerError               -- NewRouter returned an error
  | panic (site : String)
  deriving DecidableEq, Repr

def keyOf (method path : Str) : Str := method ++ ' ' :: path

def templateMatches (paths : List PathM) (key : Str) : Bool :=
  paths.any fun p => p.methods.any fun m =>
    match tokenize (keyOf m p.tpl) with
    | some ts => matchToks ts (stripSlashes key)
    | none => false

def newRouterFails (paths : List PathM) : Bool :=
  paths.any fun p => p.methods.any fun m => (tokenize (keyOf m p.tpl)).isNone

/-- what `FindRoute` does once the remaining path is known -/
def legacyAfterServer (paths : List PathM) (method remaining : Str) : RouteRes :=
  if templateMatches paths (keyOf method remaining) then .found
  else
    match paths.find? (fun p => p.tpl = remaining) with      -- doc.Paths.Value(remainingPath)
    | none => .pathNotFound
    | some p =>
      if ¬ p.methods.contains method then .methodNotAllowed
      else .panic "legacy/router.go FindRoute: node.VariableNames with node == nil"

/-- legacy `FindRoute`: `rawURL` is `req.URL.String()` without the query, `urlPath` is `req.URL.Path` -/
def legacyFindRoute (servers : List Str) (paths : List PathM) (method rawURL urlPath : Str) : RouteRes :=
  if newRouterFails paths then .routerError
  else if servers.isEmpty then legacyAfterServer paths method urlPath
  else
    match Server.matchServers servers rawURL with
    | none => .pathNotFound
    | some (.matched _ rest) => legacyAfterServer paths method rest
    | some .panic => .panic "openapi3/server.go MatchRawURL: input[0]"
    | some _ => .pathNotFound

/-- the defect class: no template matches, yet the path is literally a key of `paths` with that method -/
def LiteralTemplateMiss (paths : List PathM) (method remaining : Str) : Bool :=
  !templateMatches paths (keyOf method remaining) &&
    (paths.find? (fun p => p.tpl = remaining)).any (fun p => p.methods.contains method)

theorem legacyAfterServer_no_panic (paths : List PathM) (method remaining : Str)
    (h : LiteralTemplateMiss paths method remaining = false) :
    ∀ site, legacyAfterServer paths method remaining ≠ .panic site := by
  intro site
  unfold legacyAfterServer
  unfold LiteralTemplateMiss at h
  cases hm : templateMatches paths (keyOf method remaining) with
  | true => simp
  | false =>
    simp only [hm, Bool.not_false, Bool.true_and] at h
    simp only [Bool.false_eq_true, if_false]
    cases hf : paths.find? (fun p => p.tpl = remaining) with
    | none => simp
    | some p =>
      simp only [hf, Option.any_some] at h
      have h' : method ∉ p.methods := by
        intro hc; rw [List.contains_iff_mem.mpr hc] at h; exact Bool.noConfusion h
      simp [h']

theorem matchServers_ne_panic : ∀ (servers : List Str) (input : Str), Server.matchServers servers input ≠ some .panic := by
  intro servers input
  induction servers with
  | nil => simp [Server.matchServers]
  | cons s ss ih =>
    unfold Server.matchServers
    have hp : Server.matchRawURL s input ≠ .panic := Server.loop_ne_panic _ _ _ _
    cases hr : Server.matchRawURL s input with
    | noMatch => simpa using ih
    | matched ps r => simp
    | panic => exact absurd hr hp
    | outOfFuel => simp

/-! ## gorillamux -/

def knownMethods : List Str :=
  ["CONNECT", "DELETE", "GET", "HEAD", "OPTIONS", "PATCH", "POST", "PUT", "TRACE"].map String.toList

inductive OpRes | op | nilOp | panic deriving DecidableEq, Repr

/-- `PathItem.GetOperation` -/
def getOperation (declared : List Str) (method : Str) : OpRes :=
  if knownMethods.contains method then (if declared.contains method then .op else .nilOp) else .panic

/-- `PathItem.Operations()` only has keys among the nine known methods -/
def DeclaredOK (declared : List Str) : Prop := ∀ m, declared.contains m = true → knownMethods.contains m = true

/-- gorilla `FindRoute`: `muxMatch` is gorilla/mux (a parameter): the index of the first route it matches.
    Its contract: a route built with `.Methods(ms...)` only matches a request whose method is in `ms`. -/
def gorillaFindRoute (routes : List (List Str)) (muxMatch : Option Nat) (method : Str) : OpRes ⊕ Unit :=
  match muxMatch with
  | none => .inr ()                      -- ErrPathNotFound / ErrMethodNotAllowed
  | some i =>
    match routes[i]? with
    | none => .inl .panic                -- r.routes[i]
    | some declared => .inl (getOperation declared method)

def MuxContract (routes : List (List Str)) (muxMatch : Option Nat) (method : Str) : Prop :=
  ∀ i, muxMatch = some i → ∃ ms, routes[i]? = some ms ∧ ms.contains method = true

/-- singleVariableMatcher `^\{([^{}]+)\}$` -/
def singleVar (u : Str) : Bool :=
  match u with
  | '{' :: rest =>
    (match rest.reverse with
     | '}' :: body => !body.isEmpty && body.all (fun c => c ≠ '{' ∧ c ≠ '}')
     | _ => false)
  | _ => false

def findSub2 (a b : Char) : Str → Option Nat
  | [] => none
  | [_] => none
  | x :: y :: rest => if x = a ∧ y = b then some 0 else (findSub2 a b (y :: rest)).map (· + 1)

inductive PortRes | noPort | port (name : Str) | panic deriving DecidableEq, Repr

/-- the port-variable branch of `makeServers`: `lhs := Index(url, ":{")`, `rest := url[lhs+2:]`,
    `rhs := Index(rest, "}")`, `rest[:rhs]` -/
def gorillaPortBranch (u : Str) : PortRes :=
  if singleVar u then .noPort
  else
    match findSub2 ':' '{' u with
    | none => .noPort
    | some lhs =>
      if lhs = 0 then .noPort
      else
        let rest := u.drop (lhs + 2)
        match Server.indexOf '}' rest with
        | none => .panic                  -- rest[:-1]
        | some rhs => .port (rest.take rhs)

def PortUnclosed (u : Str) : Bool := gorillaPortBranch u = .panic

def gorillaNewRouterPanics (servers : List Str) : Bool := servers.any PortUnclosed

end KinModel.NoPanic.Router
