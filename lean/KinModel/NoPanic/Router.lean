/-
C10 — the two routers as far as panics are concerned.

* legacy (`routers/legacy/router.go`, `pathpattern/node.go`): tokenisation of `METHOD path` as
  `CreateNode` does it, matching of a request key against one template as `matchRemaining` does it along
  the trie path of that template (the trie backtracks over all suffixes, so "some node is returned" is
  "some template matches"), and `FindRoute` branch by branch, including the fall-back after a failed
  match, which since commit 8654816 always ends in a route error (before, `doc.Paths.Value(remaining)`
  found with the method declared went on to `node.VariableNames` with `node == nil`: F-C10-2, fixed).
* gorillamux (`routers/gorillamux/router.go`): the port-variable branch of `makeServers` with its slice
  expression `rest[:rhs]` explicit (`rhs < 0` is an error since a0fa632; before: F-C10-3) and `FindRoute`'s call of `PathItem.GetOperation`, which panics on a
  method outside the nine known ones; gorilla/mux itself is a parameter (the index of the matched route)
  constrained by its `Methods(...)` contract.
-/
import KinModel.NoPanic.Server
namespace KinModel.NoPanic.Router
open KinModel.NoPanic

abbrev Str := List Char

/-! ## legacy: pathpattern -/

inductive Tok
  | const (p : Str)
  | var
  | every
  deriving DecidableEq, Repr

def stripSlashes (s : Str) : Str := (s.reverse.dropWhile (· = '/')).reverse

def splitConst : Str → Str × Str
  | [] => ([], [])
  | c :: cs => if c = '/' ∨ c = '{' then ([], c :: cs) else let (a, b) := splitConst cs; (c :: a, b)

def trimSpaces (s : Str) : Str := ((s.dropWhile (· = ' ')).reverse.dropWhile (· = ' ')).reverse

/-- `CreateNode`'s loop; `none` = "missing '}'" error (NewRouter fails, no router exists) -/
def toks : Nat → Str → Option (List Tok)
  | 0, _ => some []
  | _ + 1, [] => some []
  | fuel + 1, c :: cs =>
    if c = '/' then (toks fuel cs).map (Tok.const ['/'] :: ·)
    else if c = '{' then
      match Server.indexOf '}' (c :: cs) with
      | none => none
      | some i =>
        let name := trimSpaces ((c :: cs).take i |>.drop 1)
        let t := if name.getLast? = some '*' then Tok.every else Tok.var
        (toks fuel ((c :: cs).drop (i + 1))).map (t :: ·)
    else
      let (a, b) := splitConst (c :: cs)
      (toks fuel b).map (Tok.const a :: ·)

def tokenize (s : Str) : Option (List Tok) := let s' := stripSlashes s; toks (s'.length + 1) s'

/-- `matchRemaining` along the trie path of one template; the end of the template is a node with a Value -/
def matchToks : List Tok → Str → Bool
  | [], rem => rem.isEmpty
  | .const p :: ts, rem =>
    if p.isPrefixOf rem then matchToks ts (rem.drop p.length)
    else if rem.isEmpty ∧ p = ['/'] then matchToks ts rem
    else false
  | .var :: ts, rem => matchToks ts (rem.drop ((Server.indexOf '/' rem).getD rem.length))
  | .every :: ts, _ => ts.isEmpty

structure PathM where
  tpl : Str
  methods : List Str          -- upper-case names of the declared operations
  deriving Repr

inductive RouteRes
  | found
  | pathNotFound
  | methodNotAllowed
  | routerError               -- NewRouter returned an error
  | panic (site : String)
  deriving DecidableEq, Repr

def keyOf (method path : Str) : Str := method ++ ' ' :: path

def templateMatches (paths : List PathM) (key : Str) : Bool :=
  paths.any fun p => p.methods.any fun m =>
    match tokenize (keyOf m p.tpl) with
    | some ts => matchToks ts (stripSlashes key)
    | none => false

def newRouterFails (paths : List PathM) : Bool :=
  paths.any fun p => p.methods.any fun m => (tokenize (keyOf m p.tpl)).isNone

/-- what `FindRoute` does once the remaining path is known; `node` is non-nil exactly in the `.found` branch -/
def legacyAfterServer (paths : List PathM) (method remaining : Str) : RouteRes :=
  if templateMatches paths (keyOf method remaining) then .found       -- node != nil: node.VariableNames is safe
  else
    match paths.find? (fun p => p.tpl = remaining) with      -- doc.Paths.Value(remainingPath)
    | none => .pathNotFound
    | some p =>
      if ¬ p.methods.contains method then .methodNotAllowed
      else .pathNotFound      -- the request path spells a template literally: no template matches it

/-- legacy `FindRoute`: `rawURL` is `req.URL.String()` without the query, `urlPath` is `req.URL.Path` -/
def legacyFindRoute (servers : List Str) (paths : List PathM) (method rawURL urlPath : Str) : RouteRes :=
  if newRouterFails paths then .routerError
  else if servers.isEmpty then legacyAfterServer paths method urlPath
  else
    match Server.matchServers servers rawURL with
    | none => .pathNotFound
    | some (.matched _ rest) => legacyAfterServer paths method rest
    | some .panic => .panic "openapi3/server.go MatchRawURL: input[0]"
    | some _ => .pathNotFound

theorem legacyAfterServer_no_panic (paths : List PathM) (method remaining : Str) :
    ∀ site, legacyAfterServer paths method remaining ≠ .panic site := by
  intro site
  unfold legacyAfterServer
  split
  · simp
  · split
    · simp
    · split <;> simp

theorem matchServers_ne_panic : ∀ (servers : List Str) (input : Str), Server.matchServers servers input ≠ some .panic := by
  intro servers input
  induction servers with
  | nil => simp [Server.matchServers]
  | cons s ss ih =>
    unfold Server.matchServers
    have hp : Server.matchRawURL s input ≠ .panic := Server.loop_ne_panic _ _ _ _
    cases hr : Server.matchRawURL s input with
    | noMatch => simpa using ih
    | matched ps r => simp
    | panic => exact absurd hr hp
    | outOfFuel => simp

/-! ## gorillamux -/

def knownMethods : List Str :=
  ["CONNECT", "DELETE", "GET", "HEAD", "OPTIONS", "PATCH", "POST", "PUT", "TRACE"].map String.toList

inductive OpRes | op | nilOp | panic deriving DecidableEq, Repr

/-- `PathItem.GetOperation` -/
def getOperation (declared : List Str) (method : Str) : OpRes :=
  if knownMethods.contains method then (if declared.contains method then .op else .nilOp) else .panic

/-- `PathItem.Operations()` only has keys among the nine known methods -/
def DeclaredOK (declared : List Str) : Prop := ∀ m, declared.contains m = true → knownMethods.contains m = true

/-- gorilla `FindRoute`: `muxMatch` is gorilla/mux (a parameter): the index of the first route it matches.
    Its contract: a route built with `.Methods(ms...)` only matches a request whose method is in `ms`. -/
def gorillaFindRoute (routes : List (List Str)) (muxMatch : Option Nat) (method : Str) : OpRes ⊕ Unit :=
  match muxMatch with
  | none => .inr ()                      -- ErrPathNotFound / ErrMethodNotAllowed
  | some i =>
    match routes[i]? with
    | none => .inl .panic                -- r.routes[i]
    | some declared => .inl (getOperation declared method)

def MuxContract (routes : List (List Str)) (muxMatch : Option Nat) (method : Str) : Prop :=
  ∀ i, muxMatch = some i → ∃ ms, routes[i]? = some ms ∧ ms.contains method = true

/-- singleVariableMatcher `^\{([^{}]+)\}$` -/
def singleVar (u : Str) : Bool :=
  match u with
  | '{' :: rest =>
    (match rest.reverse with
     | '}' :: body => !body.isEmpty && body.all (fun c => c ≠ '{' ∧ c ≠ '}')
     | _ => false)
  | _ => false

def findSub2 (a b : Char) : Str → Option Nat
  | [] => none
  | [_] => none
  | x :: y :: rest => if x = a ∧ y = b then some 0 else (findSub2 a b (y :: rest)).map (· + 1)

inductive PortRes | noPort | port (name : Str) | routerError | panic deriving DecidableEq, Repr

/-- Go's `strings.Index` result as an integer (-1 = absent) -/
def idx (o : Option Nat) : Int := match o with | none => -1 | some i => i

/-- the slice expression `s[:i]`: out of range (a panic) unless 0 ≤ i ≤ len(s) -/
def sliceTo (s : Str) (i : Int) : Option Str :=
  if 0 ≤ i ∧ i ≤ s.length then some (s.take i.toNat) else none

/-- `rhs := Index(rest, "}")`, `if rhs < 0 { return error }`, `rest[:rhs]` -/
def portTail (rest : Str) : PortRes :=
  let rhs := idx (Server.indexOf '}' rest)
  if rhs < 0 then .routerError
  else
    match sliceTo rest rhs with
    | none => .panic
    | some name => .port name

/-- the port-variable branch of `makeServers`: `lhs := Index(url, ":{")`, `rest := url[lhs+2:]`,
    `rhs := Index(rest, "}")`, `if rhs < 0 { return error }`, `rest[:rhs]` -/
def gorillaPortBranch (u : Str) : PortRes :=
  if singleVar u then .noPort
  else
    match findSub2 ':' '{' u with
    | none => .noPort
    | some lhs =>
      if lhs = 0 then .noPort
      else
        portTail (u.drop (lhs + 2))

theorem indexOf_lt (c : Char) : ∀ (l : Str) (i : Nat), Server.indexOf c l = some i → i < l.length
  | [], _, h => by simp [Server.indexOf] at h
  | x :: xs, i, h => by
    unfold Server.indexOf at h
    split at h
    · cases h; simp
    · cases hr : Server.indexOf c xs with
      | none => simp [hr] at h
      | some j =>
        simp [hr] at h
        have := indexOf_lt c xs j hr
        simp only [List.length_cons]; omega

theorem portTail_no_panic (rest : Str) : portTail rest ≠ .panic := by
  unfold portTail
  cases hi : Server.indexOf '}' rest with
  | none => simp [idx]
  | some r =>
    have hlt := indexOf_lt _ _ _ hi
    have h1 : ¬ ((r : Int) < 0) := by omega
    have h2 : (0 : Int) ≤ r ∧ (r : Int) ≤ rest.length := by omega
    simp [idx, sliceTo, h1, h2]

theorem gorillaPortBranch_no_panic (u : Str) : gorillaPortBranch u ≠ .panic := by
  unfold gorillaPortBranch
  split
  · simp
  · split
    · simp
    · split
      · simp
      · exact portTail_no_panic _

end KinModel.NoPanic.Router
