/-
C10 — the request/response path of `openapi3filter` as far as panics are concerned
(`validate_request.go`, `validate_response.go`, `req_resp_decoder.go` entry points,
`validation_error_encoder.go`).

The model keeps of a document exactly what the traffic path *dereferences* (is this `.Value` nil, is this
optional pointer nil, how many content entries are there) and follows the Go control flow branch by branch;
every dereference whose guard is not in the code is an explicit `panic` outcome. What the decoders and the
schema validator answer on concrete bytes (found / decode error / nil value / verdict) are arbitrary
`Bits`: theorems quantify over all of them, i.e. over all traffic. The schema validator contributes
outcomes of its own: `panic` on an unresolved reference and `diverge` on an unguarded reference cycle
(`Recursion.unguarded_diverges`, F-C10-1).

Three more outcomes existed on the tree of round 3 and are gone with their repairs; what the code does now on those
inputs is an ordinary error, i.e. a value of the arbitrary `Bits` (`decodeErr` / `visitOK = false`):
  * F-C10-6 (2104468, ccc6020): `SchemaError.Error` falls back to `%v` when the JSON encoder refuses the value, and
    `parsePrimitiveCase` rejects NaN/±Inf: `errorText` (= `err.Error()`) returns for every error;
  * F-C10-7 (ca97fab): `YamlBodyDecoder` returns a format error for a mapping with a non-string key or a non-finite
    number (`notJSONData`), so `deepcopy.Copy` under oneOf/anyOf only sees JSON data;
  * F-C10-8 (ab8c63f): `sliceMapToSlice` returns an error when the largest index is 1024 or more beyond the number of
    elements given.
-/
import KinModel.NoPanic.Router
import KinModel.NoPanic.Recursion
namespace KinModel.NoPanic.Traffic

inductive Out
  | ok
  | err
  | panic (site : String)
  | diverge
  deriving DecidableEq, Repr

def Out.bad : Out → Bool
  | .panic _ => true
  | .diverge => true
  | _ => false

/-- `err.Error()` on what a validation function returned: `RequestError.Error` / `ResponseError.Error` /
    `MultiError.Error` end in `SchemaError.Error`, which JSON-encodes the schema and the rejected value and, since
    2104468, prints them with `%v` when the encoder fails. It returns for every error. -/
def errorText (o : Out) : Out := o

/-- a `*SchemaRef` as the traffic path sees it -/
structure SchemaM where
  resolved : Bool       -- `.Value` non-nil here and in every nested reference (RefsResolved, C04 corollary)
  unguarded : Bool      -- visiting recurses without bound: an unguarded reference cycle is reachable (F-C10-1)
  deriving DecidableEq, Repr

/-- what the decoders / the validator answer on the concrete bytes: arbitrary -/
structure Bits where
  found : Bool
  multi : Bool          -- more than one raw value
  decodeErr : Bool
  valueNil : Bool
  visitOK : Bool
  deriving DecidableEq, Repr

/-- `schema.VisitJSON(value)` -/
def visit (s : SchemaM) (b : Bits) : Out :=
  if !s.resolved then .panic "schema.Value is nil"
  else if s.unguarded then .diverge
  else if b.visitOK then .ok else .err

structure MediaM where
  schema : Option SchemaM
  deriving DecidableEq, Repr

structure ParamM where
  valueNil : Bool                 -- parameterRef.Value == nil
  isQuery : Bool
  required : Bool
  allowEmpty : Bool
  schema : Option SchemaM         -- parameter.Schema
  hasContent : Bool               -- parameter.Content != nil
  contentLen : Nat                -- len(parameter.Content)
  jsonMedia : Option MediaM       -- parameter.Content.Get("application/json")
  deriving DecidableEq, Repr

/-- the tail of `ValidateParameter` after decoding: defaults, presence, emptiness, schema -/
def afterDecode (p : ParamM) (schema : Option SchemaM) (b : Bits) : Out :=
  match schema with
  | some s =>
    if b.valueNil ∧ !s.resolved then .panic "ValidateParameter: subSchema.Value.Default"   -- defaults loop over schema.AllOf
    else if p.required ∧ !b.found then .err
    else if b.valueNil then (if !p.allowEmpty ∧ b.found then .err else .ok)
    else visit s b
  | none =>
    if p.required ∧ !b.found then .err
    else if b.valueNil then (if !p.allowEmpty ∧ b.found then .err else .ok)
    else .ok

/-- `ValidateParameter` (with `decodeContentParameter` / `defaultContentParameterDecoder` inlined) -/
def validateParameter (p : ParamM) (b : Bits) : Out :=
  if p.valueNil then .panic "ValidateRequest: parameterRef.Value"
  else if p.schema.isNone ∧ !p.hasContent then .ok
  else if p.hasContent then
    if !b.found then (if p.required then .err else afterDecode p none { b with valueNil := true })
    else if b.multi ∧ !p.isQuery then .err
    else if p.contentLen ≠ 1 then .err
    else
      match p.jsonMedia with
      | none => .err
      | some mt =>
        match mt.schema with
        | none => if b.decodeErr then .err else afterDecode p none b     -- no schema: decoded, not validated (b569d4d)
        | some s =>
          if !s.resolved then .panic "defaultContentParameterDecoder: paramSchema.Value"
          else if b.decodeErr then .err
          else afterDecode p (some s) b
  else
    match p.schema with
    | none => .ok
    | some s =>
      if !s.resolved then .panic "decodeValue: schema.Value"
      else if b.decodeErr then .err
      else afterDecode p (some s) b

structure BodyBits where
  dataEmpty : Bool
  ctMatch : Option Nat      -- which content entry `Content.Get(Content-Type)` returns
  bits : Bits
  deriving DecidableEq, Repr

structure BodyM where
  valueNil : Bool           -- requestBody.Value == nil
  required : Bool
  content : List MediaM
  deriving DecidableEq, Repr

/-- `ValidateRequestBody` -/
def validateBody (rb : BodyM) (b : BodyBits) : Out :=
  if rb.valueNil then .panic "ValidateRequestBody: requestBody is nil"
  else if b.dataEmpty then (if rb.required then .err else .ok)
  else if rb.content.isEmpty then .ok
  else
    match b.ctMatch.bind (rb.content[·]?) with
    | none => .err
    | some mt =>
      match mt.schema with
      | none => .ok
      | some s =>
        if !s.resolved then .panic "decodeBody: schema.Value"
        else if b.bits.decodeErr then .err
        else visit s b.bits

structure HeaderM where
  valueNil : Bool           -- headerRef.Value == nil
  required : Bool
  schema : Option SchemaM   -- nil when the header is described by `content`
  deriving DecidableEq, Repr

/-- `validateResponseHeader` (after fix #22: the content-defined header is checked for presence only) -/
def validateHeader (h : HeaderM) (b : Bits) : Out :=
  if h.valueNil then .panic "validateResponseHeader: headerRef.Value"
  else
    match h.schema with
    | none => if !b.found ∧ h.required then .err else .ok
    | some s =>
      if !s.resolved then .panic "decodeValue: schema.Value"
      else if b.decodeErr then .err
      else if b.found then visit s b
      else if h.required then .err else .ok

structure ResponseM where
  valueNil : Bool           -- responseRef.Value == nil (guarded in the code: "response has not been resolved")
  headers : List HeaderM
  content : List MediaM
  deriving Repr

structure OpM where
  params : List ParamM      -- path-item parameters not overridden, then operation parameters
  body : Option BodyM
  responses : List ResponseM
  deriving Repr

/-- the loop over the checks: in default mode the first error is returned; with `Options.MultiError` the loop
    goes on, the errors are collected into one `MultiError` (whose text is the text of all of them), and a panic
    or an unbounded recursion later in the list still happens -/
def seq (multi : Bool) : List Out → Out
  | [] => .ok
  | .ok :: rest => seq multi rest
  | .err :: rest =>
    if multi then
      (match seq multi rest with
       | .ok => .err
       | o => o)
    else .err
  | o :: _ => o

structure ReqTraffic where
  multi : Bool              -- Options.MultiError
  paramBits : Nat → Bits
  body : BodyBits

def zipIdx {α : Type} : List α → Nat → List (Nat × α)
  | [], _ => []
  | x :: xs, i => (i, x) :: zipIdx xs (i + 1)

/-- `ValidateRequest` (security is C07's; authentication callbacks are user code) -/
def validateRequest (op : OpM) (t : ReqTraffic) : Out :=
  seq t.multi ((zipIdx op.params 0).map (fun ip => validateParameter ip.2 (t.paramBits ip.1)) ++
       (match op.body with | none => [] | some rb => [validateBody rb t.body]))

structure RespTraffic where
  skip : Bool               -- HEAD, or a status that is never validated
  chosen : Option Nat       -- which response entry Status/Default select
  headerBits : Nat → Bits
  excludeBody : Bool
  body : BodyBits

/-- `ValidateResponse` -/
def validateResponse (op : OpM) (t : RespTraffic) : Out :=
  if t.skip then .ok
  else if op.responses.isEmpty then .ok
  else
    match t.chosen.bind (op.responses[·]?) with
    | none => .ok                      -- undocumented status (or an error with IncludeResponseStatus)
    | some r =>
      if r.valueNil then .err
      else
        match seq false ((zipIdx r.headers 0).map (fun ih => validateHeader ih.2 (t.headerBits ih.1))) with
        | .ok =>
          if t.excludeBody then .ok
          else if r.content.isEmpty then .ok
          else
            match t.body.ctMatch.bind (r.content[·]?) with
            | none => .err
            | some mt =>
              match mt.schema with
              | none => .ok
              | some s =>
                if !s.resolved then .panic "decodeBody: schema.Value"
                else if t.body.bits.decodeErr then .err
                else visit s t.body.bits
        | o => o

/-! ## what document validation guarantees (`DocValid`) and what it does not (`Excl`) -/

def SchemaM.wf (s : SchemaM) : Bool := s.resolved
def MediaM.wf (m : MediaM) : Bool := match m.schema with | none => true | some s => s.wf
def ParamM.wf (p : ParamM) : Bool :=
  !p.valueNil && (match p.schema with | none => true | some s => s.wf) &&
    (match p.jsonMedia with | none => true | some m => m.wf)
def BodyM.wf (b : BodyM) : Bool := !b.valueNil && b.content.all MediaM.wf
def HeaderM.wf (h : HeaderM) : Bool := !h.valueNil && (match h.schema with | none => true | some s => s.wf)
def ResponseM.wf (r : ResponseM) : Bool := r.headers.all HeaderM.wf && r.content.all MediaM.wf

/-- `RefsResolved`: every reference the gate walks has a value -/
def DocValid (op : OpM) : Bool :=
  op.params.all ParamM.wf && (match op.body with | none => true | some b => b.wf) && op.responses.all ResponseM.wf

def MediaM.unguarded (m : MediaM) : Bool := match m.schema with | none => false | some s => s.unguarded
/-- finding #6 / F-C10-1: a schema with an unguarded reference cycle is reachable from the operation -/
def UnguardedRecursion (op : OpM) : Bool :=
  op.params.any (fun p => (match p.schema with | none => false | some s => s.unguarded) ||
                          (match p.jsonMedia with | none => false | some m => m.unguarded)) ||
  (match op.body with | none => false | some b => b.content.any MediaM.unguarded) ||
  op.responses.any (fun r => r.headers.any (fun h => match h.schema with | none => false | some s => s.unguarded) ||
                             r.content.any MediaM.unguarded)

/-! ## `ConvertErrors` -/

structure SchemaErrM where
  enumField : Bool          -- SchemaField == "enum"
  schemaNil : Bool          -- innerErr.Schema == nil
  deriving DecidableEq, Repr

inductive Cause
  | none | required | emptyValue
  | parse (invalidFormat : Bool) (unsupportedCT : Bool) (rootIsParseInvalid : Bool)
  | schema (chain : List SchemaErrM)      -- the error and its `Origin` chain
  | other
  deriving DecidableEq, Repr

structure ReqErrM where
  paramNil : Bool           -- e.Parameter == nil (body errors)
  cause : Cause
  deriving DecidableEq, Repr

/-- `convertSchemaError` (recursion on the Origin chain) -/
def convertSchema (paramNil : Bool) : List SchemaErrM → Out
  | [] => .ok
  | e :: origin =>
    match convertSchema paramNil origin with
    | .ok => if e.enumField ∧ e.schemaNil then .panic "convertSchemaError: innerErr.Schema.Enum" else .ok
    | o => o

/-- `ConvertErrors` on a `*RequestError`; every `e.Parameter.…` is behind `e.Parameter != nil` (fix #23) -/
def convertErrors (e : ReqErrM) : Out :=
  match e.cause with
  | .schema chain => convertSchema e.paramNil chain
  | _ => .ok

def ErrWF (e : ReqErrM) : Bool :=
  match e.cause with
  | .schema chain => chain.all (fun s => !(s.enumField && s.schemaNil))
  | _ => true

/-! ## lemmas -/

theorem visit_not_bad (s : SchemaM) (b : Bits) (hr : s.resolved = true) (hu : s.unguarded = false) :
    (visit s b).bad = false := by
  unfold visit; simp [hr, hu]; split <;> rfl

theorem afterDecode_not_bad (p : ParamM) (s : Option SchemaM) (b : Bits)
    (hs : ∀ x, s = some x → x.resolved = true ∧ x.unguarded = false) :
    (afterDecode p s b).bad = false := by
  unfold afterDecode
  cases s with
  | none => simp only; repeat' split <;> try rfl
  | some x =>
    obtain ⟨hr, hu⟩ := hs x rfl
    simp only [hr, Bool.not_true, Bool.false_eq_true, and_false, if_false]
    repeat' split <;> try rfl
    exact visit_not_bad x b hr hu

theorem seq_not_bad (multi : Bool) : ∀ (l : List Out), (∀ o ∈ l, o.bad = false) → (seq multi l).bad = false
  | [], _ => rfl
  | o :: rest, h => by
    have ih := seq_not_bad multi rest (fun x hx => h x (List.mem_cons_of_mem _ hx))
    have ho := h o (List.mem_cons_self ..)
    cases o with
    | ok => simpa [seq] using ih
    | err =>
      unfold seq
      cases multi with
      | false => rfl
      | true =>
        simp only [if_true]
        cases hs : seq true rest with
        | ok => rfl
        | err => rfl
        | panic s => rw [hs] at ih; exact ih
        | diverge => rw [hs] at ih; exact ih
    | panic s => simp [Out.bad] at ho
    | diverge => simp [Out.bad] at ho

theorem mem_zipIdx {α : Type} : ∀ (l : List α) (i : Nat) (p : Nat × α), p ∈ zipIdx l i → p.2 ∈ l
  | [], _, _, h => by simp [zipIdx] at h
  | x :: xs, i, p, h => by
    simp only [zipIdx, List.mem_cons] at h
    rcases h with h | h
    · subst h; simp
    · exact List.mem_cons_of_mem _ (mem_zipIdx xs (i + 1) p h)


theorem convertSchema_not_bad (pn : Bool) : ∀ (chain : List SchemaErrM),
    chain.all (fun s => !(s.enumField && s.schemaNil)) = true → (convertSchema pn chain).bad = false
  | [], _ => rfl
  | x :: xs, h => by
    simp only [List.all_cons, Bool.and_eq_true] at h
    have ihx := convertSchema_not_bad pn xs h.2
    unfold convertSchema
    cases hcs : convertSchema pn xs with
    | ok =>
      simp only
      have : ¬ (x.enumField = true ∧ x.schemaNil = true) := by
        intro hxx; have := h.1; simp [hxx.1, hxx.2] at this
      simp [this]; rfl
    | err => rfl
    | panic s => rw [hcs] at ihx; simp [Out.bad] at ihx
    | diverge => rw [hcs] at ihx; simp [Out.bad] at ihx

end KinModel.NoPanic.Traffic
