/-
C10 — stage 2 of the schema model (DESIGN §3): schemas with named references and an environment; the
validator is fuel-indexed, `diverge` = out of fuel (in Go: unbounded recursion → fatal stack overflow).
Fragment: leaves, `allOf` (an *unguarded* position: the same value is visited again), `items` (a *guarded*
position: a strictly smaller value is visited), `$ref`, and one bit `own` = "the schema carries a keyword of
its own" (which makes `Schema.IsEmpty` answer at once).

History: the design prototype left `Schema.IsEmpty` out; the differential run showed that on the tree of
that time `visitJSON` called it first and it recursed through `items`/`allOf` of schemas without own
keywords (F-C10-5). Since commit 08457da `visitJSON` tests `!schema.hasSubSchemas() && schema.IsEmpty()`:
`IsEmpty` is only evaluated on schemas without sub-schemas, where it cannot recurse, so `visit` no longer
depends on it. `isEmpty` stays here as the model of the function itself (`isEmpty_diverges` is still a fact
about `Schema.IsEmpty`, which is no longer on the traffic path).
  * visit_mono_ok / visit_mono_k — more fuel never changes a decided result
  * unguarded_diverges   — `A: {allOf: [{$ref: A}]}` (with or without own keywords) diverges for EVERY fuel and value (finding #6)
  * guarded_terminates   — `L: {items: {$ref: L}}`, with or without own keywords, is decided for every value, explicit fuel
  * executable side for the driver: `envOf`, `hasUnguardedCycle`
-/
namespace KinModel.NoPanic.Recursion

inductive J where
  | num (n : Nat)
  | arr (xs : List J)

inductive S where
  | leaf (acceptNum : Bool)                 -- stands for all leaf keywords
  | node (own : Bool) (allOf : List S) (items : Option S)
  | ref (name : Nat)

abbrev Env := Nat → Option S

inductive Res | ok (b : Bool) | diverge      -- `diverge` = out of fuel (in Go: unbounded recursion)
  deriving DecidableEq

@[macro_inline] def Res.and : Res → Res → Res
  | .diverge, _ => .diverge
  | .ok false, _ => .ok false
  | .ok true, r => r

mutual
/-- `Schema.IsEmpty`: own keyword → false at once; else items, then allOf, first non-empty answers -/
def isEmpty (Γ : Env) : Nat → S → Res
  | 0, _ => .diverge
  | _ + 1, .leaf a => .ok a
  | fuel + 1, .ref x => (match Γ x with | none => .ok true | some s => isEmpty Γ fuel s)
  | fuel + 1, .node own allOf items =>
    if own then .ok false
    else Res.and (match items with | none => Res.ok true | some s => isEmpty Γ fuel s) (isEmptyAll Γ fuel allOf)
def isEmptyAll (Γ : Env) : Nat → List S → Res
  | _, [] => .ok true
  | 0, _ :: _ => .diverge
  | fuel + 1, s :: ss => (isEmpty Γ fuel s).and (isEmptyAll Γ fuel ss)
end

/-- `hasSubSchemas` -/
def hasSub : S → Bool
  | .node _ allOf items => !allOf.isEmpty || items.isSome
  | _ => false

mutual
/-- `visitJSON`: the `IsEmpty` shortcut is taken only for schemas without sub-schemas (`!hasSubSchemas() &&
    IsEmpty()`), where it gives the verdict the general path gives in this fragment (accept), so it does not
    appear as a separate branch; in particular `IsEmpty` is never evaluated on a schema with sub-schemas -/
def visit (Γ : Env) : Nat → S → J → Res
  | 0, _, _ => .diverge
  | _ + 1, .leaf a, v => (match v with | .num _ => .ok a | .arr _ => .ok true)
  | fuel + 1, .ref x, v => (match Γ x with | none => .ok false | some s => visit Γ fuel s v)
  | fuel + 1, .node _ allOf items, v =>
    (visitAll Γ fuel allOf v).and
      (match v, items with
       | .arr xs, some s => visitItems Γ fuel s xs
       | _, _ => .ok true)
def visitAll (Γ : Env) : Nat → List S → J → Res
  | _, [], _ => .ok true
  | 0, _ :: _, _ => .diverge
  | fuel + 1, s :: ss, v => (visit Γ fuel s v).and (visitAll Γ fuel ss v)
def visitItems (Γ : Env) : Nat → S → List J → Res
  | _, _, [] => .ok true
  | 0, _, _ :: _ => .diverge
  | fuel + 1, s, x :: xs => (visit Γ fuel s x).and (visitItems Γ fuel s xs)
end

theorem andMono (a a' c c' : Res) (b : Bool) (h1 : ∀ x, a = .ok x → a' = .ok x) (h2 : ∀ x, c = .ok x → c' = .ok x)
    (h : a.and c = .ok b) : a'.and c' = .ok b := by
  cases a with
  | diverge => simp [Res.and] at h
  | ok x =>
    rw [h1 x rfl]
    cases x with
    | false => simpa [Res.and] using h
    | true => simp only [Res.and] at h ⊢; exact h2 b h

/-- the shortcut is sound to leave out: on a schema without sub-schemas `IsEmpty` answers with fuel 1 -/
theorem isEmpty_no_sub (Γ : Env) (own : Bool) (fuel : Nat) :
    isEmpty Γ (fuel + 1) (.node own [] none) = .ok (!own) := by
  cases own <;> simp [isEmpty, isEmptyAll, Res.and]

theorem visit_mono_ok (Γ : Env) :
    (∀ fuel s v b, visit Γ fuel s v = .ok b → visit Γ (fuel + 1) s v = .ok b) ∧
    (∀ fuel ss v b, visitAll Γ fuel ss v = .ok b → visitAll Γ (fuel + 1) ss v = .ok b) ∧
    (∀ fuel s xs b, visitItems Γ fuel s xs = .ok b → visitItems Γ (fuel + 1) s xs = .ok b) := by
  have key : ∀ fuel,
      (∀ s v b, visit Γ fuel s v = .ok b → visit Γ (fuel + 1) s v = .ok b) ∧
      (∀ ss v b, visitAll Γ fuel ss v = .ok b → visitAll Γ (fuel + 1) ss v = .ok b) ∧
      (∀ s xs b, visitItems Γ fuel s xs = .ok b → visitItems Γ (fuel + 1) s xs = .ok b) := by
    intro fuel
    induction fuel with
    | zero =>
      refine ⟨?_, ?_, ?_⟩
      · intro s v b h; simp [visit] at h
      · intro ss v b h; cases ss <;> simp [visitAll] at h ⊢; exact h
      · intro s xs b h; cases xs <;> simp [visitItems] at h ⊢; exact h
    | succ n ih =>
      obtain ⟨ihV, ihA, ihI⟩ := ih
      refine ⟨?_, ?_, ?_⟩
      · intro s v b h
        cases s with
        | leaf a => simpa [visit] using h
        | ref x =>
          simp only [visit] at h ⊢
          cases hg : Γ x with
          | none => simpa [hg] using h
          | some s' => simp only [hg] at h ⊢; exact ihV s' v b h
        | node own allOf items =>
          simp only [visit] at h ⊢
          refine andMono _ _ _ _ b (fun x hx => ihA allOf v x hx) ?_ h
          intro x hx
          cases v with
          | num k => simpa using hx
          | arr xs =>
            cases items with
            | none => simpa using hx
            | some s' => simp only at hx ⊢; exact ihI s' xs x hx
      · intro ss v b h
        cases ss with
        | nil => simpa [visitAll] using h
        | cons s ss =>
          simp only [visitAll] at h ⊢
          exact andMono _ _ _ _ b (fun x hx => ihV s v x hx) (fun x hx => ihA ss v x hx) h
      · intro s xs b h
        cases xs with
        | nil => simpa [visitItems] using h
        | cons x xs =>
          simp only [visitItems] at h ⊢
          exact andMono _ _ _ _ b (fun y hy => ihV s x y hy) (fun y hy => ihI s xs y hy) h
  exact ⟨fun f => (key f).1, fun f => (key f).2.1, fun f => (key f).2.2⟩

theorem visit_mono_k (Γ : Env) (k : Nat) :
    (∀ fuel s v b, visit Γ fuel s v = .ok b → visit Γ (fuel + k) s v = .ok b) ∧
    (∀ fuel s xs b, visitItems Γ fuel s xs = .ok b → visitItems Γ (fuel + k) s xs = .ok b) := by
  induction k with
  | zero => exact ⟨fun _ _ _ _ h => h, fun _ _ _ _ h => h⟩
  | succ k ih =>
    exact ⟨fun f s v b h => (visit_mono_ok Γ).1 (f + k) s v b (ih.1 f s v b h),
           fun f s xs b h => (visit_mono_ok Γ).2.2 (f + k) s xs b (ih.2 f s xs b h)⟩

/-- finding #6: the unguarded self-reference `A: {allOf: [{$ref: A}]}`, with (`own`) or without a keyword of its own -/
def Γ6 (own : Bool) : Env := fun x => if x = 0 then some (.node own [.ref 0] none) else none

theorem unguarded_diverges (own : Bool) (v : J) : ∀ (fuel : Nat),
    visit (Γ6 own) fuel (.ref 0) v = .diverge ∧ visit (Γ6 own) fuel (.node own [.ref 0] none) v = .diverge ∧
    visitAll (Γ6 own) fuel [.ref 0] v = .diverge
  | 0 => by simp [visit, visitAll]
  | fuel + 1 => by
    obtain ⟨ih1, ih2, ih3⟩ := unguarded_diverges own v fuel
    refine ⟨?_, ?_, ?_⟩
    · simpa [visit, Γ6] using ih2
    · simp only [visit, ih3]; rfl
    · simp only [visitAll, ih1]; rfl

/-- `L: {items: {$ref: L}}` -/
def ΓL (own : Bool) : Env := fun x => if x = 0 then some (.node own [] (some (.ref 0))) else none

/-- `Schema.IsEmpty` itself still follows the cycle of `L: {items: {$ref: L}}` without end (it has no visited
    set); since 08457da `visitJSON` does not evaluate it on such a schema -/
theorem isEmpty_diverges : ∀ (fuel : Nat),
    isEmpty (ΓL false) fuel (.ref 0) = .diverge ∧ isEmpty (ΓL false) fuel (.node false [] (some (.ref 0))) = .diverge
  | 0 => by simp [isEmpty]
  | fuel + 1 => by
    obtain ⟨ih1, ih2⟩ := isEmpty_diverges fuel
    refine ⟨?_, ?_⟩
    · simpa [isEmpty, ΓL] using ih2
    · simp only [isEmpty, Bool.false_eq_true, if_false, ih1]; rfl

mutual
def fuelFor : J → Nat
  | .num _ => 2
  | .arr xs => 2 + fuelForL xs
def fuelForL : List J → Nat
  | [] => 0
  | x :: xs => 1 + fuelFor x + fuelForL xs
end

mutual
theorem guarded_terminates (own : Bool) : ∀ (v : J), visit (ΓL own) (fuelFor v) (.ref 0) v = .ok true
  | .num n => by simp [fuelFor, visit, ΓL, visitAll, Res.and]
  | .arr xs => by
    have h := guarded_items own xs
    simp only [fuelFor]
    rw [show 2 + fuelForL xs = (fuelForL xs + 1) + 1 by omega]
    simp only [visit, ΓL, if_true]
    cases hx : fuelForL xs with
    | zero =>
      have : xs = [] := by cases xs <;> simp_all [fuelForL]
      subst this; simp [visitAll, visitItems, Res.and]
    | succ g => rw [hx] at h; simp only [visitAll, Res.and]; exact h
theorem guarded_items (own : Bool) : ∀ (xs : List J), visitItems (ΓL own) (fuelForL xs) (.ref 0) xs = .ok true
  | [] => by simp [visitItems]
  | x :: xs => by
    have h1 := guarded_terminates own x
    have h2 := guarded_items own xs
    simp only [fuelForL]
    rw [show 1 + fuelFor x + fuelForL xs = (fuelFor x + fuelForL xs) + 1 by omega]
    simp only [visitItems]
    have e1 := (visit_mono_k (ΓL own) (fuelForL xs)).1 _ _ _ _ h1
    have e2 := (visit_mono_k (ΓL own) (fuelFor x)).2 _ _ _ _ h2
    rw [Nat.add_comm (fuelForL xs) (fuelFor x)] at e2
    rw [e1, e2]; rfl
end

/-! ## executable helpers for the driver -/

def envOf (defs : List S) : Env := fun x => defs[x]?

/-- references reachable from a schema without passing through `items` -/
def unguardedRefs : S → List Nat
  | .leaf _ => []
  | .ref x => [x]
  | .node _ allOf _ => unguardedRefsL allOf
where unguardedRefsL : List S → List Nat
  | [] => []
  | s :: ss => unguardedRefs s ++ unguardedRefsL ss

/-- can `x` reach itself through unguarded edges only (depth-bounded search, bound = number of definitions) -/
def reachesUnguarded (defs : List S) (target : Nat) : Nat → Nat → Bool
  | 0, _ => false
  | fuel + 1, x =>
    match defs[x]? with
    | none => false
    | some s => (unguardedRefs s).any (fun y => y = target || reachesUnguarded defs target fuel y)

def hasUnguardedCycle (defs : List S) : Bool :=
  (List.range defs.length).any (fun x => reachesUnguarded defs x defs.length x)

/-- does `Schema.IsEmpty` fail to terminate on some definition (decided with the given fuel): coverage label only -/
def hasEmptinessCycle (defs : List S) (fuel : Nat) : Bool :=
  defs.any (fun s => isEmpty (envOf defs) fuel s = .diverge)

end KinModel.NoPanic.Recursion
