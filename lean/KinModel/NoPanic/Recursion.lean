/-
C10 — stage 2 of the schema model (DESIGN §3): schemas with named references and an environment; the
validator is fuel-indexed, `diverge` = out of fuel (in Go: unbounded recursion → fatal stack overflow,
finding #6 / F-C10-1). Fragment: leaves, `allOf` (an *unguarded* position: the same value is visited
again), `items` (a *guarded* position: a strictly smaller value is visited), `$ref`.
  * visit_mono_ok / visit_mono_k — more fuel never changes a decided result
  * unguarded_diverges  — `A: {allOf: [{$ref: A}]}` diverges for EVERY amount of fuel and every value
  * guarded_terminates  — `L: {items: {$ref: L}}` is decided for every value with the explicit fuel `fuelFor v`
  * executable side for the driver: `envOf`, `hasUnguardedCycle`
-/
namespace KinModel.NoPanic.Recursion

/-! Stage 2 of the schema model (DESIGN §3): schemas with named references and an environment.
    Kept minimal: leaves, allOf, items, ref. Values: numbers and arrays. -/

inductive J where
  | num (n : Nat)
  | arr (xs : List J)

inductive S where
  | leaf (acceptNum : Bool)                 -- stands for all leaf keywords
  | node (allOf : List S) (items : Option S)
  | ref (name : Nat)

abbrev Env := Nat → Option S

inductive Res | ok (b : Bool) | diverge      -- `diverge` = out of fuel (in Go: unbounded recursion)
  deriving DecidableEq

@[macro_inline] def Res.and : Res → Res → Res
  | .diverge, _ => .diverge
  | .ok false, _ => .ok false
  | .ok true, r => r

mutual
def visit (Γ : Env) : Nat → S → J → Res
  | 0, _, _ => .diverge
  | fuel + 1, .leaf a, v => (match v with | .num _ => .ok a | .arr _ => .ok true)
  | fuel + 1, .ref x, v => (match Γ x with | none => .ok false | some s => visit Γ fuel s v)
  | fuel + 1, .node allOf items, v =>
    (visitAll Γ fuel allOf v).and
      (match v, items with
       | .arr xs, some s => visitItems Γ fuel s xs
       | _, _ => .ok true)
def visitAll (Γ : Env) : Nat → List S → J → Res
  | _, [], _ => .ok true
  | 0, _ :: _, _ => .diverge
  | fuel + 1, s :: ss, v => (visit Γ fuel s v).and (visitAll Γ fuel ss v)
def visitItems (Γ : Env) : Nat → S → List J → Res
  | _, _, [] => .ok true
  | 0, _, _ :: _ => .diverge
  | fuel + 1, s, x :: xs => (visit Γ fuel s x).and (visitItems Γ fuel s xs)
end

/-- finding #6 on the model: the unguarded self-reference `A: {allOf: [{$ref: A}]}` diverges for every
    amount of fuel and every value — in Go this is the fatal stack overflow -/
def Γ6 : Env := fun x => if x = 0 then some (.node [.ref 0] none) else none

theorem unguarded_diverges (v : J) : ∀ (fuel : Nat),
    visit Γ6 fuel (.ref 0) v = .diverge ∧ visit Γ6 fuel (.node [.ref 0] none) v = .diverge ∧
    visitAll Γ6 fuel [.ref 0] v = .diverge
  | 0 => by simp [visit, visitAll]
  | fuel + 1 => by
    obtain ⟨ih1, ih2, ih3⟩ := unguarded_diverges v fuel
    refine ⟨?_, ?_, ?_⟩
    · simpa [visit, Γ6] using ih2
    · simp only [visit, ih3]; rfl
    · simp only [visitAll, ih1]; rfl

/-- a guarded recursive schema, `L: {items: {$ref: L}}` (lists of lists …), terminates: enough fuel exists
    for every value, because each unfolding of the reference consumes one level of the value -/
def ΓL : Env := fun x => if x = 0 then some (.node [] (some (.ref 0))) else none

theorem and_ok_true {a b : Res} (ha : a = .ok true) (hb : b = .ok true) : a.and b = .ok true := by
  subst ha hb; rfl

-- an explicit sufficient amount of fuel for the guarded schema
mutual
def fuelFor : J → Nat
  | .num _ => 2
  | .arr xs => 2 + fuelForL xs
def fuelForL : List J → Nat
  | [] => 0
  | x :: xs => 1 + fuelFor x + fuelForL xs
end

theorem visit_mono_ok (Γ : Env) :
    (∀ fuel s v b, visit Γ fuel s v = .ok b → visit Γ (fuel + 1) s v = .ok b) ∧
    (∀ fuel ss v b, visitAll Γ fuel ss v = .ok b → visitAll Γ (fuel + 1) ss v = .ok b) ∧
    (∀ fuel s xs b, visitItems Γ fuel s xs = .ok b → visitItems Γ (fuel + 1) s xs = .ok b) := by
  have key : ∀ fuel,
      (∀ s v b, visit Γ fuel s v = .ok b → visit Γ (fuel + 1) s v = .ok b) ∧
      (∀ ss v b, visitAll Γ fuel ss v = .ok b → visitAll Γ (fuel + 1) ss v = .ok b) ∧
      (∀ s xs b, visitItems Γ fuel s xs = .ok b → visitItems Γ (fuel + 1) s xs = .ok b) := by
    intro fuel
    induction fuel with
    | zero =>
      refine ⟨?_, ?_, ?_⟩
      · intro s v b h; simp [visit] at h
      · intro ss v b h; cases ss <;> simp [visitAll] at h ⊢; exact h
      · intro s xs b h; cases xs <;> simp [visitItems] at h ⊢; exact h
    | succ n ih =>
      obtain ⟨ihV, ihA, ihI⟩ := ih
      have andMono : ∀ (a a' c c' : Res) (b : Bool), (∀ x, a = .ok x → a' = .ok x) → (∀ x, c = .ok x → c' = .ok x) →
          a.and c = .ok b → a'.and c' = .ok b := by
        intro a a' c c' b h1 h2 h
        cases a with
        | diverge => simp [Res.and] at h
        | ok x =>
          rw [h1 x rfl]
          cases x with
          | false => simpa [Res.and] using h
          | true => simp only [Res.and] at h ⊢; exact h2 b h
      refine ⟨?_, ?_, ?_⟩
      · intro s v b h
        cases s with
        | leaf a => simpa [visit] using h
        | ref x =>
          simp only [visit] at h ⊢
          cases hg : Γ x with
          | none => simpa [hg] using h
          | some s' => simp only [hg] at h ⊢; exact ihV s' v b h
        | node allOf items =>
          simp only [visit] at h ⊢
          refine andMono _ _ _ _ b (fun x hx => ihA allOf v x hx) ?_ h
          intro x hx
          cases v with
          | num k => simpa using hx
          | arr xs =>
            cases items with
            | none => simpa using hx
            | some s' => simp only at hx ⊢; exact ihI s' xs x hx
      · intro ss v b h
        cases ss with
        | nil => simpa [visitAll] using h
        | cons s ss =>
          simp only [visitAll] at h ⊢
          exact andMono _ _ _ _ b (fun x hx => ihV s v x hx) (fun x hx => ihA ss v x hx) h
      · intro s xs b h
        cases xs with
        | nil => simpa [visitItems] using h
        | cons x xs =>
          simp only [visitItems] at h ⊢
          exact andMono _ _ _ _ b (fun y hy => ihV s x y hy) (fun y hy => ihI s xs y hy) h
  exact ⟨fun f => (key f).1, fun f => (key f).2.1, fun f => (key f).2.2⟩

theorem visit_mono_k (Γ : Env) (k : Nat) :
    (∀ fuel s v b, visit Γ fuel s v = .ok b → visit Γ (fuel + k) s v = .ok b) ∧
    (∀ fuel s xs b, visitItems Γ fuel s xs = .ok b → visitItems Γ (fuel + k) s xs = .ok b) := by
  induction k with
  | zero => exact ⟨fun _ _ _ _ h => h, fun _ _ _ _ h => h⟩
  | succ k ih =>
    exact ⟨fun f s v b h => (visit_mono_ok Γ).1 (f + k) s v b (ih.1 f s v b h),
           fun f s xs b h => (visit_mono_ok Γ).2.2 (f + k) s xs b (ih.2 f s xs b h)⟩

-- the guarded recursive schema terminates on every value: enough fuel exists (and the answer is
--     the one the specification gives: every nested list of numbers is accepted)
mutual
theorem guarded_terminates : ∀ (v : J), visit ΓL (fuelFor v) (.ref 0) v = .ok true
  | .num n => by simp [fuelFor, visit, ΓL, visitAll, Res.and]
  | .arr xs => by
    have h := guarded_items xs
    simp only [fuelFor]
    rw [show 2 + fuelForL xs = (fuelForL xs + 1) + 1 by omega]
    simp only [visit, ΓL, if_true]
    cases hx : fuelForL xs with
    | zero =>
      have : xs = [] := by cases xs <;> simp_all [fuelForL]
      subst this; simp [visitAll, visitItems, Res.and]
    | succ g => rw [hx] at h; simp only [visitAll, Res.and]; exact h
theorem guarded_items : ∀ (xs : List J), visitItems ΓL (fuelForL xs) (.ref 0) xs = .ok true
  | [] => by simp [visitItems]
  | x :: xs => by
    have h1 := guarded_terminates x
    have h2 := guarded_items xs
    simp only [fuelForL]
    rw [show 1 + fuelFor x + fuelForL xs = (fuelFor x + fuelForL xs) + 1 by omega]
    simp only [visitItems]
    have e1 := (visit_mono_k ΓL (fuelForL xs)).1 _ _ _ _ h1
    have e2 := (visit_mono_k ΓL (fuelFor x)).2 _ _ _ _ h2
    rw [Nat.add_comm (fuelForL xs) (fuelFor x)] at e2
    rw [e1, e2]; rfl
end

end KinModel.NoPanic.Recursion

namespace KinModel.NoPanic.Recursion

/-! ## executable helpers for the driver -/

def envOf (defs : List S) : Env := fun x => defs[x]?

/-- references reachable from a schema without passing through `items` -/
def unguardedRefs : S → List Nat
  | .leaf _ => []
  | .ref x => [x]
  | .node allOf _ => unguardedRefsL allOf
where unguardedRefsL : List S → List Nat
  | [] => []
  | s :: ss => unguardedRefs s ++ unguardedRefsL ss

/-- can `x` reach itself through unguarded edges only (depth-bounded search, bound = number of definitions) -/
def reachesUnguarded (defs : List S) (target : Nat) : Nat → Nat → Bool
  | 0, _ => false
  | fuel + 1, x =>
    match defs[x]? with
    | none => false
    | some s => (unguardedRefs s).any (fun y => y = target || reachesUnguarded defs target fuel y)

def hasUnguardedCycle (defs : List S) : Bool :=
  (List.range defs.length).any (fun x => reachesUnguarded defs x defs.length x)

end KinModel.NoPanic.Recursion
